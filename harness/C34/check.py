"""C34 -- object system: destructors once, derived first, exactly at the last release (dsched + exhaustive tiny spaces + stress)."""
import glob
import os
import subprocess

from vf import core

PROP = "C34"
RULE = ("case = (1..3 objects of harness classes (2 families, depth 1..4, one family with a NULL constructor and a NULL destructor "
        "level), made by PARSEC_OBJ_NEW or PARSEC_OBJ_CONSTRUCT, by main or by a thread, optionally with lazily initialised classes; "
        "1..4 thread programs of 1..8 RETAIN / RELEASE / GIVE(to) on references the thread holds; schedule bytes); executed with one "
        "runnable thread at a time, switches at every atomic operation, inside destructors (dyield) and at hand-offs; oracle = "
        "sequential reference-count model updated at the commit point of every call (see objects.cc header); non-trivial = the last "
        "two releases of some object come from two different threads and overlap or return within 3 steps of each other; distinct = "
        "distinct (objects, programs, schedule) values")


def _build():
    return core.build_harness("C34/objects", ["harness/C34/objects.cc"], tree="san", rapidcheck=True,
                              plain_c_sources=["harness/C34/shim.c"])


def collect(res, wr):
    for f in wr.failures:
        res.violations.append(core.Violation(f["msg"], replay_text=f["replay_text"]))
    for c in wr.crashes:
        if c["rc"] == "timeout":
            res.inconclusive = "a %s worker did not finish within its time limit (not a verdict)" % c["tag"]
            continue
        res.violations.append(core.Violation("harness process died (rc=%s): %s" % (c["rc"], c["log_tail"][-1200:]),
                                             replay_text="# crash of %s\n%s" % (" ".join(c["cmd"]), c["log_tail"][-1500:])))


def run(tier, seed, res):
    b = _build()
    quick = tier == "quick"
    res.rule = RULE
    res.assumptions = ["a thread only retains / releases / hands over references it holds (caller precondition of the object system)",
                       "sequential consistency at atomic-operation granularity under dsched; weak-memory effects only via the stress part on x86",
                       "parsec_class_finalize is never called while objects exist"]
    n = 16
    pb = 99 if quick else 99
    jobs = [dict(cmd=[b, "exh", "22", str(pb), str(i), "10"], tag="exh22") for i in range(10)]
    jobs += [dict(cmd=[b, "exh", "31", str(pb), str(i), "3"], tag="exh31") for i in range(3)]
    jobs += [dict(cmd=[b, "exh", "20", "3" if quick else "6", str(i), "3"], tag="exh20") for i in range(3)]
    wr = core.run_workers(PROP, jobs)
    res.absorb(wr, "exhaustive")
    res.coverage["exhaustive"] = not (wr.failures or wr.crashes)
    res.coverage["exhaustive_subspace"] = ("one object held once by each thread: all 81 programs of 2 threads x 2 ops from {RETAIN, RELEASE, GIVE} "
                                           "x {NEW depth 2, CONSTRUCT depth 3 with NULL ctor/dtor levels} x {destructors yield or not}, and all 27 "
                                           "programs of 3 threads x 1 op: all schedules (unbounded preemptions); 2 threads creating objects of one "
                                           "lazily initialised class concurrently: all schedules with at most %s preemptions" % ("3" if quick else "6"))
    collect(res, wr)
    per = 1500 if quick else 50000
    jobs = [dict(cmd=[b, "rc"], env={"RC_PARAMS": "seed=%d max_success=%d max_size=100" % (seed * 131 + i, per)}, tag="rc") for i in range(n)]
    wr = core.run_workers(PROP, jobs)
    res.absorb(wr, "rc")
    collect(res, wr)
    rounds = 400 if quick else 30000
    jobs = [dict(cmd=[b, "stress", str(t), str(rounds), str(seed * 17 + t)], tag="stress", timeout=120 if quick else 1500) for t in (2, 4, 16)]
    wr = core.run_workers(PROP, jobs, max_parallel=1)
    res.absorb(wr, "stress")
    collect(res, wr)
    _regress(b, res)


def _replay_bin(b, path):
    env = dict(os.environ)
    env.update(core.SAN_RUN_ENV)
    p = subprocess.run([b, "replay", path], env=env, stdout=subprocess.PIPE, stderr=subprocess.STDOUT, text=True)
    return p.returncode == 0 and "REPLAY-PASS" in p.stdout, p.stdout[-2000:]


def _regress(b, res):
    """every saved case under corpus/<PROP>/regress must still hold"""
    n = 0
    for f in sorted(glob.glob(os.path.join(core.VERIF, "corpus", PROP, "regress", "*.txt"))):
        ok, msg = _replay_bin(b, f)
        n += 1
        if not ok:
            res.violations.append(core.Violation("saved case %s fails: %s" % (os.path.basename(f), msg[-600:]), replay_path=f))
    res.coverage["regress_cases_replayed"] = n


def replay(path):
    return _replay_bin(_build(), path)
