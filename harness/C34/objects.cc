// C34 -- Objects are destroyed exactly once, most-derived destructor first, exactly when the last reference goes.
//
// case = (objects: class family/depth 1..4, PARSEC_OBJ_NEW or PARSEC_OBJ_CONSTRUCT, created by main or by a thread
//         (optionally with lazily initialised classes so that concurrent creations race in parsec_class_initialize);
//         per-thread programs of RETAIN / RELEASE / GIVE(to thread) on references the thread holds; schedule bytes)
// Oracle (sequential model updated at the commit point of every call; under dsched the atomic add of a retain/release
// is the last hook of the call, so the order of returns is the order of the atomic updates on one object):
//   * constructors: base -> derived, once, by the creating thread;
//   * a release call destroys the object iff the model count reaches 0 with it; then the destructor log of the object is
//     complete, derived -> base, written by this thread during this call; otherwise no destructor has run;
//   * when a destructor runs, no thread holds a reference whose release was not yet invoked;
//   * real reference count == model count at every commit point; after the drain every object was destroyed once.
// modes: rc | exh <shape> <pb> <part> <nparts> | stress <T> <rounds> <seed> | replay <file>
#include <atomic>
#include <thread>
#include "hcommon.hpp"
#include <rapidcheck.h>

extern "C" {
typedef void (*shim_log_fn_t)(int id, int level, int is_dtor, int canary_ok);
extern shim_log_fn_t shim_log_fn;
void shim_class_reset(int fam, int depth); void shim_class_ensure(int fam, int depth); int shim_class_initialized(int fam, int depth);
void *shim_obj_new(int fam, int depth, int id); void *shim_obj_construct(int fam, int depth, int id); void shim_storage_free(void *);
void shim_retain(void *); int shim_release(void *); int shim_refcount(void *);
}

enum { RETAIN = 0, RELEASE = 1, GIVE = 2, NKINDS = 3 };
static const int MAXT = 4;

struct Obj { int fam = 0, depth = 1, alloc = 0 /*0 NEW 1 CONSTRUCT*/, creator = -1; int refs[MAXT] = {0, 0, 0, 0}; };
struct Op { int kind, obj, to; };

static bool has_ctor(int fam, int lvl) { return !(fam == 1 && lvl == 3); }
static bool has_dtor(int fam, int lvl) { return !(fam == 1 && lvl == 2); }

struct Case {
    int sparse = 0, lazy = 0, dyield = 0;
    std::vector<Obj> objs;
    std::vector<std::vector<Op>> prog;
    std::vector<uint8_t> sched;
    std::string repr() const {
        std::ostringstream o;
        o << "C34 sparse " << sparse << " lazy " << lazy << " dyield " << dyield << " threads " << prog.size() << "\n";
        for (auto &b : objs) o << "obj " << b.fam << " " << b.depth << " " << b.alloc << " " << b.creator << " " << b.refs[0] << " " << b.refs[1] << " " << b.refs[2] << " " << b.refs[3] << "\n";
        for (auto &p : prog) { o << "prog"; for (auto &c : p) o << " " << c.kind << " " << c.obj << " " << c.to; o << "\n"; }
        o << "sched" << hc::bytes(sched) << "\n";
        return o.str();
    }
    static Case parse(const std::string &s) {
        Case c; std::istringstream in(s); std::string line;
        while (std::getline(in, line)) {
            std::istringstream ls(line); std::string w; ls >> w;
            if (w == "C34") hc::header_kv(ls, [&](const std::string &k, int v) { if (k == "sparse") c.sparse = v; else if (k == "lazy") c.lazy = v; else if (k == "dyield") c.dyield = v; });
            else if (w == "obj") { auto v = hc::rest_ints(ls); v.resize(8, 0); Obj b; b.fam = v[0] & 1; b.depth = std::min(4, std::max(1, v[1])); b.alloc = v[2] & 1; b.creator = v[3]; for (int i = 0; i < MAXT; i++) b.refs[i] = v[4 + i]; c.objs.push_back(b); }
            else if (w == "prog") { auto v = hc::rest_ints(ls); std::vector<Op> p; for (size_t i = 0; i + 3 <= v.size(); i += 3) p.push_back({v[i], v[i + 1], v[i + 2]}); c.prog.push_back(p); }
            else if (w == "sched") { for (int x : hc::rest_ints(ls)) c.sched.push_back((uint8_t)x); }
        }
        return c;
    }
};

struct RunInfo { bool nontrivial = false, conc_final = false, in_thread_destroy = false, lazy_race = false, handoff = false; uint64_t steps = 0; int destroyed_in_threads = 0; };

struct LogE { int level, is_dtor, thread; uint64_t step; };
struct World {
    const Case *c = nullptr; std::string err;
    std::vector<std::vector<LogE>> log;        // per object
    std::vector<std::vector<int>> hands;       // [thread 0..T-1, T = main][object]
    std::vector<int> model; std::vector<void *> ptr; std::vector<bool> destroyed;
    void fail(const std::string &m) { if (err.empty()) err = m; }
};
static World *g_w = nullptr;

static void log_cb(int id, int level, int is_dtor, int canary_ok) {
    World &w = *g_w;
    if (id < 0 || id >= (int)w.log.size()) { w.fail("constructor/destructor called on an unknown object id " + std::to_string(id)); return; }
    if (!canary_ok) w.fail(std::string(is_dtor ? "destructor" : "constructor") + " of level " + std::to_string(level) + " ran on an object whose base part is not (or no longer) constructed (object " + std::to_string(id) + ")");
    if (is_dtor) {
        int outstanding = 0; for (auto &h : w.hands) outstanding += h[id];
        if (outstanding != 0) w.fail("destructor of object " + std::to_string(id) + " runs while " + std::to_string(outstanding) + " reference(s) are still held");
        if (w.destroyed[id]) w.fail("destructor of object " + std::to_string(id) + " runs again after the object was destroyed");
    }
    w.log[id].push_back({level, is_dtor, dsched::self(), dsched::now()});
    if (w.c->dyield && dsched::self() >= 0) dsched::yield_point();
}

static std::vector<int> expected_levels(const Obj &b, bool dtor) {
    std::vector<int> v;
    if (!dtor) { for (int l = 1; l <= b.depth; l++) if (has_ctor(b.fam, l)) v.push_back(l); }
    else { for (int l = b.depth; l >= 1; l--) if (has_dtor(b.fam, l)) v.push_back(l); }
    return v;
}

struct Rel { int thread; uint64_t inv, resp; };

static std::string run_case(const Case &c, dsched::Chooser &ch, RunInfo *ri) {
    int T = (int)c.prog.size(), NO = (int)c.objs.size();
    World w; w.c = &c; g_w = &w; shim_log_fn = log_cb;
    w.log.assign(NO, {}); w.hands.assign(T + 1, std::vector<int>(NO, 0)); w.model.assign(NO, 0); w.ptr.assign(NO, nullptr); w.destroyed.assign(NO, false);
    std::vector<std::vector<Rel>> rels(NO);
    // class descriptors are process-global lazy state: put them into a state that depends on the case only (replay determinism)
    for (auto &b : c.objs) { if (c.lazy) shim_class_reset(b.fam, b.depth); else shim_class_ensure(b.fam, b.depth); }
    uint64_t init_window_lo = ~0ULL, init_window_hi = 0; int init_threads = 0;

    auto create = [&](int o, int me) {
        const Obj &b = c.objs[o];
        bool uninit = !shim_class_initialized(b.fam, b.depth);
        uint64_t t0 = dsched::now();
        void *p = b.alloc ? shim_obj_construct(b.fam, b.depth, o) : shim_obj_new(b.fam, b.depth, o);
        if (uninit && me < T) { if (init_threads && t0 <= init_window_hi) ri->lazy_race = true; init_threads++; init_window_lo = std::min(init_window_lo, t0); init_window_hi = std::max(init_window_hi, dsched::now()); }
        w.ptr[o] = p; w.model[o] = 1; w.hands[me][o] = 1;
        auto exp = expected_levels(b, false);
        bool ok = w.log[o].size() == exp.size();
        for (size_t i = 0; ok && i < exp.size(); i++) ok = w.log[o][i].level == exp[i] && !w.log[o][i].is_dtor && w.log[o][i].thread == (me < T ? me : -1);
        if (!ok) w.fail("constructors of object " + std::to_string(o) + " did not run exactly once from base to derived");
        if (shim_refcount(p) != 1) w.fail("a new object does not start with one reference");
    };
    auto check_count = [&](int o) {
        if (!w.destroyed[o] && shim_refcount(w.ptr[o]) != w.model[o])
            w.fail("reference count of object " + std::to_string(o) + " is " + std::to_string(shim_refcount(w.ptr[o])) + " but " + std::to_string(w.model[o]) + " references exist");
    };
    auto do_retain = [&](int o, int me) {
        w.hands[me][o]++;
        shim_retain(w.ptr[o]);
        w.model[o]++;
        check_count(o);
    };
    auto do_release = [&](int o, int me) {
        const Obj &b = c.objs[o];
        w.hands[me][o]--;
        size_t ndtor0 = 0; for (auto &e : w.log[o]) ndtor0 += e.is_dtor;
        uint64_t inv = dsched::now();
        int destroyed = shim_release(w.ptr[o]);
        uint64_t resp = dsched::now() + 1;
        w.model[o]--;
        rels[o].push_back({me, inv, resp});
        std::vector<LogE> d; for (auto &e : w.log[o]) if (e.is_dtor) d.push_back(e);
        std::string on = "object " + std::to_string(o);
        if (w.model[o] == 0) {
            if (!destroyed) w.fail("the release of the last reference of " + on + " did not destroy it");
            auto exp = expected_levels(b, true);
            bool ok = d.size() == exp.size() && ndtor0 == 0;
            for (size_t i = 0; ok && i < exp.size(); i++) ok = d[i].level == exp[i] && d[i].thread == (me < T ? me : -1) && (me >= T || (d[i].step >= inv && d[i].step <= resp));
            if (!ok) {
                std::ostringstream m; m << "destructors of " << on << " (family " << b.fam << " depth " << b.depth << ") did not run exactly once, most derived first, inside the last release: ran levels [";
                for (auto &e : d) m << " " << e.level << "(t" << e.thread << ")"; m << " ] expected ["; for (int l : exp) m << " " << l; m << " ]";
                w.fail(m.str());
            }
            w.destroyed[o] = true;
            if (me < T) { ri->in_thread_destroy = true; ri->destroyed_in_threads++; }
        } else {
            if (destroyed) w.fail("a release destroyed " + on + " although " + std::to_string(w.model[o]) + " reference(s) remain");
            if (!d.empty()) w.fail("destructors of " + on + " ran although " + std::to_string(w.model[o]) + " reference(s) remain");
            if (destroyed || !d.empty()) w.destroyed[o] = true;   // do not touch it again
            check_count(o);
        }
    };

    // sequential setup: objects created by main, references distributed
    for (int o = 0; o < NO; o++) {
        const Obj &b = c.objs[o];
        if (b.creator >= 0 && b.creator < T) continue;
        create(o, T);
        for (int t = 0; t < T; t++) for (int k = 0; k < b.refs[t]; k++) {
            if (w.hands[T][o] > 0) { w.hands[T][o]--; w.hands[t][o]++; }   // main's own reference is handed to the first holder
            else { do_retain(o, T); w.hands[T][o]--; w.hands[t][o]++; }
        }
    }
    std::vector<std::function<void()>> bodies;
    for (int t = 0; t < T; t++) bodies.push_back([&, t]() {
        for (int o = 0; o < NO; o++) if (c.objs[o].creator == t) create(o, t);
        for (const Op &op : c.prog[t]) {
            if (!w.err.empty()) return;                       // after a failure nothing else may touch the objects
            int o = op.obj;
            if (o < 0 || o >= NO || w.hands[t][o] <= 0 || w.destroyed[o]) continue;   // only references this thread holds
            if (op.kind == RETAIN) do_retain(o, t);
            else if (op.kind == RELEASE) do_release(o, t);
            else if (op.kind == GIVE) { int to = op.to; if (to >= 0 && to < T && to != t) { w.hands[t][o]--; w.hands[to][o]++; ri->handoff = true; dsched::yield_point(); } }
        }
    });
    dsched::Outcome out = dsched::run(bodies, ch, 100000);
    ri->steps = out.steps;
    // drain: whatever is still held (by finished threads or by main) is released sequentially
    for (int o = 0; o < NO && w.err.empty(); o++)
        for (int t = 0; t <= T && w.err.empty(); t++)
            while (w.hands[t][o] > 0 && w.err.empty()) { w.hands[T][o] += (t != T); w.hands[t][o] -= (t != T); do_release(o, T); }
    for (int o = 0; o < NO && w.err.empty(); o++) if (!w.destroyed[o]) w.fail("object " + std::to_string(o) + " was never destroyed although every reference was released");
    // non-triviality: the last two releases of some object come from two different threads and overlap / are within 3 steps
    for (int o = 0; o < NO; o++) {
        auto &r = rels[o]; size_t n = r.size();
        if (n >= 2 && r[n - 1].thread < T && r[n - 2].thread < T && r[n - 1].thread != r[n - 2].thread &&
            (r[n - 1].inv < r[n - 2].resp || r[n - 1].resp - r[n - 2].resp <= 3)) ri->conc_final = true;
    }
    ri->nontrivial = ri->conc_final;
    for (int o = 0; o < NO; o++) if (c.objs[o].alloc && w.ptr[o]) shim_storage_free(w.ptr[o]);
    shim_log_fn = nullptr; g_w = nullptr;
    return w.err;
}

static std::function<std::string()> g_current;
static void fatal_hook(const char *what) { vf::record_failure(g_current ? g_current() : std::string("?"), what); vf::dump(); }

static int do_replay(const char *path) {
    Case c = Case::parse(vf::slurp(path));
    g_current = [&]() { return c.repr(); };
    hc::FairByteChooser ch(c.sched.data(), c.sched.size(), c.sparse);
    RunInfo ri; std::string e = run_case(c, ch, &ri);
    if (e.empty()) { printf("REPLAY-PASS\n"); return 0; }
    printf("REPLAY-FAIL %s\n", e.c_str()); return 1;
}

// exhaustive sub-spaces (every schedule with <= pb preemptions):
//  shape 22: 2 threads x 2 ops from {RETAIN, RELEASE, GIVE->other} on one object held once by each thread (81 programs),
//            x {NEW depth 2 family A, CONSTRUCT depth 3 family B} x dyield {0,1}
//  shape 31: 3 threads x 1 op (27 programs), one object (NEW, family B depth 4) held once by each thread, dyield 1
//  shape 20: 2 threads each create an object of the same lazily initialised class (family A depth 3 / family B depth 4) and release it
static int do_exh(int shape, int pb, int part, int nparts) {
    std::vector<Case> cases;
    if (shape == 22) {
        for (int v = 0; v < 4; v++) for (int code = 0; code < 81; code++) {
            Case c; Obj b; if (v & 1) { b.fam = 1; b.depth = 3; b.alloc = 1; } else { b.fam = 0; b.depth = 2; b.alloc = 0; }
            b.refs[0] = b.refs[1] = 1; c.objs.push_back(b); c.dyield = v >> 1; c.prog.resize(2);
            int x = code; for (int t = 0; t < 2; t++) for (int i = 0; i < 2; i++) { c.prog[t].push_back({x % 3, 0, 1 - t}); x /= 3; }
            cases.push_back(c);
        }
    } else if (shape == 31) {
        for (int code = 0; code < 27; code++) {
            Case c; Obj b; b.fam = 1; b.depth = 4; b.refs[0] = b.refs[1] = b.refs[2] = 1; c.objs.push_back(b); c.dyield = 1; c.prog.resize(3);
            int x = code; for (int t = 0; t < 3; t++) { c.prog[t].push_back({x % 3, 0, (t + 1) % 3}); x /= 3; }
            cases.push_back(c);
        }
    } else {
        for (int v = 0; v < 4; v++) {
            Case c; c.lazy = 1; c.prog.resize(2);
            for (int t = 0; t < 2; t++) { Obj b; b.fam = v & 1; b.depth = 3 + (v & 1); b.alloc = (v >> 1) & (t == 1); b.creator = t; c.objs.push_back(b); c.prog[t].push_back({RELEASE, t, 0}); }
            cases.push_back(c);
        }
    }
    bool truncated = false;
    for (size_t i = 0; i < cases.size(); i++) {
        if ((int)(i % nparts) != part) continue;
        Case c = cases[i];
        hc::DfsStats st; RunInfo agg;
        dsched::DfsChooser *cur = nullptr;
        auto with_sched = [&](const std::vector<uint8_t> &s) { Case f = c; f.sparse = -1; f.sched = s; return f.repr(); };
        g_current = [&]() { return with_sched(cur ? hc::dfs_prefix(*cur) : std::vector<uint8_t>()); };
        bool ok = hc::dfs_all(pb, 3000000, [&](dsched::Chooser &d, bool *nt) {
            cur = (dsched::DfsChooser *)&d;
            RunInfo ri; std::string e = run_case(c, d, &ri);
            *nt = ri.nontrivial; agg.in_thread_destroy |= ri.in_thread_destroy; agg.lazy_race |= ri.lazy_race;
            return e; }, with_sched, st);
        vf::R().evaluations += st.execs;
        if (!ok) { vf::dump(); return 1; }
        truncated = truncated || st.truncated || st.capped;
        vf::note_case(c.repr() + "#schedules " + std::to_string(st.execs) + "\n", st.any_nontrivial);
        vf::R().evaluations -= 1;
        vf::label("schedules_enumerated", st.execs);
        if (agg.in_thread_destroy) vf::label("programs_destroying_inside_threads");
        if (agg.lazy_race) vf::label("programs_with_concurrent_class_initialisation");
    }
    vf::R().extra["exh_truncated"] = truncated ? "true" : "false";
    vf::dump();
    return 0;
}

// ---- free-running stress: T threads share K objects per round; once-only / order / not-before-last-release oracle with atomics
namespace st {
static const int K = 8;
struct SObj { std::atomic<int> live{0}, next_level{0}, dcount{0}, mailbox{0}; int fam = 0, depth = 1; void *p = nullptr; };
static SObj *objs; static std::atomic<long> bad{0};
static void cb(int id, int level, int is_dtor, int canary_ok) {
    if (!is_dtor) return;
    SObj &o = objs[id];
    if (!canary_ok) bad++;
    if (o.live.load() != 0) bad++;                         // somebody still holds a reference whose release was not invoked
    int exp = o.next_level.load();
    while (exp >= 1 && !has_dtor(o.fam, exp)) exp--;
    if (level != exp) bad++;
    o.next_level.store(level - 1);
    o.dcount++;
}
}
static int do_stress(int T, long rounds, unsigned seed) {
    using namespace st;
    objs = new SObj[K];
    shim_log_fn = cb;
    std::atomic<int> phase{0}, arrived{0};
    std::atomic<long> ops{0}, destroyed_total{0};
    std::string e;
    std::vector<std::thread> th;
    auto barrier = [&](int gen) { arrived++; while (phase.load() < gen) std::this_thread::yield(); };
    for (int t = 0; t < T; t++) th.emplace_back([&, t]() {
        uint64_t x = seed * 7919u + t * 104729u + 1;
        for (long r = 0; r < rounds; r++) {
            barrier(2 * r + 1);                              // main has created the objects of this round
            int holds[K]; for (int k = 0; k < K; k++) holds[k] = 1;
            int steps = 20 + (int)((x >> 50) % 40);
            for (int i = 0; i < steps; i++) {
                x = x * 6364136223846793005ULL + 1442695040888963407ULL;
                int k = (x >> 33) % K, a = (x >> 40) % 8; SObj &o = objs[k];
                if (a < 3 && holds[k] > 0) { o.live++; shim_retain(o.p); holds[k]++; }
                else if (a < 6 && holds[k] > 0) { holds[k]--; o.live--; shim_release(o.p); }
                else if (a == 6 && holds[k] > 0) { holds[k]--; o.mailbox++; }                         // hand a reference over
                else if (a == 7) { int m = o.mailbox.load(); if (m > 0 && o.mailbox.compare_exchange_strong(m, m - 1)) holds[k]++; }
                ops++;
            }
            for (int k = 0; k < K; k++) while (holds[k] > 0) { holds[k]--; objs[k].live--; shim_release(objs[k].p); }
            barrier(2 * r + 2);
        }
    });
    for (long r = 0; r < rounds && e.empty(); r++) {
        for (int k = 0; k < K; k++) {
            SObj &o = objs[k]; o.fam = (int)((seed + r + k) & 1); o.depth = 1 + (int)((seed / 2 + r + 3 * k) % 4);
            o.next_level = o.depth; o.dcount = 0; o.mailbox = 0;
            o.p = shim_obj_new(o.fam, o.depth, k);
            o.live = T;
            for (int t = 1; t < T; t++) shim_retain(o.p);
        }
        while (arrived.load() < T) std::this_thread::yield();
        arrived = 0; phase = 2 * r + 1;
        while (arrived.load() < T) std::this_thread::yield();
        // quiescent: references left in mailboxes are released by main
        for (int k = 0; k < K; k++) {
            SObj &o = objs[k];
            int m = o.mailbox.exchange(0);
            for (int i = 0; i < m; i++) { o.live--; shim_release(o.p); }
            int expd = 0; for (int l = 1; l <= o.depth; l++) expd += has_dtor(o.fam, l);
            if (o.dcount.load() != expd && e.empty()) e = "round " + std::to_string(r) + ": object " + std::to_string(k) + " ran " + std::to_string(o.dcount.load()) + " destructors, expected " + std::to_string(expd) + " (each level exactly once)";
            destroyed_total++;
        }
        if (bad.load() && e.empty()) e = "destructor ran too early, twice or in the wrong order under real parallelism (" + std::to_string(bad.load()) + " observations)";
        arrived = 0; phase = 2 * r + 2;
    }
    if (!e.empty()) { vf::record_failure("C34-stress threads " + std::to_string(T) + " rounds " + std::to_string(rounds) + " seed " + std::to_string(seed) + "\n", e); vf::dump(); fflush(nullptr); _exit(1); }
    for (auto &t : th) t.join();
    std::string repr = "C34-stress threads " + std::to_string(T) + " rounds " + std::to_string(rounds) + " seed " + std::to_string(seed) + "\n";
    vf::note_case(repr, T >= 2);
    vf::label("stress_ops", (uint64_t)ops.load());
    vf::label("stress_objects_destroyed", (uint64_t)destroyed_total.load());
    shim_log_fn = nullptr;
    vf::dump();
    return 0;
}

int main(int argc, char **argv) {
    std::string mode = argc > 1 ? argv[1] : "rc";
    dsched::on_fatal() = fatal_hook;
    if (mode == "replay") {
        std::string txt = vf::slurp(argv[2]);
        if (txt.rfind("C34-stress", 0) == 0) {
            int T; long it; unsigned sd; sscanf(txt.c_str(), "C34-stress threads %d rounds %ld seed %u", &T, &it, &sd);
            int r = 0; for (int k = 0; k < 3 && !r; k++) r = do_stress(T, it, sd);
            printf(r ? "REPLAY-FAIL stress\n" : "REPLAY-PASS\n"); return r;
        }
        return do_replay(argv[2]);
    }
    if (mode == "exh") return do_exh(atoi(argv[2]), atoi(argv[3]), atoi(argv[4]), atoi(argv[5]));
    if (mode == "stress") return do_stress(atoi(argv[2]), atol(argv[3]), (unsigned)atoi(argv[4]));
    bool ok = rc::check("objects: destructors run once, derived first, exactly at the last release", []() {
        Case c;
        int T = *rc::gen::resize(100, rc::gen::element(1, 2, 2, 2, 3, 3, 4));
        c.sparse = *rc::gen::element(0, 0, 0, 128, 200);
        c.lazy = *rc::gen::resize(100, rc::gen::inRange(0, 4)) == 0;
        c.dyield = *rc::gen::resize(100, rc::gen::inRange(0, 2));
        int NO = *rc::gen::resize(100, rc::gen::inRange(1, 4));
        for (int o = 0; o < NO; o++) {
            Obj b;
            b.fam = *rc::gen::resize(100, rc::gen::inRange(0, 2));
            b.depth = *rc::gen::resize(100, rc::gen::inRange(1, 5));
            b.alloc = *rc::gen::resize(100, rc::gen::inRange(0, 2));
            b.creator = *rc::gen::resize(100, rc::gen::inRange(0, 3)) == 0 ? *rc::gen::resize(100, rc::gen::inRange(0, T)) : -1;
            if (b.creator < 0) for (int t = 0; t < T; t++) b.refs[t] = *rc::gen::resize(100, rc::gen::element(0, 1, 1, 1, 2));
            c.objs.push_back(b);
        }
        c.prog.resize(T);
        for (int t = 0; t < T; t++) {
            int n = *rc::gen::inRange(1, 9);
            for (int i = 0; i < n; i++) {
                int k = *rc::gen::resize(100, rc::gen::element((int)RETAIN, (int)RELEASE, (int)RELEASE, (int)RELEASE, (int)GIVE));
                int o = *rc::gen::resize(100, rc::gen::inRange(0, NO));
                int to = *rc::gen::resize(100, rc::gen::inRange(0, T));
                c.prog[t].push_back({k, o, to});
            }
            // often: finish by giving back whatever may still be held, so that the last release happens inside the threads
            if (*rc::gen::resize(100, rc::gen::inRange(0, 3)) != 0) for (int o = 0; o < NO; o++) for (int k = 0; k < 2; k++) c.prog[t].push_back({RELEASE, o, 0});
        }
        int sl = *rc::gen::inRange(0, 120);
        c.sched = *rc::gen::container<std::vector<uint8_t>>((size_t)sl, rc::gen::resize(100, rc::gen::arbitrary<uint8_t>()));
        g_current = [&]() { return c.repr(); };
        hc::FairByteChooser ch(c.sched.data(), c.sched.size(), c.sparse);
        RunInfo ri; std::string e = run_case(c, ch, &ri);
        std::string r = c.repr();
        vf::note_case(r, ri.nontrivial);
        vf::label(std::string("threads_") + std::to_string(T));
        if (ri.conc_final) vf::label("last_two_releases_from_two_threads_within_3_steps");
        if (ri.in_thread_destroy) vf::label("destroyed_inside_a_thread");
        if (ri.lazy_race) vf::label("concurrent_class_initialisation");
        if (ri.handoff) vf::label("hand_off_between_threads");
        int maxd = 0; bool cons = false; for (auto &b : c.objs) { maxd = std::max(maxd, b.depth); cons |= b.alloc == 1; }
        vf::label(std::string("max_depth_") + std::to_string(maxd));
        if (cons) vf::label("has_OBJ_CONSTRUCT_object");
        if (!e.empty()) { vf::record_failure(r, e); RC_FAIL(e); }
    });
    vf::dump();
    return ok ? 0 : 1;
}
