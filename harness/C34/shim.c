/* C shim for C34: harness class hierarchies declared with PARSEC_OBJ_CLASS_INSTANCE, and out-of-line wrappers for the
 * macro / inline parts of the object system (PARSEC_OBJ_NEW, _CONSTRUCT, _RETAIN, _RELEASE; parsec_obj_update is inline
 * and is compiled here with BUILDING_PARSEC so the H1 yield hook before its atomic add is in this TU).
 *
 * family A: A1 <- A2 <- A3 <- A4, every level has a constructor and a destructor
 * family B: B1 <- B2 <- B3 <- B4, B2 has no destructor (NULL), B3 has no constructor (NULL)
 * Constructors / destructors report (object id, level, is_destructor) to the harness callback. */
#include "parsec/parsec_config.h"
#include "parsec/class/parsec_object.h"
#include <stdlib.h>
#include <string.h>

typedef void (*shim_log_fn_t)(int id, int level, int is_dtor, int canary_ok);
shim_log_fn_t shim_log_fn = NULL;
static __thread int creating_id = -1;

typedef struct { parsec_object_t super; int id; int c1; } a1_t;
typedef struct { a1_t super; int c2; } a2_t;
typedef struct { a2_t super; int c3; long pad; } a3_t;
typedef struct { a3_t super; int c4; } a4_t;
typedef a1_t b1_t;
typedef struct { b1_t super; int c2; } b2_t;
typedef struct { b2_t super; int c3; long pad; } b3_t;
typedef struct { b3_t super; int c4; } b4_t;

#define LOG(o, lvl, d, ok) do { if (shim_log_fn) shim_log_fn(((a1_t *)(o))->id, (lvl), (d), (ok)); } while (0)

/* level 1 sets the id; a level's canary is valid between its constructor and its destructor */
static void a1_ctor(parsec_object_t *obj) { a1_t *o = (a1_t *)obj; o->id = creating_id; o->c1 = 0x1111; LOG(o, 1, 0, 1); }
static void a1_dtor(parsec_object_t *obj) { a1_t *o = (a1_t *)obj; int ok = (o->c1 == 0x1111); o->c1 = 0xdead1; LOG(o, 1, 1, ok); }
static void a2_ctor(parsec_object_t *obj) { a2_t *o = (a2_t *)obj; o->c2 = 0x2222; LOG(o, 2, 0, o->super.c1 == 0x1111); }
static void a2_dtor(parsec_object_t *obj) { a2_t *o = (a2_t *)obj; int ok = (o->c2 == 0x2222) && (o->super.c1 == 0x1111); o->c2 = 0xdead2; LOG(o, 2, 1, ok); }
static void a3_ctor(parsec_object_t *obj) { a3_t *o = (a3_t *)obj; o->c3 = 0x3333; LOG(o, 3, 0, o->super.super.c1 == 0x1111); }
static void a3_dtor(parsec_object_t *obj) { a3_t *o = (a3_t *)obj; int ok = (o->c3 == 0x3333) && (o->super.super.c1 == 0x1111); o->c3 = 0xdead3; LOG(o, 3, 1, ok); }
static void a4_ctor(parsec_object_t *obj) { a4_t *o = (a4_t *)obj; o->c4 = 0x4444; LOG(o, 4, 0, o->super.super.super.c1 == 0x1111); }
static void a4_dtor(parsec_object_t *obj) { a4_t *o = (a4_t *)obj; int ok = (o->c4 == 0x4444) && (o->super.super.super.c1 == 0x1111); o->c4 = 0xdead4; LOG(o, 4, 1, ok); }
/* B3 has no constructor, so its own canary is never set */
static void b3_dtor(parsec_object_t *obj) { a3_t *o = (a3_t *)obj; int ok = (o->super.super.c1 == 0x1111); LOG(o, 3, 1, ok); }

PARSEC_OBJ_CLASS_INSTANCE(a1_t, parsec_object_t, a1_ctor, a1_dtor);
PARSEC_OBJ_CLASS_INSTANCE(a2_t, a1_t, a2_ctor, a2_dtor);
PARSEC_OBJ_CLASS_INSTANCE(a3_t, a2_t, a3_ctor, a3_dtor);
PARSEC_OBJ_CLASS_INSTANCE(a4_t, a3_t, a4_ctor, a4_dtor);
PARSEC_OBJ_CLASS_INSTANCE(b1_t, parsec_object_t, a1_ctor, a1_dtor);
PARSEC_OBJ_CLASS_INSTANCE(b2_t, b1_t, a2_ctor, NULL);
PARSEC_OBJ_CLASS_INSTANCE(b3_t, b2_t, NULL, b3_dtor);
PARSEC_OBJ_CLASS_INSTANCE(b4_t, b3_t, a4_ctor, a4_dtor);

static parsec_class_t *cls_of(int fam, int depth) {
    static parsec_class_t *tab[2][4] = {
        { &a1_t_class, &a2_t_class, &a3_t_class, &a4_t_class },
        { &b1_t_class, &b2_t_class, &b3_t_class, &b4_t_class } };
    return tab[fam & 1][(depth - 1) & 3];
}

/* forget the lazily built constructor / destructor arrays of a class so that the next creation initialises it again
 * (possibly concurrently).  The freed array stays registered in parsec_object.c's private list, which is only used by
 * parsec_class_finalize -- never called by this harness. */
void shim_class_reset(int fam, int depth) {
    parsec_class_t *c = cls_of(fam, depth);
    if (c->cls_initialized) {
        c->cls_initialized = 0;
        free(c->cls_construct_array);   /* one allocation holds both arrays */
        c->cls_construct_array = NULL;
        c->cls_destruct_array = NULL;
        c->cls_depth = 0;
    }
}
void shim_class_ensure(int fam, int depth) { parsec_class_initialize(cls_of(fam, depth)); }
int shim_class_initialized(int fam, int depth) { return cls_of(fam, depth)->cls_initialized; }

void *shim_obj_new(int fam, int depth, int id) {
    parsec_object_t *o = NULL;
    creating_id = id;
#define NEWCASE(F, D, T) if (fam == F && depth == D) o = (parsec_object_t *)PARSEC_OBJ_NEW(T)
    NEWCASE(0, 1, a1_t); NEWCASE(0, 2, a2_t); NEWCASE(0, 3, a3_t); NEWCASE(0, 4, a4_t);
    NEWCASE(1, 1, b1_t); NEWCASE(1, 2, b2_t); NEWCASE(1, 3, b3_t); NEWCASE(1, 4, b4_t);
    creating_id = -1;
    return o;
}

/* static-style object: storage owned by the caller (here: malloc'ed, freed by shim_storage_free after the case) */
void *shim_obj_construct(int fam, int depth, int id) {
    void *o = malloc(cls_of(fam, depth)->cls_sizeof);
    memset(o, 0x5a, cls_of(fam, depth)->cls_sizeof);
    creating_id = id;
#define CONCASE(F, D, T) if (fam == F && depth == D) PARSEC_OBJ_CONSTRUCT((T *)o, T)
    CONCASE(0, 1, a1_t); CONCASE(0, 2, a2_t); CONCASE(0, 3, a3_t); CONCASE(0, 4, a4_t);
    CONCASE(1, 1, b1_t); CONCASE(1, 2, b2_t); CONCASE(1, 3, b3_t); CONCASE(1, 4, b4_t);
    creating_id = -1;
    return o;
}
void shim_storage_free(void *o) { free(o); }

void shim_retain(void *o) { PARSEC_OBJ_RETAIN(o); }
/* returns 1 when this release destroyed the object (the macro then NULLs the pointer) */
int shim_release(void *o) { parsec_object_t *p = (parsec_object_t *)o; PARSEC_OBJ_RELEASE(p); return NULL == p; }
int shim_refcount(void *o) { return ((parsec_object_t *)o)->obj_reference_count; }
