// Small helpers shared (by copy) between the dsched harnesses C07 / C29 / C33 / C34.
// Nothing property specific in here: schedule-byte generation, DFS enumeration driver, text helpers.
#pragma once
#include <cstdint>
#include <functional>
#include <sstream>
#include <string>
#include <vector>
#include "vf.hpp"
#include "dsched.hpp"

namespace hc {

inline std::string ints(const std::vector<int> &v) { std::ostringstream o; for (size_t i = 0; i < v.size(); i++) o << (i ? " " : "") << v[i]; return o.str(); }
inline std::string bytes(const std::vector<uint8_t> &v) { std::ostringstream o; for (uint8_t b : v) o << " " << (int)b; return o.str(); }
inline std::vector<int> rest_ints(std::istringstream &ls) { std::vector<int> p; int x; while (ls >> x) p.push_back(x); return p; }

// key/value header line: "Cxx k v k v ..."
inline void header_kv(std::istringstream &ls, const std::function<void(const std::string &, int)> &f) { std::string k; int v; while (ls >> k >> v) f(k, v); }

// Enumerate every schedule (<= pb preemptions) of one case.  run(chooser, &nontrivial) -> error text.
// with_sched(bytes) must return the repr of the case with sparse = -1 and these schedule bytes (for the replay file).
// Returns false after the first failing schedule (failure recorded).
struct DfsStats { uint64_t execs = 0; bool truncated = false; bool any_nontrivial = false; bool capped = false; };
inline bool dfs_all(int pb, uint64_t cap, const std::function<std::string(dsched::Chooser &, bool *)> &run,
                    const std::function<std::string(const std::vector<uint8_t> &)> &with_sched, DfsStats &st) {
    dsched::DfsChooser d(pb);
    do {
        d.begin();
        bool nt = false;
        std::string e = run(d, &nt);
        st.execs++;
        st.any_nontrivial = st.any_nontrivial || nt;
        if (!e.empty()) {
            std::vector<uint8_t> s;
            for (size_t k = 0; k < d.depth && k < d.stack.size(); k++) s.push_back((uint8_t)d.stack[k].chosen);
            vf::record_failure(with_sched(s), e);
            return false;
        }
        if (st.execs >= cap) { st.capped = true; break; }
    } while (d.next());
    st.truncated = st.truncated || d.truncated;
    return true;
}

// the schedule actually followed by the DFS chooser at the moment of a dsched fatal (deadlock / step bound)
inline std::vector<uint8_t> dfs_prefix(const dsched::DfsChooser &d) {
    std::vector<uint8_t> s;
    for (size_t k = 0; k < d.depth && k < d.stack.size(); k++) s.push_back((uint8_t)d.stack[k].chosen);
    return s;
}

// ByteChooser whose tail (after the schedule bytes are used up) is really fair: the running thread continues until it blocks
// in a spin, then one of the other runnable threads is taken by a fixed linear-congruential sequence (deterministic: no clock,
// no seed; a strict rotation can lock into a parity pattern that skips the lock holder).  (The plain ByteChooser tail always
// takes the lowest id, which lets two threads that spin on a CAS lock -- every failed CAS counts as work -- starve the lock
// holder for ever.)
struct FairByteChooser : dsched::ByteChooser {
    uint64_t rr = 0x9E3779B97F4A7C15ULL;
    FairByteChooser(const uint8_t *bytes, size_t len, int sparse_ = 0) : dsched::ByteChooser(bytes, len, sparse_) {}
    int choose(int k, bool cur, int kind, volatile void *addr) override {
        if (pos < n) return dsched::ByteChooser::choose(k, cur, kind, addr);
        if (cur || sparse < 0) return 0;        // sparse < 0: replay of a DFS execution, whose new choice points all take alternative 0
        rr = rr * 6364136223846793005ULL + 1442695040888963407ULL;
        return (int)((rr >> 33) % (uint64_t)k);
    }
};

} // namespace hc
