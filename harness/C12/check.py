"""C12 -- user-triggered termination: simulation of n ranks around the real user_trigger module (engine E8)."""
import os
import subprocess

from vf import core

PROP = "C12"
RULE = ("case = (n ranks, triggering rank, set of ranks that become ready only after their notification arrived -- either "
        "monitored-but-not-ready or not yet registered --, extra pending runtime actions per rank, order words for the event loop); "
        "executed on n simulated ranks around the real user_trigger module with parsec_ce.send_am replaced by per-channel FIFO "
        "queues; oracle at quiescence = one callback per rank, one message per non-root rank, none for the root, (sender, receiver) "
        "pairs form a tree rooted at the trigger; non-trivial = n >= 3 and root != 0; distinct = distinct case values (hash); "
        "exhaustive part = every (n, root) twice: all ranks ready / all non-root ranks late")


def _build():
    return core.build_harness("C12/usertrigger", ["harness/C12/usertrigger.cc"], tree="san", rapidcheck=True)


def collect(res, wr):
    for f in wr.failures:
        res.violations.append(core.Violation(f["msg"], replay_text=f["replay_text"]))
    for c in wr.crashes:
        res.violations.append(core.Violation("harness process died (rc=%s): %s" % (c["rc"], c["log_tail"][-1200:]),
                                             replay_text="# crash of %s\n%s" % (" ".join(c["cmd"]), c["log_tail"][-1500:])))


def run(tier, seed, res):
    b = _build()
    quick = tier == "quick"
    res.rule = RULE
    res.assumptions = ["the taskpool of a rank is monitored before it can be looked up (order of the generated constructor / "
                       "parsec_taskpool_enable), so a message never meets a registered taskpool without monitor",
                       "exactly one rank triggers (documented use of the user_trigger detector)",
                       "messages are delivered exactly once, FIFO per (sender, receiver) channel (C14's property)",
                       "extra pending actions are bounded by 3 per rank"]
    nw = 16
    nmax = 64 if quick else 512
    jobs = [dict(cmd=[b, "exh", "1", str(nmax), str(i), str(nw)], tag="exh") for i in range(nw)]
    wr = core.run_workers(PROP, jobs)
    res.absorb(wr, "exhaustive")
    res.coverage["exhaustive"] = not (wr.failures or wr.crashes)
    res.coverage["exhaustive_subspace"] = "all (n, root) with 1 <= n <= %d, each with all ranks ready and with all non-root ranks late" % nmax
    collect(res, wr)
    per = 40 if quick else 600
    jobs = [dict(cmd=[b, "rc", "4096"], env={"RC_PARAMS": "seed=%d max_success=%d max_size=100" % (seed * 131 + i, per)}, tag="rc")
            for i in range(nw)]
    wr = core.run_workers(PROP, jobs)
    res.absorb(wr, "rc")
    collect(res, wr)


def replay(path):
    b = _build()
    env = dict(os.environ)
    env.update(core.MPI_ENV)
    env.update(core.SAN_RUN_ENV)
    p = subprocess.run([b, "replay", path], env=env, stdout=subprocess.PIPE, stderr=subprocess.STDOUT, text=True)
    return p.returncode == 0 and "REPLAY-PASS" in p.stdout, p.stdout[-2000:]
