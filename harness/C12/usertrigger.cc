// C12 -- User-triggered termination reaches every process exactly once.
//
// n simulated ranks around the real termdet "user_trigger" module (engine E8, see simranks.hpp).
// Case value: (n, root, set of late ranks with the flavour of lateness, extra pending runtime
// actions per rank, schedule words).  The event loop executes enabled events in the generated
// order: trigger (taskpool_set_nb_tasks(tp_root, 0)), deliver(head of a channel), ready(r) for a
// late rank whose notification already arrived (delayed-message path), release(r) of one extra
// pending action.  At quiescence the oracle checks: every rank's termination callback ran exactly
// once, every non-root rank received exactly one message, the root none, and the (sender,receiver)
// pairs form a tree rooted at the trigger that spans all ranks.
#include <set>
#include <algorithm>
#include "vf.hpp"
#include <rapidcheck.h>
#include "simranks.hpp"

extern "C" {
#include "parsec/mca/termdet/user_trigger/termdet_user_trigger.h"
#include "parsec/class/list.h"
}

struct Case {
    int n = 1, root = 0, all_late = 0;
    std::vector<std::pair<int, char>> late;   // (rank, 'a' = monitored, not ready | 'c' = also not yet registered)
    std::vector<std::pair<int, int>> extra;   // (rank, k extra pending runtime actions)
    std::vector<long> sched;

    std::string repr() const {
        std::ostringstream o;
        o << "C12 n " << n << " root " << root << " all_late " << all_late << "\nlate";
        for (auto &l : late) o << " " << l.first << ":" << l.second;
        o << "\nextra";
        for (auto &e : extra) o << " " << e.first << ":" << e.second;
        o << "\nsched";
        for (long s : sched) o << " " << s;
        o << "\n";
        return o.str();
    }
    static bool parse(const std::string &txt, Case *c) {
        std::istringstream in(txt); std::string line; bool head = false;
        while (std::getline(in, line)) {
            if (line.empty() || line[0] == '#') continue;
            std::istringstream ls(line); std::string w; ls >> w;
            if (w == "C12") { std::string k; while (ls >> k) { if (k == "n") ls >> c->n; else if (k == "root") ls >> c->root; else if (k == "all_late") ls >> c->all_late; } head = true; }
            else if (w == "late") { std::string t; while (ls >> t) { size_t p = t.find(':'); if (p == std::string::npos) return false; c->late.push_back({atoi(t.substr(0, p).c_str()), t[p + 1]}); } }
            else if (w == "extra") { std::string t; while (ls >> t) { size_t p = t.find(':'); if (p == std::string::npos) return false; c->extra.push_back({atoi(t.substr(0, p).c_str()), atoi(t.c_str() + p + 1)}); } }
            else if (w == "sched") { long v; while (ls >> v) c->sched.push_back(v); }
        }
        return head && c->n >= 1 && c->root >= 0 && c->root < c->n;
    }
};

struct Info { bool nontrivial = false; int delayed = 0, deferred_forward = 0, late_a = 0, late_c = 0, nextra = 0; };

enum { EV_TRIGGER, EV_DELIVER, EV_READY, EV_RELEASE };
struct Ev { int kind, a, b; };
static std::vector<Ev> *g_evs = nullptr;   // enabled events of the running case

static const parsec_termdet_base_module_t *MOD = nullptr;
static std::vector<int> g_ncb;          // callbacks per rank
static void term_cb(parsec_taskpool_t *tp) { g_ncb[sim::rank_of_tp(tp)]++; }

static void module_once() {
    if (MOD) return;
    sim::set_world(1);
    parsec_termdet_open_module(sim::W().tp[0], (char *)"user_trigger");   // component query: registers the AM tag, builds the delayed list
    MOD = sim::W().tp[0]->tdm.module;
    if (MOD != &parsec_termdet_user_trigger_module.module) { fprintf(stderr, "unexpected module table\n"); exit(2); }
    sim::W().tp[0]->tdm.module = NULL;
    sim::W().on_send = [](sim::Msg &m) {
        if (m.tag != PARSEC_TERMDET_USER_TRIGGER_MSG_TAG || m.bytes.size() != sizeof(parsec_termdet_user_trigger_msg_t)) {
            if (sim::W().error.empty()) sim::W().error = "unexpected message (tag/size) sent by the user_trigger module";
            return;
        }
        // same taskpool on every process <=> per-rank taskpool id in the one simulated process
        ((parsec_termdet_user_trigger_msg_t *)m.bytes.data())->tp_id = sim::W().tp[m.dst]->taskpool_id;
        if (g_evs) g_evs->push_back({EV_DELIVER, m.src, m.dst});   // one deliver event per message; FIFO per channel
    };
}


static std::string run_case(const Case &c, Info *info) {
    module_once();
    sim::World &w = sim::W();
    const int n = c.n;
    sim::set_world(n);
    g_ncb.assign(n, 0);
    std::vector<char> late(n, 0);
    std::vector<int> extra(n, 0);
    if (c.all_late) for (int r = 0; r < n; r++) if (r != c.root) late[r] = (r % 2) ? 'a' : 'c';
    for (auto &l : c.late) { int r = ((l.first % n) + n) % n; if (r != c.root) late[r] = (l.second == 'c') ? 'c' : 'a'; }
    for (auto &e : c.extra) { int r = ((e.first % n) + n) % n; extra[r] = std::min(3, extra[r] + std::max(1, e.second)); }

    std::vector<int> recv(n, 0), parent(n, -1), arrived(n, 0), ready(n, 0);
    std::vector<Ev> evs;
    std::string err;
    auto monitor = [&](int r) {
        parsec_taskpool_t *tp = w.tp[r];
        tp->tdm.module = MOD; tp->nb_tasks = 0; tp->nb_pending_actions = 0;
        sim::AsRank as(r);
        MOD->monitor_taskpool(tp, term_cb);
        if (extra[r]) MOD->taskpool_addto_runtime_actions(tp, extra[r]);   // e.g. the startup tasks, counted before the taskpool is ready
        for (int k = 0; k < extra[r]; k++) evs.push_back({EV_RELEASE, r, 0});
    };
    for (int r = 0; r < n; r++) {
        if (late[r] == 'c') {               // constructed (monitored) but not yet enabled: unknown to parsec_taskpool_lookup
            monitor(r);
            const parsec_termdet_base_module_t *m = w.tp[r]->tdm.module;
            w.tp[r]->tdm.module = NULL; parsec_taskpool_unregister(w.tp[r]); w.tp[r]->tdm.module = m;
            info->late_c++;
        } else {
            monitor(r);
            if (late[r] == 'a') info->late_a++;
            else { sim::AsRank as(r); MOD->taskpool_ready(w.tp[r]); ready[r] = 1; }
        }
        info->nextra += extra[r];
    }
    evs.push_back({EV_TRIGGER, c.root, 0});
    size_t step = 0;
    g_evs = &evs;
    const size_t max_steps = (size_t)n * 8 + 64;
    while (!evs.empty() && err.empty()) {
        if (++step > max_steps) { err = "event loop does not quiesce (more than " + std::to_string(max_steps) + " events)"; break; }
        size_t pick = 0;
        if (!c.sched.empty()) { long s = c.sched[(step - 1) % c.sched.size()]; pick = (size_t)((s < 0 ? -s : s) % (long)evs.size()); }
        Ev e = evs[pick]; evs[pick] = evs.back(); evs.pop_back();
        switch (e.kind) {
        case EV_TRIGGER: {
            sim::AsRank as(e.a);
            MOD->taskpool_set_nb_tasks(w.tp[e.a], 0);
            break;
        }
        case EV_RELEASE: {
            sim::AsRank as(e.a);
            MOD->taskpool_addto_runtime_actions(w.tp[e.a], -1);
            break;
        }
        case EV_READY: {
            int r = e.a;
            if (late[r] == 'c') parsec_taskpool_register(w.tp[r]);
            sim::AsRank as(r);
            MOD->taskpool_ready(w.tp[r]); ready[r] = 1;
            break;
        }
        case EV_DELIVER: {
            int s = e.a, d = e.b;
            if (d == c.root) { err = "the triggering rank " + std::to_string(d) + " receives a notification (from rank " + std::to_string(s) + ")"; break; }
            if (recv[d] >= 1) { err = "rank " + std::to_string(d) + " receives a second notification (from rank " + std::to_string(s) + ", first from rank " + std::to_string(parent[d]) + ")"; break; }
            recv[d]++; parent[d] = s;
            bool was_ready = ready[d];
            int pend_before = w.tp[d]->nb_pending_actions;
            sim::deliver(s, d);
            arrived[d] = 1;
            if (!was_ready) { info->delayed++; evs.push_back({EV_READY, d, 0}); }
            else if (pend_before > 1) info->deferred_forward++;
            break;
        }
        }
        if (!w.error.empty() && err.empty()) err = w.error;
    }
    // ---- oracle at quiescence
    if (err.empty()) {
        for (int r = 0; r < n && err.empty(); r++) {
            if (g_ncb[r] == 0) err = "rank " + std::to_string(r) + " is never told about the termination (no callback; n=" + std::to_string(n) + " root=" + std::to_string(c.root) + (recv[r] ? ", message received" : ", no message received") + ")";
            else if (g_ncb[r] > 1) err = "termination callback of rank " + std::to_string(r) + " ran " + std::to_string(g_ncb[r]) + " times";
            else if (r != c.root && recv[r] != 1) err = "rank " + std::to_string(r) + " terminated without exactly one notification (" + std::to_string(recv[r]) + ")";
            else if (MOD->taskpool_state(w.tp[r]) != PARSEC_TERM_TP_TERMINATED) err = "rank " + std::to_string(r) + " had its callback but is not in state TERMINATED";
        }
        if (err.empty() && recv[c.root] != 0) err = "root received a notification";
        // (sender, receiver) pairs: every non-root has exactly one parent (checked above); tree <=> every rank reaches the root
        for (int r = 0; r < n && err.empty(); r++) {
            int x = r, hops = 0;
            while (x != c.root && hops <= n) { x = parent[x]; hops++; if (x < 0) break; }
            if (x != c.root) err = "the (sender, receiver) pairs do not form a tree rooted at the trigger: rank " + std::to_string(r) + " is not connected to rank " + std::to_string(c.root);
        }
    }
    // ---- cleanup (robust after failures, so that shrinking can go on)
    g_evs = nullptr;
    for (auto &kv : w.chan) kv.second.clear();
    while (parsec_list_item_t *it = parsec_list_pop_front(&parsec_termdet_user_trigger_delayed_messages)) free(it);
    for (int r = 0; r < n; r++) {
        parsec_taskpool_t *tp = w.tp[r];
        if (parsec_taskpool_lookup(tp->taskpool_id) != tp) parsec_taskpool_register(tp);
        if (tp->tdm.monitor) { free(tp->tdm.monitor); tp->tdm.monitor = NULL; }
        tp->tdm.module = NULL; tp->tdm.callback = NULL;
    }
    info->nontrivial = n >= 3 && c.root != 0;
    return err;
}

static void labels(const Case &c, const Info &i) {
    const char *nc = c.n == 1 ? "n_1" : c.n == 2 ? "n_2" : c.n <= 8 ? "n_3_8" : c.n <= 64 ? "n_9_64" : c.n <= 512 ? "n_65_512" : "n_513_4096";
    vf::label(nc);
    vf::label(c.root == 0 ? "root_0" : "root_nonzero");
    vf::label(i.delayed ? "delayed_path_taken" : "all_ready_before_message");
    if (i.late_a) vf::label("late_monitored_not_ready");
    if (i.late_c) vf::label("late_not_registered");
    if (i.nextra) vf::label("extra_pending_actions");
    if (i.deferred_forward) vf::label("forward_deferred_by_pending_actions");
    vf::label("delayed_messages", (uint64_t)i.delayed);
}

static int do_exh(int nmin, int nmax, int part, int nparts) {
    uint64_t pairs = 0;
    for (int n = nmin; n <= nmax; n++) for (int root = 0; root < n; root++) {
        if ((n * 131 + root) % nparts != part) continue;
        for (int mode = 0; mode < 2; mode++) {
            Case c; c.n = n; c.root = root; c.all_late = mode;
            if (mode) c.sched = {7, 3, 11, 0, 5};      // a fixed non-FIFO order for the delayed variant
            Info i; std::string e = run_case(c, &i);
            vf::note_case(c.repr(), i.nontrivial); labels(c, i);
            if (!e.empty()) { vf::record_failure(c.repr(), e); vf::dump(); return 1; }
        }
        pairs++;
    }
    vf::R().extra["exhaustive_pairs"] = std::to_string(pairs);
    vf::dump();
    return 0;
}

template <typename T> static rc::Gen<T> R(T lo, T hi) { return rc::gen::resize(100, rc::gen::inRange<T>(lo, hi)); }

int main(int argc, char **argv) {
    std::string mode = argc > 1 ? argv[1] : "rc";
    sim::init_runtime(&argc, &argv);
    if (mode == "replay") {
        Case c;
        if (!Case::parse(vf::slurp(argv[2]), &c)) { printf("REPLAY-FAIL cannot parse %s\n", argv[2]); return 2; }
        Info i; std::string e = run_case(c, &i);
        if (e.empty()) { printf("REPLAY-PASS\n"); return 0; }
        printf("REPLAY-FAIL %s\n", e.c_str()); return 1;
    }
    if (mode == "exh") return do_exh(atoi(argv[2]), atoi(argv[3]), atoi(argv[4]), atoi(argv[5]));
    int nmax = argc > 2 ? atoi(argv[2]) : 4096;
    bool ok = rc::check("user_trigger: one notification per rank, spanning tree, one callback per rank", [nmax]() {
        Case c;
        int cls = *R(0, 20);
        if (cls < 6) c.n = *R(1, 17);
        else if (cls < 10) c.n = *R(17, 65);
        else if (cls < 16) c.n = *R(65, 513);
        else c.n = *R(513, nmax + 1);
        c.root = *R(0, c.n);
        int lm = *R(0, 8);
        c.all_late = lm == 0;
        if (lm >= 4) {
            int nl = *R(1, 49);
            for (int k = 0; k < nl; k++) c.late.push_back({*R(0, c.n), *rc::gen::element('a', 'c')});
        }
        int ne = *R(0, 13);
        for (int k = 0; k < ne; k++) c.extra.push_back({*R(0, c.n), *R(1, 4)});
        int sl = *R(0, 41);
        c.sched = *rc::gen::container<std::vector<long>>((size_t)sl, R<long>(0, 1 << 20));
        Info i; std::string e = run_case(c, &i);
        vf::note_case(c.repr(), i.nontrivial); labels(c, i);
        if (!e.empty()) { vf::record_failure(c.repr(), e); RC_FAIL(e); }
    });
    vf::dump();
    return ok ? 0 : 1;
}
