// Engine E8: single-process simulation of P ranks around real PaRSEC module code.
//
// One real parsec_context_t (parsec_init, never started) provides the MCA / termdet
// infrastructure.  Each simulated rank r owns a fake parsec_context_t (my_rank = r,
// nb_nodes = P) and one registered parsec_taskpool_t (distinct taskpool ids in the one
// process-global taskpool table).  The communication engine's function table `parsec_ce`
// is patched: tag_register records the module's active-message callback, send_am
// appends a copy of the message to the FIFO channel (current rank -> destination).
// Delivery (chosen by the harness' generated schedule) calls the recorded callback of
// the real module on behalf of the destination rank.
//
// Shared by harness/C12 (user_trigger) and harness/C11 (fourcounter).
#pragma once
#include <mpi.h>
#include <deque>
#include <functional>
#include <map>
#include <string>
#include <vector>
#include <cstring>
#include <cstdlib>

extern "C" {
#include "parsec/parsec_config.h"
#include "parsec/runtime.h"
#include "parsec/parsec_internal.h"
#include "parsec/execution_stream.h"
#include "parsec/mca/termdet/termdet.h"
#include "parsec/parsec_comm_engine.h"
#include "parsec/remote_dep.h"
}

namespace sim {

struct Msg {
    uint64_t tag;
    int src, dst;
    std::vector<unsigned char> bytes;
};

struct Reg { parsec_ce_am_callback_t cb = nullptr; void *data = nullptr; size_t maxlen = 0; };

struct World {
    parsec_context_t *real = nullptr;
    int P = 0;
    std::vector<parsec_context_t *> ctx;      // pool of fake contexts, index = rank
    std::vector<parsec_taskpool_t *> tp;      // pool of registered taskpools, index = rank
    std::map<std::pair<int, int>, std::deque<Msg>> chan;   // (src,dst) -> FIFO; int keys: deterministic order
    std::map<uint64_t, Reg> regs;
    int cur = -1;                             // rank on whose behalf module code runs right now
    uint64_t nsent = 0;
    std::string error;                        // first harness-detected protocol error inside a stub
    // called by the send stub after the message has been queued (observer; may rewrite bytes)
    std::function<void(Msg &)> on_send;
};

inline World &W() { static World *w = new World(); return *w; }

inline int stub_tag_register(parsec_ce_tag_t tag, parsec_ce_am_callback_t cb, void *cb_data, size_t msg_length) {
    Reg r; r.cb = cb; r.data = cb_data; r.maxlen = msg_length;
    W().regs[(uint64_t)tag] = r;
    return PARSEC_SUCCESS;
}
inline int stub_tag_unregister(parsec_ce_tag_t tag) { W().regs.erase((uint64_t)tag); return PARSEC_SUCCESS; }

inline int stub_send_am(parsec_comm_engine_t *ce, parsec_ce_tag_t tag, int remote, void *addr, size_t size) {
    (void)ce;
    World &w = W();
    Msg m; m.tag = (uint64_t)tag; m.src = w.cur; m.dst = remote;
    m.bytes.assign((unsigned char *)addr, (unsigned char *)addr + size);
    if (w.cur < 0 || w.cur >= w.P) { if (w.error.empty()) w.error = "send_am outside of a simulated rank"; return PARSEC_SUCCESS; }
    if (remote < 0 || remote >= w.P) {
        if (w.error.empty()) w.error = "rank " + std::to_string(w.cur) + " sends to rank " + std::to_string(remote) + " which is not in 0.." + std::to_string(w.P - 1);
        return PARSEC_SUCCESS;
    }
    auto it = w.regs.find(m.tag);
    if (it != w.regs.end() && size > it->second.maxlen && w.error.empty()) w.error = "message longer than the registered maximum";
    if (w.on_send) w.on_send(m);
    w.nsent++;
    w.chan[{m.src, m.dst}].push_back(std::move(m));
    return PARSEC_SUCCESS;
}

// MPI (singleton) + parsec_init with one thread; the context is never started.  Then patch parsec_ce.
inline void init_runtime(int *argc, char ***argv) {
    World &w = W();
    int prov = 0;
    MPI_Init_thread(argc, argv, MPI_THREAD_SERIALIZED, &prov);
    w.real = parsec_init(1, argc, argv);
    if (!w.real) { fprintf(stderr, "parsec_init failed\n"); exit(2); }
    parsec_ce.send_am = stub_send_am;
    parsec_ce.tag_register = stub_tag_register;
    parsec_ce.tag_unregister = stub_tag_unregister;
}

// Make sure ranks 0..n-1 exist (taskpool + fake context), and set the world size.
inline void set_world(int n) {
    World &w = W();
    while ((int)w.tp.size() < n) {
        parsec_context_t *c = (parsec_context_t *)calloc(1, sizeof(parsec_context_t));
        parsec_taskpool_t *t = PARSEC_OBJ_NEW(parsec_taskpool_t);
        t->taskpool_type = PARSEC_TASKPOOL_TYPE_PTG;
        t->context = c;
        parsec_taskpool_reserve_id(t);
        parsec_taskpool_register(t);
        w.ctx.push_back(c); w.tp.push_back(t);
    }
    w.P = n;
    for (int r = 0; r < n; r++) { w.ctx[r]->my_rank = r; w.ctx[r]->nb_nodes = n; }
    w.chan.clear(); w.cur = -1; w.nsent = 0; w.error.clear();
}

inline int rank_of_tp(const parsec_taskpool_t *t) { return t->context->my_rank; }

// Deliver the head of channel (src,dst) to the real module callback.  Returns false if the channel is empty.
inline bool deliver(int src, int dst) {
    World &w = W();
    auto it = w.chan.find({src, dst});
    if (it == w.chan.end() || it->second.empty()) return false;
    Msg m = std::move(it->second.front()); it->second.pop_front();
    auto rg = w.regs.find(m.tag);
    if (rg == w.regs.end()) { if (w.error.empty()) w.error = "message with a tag nobody registered"; return true; }
    int saved = w.cur; w.cur = dst;
    rg->second.cb(&parsec_ce, (parsec_ce_tag_t)m.tag, m.bytes.data(), m.bytes.size(), src, rg->second.data);
    w.cur = saved;
    return true;
}

struct AsRank {   // RAII: module calls made inside the scope are on behalf of rank r
    int saved;
    explicit AsRank(int r) { saved = W().cur; W().cur = r; }
    ~AsRank() { W().cur = saved; }
};

} // namespace sim
