#ifndef C06_DRIVER_H
#define C06_DRIVER_H
#include "parsec/runtime.h"
void c06_body(parsec_execution_stream_t *es, parsec_task_t *this_task, int pid, int idx);
#endif
