/* c06_driver -- histories of start / add taskpool / wait / test over ONE parsec context (property C06).
 *
 *   c06_driver <histories.txt> <out.log> <threads> <tq_seconds> [warmup=1]
 *
 * History text (integers):
 *   H hid
 *   N pool kind nc nw spin cbadd ntadd {task child}*ntadd
 *        kind 0: PTG pool (chain of nc tasks + fork-join of nw workers: nc + (nw ? nw+2 : 0) tasks)
 *        kind 1: DTD pool of nc independent tasks (inserted by the thread that adds the pool)
 *        cbadd: pool added from this pool's completion callback (-1 none); {task child}: `child` is added from inside
 *        the body of task index `task`.  Children are PTG pools.
 *   E            parsec_context_start         C   parsec_context_wait (end of epoch; pools of the epoch are freed after it)
 *   A pool       parsec_context_add_taskpool (+ insertion of the tasks for a DTD pool)
 *   W pool       parsec_taskpool_wait         T pool n   n x parsec_taskpool_test      Q n   n x parsec_context_test
 *   Z
 * Log: per history "R hid", events "V seq type pool idx" (type 1 body in, 2 body out, 3 completion callback entered, 8 callback returned,
 * 4 add call, 5 add returned, 6 api call, 7 api returned with idx = 1 start 2 taskpool_wait 3 context_wait 4 taskpool_test
 * 5 context_test, pool = pool or return value for tests), "Z hid".  Watchdog as in dtd_driver (exit 3 / 4).
 */
#include "parsec/runtime.h"
#include "parsec/data_dist/matrix/two_dim_rectangle_cyclic.h"
#include "parsec/interfaces/dtd/insert_function.h"
#include "parsec/utils/debug.h"
#include "c06_driver.h"
#include "c06.h"
#include <mpi.h>
#include <pthread.h>
#include <stdint.h>
#include <stdio.h>
#include <stdlib.h>
#include <string.h>
#include <unistd.h>

#define MAXPOOL 16
#define MAXEV 200000

typedef struct {
    int used, kind, nc, nw, spin, cbadd, ntadd, tadd_task[4], tadd_child[4];
    int ntasks, added, epoch_added;
    parsec_taskpool_t *tp;
    int *count;
} pool_t;

typedef struct { long seq; int type, pool, idx; } ev_t;
typedef struct { char op; int a, b; } item_t;

static pool_t g_pool[MAXPOOL];
static ev_t *g_ev;
static long g_nev, g_seq, g_progress;
static parsec_context_t *g_ctx;
static parsec_data_collection_t *g_dc;
static FILE *g_log;
static int g_tq = 5, g_in_history, g_hid, g_cur_item;

static void ev(int type, int pool, int idx)
{
    long s = __atomic_fetch_add(&g_seq, 1, __ATOMIC_SEQ_CST);
    long i = __atomic_fetch_add(&g_nev, 1, __ATOMIC_SEQ_CST);
    if (i < MAXEV) { g_ev[i].seq = s; g_ev[i].type = type; g_ev[i].pool = pool; g_ev[i].idx = idx; }
    __atomic_fetch_add(&g_progress, 1, __ATOMIC_SEQ_CST);
}

static int completion_cb(parsec_taskpool_t *tp, void *data);

static void add_pool(int p)
{
    pool_t *P = &g_pool[p];
    ev(4, p, 0);
    __atomic_store_n(&P->added, 1, __ATOMIC_SEQ_CST);
    int rc = parsec_context_add_taskpool(g_ctx, P->tp);
    PARSEC_CHECK_ERROR(rc, "parsec_context_add_taskpool");
    ev(5, p, 0);
}

static void spin(int n)
{
    volatile int x = 0;
    for (int i = 0; i < n; i++) x += i;
}

static void body(int pid, int idx)
{
    pool_t *P = &g_pool[pid];
    ev(1, pid, idx);
    __atomic_fetch_add(&P->count[idx], 1, __ATOMIC_SEQ_CST);
    spin(P->spin);
    for (int j = 0; j < P->ntadd; j++)
        if (P->tadd_task[j] == idx) add_pool(P->tadd_child[j]);
    ev(2, pid, idx);
}

void c06_body(parsec_execution_stream_t *es, parsec_task_t *this_task, int pid, int idx)
{
    (void)es; (void)this_task;
    body(pid, idx);
}

static int dtd_body(parsec_execution_stream_t *es, parsec_task_t *this_task)
{
    int pid, idx;
    (void)es;
    parsec_dtd_unpack_args(this_task, &pid, &idx);
    body(pid, idx);
    return PARSEC_HOOK_RETURN_DONE;
}

static int completion_cb(parsec_taskpool_t *tp, void *data)
{
    int p = (int)(intptr_t)data;
    (void)tp;
    ev(3, p, 0);
    spin(g_pool[p].spin * 40);            /* a long callback widens the window "marked done before the callback finished" */
    if (g_pool[p].cbadd >= 0 && g_pool[p].kind == 0) add_pool(g_pool[p].cbadd);
    ev(8, p, 0);
    return 0;
}

/* ------------------------------------------------------------------ parsing */
static char *g_txt;
static size_t g_pos, g_len;
static int next_tok(char *buf, int n)
{
    while (g_pos < g_len && (g_txt[g_pos] == ' ' || g_txt[g_pos] == '\n' || g_txt[g_pos] == '\t' || g_txt[g_pos] == '\r')) g_pos++;
    if (g_pos < g_len && g_txt[g_pos] == '#') { while (g_pos < g_len && g_txt[g_pos] != '\n') g_pos++; return next_tok(buf, n); }
    if (g_pos >= g_len) return 0;
    int i = 0;
    while (g_pos < g_len && !(g_txt[g_pos] == ' ' || g_txt[g_pos] == '\n' || g_txt[g_pos] == '\t' || g_txt[g_pos] == '\r')) {
        if (i < n - 1) buf[i++] = g_txt[g_pos];
        g_pos++;
    }
    buf[i] = 0;
    return 1;
}
static int next_int(void)
{
    char b[64];
    if (!next_tok(b, sizeof b)) { fprintf(stderr, "c06_driver: truncated\n"); exit(2); }
    return (int)strtol(b, NULL, 10);
}

static void *watchdog(void *arg)
{
    long last = -1;
    int still = 0;
    (void)arg;
    for (;;) {
        usleep(100000);
        long p = __atomic_load_n(&g_progress, __ATOMIC_SEQ_CST);
        if (!g_in_history || p != last) { last = p; still = 0; continue; }
        if (++still < g_tq * 10) continue;
        int missing = 0;
        for (int q = 0; q < MAXPOOL; q++)
            if (g_pool[q].used && __atomic_load_n(&g_pool[q].added, __ATOMIC_SEQ_CST))
                for (int i = 0; i < g_pool[q].ntasks; i++)
                    if (0 == __atomic_load_n(&g_pool[q].count[i], __ATOMIC_SEQ_CST)) missing++;
        if (missing == 0 && still < g_tq * 40) continue;
        fprintf(g_log, "X %d %d %d", g_hid, g_cur_item, missing);
        for (int q = 0; q < MAXPOOL; q++)
            if (g_pool[q].used && g_pool[q].added)
                for (int i = 0; i < g_pool[q].ntasks; i++)
                    if (0 == g_pool[q].count[i]) fprintf(g_log, " %d:%d", q, i);
        fprintf(g_log, "\n");
        fflush(g_log);
        fprintf(stderr, "c06_driver: watchdog: history %d item %d: no progress for %d s, %d task execution(s) of added pools missing\n",
                g_hid, g_cur_item, still / 10, missing);
        _exit(missing ? 3 : 4);
    }
    return NULL;
}

static int run_history(void)
{
    char b[64];
    if (!next_tok(b, sizeof b)) return 0;
    if (b[0] != 'H') { fprintf(stderr, "c06_driver: expected H\n"); exit(2); }
    g_hid = next_int();
    memset(g_pool, 0, sizeof g_pool);
    static item_t items[4096];
    int nitems = 0;
    for (;;) {
        if (!next_tok(b, sizeof b)) { fprintf(stderr, "c06_driver: missing Z\n"); exit(2); }
        if (b[0] == 'Z') break;
        if (b[0] == 'N') {
            int p = next_int();
            pool_t *P = &g_pool[p];
            P->used = 1; P->kind = next_int(); P->nc = next_int(); P->nw = next_int(); P->spin = next_int();
            P->cbadd = next_int(); P->ntadd = next_int();
            for (int j = 0; j < P->ntadd; j++) { P->tadd_task[j] = next_int(); P->tadd_child[j] = next_int(); }
            P->ntasks = (P->kind == 0) ? P->nc + (P->nw ? P->nw + 2 : 0) : P->nc;
            P->count = (int *)calloc(P->ntasks + 1, sizeof(int));
            continue;
        }
        item_t *it = &items[nitems++];
        it->op = b[0];
        switch (b[0]) {
        case 'A': case 'W': case 'Q': it->a = next_int(); break;
        case 'T': it->a = next_int(); it->b = next_int(); break;
        case 'E': case 'C': break;
        default: fprintf(stderr, "c06_driver: bad op %s\n", b); exit(2);
        }
    }
    fprintf(g_log, "R %d\n", g_hid);
    fflush(g_log);
    g_nev = 0;
    /* pools are built up front (children must exist before a body / callback adds them) */
    for (int p = 0; p < MAXPOOL; p++) {
        pool_t *P = &g_pool[p];
        if (!P->used) continue;
        if (P->kind == 0) P->tp = (parsec_taskpool_t *)parsec_c06_new(g_dc, P->nc, P->nw, p);
        else P->tp = parsec_dtd_taskpool_new();
        parsec_taskpool_set_complete_callback(P->tp, completion_cb, (void *)(intptr_t)p);
    }
    g_cur_item = -1;
    g_in_history = 1;
    int rc;
    for (int i = 0; i < nitems; i++) {
        item_t *it = &items[i];
        g_cur_item = i;
        switch (it->op) {
        case 'E': ev(6, 0, 1); rc = parsec_context_start(g_ctx); ev(7, rc, 1); break;
        case 'A': {
            pool_t *P = &g_pool[it->a];
            add_pool(it->a);
            if (P->kind == 1)
                for (int k = 0; k < P->nc; k++)
                    parsec_dtd_insert_task(P->tp, dtd_body, 0, PARSEC_DEV_CPU, "D", (int)sizeof(int), &it->a, PARSEC_VALUE,
                                           (int)sizeof(int), &k, PARSEC_VALUE, PARSEC_DTD_ARG_END);
            break;
        }
        case 'W': ev(6, it->a, 2); rc = parsec_taskpool_wait(g_pool[it->a].tp); ev(7, it->a, 2);
            if (rc < 0) { fprintf(g_log, "F taskpool_wait returned %d\n", rc); }
            break;
        case 'T': for (int k = 0; k < it->b; k++) { rc = parsec_taskpool_test(g_pool[it->a].tp); ev(7, it->a, 4); } break;
        case 'Q': for (int k = 0; k < it->a; k++) { rc = parsec_context_test(g_ctx); ev(7, rc, 5); } break;
        case 'C': ev(6, 0, 3); rc = parsec_context_wait(g_ctx); ev(7, rc, 3);
            for (int p = 0; p < MAXPOOL; p++) {
                pool_t *P = &g_pool[p];
                if (P->used && P->added && NULL != P->tp) { parsec_taskpool_free(P->tp); P->tp = NULL; }
            }
            break;
        }
    }
    g_in_history = 0;
    for (int p = 0; p < MAXPOOL; p++) {
        pool_t *P = &g_pool[p];
        if (!P->used) continue;
        fprintf(g_log, "P %d %d %d", p, P->ntasks, P->added);
        for (int i = 0; i < P->ntasks; i++) fprintf(g_log, " %d", P->count[i]);
        fprintf(g_log, "\n");
        if (NULL != P->tp) {                 /* defined but never added: release the unused object */
            if (P->kind == 0) parsec_taskpool_free(P->tp);
            P->tp = NULL;
        }
        free(P->count);
    }
    long n = g_nev < MAXEV ? g_nev : MAXEV;
    for (long i = 0; i < n; i++) fprintf(g_log, "V %ld %d %d %d\n", g_ev[i].seq, g_ev[i].type, g_ev[i].pool, g_ev[i].idx);
    fprintf(g_log, "Z %d\n", g_hid);
    fflush(g_log);
    return 1;
}

int main(int argc, char **argv)
{
    int provided, rank = 0;
    MPI_Init_thread(&argc, &argv, MPI_THREAD_SERIALIZED, &provided);
    MPI_Comm_rank(MPI_COMM_WORLD, &rank);
    if (argc < 5) { fprintf(stderr, "usage: c06_driver histories out threads tq\n"); return 2; }
    FILE *f = fopen(argv[1], "r");
    if (!f) { perror(argv[1]); return 2; }
    fseek(f, 0, SEEK_END); g_len = (size_t)ftell(f); fseek(f, 0, SEEK_SET);
    g_txt = (char *)malloc(g_len + 1);
    if (fread(g_txt, 1, g_len, f) != g_len) { perror("read"); return 2; }
    fclose(f);
    g_log = fopen(argv[2], "w");
    if (!g_log) { perror(argv[2]); return 2; }
    g_tq = atoi(argv[4]) > 0 ? atoi(argv[4]) : 5;
    g_ev = (ev_t *)calloc(MAXEV, sizeof(ev_t));
    int pargc = 1;
    char *pargv_s[2] = { argv[0], NULL };
    char **pargv = pargv_s;
    g_ctx = parsec_init(atoi(argv[3]), &pargc, &pargv);
    if (NULL == g_ctx) return 2;
    parsec_matrix_block_cyclic_t *m = (parsec_matrix_block_cyclic_t *)malloc(sizeof(parsec_matrix_block_cyclic_t));
    parsec_matrix_block_cyclic_init(m, PARSEC_MATRIX_INTEGER, PARSEC_MATRIX_TILE, rank, 1, 1, 1, 1, 0, 0, 1, 1, 1, 1, 1, 1, 0, 0);
    m->mat = parsec_data_allocate((size_t)m->super.nb_local_tiles * (size_t)m->super.bsiz *
                                  (size_t)parsec_datadist_getsizeoftype(m->super.mtype));
    parsec_data_collection_set_key((parsec_data_collection_t *)m, "A");
    g_dc = (parsec_data_collection_t *)m;
    pthread_t wd;
    pthread_create(&wd, NULL, watchdog, NULL);
    if (argc < 6 || atoi(argv[5]) != 0) {
        /* known finding (corpus/C06/regress/wait_before_first_context_wait.txt): parsec_taskpool_wait / _test crash when
         * they run before the first parsec_context_wait of the process; one empty epoch first avoids it (warmup=0 disables) */
        parsec_context_start(g_ctx);
        parsec_context_wait(g_ctx);
    }
    while (run_history()) ;
    fprintf(g_log, "Q\n");
    fclose(g_log);
    parsec_data_free(m->mat);
    parsec_tiled_matrix_destroy((parsec_tiled_matrix_t *)m);
    free(m);
    parsec_fini(&g_ctx);
    MPI_Finalize();
    return 0;
}
