"""C06 -- wait and completion calls return exactly when the work is done.
Histories of start / add (PTG + DTD pools, also from task bodies and completion callbacks) / taskpool_wait / *_test /
context_wait over one context, executed by c06_driver; global sequence stamps checked in Python."""
import hashlib
import os
import re
import subprocess
import sys
import time
from concurrent.futures import ThreadPoolExecutor

from hypothesis import strategies as st

from vf import core

sys.path.insert(0, os.path.join(core.VERIF, "harness", "C03"))
import dtdgen as g  # noqa: E402  (generate(), proc_cfgs, scheduler exclusion list)

PROP = "C06"
RULE = ("case = one history over one parsec context: 1..5 epochs (context_start .. context_wait), each with 1..3 taskpools added by "
        "the main thread (PTG chain / fork-join pools of 1..60 tasks from one pre-compiled JDF, DTD pools of 1..60 tasks) plus "
        "PTG child pools added from inside task bodies and from completion callbacks (depth <= 2), interleaved with taskpool_wait, "
        "taskpool_test and context_test calls, bodies spinning 0..3000 iterations, under a generated scheduler x 1..16 threads, "
        "many histories per process (same context); oracle on global sequence stamps: at context_wait return every pool added "
        "(transitively) in the epoch has run each task exactly once, all body exits and the completion callback are stamped "
        "earlier (callback entered AND returned); at taskpool_wait(p) return the same for p; a PTG pool's callback runs exactly once and after its last body "
        "exit (DTD: every callback after the last body exit); context_start/context_wait return success; non-trivial = >= 2 "
        "epochs AND a pool added from a task or callback AND a pool of >= 20 tasks AND threads >= 2; distinct = distinct texts")
FLOOR_QUICK = 60


# ----------------------------------------------------------------------------------------------- generator

@st.composite
def histories(draw):
    rnd = draw(st.randoms(use_true_random=True))
    I = rnd.randint
    pools = {}          # id -> dict(kind,nc,nw,spin,cbadd,tadd=[(task,child)])
    items = []
    nepoch = I(1, 5)

    def ntasks(p):
        return p["nc"] + (p["nw"] + 2 if p["nw"] else 0) if p["kind"] == 0 else p["nc"]

    def new_pool(kind, depth):
        if len(pools) >= 16:
            return None
        pid = len(pools)
        big = I(0, 3) == 0
        if kind == 0:
            shape = I(0, 2)
            nc = I(1, 60 if big else 12) if shape != 1 else 0
            nw = I(1, 40 if big else 8) if shape != 0 else 0
        else:
            nc, nw = I(1, 60 if big else 12), 0
        p = dict(kind=kind, nc=nc, nw=nw, spin=I(0, 3000) if I(0, 1) else 0, cbadd=-1, tadd=[])
        pools[pid] = p
        if depth < 2:
            if kind == 0 and I(0, 3) == 0:
                c = new_pool(0, depth + 1)
                if c is not None:
                    p["cbadd"] = c
            for _ in range(I(0, 2) if I(0, 2) == 0 else 0):
                c = new_pool(0, depth + 1)
                if c is not None and len(p["tadd"]) < 4:
                    p["tadd"].append((I(0, ntasks(p) - 1), c))
        return pid

    for e in range(nepoch):
        mine = []
        for _ in range(I(1, 3)):
            pid = new_pool(I(0, 1), 0)
            if pid is not None:
                mine.append(pid)
        pre = [p for p in mine if pools[p]["kind"] == 0 and I(0, 2) == 0]      # PTG pools added before the start
        for p in pre:
            items.append(("A", p))
        items.append(("E",))
        todo = [p for p in mine if p not in pre]
        added = list(pre)
        while todo or I(0, 2) == 0:
            r = I(0, 9)
            if todo and r < 5:
                p = todo.pop(0)
                items.append(("A", p))
                added.append(p)
            elif added and r < 7:
                items.append(("W", added[I(0, len(added) - 1)]))
            elif added and r < 8:
                items.append(("T", added[I(0, len(added) - 1)], I(1, 20)))
            else:
                items.append(("Q", I(1, 5)))
            if len(items) > 200:
                break
        for p in todo:
            items.append(("A", p))
        items.append(("C",))
    return dict(pools=pools, items=items)


def text(h, hid=0):
    L = ["H %d" % hid]
    for pid in sorted(h["pools"]):
        p = h["pools"][pid]
        w = ["N", pid, p["kind"], p["nc"], p["nw"], p["spin"], p["cbadd"], len(p["tadd"])]
        for (t, c) in p["tadd"]:
            w += [t, c]
        L.append(" ".join(str(x) for x in w))
    for it in h["items"]:
        L.append(" ".join(str(x) for x in it))
    L.append("Z")
    return "\n".join(L) + "\n"


def file_text(cfg, hs, note=""):
    head = "#cfg threads=%d sched=%s tq=%d warmup=%d\n" % (cfg["threads"], cfg["sched"], cfg.get("tq", 5), cfg.get("warmup", 1))
    if note:
        head += "".join("# %s\n" % l for l in note.splitlines())
    return head + "".join(text(h, i) for i, h in enumerate(hs))


def parse_file(txt):
    cfg = dict(threads=2, sched="lfq", tq=5, warmup=1)
    m = re.search(r"^#cfg (.*)$", txt, re.M)
    if m:
        for kv in m.group(1).split():
            k, v = kv.split("=")
            cfg[k] = v if k == "sched" else int(v)
    toks = []
    for line in txt.splitlines():
        toks += line.split("#")[0].split()
    pos = 0
    hs = []
    while pos < len(toks):
        assert toks[pos] == "H"
        pos += 2
        h = dict(pools={}, items=[])
        while toks[pos] != "Z":
            op = toks[pos]
            if op == "N":
                pid, kind, nc, nw, spin, cbadd, nt = [int(x) for x in toks[pos + 1:pos + 8]]
                pos += 8
                tadd = []
                for _ in range(nt):
                    tadd.append((int(toks[pos]), int(toks[pos + 1])))
                    pos += 2
                h["pools"][pid] = dict(kind=kind, nc=nc, nw=nw, spin=spin, cbadd=cbadd, tadd=tadd)
            elif op in ("E", "C"):
                h["items"].append((op,))
                pos += 1
            elif op in ("A", "W", "Q"):
                h["items"].append((op, int(toks[pos + 1])))
                pos += 2
            elif op == "T":
                h["items"].append((op, int(toks[pos + 1]), int(toks[pos + 2])))
                pos += 3
            else:
                raise ValueError(op)
        pos += 1
        hs.append(h)
    return cfg, hs


def ntasks(p):
    return p["nc"] + (p["nw"] + 2 if p["nw"] else 0) if p["kind"] == 0 else p["nc"]


def feats(h):
    ep = sum(1 for it in h["items"] if it[0] == "E")
    child = any(p["cbadd"] >= 0 or p["tadd"] for p in h["pools"].values())
    big = any(ntasks(p) >= 20 for p in h["pools"].values())
    return dict(epochs=ep, child=child, big=big, cb=any(p["cbadd"] >= 0 for p in h["pools"].values()),
                fromtask=any(p["tadd"] for p in h["pools"].values()),
                dtd=any(p["kind"] == 1 for p in h["pools"].values()), ptg=any(p["kind"] == 0 for p in h["pools"].values()),
                waits=sum(1 for it in h["items"] if it[0] == "W"))


# ----------------------------------------------------------------------------------------------- oracle

def judge(h, evs):
    """evs: list of (seq,type,pool,idx) of one history.  Returns list of violation strings."""
    v = []
    evs = sorted(evs)
    pools = h["pools"]
    body_in, body_out, cbs, adds, cbx = {}, {}, {}, {}, {}
    for (s, t, p, i) in evs:
        if t == 1:
            body_in.setdefault(p, {}).setdefault(i, []).append(s)
        elif t == 2:
            body_out.setdefault(p, {}).setdefault(i, []).append(s)
        elif t == 3:
            cbs.setdefault(p, []).append(s)
        elif t == 4:
            adds.setdefault(p, []).append(s)
        elif t == 8:
            cbx.setdefault(p, []).append(s)

    def complete_before(p, R, what):
        n = ntasks(pools[p])
        for i in range(n):
            ins = body_in.get(p, {}).get(i, [])
            outs = body_out.get(p, {}).get(i, [])
            if len(ins) != 1:
                v.append("%s: task %d of pool %d ran %d time(s) (expected exactly once)" % (what, i, p, len(ins)))
                return
            if not outs or outs[0] > R:
                v.append("%s returned (stamp %d) before task %d of pool %d finished (%s)" % (what, R, i, p, "exit stamp %d" % outs[0] if outs else "never exited"))
                return
        c = [s for s in cbx.get(p, []) if s < R]
        if not c:
            v.append("%s returned (stamp %d) before the completion callback of pool %d had run to its end (entered %s, returned %s)"
                     % (what, R, p, cbs.get(p, []), cbx.get(p, [])))

    # (c) callbacks
    for p, pd in pools.items():
        if p not in adds:
            continue
        last = max([max(x) for x in body_out.get(p, {}).values()] or [-1])
        c = cbs.get(p, [])
        if pd["kind"] == 0 and len(c) != 1 and len(adds[p]) == 1:
            v.append("completion callback of PTG pool %d ran %d time(s) (stamps %s)" % (p, len(c), c))
        for s in c:
            if s < last:
                v.append("completion callback of pool %d (stamp %d) ran before its last task finished (stamp %d)" % (p, s, last))
                break
    # epochs
    epoch_adds = []
    cur = []
    for (s, t, p, i) in evs:
        if t == 4:
            cur.append(p)
        if t == 7 and i == 1 and p not in (0,):
            v.append("parsec_context_start returned %d at the start of an epoch" % p)
        if t == 7 and i == 2:
            complete_before(p, s, "parsec_taskpool_wait(pool %d)" % p)
        if t == 7 and i == 3:
            if p != 0:
                v.append("parsec_context_wait returned %d" % p)
            for q in cur:
                complete_before(q, s, "parsec_context_wait")
            # every pool reachable from the epoch's pools must have been added (its parent ran)
            for q in list(cur):
                kids = [c for (_, c) in pools[q]["tadd"]] + ([pools[q]["cbadd"]] if pools[q]["cbadd"] >= 0 and pools[q]["kind"] == 0 else [])
                for c in kids:
                    if c not in cur:
                        v.append("pool %d (to be added by pool %d) was never added although context_wait returned" % (c, q))
            epoch_adds.append(cur)
            cur = []
    if cur:
        v.append("harness: pools %s added after the last context_wait" % cur)
    return v


# ----------------------------------------------------------------------------------------------- running

def _build():
    core.ensure_tree("hooks")
    gen = os.path.join(core.WORK, "harness", "hooks", "C06", "gen")
    os.makedirs(gen, exist_ok=True)
    jdf = os.path.join(core.VERIF, "harness", "C06", "c06.jdf")
    pp = os.path.join(core.tree_dir("hooks"), "parsec", "interfaces", "ptg", "ptg-compiler", "parsec-ptgpp")
    out = os.path.join(gen, "c06.c")
    if not os.path.exists(out) or os.path.getmtime(out) < max(os.path.getmtime(jdf), os.path.getmtime(pp)):
        p = subprocess.run([pp, "-E", "-i", jdf, "-o", "c06"], cwd=gen, stdout=subprocess.PIPE, stderr=subprocess.STDOUT, text=True)
        if p.returncode != 0 or not os.path.exists(out):
            sys.stderr.write(p.stdout[-3000:])
            raise core.BuildError("parsec-ptgpp failed on c06.jdf")
    return core.build_harness("C06/c06_driver", ["harness/C06/c06_driver.c", out], tree="hooks", lang="c",
                              extra_cflags=["-I" + gen, "-I" + os.path.join(core.VERIF, "harness", "C06"), "-Wno-unused"])


def parse_log(path):
    per, cur = {}, None
    if not os.path.exists(path):
        return per
    for line in open(path):
        w = line.split()
        if not w:
            continue
        if w[0] == "R":
            cur = per.setdefault(int(w[1]), dict(done=False, ev=[], hang=None, fail=[]))
        elif cur is None:
            continue
        elif w[0] == "V":
            cur["ev"].append((int(w[1]), int(w[2]), int(w[3]), int(w[4])))
        elif w[0] == "X":
            cur["hang"] = (int(w[2]), int(w[3]), w[4:])
        elif w[0] == "F":
            cur["fail"].append(" ".join(w[1:]))
        elif w[0] == "Z":
            cur["done"] = True
    return per


class Out:
    def __init__(self, h, cfg):
        self.h, self.cfg, self.status, self.msgs = h, cfg, None, []


def run_batch(drv, cfg, hs, workdir, tag, tq=None):
    outs = [Out(h, cfg) for h in hs]
    todo = list(range(len(hs)))
    rnd = 0
    os.makedirs(workdir, exist_ok=True)
    while todo:
        path = os.path.join(workdir, "%s_%d.txt" % (tag, rnd))
        logp = os.path.join(workdir, "%s_%d.log" % (tag, rnd))
        rnd += 1
        with open(path, "w") as f:
            f.write(file_text(cfg, [hs[i] for i in todo]))
        if os.path.exists(logp):
            os.unlink(logp)
        tqv = tq or cfg.get("tq", 5)
        env = dict(os.environ)
        env.update(core.MPI_ENV)
        env["PARSEC_MCA_mca_sched"] = cfg["sched"]
        with open(logp + ".err", "w") as ef:
            try:
                p = subprocess.run([drv, path, logp, str(cfg["threads"]), str(tqv), str(cfg.get("warmup", 1))], env=env, stdout=ef, stderr=subprocess.STDOUT,
                                   timeout=60 + 8 * tqv + 2 * len(todo), cwd=workdir)
                rc = p.returncode
            except subprocess.TimeoutExpired:
                rc = "timeout"
        tail = "\n".join(l for l in open(logp + ".err", errors="replace").read().splitlines()
                         if not re.match(r"^\[[^\]]*\] (\[ ?\d+\]|\*\*\*)", l))[-900:]
        per = parse_log(logp)
        nxt, culprit = [], None
        for j, i in enumerate(todo):
            lg = per.get(j)
            o = outs[i]
            if lg is not None and lg["done"]:
                vs = judge(hs[i], lg["ev"]) + ["driver: " + x for x in lg["fail"]]
                o.status, o.msgs = ("violation" if vs else "ok"), vs
                o.prefix = [hs[k] for k in todo[:j + 1]]
            elif culprit is None and (lg is not None or rc != 0):
                culprit = j
                o.prefix = [hs[k] for k in todo[:j + 1]]
                if rc == "timeout":
                    o.status, o.msgs = "inconclusive", ["wall-clock timeout of the process while this history was running"]
                elif lg is not None and lg["hang"] and lg["hang"][1] > 0:
                    o.status = "hang"
                    o.msgs = ["quiescent with %d task execution(s) of added pools missing at item %d: %s" % (lg["hang"][1], lg["hang"][0], " ".join(lg["hang"][2][:12]))]
                elif lg is not None and lg["hang"]:
                    o.status, o.msgs = "inconclusive", ["no progress at item %d although every task of the added pools ran" % lg["hang"][0]]
                else:
                    o.status, o.msgs = "crash", ["process died (rc=%s) while running this history: %s" % (rc, tail[-600:])]
            else:
                nxt.append(i)
        if culprit is None and nxt:
            for i in nxt:
                outs[i].status, outs[i].msgs = "inconclusive", ["process ended (rc=%s) before this history: %s" % (rc, tail[-200:])]
            nxt = []
        todo = nxt
    return outs


def confirm(drv, o, workdir, tries=3):
    cfg = dict(o.cfg)
    fails, first = 0, ""
    ran = 0
    for n in range(tries):
        tq = cfg.get("tq", 5) * (2 ** n if o.status == "hang" else 1)
        one = run_batch(drv, cfg, [o.h], workdir, "c%d" % n, tq=tq)[0]
        ran += 1
        if one.status in ("violation", "crash", "hang"):
            fails += 1
            first = first or "; ".join(one.msgs)[:300]
            if o.status != "hang":
                break
        elif o.status == "hang":
            break
    note = "found as: %s: %s\nalone: failed %d of %d fresh runs" % (o.status, " | ".join(o.msgs)[:500], fails, ran)
    if o.status == "hang":
        if fails == tries:
            return True, o.msgs[0] + " [confirmed in %d/%d solitary replays, tq doubled each time]" % (fails, tries), file_text(cfg, [o.h], note)
        return False, "", None
    if fails:
        return True, "%s [reproduced alone: %s]" % ("; ".join(o.msgs)[:500], first), file_text(cfg, [o.h], note)
    pre = getattr(o, "prefix", None) or [o.h]
    if o.status == "violation":
        return True, "%s [seen once in its batch; not reproduced alone]" % "; ".join(o.msgs)[:500], file_text(cfg, pre, note)
    if len(pre) > 1:
        again = run_batch(drv, cfg, pre, workdir, "pre")
        if again[-1].status in ("violation", "crash", "hang"):
            return True, "%s [only with the %d preceding histories of the same process]" % ("; ".join(o.msgs)[:500], len(pre) - 1), file_text(cfg, pre, note)
    return False, "", None


def run(tier, seed, res):
    drv = _build()
    quick = tier == "quick"
    res.rule = RULE
    res.assumptions = ["taskpool_wait is only called on pools the main thread added itself (a child pool may not be registered yet)",
                       "DTD pools are added after context_start and freed after the epoch's context_wait; PTG pools may be added before the start",
                       "DTD pools have no completion-callback children (their callback legitimately runs once per wait cycle)",
                       "taskpool_test / context_test are used as perturbation only (their return values are not part of the statement)",
                       "every process first runs one empty epoch (context_start + context_wait): taskpool_wait/_test before the first "
                       "context_wait of a process crash (known finding, corpus/C06/regress/wait_before_first_context_wait.txt)",
                       "schedulers %s excluded (known finding, see C03) unless VF_DTD_SCHED_ALL=1" % ",".join(g.LIVELOCK_SCHEDS)]
    n = 1200 if quick else 8000
    per = 15 if quick else 40
    hs = g.generate(histories(), n, seed)
    nb = (n + per - 1) // per
    cfgs = g.generate(g.proc_cfgs(ranks=1, tmin=1, tmax=16), nb, seed * 131 + 7)
    batches = [(dict(cfgs[i % len(cfgs)], tq=5 if quick else 20), hs[i::nb]) for i in range(nb)]
    batches.sort(key=lambda b: -b[0]["threads"])
    rd = core.run_dir(PROP)
    t0 = time.time()
    with ThreadPoolExecutor(max_workers=max(2, min(8, core.NCPU // 2))) as ex:
        results = list(ex.map(lambda ib: run_batch(drv, ib[1][0], ib[1][1], os.path.join(rd, "b%03d" % ib[0]), "b"), enumerate(batches)))
    core.log("%s: %d processes (%d histories) in %.0fs" % (PROP, len(batches), n, time.time() - t0))
    labels = res.coverage.setdefault("labels", {})

    def lab(k, c=1):
        labels[k] = labels.get(k, 0) + c
    hashes = set()
    bad = []
    for (cfg, _), outs in zip(batches, results):
        for o in outs:
            f = feats(o.h)
            res.evaluations += 1
            lab("status:" + o.status)
            lab("sched:" + cfg["sched"])
            lab("threads:%s" % ("1" if cfg["threads"] == 1 else "2-3" if cfg["threads"] < 4 else "4-7" if cfg["threads"] < 8 else "8-16"))
            lab("epochs:%d" % f["epochs"])
            for k in ("cb", "fromtask", "dtd", "ptg", "big"):
                if f[k]:
                    lab({"cb": "pool_added_from_callback", "fromtask": "pool_added_from_task", "dtd": "has_dtd_pool", "ptg": "has_ptg_pool",
                         "big": "pool_ge_20_tasks"}[k])
            if f["waits"]:
                lab("has_taskpool_wait")
            if o.status == "ok" and f["epochs"] >= 2 and f["child"] and f["big"] and cfg["threads"] >= 2:
                hashes.add(hashlib.sha1(text(o.h).encode()).hexdigest())
            if o.status in ("violation", "crash", "hang"):
                bad.append(o)
            if len(res.samples) < 5 and o.status == "ok" and len(o.h["items"]) <= 10 and f["child"]:
                res.samples.append(file_text(cfg, [o.h]))
    res.distinct_nontrivial = len(hashes)
    for n_, o in enumerate(bad[:6]):
        isv, msg, txt = confirm(drv, o, os.path.join(rd, "confirm%d" % n_))
        if isv:
            res.violations.append(core.Violation(msg, replay_text=txt))
        else:
            lab("unconfirmed_" + o.status)
    import glob
    st_ = {}
    for pth in sorted(glob.glob(os.path.join(core.VERIF, "corpus", PROP, "regress", "*.txt"))):
        ok, msg = replay(pth, tries=1)
        st_[os.path.basename(pth)] = "passes now" if ok else "still fails"
        if not ok:
            res.known.append("%s still reproduces (excluded from generation): %s" % (os.path.basename(pth), msg.splitlines()[0][:160]))
    res.coverage["regress"] = st_
    if quick and res.distinct_nontrivial < FLOOR_QUICK and not res.violations:
        res.inconclusive = "only %d non-trivial histories (floor %d)" % (res.distinct_nontrivial, FLOOR_QUICK)


def replay(path, tries=3):
    drv = _build()
    cfg, hs = parse_file(open(path).read())
    wd = os.path.join(core.run_dir("C06replay"), hashlib.sha1(path.encode()).hexdigest()[:8])
    bad = []
    for n in range(tries):
        for i, o in enumerate(run_batch(drv, cfg, hs, wd, "rp%d" % n)):
            if o.status in ("violation", "crash", "hang"):
                bad.append("run %d history %d: %s: %s" % (n, i, o.status, "; ".join(o.msgs)[:500]))
    return (not bad), ("\n".join(bad[:4]) if bad else "all runs passed")
