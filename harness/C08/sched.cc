// C08 -- Schedulers never lose or duplicate a ready task.
//
// One process = one (scheduler module, number of streams): parsec_init(n, --mca mca_sched <mod>), the context is never
// started (the runtime's workers stay parked), harness threads impersonate the execution streams and drive the installed
// module through the entry points the runtime itself uses:
//   S  module.schedule(own stream, ring, distance)            (__parsec_schedule as release_deps / AGAIN paths do)
//   V  __parsec_schedule_vp(own stream, rings, distance)      (distance 0: keeps the best task in es->next_task, rest to own
//                                                              stream; distance > 0: everything to stream 0 of the VP)
//   N  __parsec_schedule_vp(NULL, rings, distance)            (foreign submission -> stream 0 of the VP)
//   C  comm-thread impersonator: __parsec_schedule_vp(comm_es) (scheduler_object == NULL -> stream 0)
//   G  __parsec_get_next_task: es->next_task, else module.select(own stream)
//   A  reschedule the last selected task as __parsec_task_progress does on HOOK_RETURN_AGAIN (demote, distance + 1)
//   X  __parsec_reschedule(own stream, task) -> next stream (only with C08_NEXT_TARGET=1; see check.py)
// oracle: every scheduling instance is returned exactly once (checked at return time), by a stream of the same VP, and a
// sequential drain over all streams after the concurrent phase leaves nothing behind.
// modes: rc <mod> <n> [<nvp> <tpv>] | exh <mod> | stress <mod> <T> <iters> <seed> [<nvp> <tpv>] | replay <file>
//   F  module.schedule(stream 0 of another VP) and per-VP rings in V/N/C exist when the context has several virtual processes
//      (--mca runtime_vpmap rr:<nvp>:<tpv>:<cores>); the oracle then checks 'returned by a stream of the VP it was handed to'
#include <algorithm>
#include <atomic>
#include <climits>
#include <thread>
#include <unordered_map>
#include "vf.hpp"
#include "dsched.hpp"
#include <rapidcheck.h>

extern "C" {
int ss_init(int, const char *); const char *ss_sched_name(void); int ss_nb_vp(void); int ss_nb_streams(int);
void *ss_es(int, int); int ss_es_vp(void *); void ss_bind_thread(void *);
void *ss_task_new(int); void ss_task_set(void *, int, int, int); int ss_task_id(void *); int ss_task_stamp_ok(void *);
void *ss_make_ring(void **, int); int ss_schedule(void *, void *, int); void *ss_select(void *, int *);
void *ss_comm_es(void); void *ss_take_next_task(void *); int ss_schedule_vp(void *, int, void *, int);
int ss_init_vp(int, const char *, int, int); int ss_schedule_vp_rings(void *, void **, int);
int ss_reschedule(void *, void *); void ss_demote(void *); int ss_lq_info(void *, int *, int *); int ss_fini(void);
}

static const int POOL = 4096;
static std::vector<void *> g_task;                      // harness-owned tasks, id == index
static std::unordered_map<void *, int> g_index;         // pointer -> id (lookup only, never iterated)
static std::string g_mod; static int g_n = 0;        // g_n = total number of streams = g_nvp * g_tpv
static int g_nvp = 1, g_tpv = 0;                        // virtual processes, streams per VP (stream s = (vp s / g_tpv, local s % g_tpv))
static int g_nb_hq = -1, g_tq_size = -1;                // bounded-buffer geometry (lfq lhq ltq pbq), else -1
static bool g_allow_next = false;
static bool g_failed_before = false;                    // an earlier case of this process failed: leftovers are possible

struct Op {
    char kind = 'G'; int dist = 0; int hp = 0;
    int tvp = 0;                                         // F: the virtual process whose stream 0 gets the ring
    std::vector<int> prio, grp, vp;                      // ring, in ring order (non-increasing priority); vp: destination VP (V N C)
};
struct Case {
    std::string mod; int n = 2; int sparse = 0; int nvp = 1, tpv = 0;
    int pre = 0;                                         // tasks put on stream 0 sequentially before the threads start
    std::vector<std::vector<Op>> prog;                   // n stream threads, then optionally one comm-thread program
    std::vector<uint8_t> sched;
    bool has_comm() const { return (int)prog.size() == n + 1; }
    std::string repr() const {
        std::ostringstream o;
        o << "C08 mod " << mod << " n " << n << " threads " << prog.size() << " sparse " << sparse << " pre " << pre << " nvp " << nvp << " tpv " << (tpv ? tpv : n) << "\n";
        for (auto &p : prog) {
            o << "thread\n";
            for (auto &op : p) {
                o << "op " << op.kind << " dist " << op.dist << " hp " << op.hp << " tvp " << op.tvp << " ring";
                for (size_t i = 0; i < op.prio.size(); i++) o << " " << op.prio[i] << ":" << op.grp[i] << ":" << (i < op.vp.size() ? op.vp[i] : 0);
                o << "\n";
            }
        }
        o << "sched"; for (uint8_t b : sched) o << " " << (int)b; o << "\n";
        return o.str();
    }
    static Case parse(const std::string &s) {
        Case c; std::istringstream in(s); std::string line;
        while (std::getline(in, line)) {
            std::istringstream ls(line); std::string w; ls >> w;
            if (w == "C08") { std::string k, v; while (ls >> k >> v) { if (k == "mod") c.mod = v; else if (k == "n") c.n = atoi(v.c_str()); else if (k == "sparse") c.sparse = atoi(v.c_str()); else if (k == "pre") c.pre = atoi(v.c_str()); else if (k == "nvp") c.nvp = atoi(v.c_str()); else if (k == "tpv") c.tpv = atoi(v.c_str()); } if (c.tpv <= 0) c.tpv = c.n; }
            else if (w == "thread") c.prog.emplace_back();
            else if (w == "op" && !c.prog.empty()) {
                Op op; std::string k; ls >> k; op.kind = k.empty() ? 'G' : k[0];
                std::string kw; int v;
                while (ls >> kw && kw != "ring") { ls >> v; if (kw == "dist") op.dist = v; else if (kw == "hp") op.hp = v; else if (kw == "tvp") op.tvp = v; }
                std::string tok;
                while (ls >> tok) {
                    int f[3] = {0, 0, 0}; size_t at = 0;
                    for (int q = 0; q < 3 && at <= tok.size(); q++) { size_t e = tok.find(':', at); f[q] = atoi(tok.substr(at, e == std::string::npos ? std::string::npos : e - at).c_str()); if (e == std::string::npos) break; at = e + 1; }
                    op.prio.push_back(f[0]); op.grp.push_back(f[1]); op.vp.push_back(f[2]);
                }
                c.prog.back().push_back(op);
            }
            else if (w == "sched") { int x; while (ls >> x) c.sched.push_back((uint8_t)x); }
        }
        return c;
    }
};

struct RunInfo {
    bool nontrivial = false, long_ring = false, same_target_overlap = false, retained = false;
    bool per_vp_rings = false; int foreign_vp = 0;       // one call carried rings for >= 2 VPs; tasks handed to a VP other than the caller's
    uint64_t steps = 0; int scheduled = 0, from_sysq = 0, stolen = 0, again = 0, null_selects = 0, drained = 0, stale = 0;
};

enum { ST_FREE = 0, ST_PENDING = 1, ST_HELD = 2 };

struct SchedRec { int thread, target; uint64_t inv, resp; };

// Runs the case (the process's module / stream count must match); "" when the property held.
static std::string run_case(const Case &c, dsched::Chooser &ch, RunInfo *ri)
{
    const int n = c.n, T = (int)c.prog.size(), nvp = g_nvp, tpv = g_tpv;
    std::vector<void *> es(n);
    for (int i = 0; i < n; i++) es[i] = ss_es(i / tpv, i % tpv);
    void *comm = c.has_comm() ? ss_comm_es() : nullptr;
    // leftovers of an earlier *failed* case in this process (shrinking continues in the same process) are removed first
    {
        int d;
        for (int i = 0; i < n; i++) { ss_bind_thread(es[i]); if (ss_take_next_task(es[i])) ri->stale++; }
        for (int pass = 0, guard = 0; pass < 2 && guard < 3 * POOL; ) {
            bool any = false;
            for (int i = 0; i < n; i++) { ss_bind_thread(es[i]); while (ss_select(es[i], &d)) { any = true; ri->stale++; if (++guard >= 3 * POOL) break; } }
            pass = any ? 0 : pass + 1;
        }
        ss_bind_thread(es[0]);
        if (ri->stale && !g_failed_before) return "the scheduler was not empty before the case although every earlier case drained completely";
    }
    // assign tasks to the schedule ops
    int next_id = 0;
    std::vector<std::vector<std::vector<int>>> ids(T);
    for (int t = 0; t < T; t++) {
        ids[t].resize(c.prog[t].size());
        for (size_t k = 0; k < c.prog[t].size(); k++) {
            const Op &op = c.prog[t][k];
            if (op.kind == 'S' || op.kind == 'V' || op.kind == 'N' || op.kind == 'C' || op.kind == 'F' || t == n)
                for (size_t i = 0; i < op.prio.size(); i++) {
                    if (next_id >= POOL) return "";   // generator bound; not reachable with the generator's limits
                    ss_task_set(g_task[next_id], op.prio[i], op.grp[i], op.hp);
                    ids[t][k].push_back(next_id++);
                }
        }
    }
    std::vector<int> pre_ids;
    for (int i = 0; i < c.pre && next_id < POOL; i++) { ss_task_set(g_task[next_id], 1 - (i % 60), 0, 0); pre_ids.push_back(next_id++); }
    const int ntasks = next_id;
    std::vector<int> state(ntasks, ST_FREE), returns(ntasks, 0), scheduled_cnt(ntasks, 0), sched_vp(ntasks, 0);
    std::vector<std::string> where(ntasks);
    std::vector<SchedRec> recs;
    std::string err;
    int pending = 0;
    auto fail = [&](const std::string &m) { if (err.empty()) err = m; };
    auto on_return = [&](void *t, int stream, const char *how) -> int {
        auto it = g_index.find(t);
        if (it == g_index.end() || !ss_task_stamp_ok(t)) { fail(std::string(how) + " on stream " + std::to_string(stream) + " returned a pointer that is not a task of the harness"); return -1; }
        int id = it->second;
        if (id >= ntasks) { if (g_failed_before) { ri->stale++; return -1; } fail(std::string(how) + " on stream " + std::to_string(stream) + " returned task " + std::to_string(id) + " which was never scheduled in this case"); return -1; }
        if (state[id] != ST_PENDING) {
            fail(std::string(how) + " on stream " + std::to_string(stream) + " returned task " + std::to_string(id) + " which is not pending (" +
                 (state[id] == ST_HELD ? "already returned once: duplicate" : "never scheduled") + "; " + where[id] + ")");
            return -1;
        }
        if (ss_es_vp(es[stream]) != sched_vp[id])
            fail("task " + std::to_string(id) + " was handed to virtual process " + std::to_string(sched_vp[id]) + " (" + where[id] + ") but " + how + " returned it on stream " +
                 std::to_string(stream) + " of virtual process " + std::to_string(ss_es_vp(es[stream])));
        state[id] = ST_HELD; returns[id]++; pending--;
        return id;
    };
    auto mark_scheduled = [&](const std::vector<int> &ring, int t, size_t k, char kind, int dist, int target) {
        for (int id : ring) {
            state[id] = ST_PENDING; scheduled_cnt[id]++; pending++; sched_vp[id] = target / tpv;
            where[id] = std::string("scheduled by thread ") + std::to_string(t) + " op " + std::to_string(k) + " kind " + kind + " dist " + std::to_string(dist) + " target stream " + std::to_string(target);
        }
        ri->scheduled += (int)ring.size();
        if (t >= 0 && t < n && target / tpv != t / tpv) ri->foreign_vp += (int)ring.size();
        if ((int)ring.size() > (g_tq_size > 0 ? g_tq_size : 4 * n)) ri->long_ring = true;
    };

    for (size_t at = 0; at < pre_ids.size(); at += 60) {      // sequential pre-fill of stream 0, in rings of <= 60
        std::vector<int> chunk(pre_ids.begin() + at, pre_ids.begin() + std::min(pre_ids.size(), at + 60));
        std::vector<void *> ptr; for (int id : chunk) ptr.push_back(g_task[id]);
        mark_scheduled(chunk, -1, at / 60, 'S', 0, 0);
        ss_schedule(es[0], ss_make_ring(ptr.data(), (int)ptr.size()), 0);
    }
    std::vector<std::function<void()>> bodies;
    for (int t = 0; t < T; t++) {
        bodies.push_back([&, t]() {
            const bool is_comm = (t == n);
            void *me = is_comm ? comm : es[t];
            ss_bind_thread(me);
            std::vector<std::pair<int, int>> held;   // (task id, distance it was selected at)
            for (size_t k = 0; k < c.prog[t].size(); k++) {
                if (!err.empty()) break;
                const Op &op = c.prog[t][k];
                char kind = op.kind;
                if (is_comm) kind = 'C';
                if (kind == 'S' || kind == 'F') {
                    const std::vector<int> &ring = ids[t][k];
                    if (ring.empty()) continue;
                    std::vector<void *> ptr; for (int id : ring) ptr.push_back(g_task[id]);
                    void *r = ss_make_ring(ptr.data(), (int)ptr.size());
                    int target = kind == 'S' ? t : (op.tvp % nvp) * tpv;       // F: stream 0 of a (possibly foreign) VP, as __parsec_schedule_vp does
                    mark_scheduled(ring, t, k, kind, op.dist, target);
                    SchedRec sr{t, target, dsched::now(), 0};
                    ss_schedule(es[target], r, op.dist);
                    sr.resp = dsched::now() + 1; recs.push_back(sr);
                } else if (kind == 'V' || kind == 'N' || kind == 'C') {
                    const std::vector<int> &ring = ids[t][k];
                    if (ring.empty()) continue;
                    int dist = (kind == 'C') ? 0 : op.dist;
                    int myvp = is_comm ? 0 : t / tpv;
                    // one ring per destination VP (a sub-sequence of a sorted ring is sorted)
                    std::vector<std::vector<int>> sub(nvp);
                    for (size_t i = 0; i < ring.size(); i++) sub[(i < op.vp.size() ? op.vp[i] : 0) % nvp].push_back(ring[i]);
                    std::vector<void *> rings(nvp, nullptr); int nrings = 0;
                    uint64_t inv = dsched::now(); size_t first_rec = recs.size();
                    for (int v = 0; v < nvp; v++) {
                        if (sub[v].empty()) continue;
                        std::vector<void *> ptr; for (int id : sub[v]) ptr.push_back(g_task[id]);
                        rings[v] = ss_make_ring(ptr.data(), (int)ptr.size()); nrings++;
                        int target = (kind == 'V' && dist == 0 && v == myvp) ? t : v * tpv;   // own VP at distance 0: next_task + own stream
                        mark_scheduled(sub[v], t, k, kind, dist, target);
                        recs.push_back(SchedRec{t, target, inv, 0});
                    }
                    if (nrings >= 2) ri->per_vp_rings = true;
                    ss_schedule_vp_rings(kind == 'N' ? nullptr : me, rings.data(), dist);
                    for (size_t q = first_rec; q < recs.size(); q++) recs[q].resp = dsched::now() + 1;
                } else if (kind == 'G') {
                    int d = 0; const char *how = "select";
                    void *r = ss_take_next_task(me);
                    if (r) { d = 1; how = "next_task"; ri->retained = true; } else r = ss_select(me, &d);
                    if (!r) { ri->null_selects++; continue; }
                    int id = on_return(r, t, how);
                    if (id < 0) continue;
                    held.push_back({id, d});
                    if (g_nb_hq >= 0 && d == g_nb_hq + 1) ri->from_sysq++;
                    else if (d > 0 && how[0] == 's') ri->stolen++;
                } else if (kind == 'A' || kind == 'X') {
                    if (held.empty() || (kind == 'X' && !g_allow_next)) continue;
                    auto h = held.back(); held.pop_back();
                    int target = t;
                    if (kind == 'X') {   // __parsec_reschedule: next stream of the own VP; a 1-stream VP hands over to stream 0 of the next VP
                        if (tpv != 1) target = (t / tpv) * tpv + (t % tpv + 1) % tpv;
                        else if (nvp > 1) target = ((t + 1) % nvp) * tpv;
                    }
                    mark_scheduled({h.first}, t, k, kind, kind == 'A' ? h.second + 1 : 0, target);
                    ri->again++;
                    SchedRec sr{t, target, dsched::now(), 0};
                    if (kind == 'A') { ss_demote(g_task[h.first]); ss_schedule(me, g_task[h.first], h.second + 1); }
                    else ss_reschedule(me, g_task[h.first]);
                    sr.resp = dsched::now() + 1; recs.push_back(sr);
                }
            }
        });
    }
    dsched::Outcome out = dsched::run(bodies, ch, 400000);
    ri->steps = out.steps;
    // sequential drain: every stream in turn (a stream only sees its own hierarchy), until one complete pass finds nothing
    if (err.empty()) {
        int d, guard = 0;
        for (int i = 0; i < n && err.empty(); i++) { void *r = ss_take_next_task(es[i]); if (r) { ri->retained = true; if (on_return(r, i, "next_task (drain)") >= 0) ri->drained++; } }
        for (int pass = 0; pass < 1 && err.empty(); ) {
            bool any = false;
            for (int i = 0; i < n && err.empty(); i++) {
                ss_bind_thread(es[i]);
                while (void *r = ss_select(es[i], &d)) {
                    any = true;
                    if (on_return(r, i, "select (drain)") >= 0) ri->drained++;
                    if (g_nb_hq >= 0 && d == g_nb_hq + 1) ri->from_sysq++;
                    if (!err.empty() || ++guard > ntasks + 8) break;
                }
            }
            if (guard > ntasks + 8) fail("the drain returns more tasks than were ever scheduled");
            pass = any ? 0 : pass + 1;
        }
        ss_bind_thread(es[0]);
    }
    if (err.empty() && pending != 0) {
        for (int id = 0; id < ntasks; id++) if (state[id] == ST_PENDING) { fail("task " + std::to_string(id) + " was lost: " + where[id] + "; never returned, all streams report empty after the drain (" + std::to_string(pending) + " pending in total)"); break; }
    }
    for (size_t i = 0; i < recs.size() && !ri->same_target_overlap; i++) for (size_t j = i + 1; j < recs.size(); j++)
        if (recs[i].thread != recs[j].thread && recs[i].target == recs[j].target && recs[i].inv < recs[j].resp && recs[j].inv < recs[i].resp) { ri->same_target_overlap = true; break; }
    ri->nontrivial = ri->long_ring || ri->same_target_overlap;
    if (!err.empty()) g_failed_before = true;
    return err;
}

// ByteChooser with a fair tail.  dsched::ByteChooser answers 0 once its bytes are used up; with >= 3 threads and a spin
// lock whose failed attempts are atomic operations, two spinning threads then hand the baton to each other forever while
// the lock holder starves (a strict round-robin index has the same problem by parity).  Here a blocked thread hands over
// to a runnable thread picked by an LCG that is seeded from the case's own schedule bytes: deterministic per case, and
// every runnable thread is picked with probability 1.
struct FairChooser : dsched::ByteChooser {
    uint64_t x;
    FairChooser(const uint8_t *b, size_t n, int sparse) : dsched::ByteChooser(b, n, sparse) {
        x = 88172645463325252ULL; for (size_t i = 0; i < n; i++) x = (x ^ b[i]) * 1099511628211ULL;
    }
    int choose(int k, bool cur, int kind, volatile void *addr) override {
        if (pos < n) return dsched::ByteChooser::choose(k, cur, kind, addr);
        if (cur) return 0;
        x = x * 6364136223846793005ULL + 1442695040888963407ULL;
        return (int)((x >> 33) % (uint64_t)k);
    }
};

static std::string g_current;
static void fatal_hook(const char *what) { vf::record_failure(g_current, what); vf::dump(); }

static void setup(const std::string &mod, int n, int nvp = 1, int tpv = 0)
{
    if (nvp <= 1) { nvp = 1; tpv = n; }
    n = nvp * tpv;
    int rc = ss_init_vp(n, mod.c_str(), nvp, tpv);
    if (rc != 0 || mod != ss_sched_name() || ss_nb_vp() != nvp || ss_nb_streams(0) != tpv) {
        fprintf(stderr, "C08: cannot bring up module %s with %d VP x %d streams (rc=%d installed=%s vps=%d streams=%d)\n", mod.c_str(), nvp, tpv, rc, rc ? "?" : ss_sched_name(), rc ? -1 : ss_nb_vp(), rc ? -1 : ss_nb_streams(0));
        _exit(4);
    }
    g_nvp = nvp; g_tpv = tpv;
    g_mod = mod; g_n = n;
    g_task.resize(POOL);
    for (int i = 0; i < POOL; i++) { g_task[i] = ss_task_new(i); g_index[g_task[i]] = i; }
    if (mod == "lfq" || mod == "lhq" || mod == "ltq" || mod == "pbq") ss_lq_info(ss_es(0, 0), &g_nb_hq, &g_tq_size);
    const char *e = getenv("C08_NEXT_TARGET"); g_allow_next = e && *e == '1';
}

static void labels(const Case &c, const RunInfo &ri)
{
    vf::label("threads_" + std::to_string(c.prog.size()));
    if (g_nvp > 1) {
        vf::label("multi_vp_cases_nvp" + std::to_string(g_nvp) + "x" + std::to_string(g_tpv));
        if (ri.per_vp_rings) vf::label("multi_vp_one_call_with_rings_for_several_vps");
        if (ri.foreign_vp) vf::label("multi_vp_cases_handing_tasks_to_a_foreign_vp"), vf::label("multi_vp_tasks_handed_to_a_foreign_vp", ri.foreign_vp);
    }
    if (c.has_comm()) vf::label("with_comm_thread");
    if (ri.long_ring) vf::label("ring_longer_than_local_buffer");
    if (c.pre) vf::label("prefilled_local_buffer");
    if (ri.same_target_overlap) vf::label("concurrent_schedules_same_target");
    if (ri.retained) vf::label("next_task_retained");
    if (ri.from_sysq) vf::label("cases_with_overflow_to_system_queue"), vf::label("tasks_from_system_queue", ri.from_sysq);
    if (ri.stolen) vf::label("cases_with_steal");
    if (ri.again) vf::label("cases_with_reschedule");
    vf::label("dsched_steps", ri.steps);
    vf::label("tasks_scheduled", ri.scheduled);
    vf::label("tasks_left_for_drain", ri.drained);
}

// ------------------------------------------------------------------ generators
static rc::Gen<Op> gen_ring_op(char kind)
{
    return rc::gen::exec([kind]() {
        Op op; op.kind = kind;
        int cls = *rc::gen::resize(100, rc::gen::inRange(0, 20));
        int len = cls < 11 ? *rc::gen::resize(100, rc::gen::inRange(1, 5)) : cls < 16 ? *rc::gen::resize(100, rc::gen::inRange(5, 17)) : *rc::gen::resize(100, rc::gen::inRange(17, 65));
        int dcls = *rc::gen::resize(100, rc::gen::inRange(0, 10));
        op.dist = dcls < 6 ? 0 : *rc::gen::resize(100, rc::gen::inRange(1, 4));
        op.hp = *rc::gen::resize(100, rc::gen::inRange(0, 8)) == 0;
        bool wide = *rc::gen::resize(100, rc::gen::inRange(0, 4)) == 0;
        // one generator per ring (a generator call per task made generation dominate the run time): value = priority x group x VP
        const int NV = g_nvp, P = wide ? 2001 : 7;
        std::vector<int> v = *rc::gen::container<std::vector<int>>((size_t)len, rc::gen::resize(100, rc::gen::inRange(0, P * 3 * NV)));
        std::stable_sort(v.begin(), v.end(), [NV](int a, int b) { return a / (3 * NV) > b / (3 * NV); });
        bool own_only = NV > 1 && *rc::gen::resize(100, rc::gen::inRange(0, 3)) == 0;     // sometimes everything for one VP
        int one = NV > 1 ? *rc::gen::resize(100, rc::gen::inRange(0, NV)) : 0;
        for (int x : v) { op.prio.push_back(x / (3 * NV) - (wide ? 1000 : 3)); op.grp.push_back((x / NV) % 3); op.vp.push_back(own_only ? one : x % NV); }
        op.tvp = one;
        return op;
    });
}

static Case gen_case()
{
    Case c; c.mod = g_mod; c.n = g_n; c.nvp = g_nvp; c.tpv = g_tpv;
    bool comm = *rc::gen::resize(100, rc::gen::inRange(0, 3)) == 0;
    c.sparse = *rc::gen::element(0, 128, 200, 240, 240);
    if (g_tq_size > 0) {   // bounded local buffers: sometimes start from a nearly full / just overflowing buffer on stream 0
        int w = *rc::gen::resize(100, rc::gen::inRange(0, 6));
        c.pre = w < 3 ? 0 : w == 3 ? std::max(0, g_tq_size - 3) : w == 4 ? g_tq_size : g_tq_size + 7;
    }
    int T = c.n + (comm ? 1 : 0);
    c.prog.resize(T);
    for (int t = 0; t < T; t++) {
        int nops = (t == c.n) ? *rc::gen::resize(100, rc::gen::inRange(1, 4)) : *rc::gen::resize(100, rc::gen::inRange(1, 8));
        for (int k = 0; k < nops; k++) {
            if (t == c.n) { c.prog[t].push_back(*gen_ring_op('C')); continue; }
            int w = *rc::gen::resize(100, rc::gen::inRange(g_nvp > 1 ? -2 : 0, g_allow_next ? 14 : 13));
            char kind = w < 0 ? 'F' : w < 3 ? 'S' : w < 5 ? 'V' : w < 7 ? 'N' : w < 11 ? 'G' : w < 13 ? 'A' : 'X';
            if (kind == 'G' || kind == 'A' || kind == 'X') { Op op; op.kind = kind; c.prog[t].push_back(op); }
            else c.prog[t].push_back(*gen_ring_op(kind));
        }
    }
    int sl = *rc::gen::resize(100, rc::gen::inRange(0, 400));
    c.sched = *rc::gen::container<std::vector<uint8_t>>((size_t)sl, rc::gen::resize(100, rc::gen::arbitrary<uint8_t>()));
    return c;
}

// ------------------------------------------------------------------ exhaustive: tiny 2-thread programs, all schedules
// thread 0 (stream 0) and thread 1 (stream 1) run one op each from the alphabet below, with `pre` tasks already pending on
// stream 0; every interleaving at atomic-operation granularity with at most `pb` preemptions is executed.
static int do_exh(int pb)
{
    struct Alt { char kind; int len; int dist; };
    const Alt alpha[] = { {'S', 2, 0}, {'N', 2, 0}, {'N', 1, 1}, {'G', 0, 0}, {'V', 2, 0} };
    const int NA = sizeof(alpha) / sizeof(alpha[0]);
    uint64_t execs = 0; bool truncated = false;
    for (int pre = 0; pre <= 2; pre += 2) for (int a = 0; a < NA; a++) for (int b = 0; b < NA; b++) {
        Case c; c.mod = g_mod; c.n = 2; c.prog.resize(2); c.pre = pre;
        auto mk = [](const Alt &x, int base) { Op op; op.kind = x.kind; op.dist = x.dist; for (int i = 0; i < x.len; i++) { op.prio.push_back(base - i); op.grp.push_back(0); } return op; };
        c.prog[0].push_back(mk(alpha[a], 2)); c.prog[1].push_back(mk(alpha[b], 1));
        dsched::DfsChooser d(pb, 600);
        uint64_t n0 = 0; bool any_nt = false;
        do {
            d.begin();
            g_current = c.repr();
            RunInfo ri; std::string e = run_case(c, d, &ri);
            execs++; n0++; any_nt = any_nt || ri.nontrivial;
            if (!e.empty()) {
                Case f = c; f.sparse = -1;
                for (size_t k = 0; k < d.depth && k < d.stack.size(); k++) f.sched.push_back((uint8_t)d.stack[k].chosen);
                vf::record_failure(f.repr(), e); vf::R().evaluations += execs; vf::dump(); return 1;
            }
            if (n0 > 200000) { truncated = true; break; }
        } while (d.next());
        truncated = truncated || d.truncated;
        vf::note_case(c.repr() + "#schedules " + std::to_string(n0) + "\n", any_nt);
        vf::R().evaluations += n0 - 1;
        vf::label("schedules_enumerated", n0);
    }
    vf::R().extra["exh_truncated_" + g_mod] = truncated ? "true" : "false";
    if (g_tq_size > 0) vf::R().extra["local_buffer_size_" + g_mod + "_n2"] = std::to_string(g_tq_size);
    vf::dump();
    return 0;
}

// ------------------------------------------------------------------ free-running stress
static int do_stress(int T, long iters, unsigned seed)
{
    // every thread owns a private stock of free tasks; ownership of a task moves to whoever selects it
    std::vector<std::atomic<int>> state(POOL);
    for (auto &s : state) s = ST_FREE;
    std::vector<std::vector<int>> stock(T);
    int per = std::min(POOL / T, 160);
    for (int t = 0; t < T; t++) for (int k = 0; k < per; k++) stock[t].push_back(t * per + k);
    std::atomic<int> bad_dup{0}, bad_ptr{0}, bad_vp{0}; std::atomic<long> nsched{0}, nret{0}, sysq{0}, overflow_rings{0}, foreign{0};
    std::vector<std::atomic<int>> vp_of(POOL);         // the virtual process each pending task was handed to
    for (auto &v : vp_of) v = 0;
    const int nvp = g_nvp, tpv = g_tpv;
    std::vector<void *> es(T); for (int t = 0; t < T; t++) es[t] = ss_es(t / tpv, t % tpv);
    auto got = [&](void *r, int t) -> bool {
        auto it = g_index.find(r);
        if (it == g_index.end() || !ss_task_stamp_ok(r)) { bad_ptr++; return false; }
        int want_vp = vp_of[it->second].load();
        if (state[it->second].exchange(ST_HELD) != ST_PENDING) { bad_dup++; return false; }
        if (want_vp != t / tpv) bad_vp++;
        stock[t].push_back(it->second); nret++; return true;
    };
    auto worker = [&](int t, bool drain_only) {
        ss_bind_thread(es[t]);
        uint64_t x = seed * 7919u + t * 104729u + 1;
        auto rnd = [&](int m) { x = x * 6364136223846793005ULL + 1442695040888963407ULL; return (int)((x >> 33) % (uint64_t)m); };
        auto &st = stock[t];
        int empties = 0, want = 1;                                   // length of the next ring: selects accumulate stock until it is there
        for (long i = 0; drain_only ? empties < 64 : i < iters; i++) {
            int op = drain_only ? 9 : rnd(10);
            if (!drain_only && ((int)st.size() >= want || (empties >= 4 && !st.empty())) && op < 6) {
                int len = std::min<int>(want, (int)st.size());
                int cls = rnd(10); want = cls < 5 ? 1 + rnd(4) : cls < 8 ? 5 + rnd(12) : 17 + rnd(48);
                std::vector<int> pr(len); int wide = rnd(3) == 0;
                for (auto &p : pr) p = wide ? rnd(2001) - 1000 : rnd(7) - 3;
                std::sort(pr.begin(), pr.end(), [](int a, int b) { return a > b; });
                std::vector<void *> ptr;
                int hp = rnd(8) == 0;
                int how = rnd(8), dist = rnd(3) == 0 ? 1 + rnd(3) : 0;
                bool split = nvp > 1 && how >= 4 && rnd(3) != 0;      // __parsec_schedule_vp with rings for several VPs
                int onevp = (how >= 4 && nvp > 1) ? rnd(nvp) : t / tpv;
                std::vector<std::vector<void *>> sub(nvp);
                for (int k = 0; k < len; k++) {
                    int id = st.back(); st.pop_back(); ss_task_set(g_task[id], pr[k], rnd(3), hp);
                    int v = how < 4 ? t / tpv : split ? rnd(nvp) : onevp;
                    vp_of[id] = v; if (v != t / tpv) foreign++;
                    if (state[id].exchange(ST_PENDING) == ST_PENDING) bad_dup++;
                    sub[v].push_back(g_task[id]);
                }
                nsched += len; if (len > (g_tq_size > 0 ? g_tq_size : 4 * tpv)) overflow_rings++;
                std::vector<void *> rings(nvp, nullptr);
                for (int v = 0; v < nvp; v++) if (!sub[v].empty()) rings[v] = ss_make_ring(sub[v].data(), (int)sub[v].size());
                if (how < 4) ss_schedule(es[t], rings[t / tpv], dist);
                else if (how < 6) ss_schedule_vp_rings(es[t], rings.data(), how == 4 ? 0 : dist);
                else ss_schedule_vp_rings(nullptr, rings.data(), 0);
                empties = 0;
            } else {
                int d = 0; void *r = ss_take_next_task(es[t]);
                if (!r) r = ss_select(es[t], &d);
                if (!r) { empties++; if (drain_only) std::this_thread::yield(); continue; }
                empties = 0;
                if (!got(r, t)) continue;
                if (g_nb_hq >= 0 && d == g_nb_hq + 1) sysq++;
                if (!drain_only && rnd(6) == 0) {   // HOOK_RETURN_AGAIN
                    int id = st.back(); st.pop_back();
                    vp_of[id] = t / tpv;
                    if (state[id].exchange(ST_PENDING) == ST_PENDING) bad_dup++;
                    nsched++; ss_demote(g_task[id]); ss_schedule(es[t], g_task[id], d + 1);
                }
            }
        }
    };
    for (int phase = 0; phase < 2; phase++) {
        std::vector<std::thread> th;
        for (int t = 0; t < T; t++) th.emplace_back(worker, t, phase == 1);
        for (auto &x : th) x.join();
    }
    // final sequential drain (concurrent selects may legitimately miss tasks)
    int d, guard = 0;
    for (int pass = 0; pass < 1 && guard <= POOL; ) {
        bool any = false;
        for (int t = 0; t < T; t++) {
            ss_bind_thread(es[t]);
            void *r = ss_take_next_task(es[t]); if (r) { any = true; got(r, t); }
            while ((r = ss_select(es[t], &d))) { any = true; got(r, t); if (++guard > POOL) break; }
        }
        pass = any ? 0 : pass + 1;
    }
    ss_bind_thread(es[0]);
    std::string e;
    if (bad_vp) e = "a task was returned by a stream of another virtual process than the one it was handed to (" + std::to_string(bad_vp.load()) + " times)";
    else if (bad_ptr) e = "a select returned a pointer that is not a harness task (" + std::to_string(bad_ptr.load()) + " times)";
    else if (bad_dup) e = "a task was returned while not pending, i.e. returned twice (" + std::to_string(bad_dup.load()) + " times)";
    else if (guard > POOL) e = "the drain returns more tasks than exist";
    else { long lost = 0; int first = -1; for (int i = 0; i < POOL; i++) if (state[i] == ST_PENDING) { lost++; if (first < 0) first = i; }
        if (lost) e = std::to_string(lost) + " scheduled tasks were never returned (first: task " + std::to_string(first) + "), all streams report empty"; }
    std::string repr = "C08-stress mod " + g_mod + " threads " + std::to_string(T) + " iters " + std::to_string(iters) + " seed " + std::to_string(seed) + " nvp " + std::to_string(nvp) + " tpv " + std::to_string(tpv) + "\n";
    vf::note_case(repr, T >= 2);
    if (nvp > 1) { vf::label("stress_multi_vp_runs_nvp" + std::to_string(nvp) + "x" + std::to_string(tpv)); vf::label("stress_multi_vp_tasks_handed_to_a_foreign_vp", foreign); }
    vf::label("stress_tasks_scheduled", nsched); vf::label("stress_tasks_from_system_queue", sysq); vf::label("stress_rings_longer_than_local_buffer", overflow_rings);
    if (!e.empty()) { vf::record_failure(repr, e); vf::dump(); return 1; }
    vf::dump();
    return 0;
}

static int finish(int rc) { fflush(nullptr); if (rc == 0) ss_fini(); _exit(rc); }

int main(int argc, char **argv)
{
    std::string mode = argc > 1 ? argv[1] : "";
    dsched::on_fatal() = fatal_hook;
    if (mode == "replay") {
        std::string txt = vf::slurp(argv[2]);
        if (txt.rfind("C08-stress", 0) == 0) {
            char mod[32]; int T; long it; unsigned sd; int nvp = 1, tpv = 0;
            if (sscanf(txt.c_str(), "C08-stress mod %31s threads %d iters %ld seed %u nvp %d tpv %d", mod, &T, &it, &sd, &nvp, &tpv) < 4) { printf("REPLAY-FAIL unparsable\n"); return 2; }
            setup(mod, T, nvp, tpv);
            int r = 0; for (int k = 0; k < 3 && !r; k++) r = do_stress(T, it, sd);
            printf(r ? "REPLAY-FAIL stress (see the .failmsg / VF_OUT)\n" : "REPLAY-PASS\n"); finish(r);
        }
        Case c = Case::parse(txt);
        setup(c.mod, c.n, c.nvp, c.tpv);
        g_current = c.repr();
        FairChooser ch(c.sched.data(), c.sched.size(), c.sparse);
        RunInfo ri; std::string e = run_case(c, ch, &ri);
        if (e.empty()) { printf("REPLAY-PASS\n"); finish(0); }
        printf("REPLAY-FAIL %s\n", e.c_str()); finish(1);
    }
    if (argc < 3) { fprintf(stderr, "usage: sched rc|exh|stress <module> ...\n"); return 2; }
    if (mode == "exh") { setup(argv[2], 2); finish(do_exh(argc > 3 ? atoi(argv[3]) : 2)); }
    if (mode == "stress") { int T = atoi(argv[3]); setup(argv[2], T, argc > 7 ? atoi(argv[6]) : 1, argc > 7 ? atoi(argv[7]) : 0); T = g_n; finish(do_stress(T, atol(argv[4]), (unsigned)atoi(argv[5]))); }
    setup(argv[2], atoi(argv[3]), argc > 5 ? atoi(argv[4]) : 1, argc > 5 ? atoi(argv[5]) : 0);   // rc <mod> <n> [<nvp> <tpv>]
    bool ok = rc::check("every scheduled task is returned exactly once (" + g_mod + ")", []() {
        Case c = gen_case();
        g_current = c.repr();
        FairChooser ch(c.sched.data(), c.sched.size(), c.sparse);
        RunInfo ri; std::string e = run_case(c, ch, &ri);
        vf::note_case(g_current, ri.nontrivial);
        labels(c, ri);
        if (!e.empty()) { vf::record_failure(g_current, e); RC_FAIL(e); }
    });
    vf::dump();
    finish(ok ? 0 : 1);
}
