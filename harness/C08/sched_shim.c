/* C shim shared by the C08 / C09 harnesses: brings up a real PaRSEC context with a chosen scheduler module,
 * never starts it, and gives the C++ side out-of-line access to the installed module's schedule/select,
 * to the real execution streams, and to harness-allocated tasks (parsec_task_t + an id stamp).
 * Compiled as C with BUILDING_PARSEC so the internal headers are usable. */
#include "parsec/parsec_config.h"
#include "parsec/runtime.h"
#include "parsec/parsec_internal.h"
#include "parsec/execution_stream.h"
#include "parsec/scheduling.h"
#include "parsec/mca/sched/sched.h"
#include "parsec/class/list_item.h"
#include "parsec/class/dequeue.h"
#include "parsec/hbbuffer.h"
#include "parsec/mca/sched/sched_local_queues_utils.h"
#include <mpi.h>
#include <stdlib.h>
#include <string.h>
#include <stdio.h>

extern parsec_sched_module_t *parsec_current_scheduler;

typedef struct { parsec_task_t super; int id; int stamp; } h_task_t;

static parsec_context_t *g_ctx;
static parsec_task_class_t g_tc[2];     /* [0] plain, [1] PARSEC_HIGH_PRIORITY_TASK (gd reads task_class->flags) */
static parsec_taskpool_t *g_tp;         /* dummy, never enqueued; some debug paths print taskpool fields */
static char g_group_anchor[64];         /* data_in identities for ltq's "shares an input" grouping */

/* nvp <= 1: flat map with nstreams streams; nvp > 1: --mca runtime_vpmap rr:<nvp>:<tpv>:<cores> (nstreams = nvp * tpv) */
int ss_init_vp(int nstreams, const char *sched, int nvp, int tpv)
{
    int provided = 0;
    int argc = 4;
    char map[64];
    char *argv_s[8] = { (char *)"c08", (char *)"--mca", (char *)"mca_sched", (char *)sched, NULL, NULL, NULL, NULL };
    char **argv = argv_s;
    if (nvp > 1) {
        snprintf(map, sizeof map, "rr:%d:%d:%d", nvp, tpv, nstreams < 16 ? nstreams : 16);
        argv_s[4] = (char *)"--mca"; argv_s[5] = (char *)"runtime_vpmap"; argv_s[6] = map; argc = 7;
    }
    MPI_Init_thread(NULL, NULL, MPI_THREAD_SERIALIZED, &provided);
    g_ctx = parsec_init(nstreams, &argc, &argv);
    if (NULL == g_ctx) return -1;
    if (NULL == parsec_current_scheduler) return -2;
    if (nvp > 1) {   /* the map must have taken effect */
        if (g_ctx->nb_vp != nvp) return -3;
        for (int v = 0; v < nvp; v++) if (g_ctx->virtual_processes[v]->nb_cores != tpv || g_ctx->virtual_processes[v]->vp_id != v) return -4;
    }
    memset(g_tc, 0, sizeof g_tc);
    g_tc[0].name = "h_plain"; g_tc[0].nb_flows = 2; g_tc[0].flags = 0;
    g_tc[1].name = "h_hp";    g_tc[1].nb_flows = 2; g_tc[1].flags = PARSEC_HIGH_PRIORITY_TASK;
    g_tp = (parsec_taskpool_t *)calloc(1, sizeof(parsec_taskpool_t));
    return 0;
}
int ss_init(int nstreams, const char *sched) { return ss_init_vp(nstreams, sched, 1, nstreams); }

const char *ss_sched_name(void) { return parsec_current_scheduler->component->base_version.mca_component_name; }
int ss_nb_vp(void) { return g_ctx->nb_vp; }
int ss_nb_streams(int vp) { return g_ctx->virtual_processes[vp]->nb_cores; }
void *ss_es(int vp, int i) { return g_ctx->virtual_processes[vp]->execution_streams[i]; }
int ss_es_vp(void *es) { return ((parsec_execution_stream_t *)es)->virtual_process->vp_id; }
void ss_bind_thread(void *es) { parsec_set_my_execution_stream((parsec_execution_stream_t *)es); }

void *ss_task_new(int id)
{
    h_task_t *t = NULL;
    if (posix_memalign((void **)&t, 128, sizeof(h_task_t))) return NULL;
    memset(t, 0, sizeof *t);
    PARSEC_OBJ_CONSTRUCT(&t->super.super, parsec_list_item_t);
    t->super.taskpool = g_tp;
    t->super.task_class = &g_tc[0];
    t->super.status = PARSEC_TASK_STATUS_HOOK;
    t->id = id;
    t->stamp = 0x5a5a;
    PARSEC_LIST_ITEM_SINGLETON(t);
    return t;
}
void ss_task_free(void *t) { free(t); }
/* group >= 0: tasks of the same group share input 0 (ltq puts consecutive sharers into one heap); hp: high-priority class */
void ss_task_set(void *vt, int prio, int group, int hp)
{
    h_task_t *t = (h_task_t *)vt;
    t->super.priority = prio;
    t->super.task_class = &g_tc[hp ? 1 : 0];
    t->super.data[0].data_in = (parsec_data_copy_t *)(void *)&g_group_anchor[group & 63];
    t->super.data[1].data_in = (parsec_data_copy_t *)(void *)t;   /* unique: never matches */
}
int ss_task_id(void *t) { return ((h_task_t *)t)->id; }
int ss_task_stamp_ok(void *t) { return ((h_task_t *)t)->stamp == 0x5a5a; }
int ss_task_prio(void *t) { return ((h_task_t *)t)->super.priority; }

/* link the n tasks into a ring in the given order; returns the ring head */
void *ss_make_ring(void **tasks, int n)
{
    for (int i = 0; i < n; i++) {
        parsec_list_item_t *it = (parsec_list_item_t *)tasks[i];
        it->list_next = (parsec_list_item_t *)tasks[(i + 1) % n];
        it->list_prev = (parsec_list_item_t *)tasks[(i + n - 1) % n];
    }
    return tasks[0];
}

int ss_schedule(void *es, void *ring, int distance)
{
    return parsec_current_scheduler->module.schedule((parsec_execution_stream_t *)es, (parsec_task_t *)ring, distance);
}
void *ss_select(void *es, int *distance)
{
    int32_t d = -12345;
    parsec_task_t *t = parsec_current_scheduler->module.select((parsec_execution_stream_t *)es, &d);
    *distance = d;
    return t;
}

/* the communication thread's stream as remote_dep_mpi.c sets it up: no scheduler object, pretends to be th 0 of vp 0 */
static parsec_execution_stream_t h_comm_es;
void *ss_comm_es(void)
{
    memset(&h_comm_es, 0, sizeof h_comm_es);
    h_comm_es.th_id = 0;
    h_comm_es.virtual_process = g_ctx->virtual_processes[0];
    h_comm_es.scheduler_object = NULL;
    h_comm_es.core_id = -1;
    h_comm_es.socket_id = -1;
    h_comm_es.next_task = (parsec_task_t *)0xdeadbeef;
    return &h_comm_es;
}

/* what __parsec_get_next_task does first: the task retained by __parsec_schedule_vp */
void *ss_take_next_task(void *ves)
{
    parsec_execution_stream_t *es = (parsec_execution_stream_t *)ves;
    parsec_task_t *t = es->next_task;
    es->next_task = NULL;
    return t;
}

/* __parsec_schedule_vp with the ring in slot `vp` (sub_es may be NULL = "not a compute stream") */
int ss_schedule_vp(void *sub_es, int vp, void *ring, int distance)
{
    parsec_task_t *rings[64];
    for (int i = 0; i < g_ctx->nb_vp && i < 64; i++) rings[i] = NULL;
    rings[vp] = (parsec_task_t *)ring;
    return __parsec_schedule_vp((parsec_execution_stream_t *)sub_es, rings, distance);
}

/* __parsec_schedule_vp with one ring per virtual process (NULL = nothing for that VP) */
int ss_schedule_vp_rings(void *sub_es, void **rings_in, int distance)
{
    parsec_task_t *rings[64];
    for (int i = 0; i < g_ctx->nb_vp && i < 64; i++) rings[i] = (parsec_task_t *)rings_in[i];
    return __parsec_schedule_vp((parsec_execution_stream_t *)sub_es, rings, distance);
}

int ss_reschedule(void *es, void *task)
{
    PARSEC_LIST_ITEM_SINGLETON(task);
    return __parsec_reschedule((parsec_execution_stream_t *)es, (parsec_task_t *)task);
}

/* what __parsec_task_progress does to a task that asked to run AGAIN, before rescheduling it with distance + 1 */
void ss_demote(void *vt)
{
    parsec_task_t *task = (parsec_task_t *)vt;
    if (0 == task->priority) { SET_LOWEST_PRIORITY(task, parsec_execution_context_priority_comparator); }
    else task->priority /= 10;
    PARSEC_LIST_ITEM_SINGLETON(task);
}

/* bounded-buffer geometry of the local-queue modules (lfq lhq ltq pbq only) */
int ss_lq_info(void *es, int *nb_hq, int *tq_size)
{
    parsec_mca_sched_local_queues_scheduler_object_t *o = PARSEC_MCA_SCHED_LOCAL_QUEUES_OBJECT((parsec_execution_stream_t *)es);
    if (NULL == o || NULL == o->task_queue) return -1;
    *nb_hq = o->nb_hierarch_queues;
    *tq_size = (int)o->task_queue->size;
    return 0;
}

int ss_fini(void)
{
    int rc = parsec_fini(&g_ctx);
    MPI_Finalize();
    return rc;
}
