"""C08 -- schedulers never lose or duplicate a ready task: all 11 modules, schedule-owned interleavings (dsched, 2-3 streams
+ comm-thread impersonator), exhaustive tiny 2-stream programs, free-running stress with 8 (quick) / 16 (thorough) streams."""
import os
import subprocess

from vf import core

PROP = "C08"
MODULES = ["ap", "gd", "ip", "lfq", "lhq", "ll", "llp", "ltq", "pbq", "rnd", "spq"]
# developer knob: restrict a run to some modules (same per-module seeds and budgets as the full run)
ONLY = [m for m in os.environ.get("C08_MODULES", "").split(",") if m]
SRC = ["harness/C08/sched.cc"]
SHIM = ["harness/C08/sched_shim.c"]
RULE = ("one process per (module, stream count): parsec_init(n, --mca mca_sched X), context never started, harness threads "
        "impersonate the streams. case = per-thread programs over {module.schedule(own, ring, d), __parsec_schedule_vp(own|NULL|comm "
        "stream), get_next_task (next_task else module.select), AGAIN-reschedule with distance+1} with rings of 1..64 tasks in "
        "non-increasing priority, distances 0..3, + schedule bytes; run under dsched (switches only at atomic ops / hooked spins), "
        "then a sequential drain over all streams. oracle = each scheduling instance returned exactly once (checked at return), same VP, "
        "nothing pending after the drain. multi-VP cases (labels multi_vp_*): V/N/C calls carry one ring per destination VP, F = module.schedule on stream 0 of "
        "another VP, X may cross to the next VP when a VP has one stream; a task's VP is the VP of the stream it was handed to. non-trivial = a ring longer than the module's bounded local buffer (4n where the module has "
        "none) OR two threads' schedule calls onto the same target stream overlapped; distinct = distinct (programs, schedule) texts. "
        "exhaustive part = 2 streams, one op each from {S2,N2,N1d1,G,V2} x {0,2} tasks pre-queued, every interleaving with <= 2 preemptions. "
        "stress = free-running threads, same oracle with atomic per-task states")

# Known, reported defect (see corpus/C08/regress/ltq_pop_best_uaf.txt): under real parallelism parsec_hbbuffer_pop_best reads the priority
# of a heap another stream has already popped and freed (ltq only: its buffer items are malloc'ed heaps).  ASan aborts on it, so by
# default the ltq *stress* part runs on the non-sanitized tree (loss/duplication oracle unchanged); C08_LTQ_ASAN_STRESS=1 runs it on
# the sanitized tree again.
LTQ_ASAN_STRESS = os.environ.get("C08_LTQ_ASAN_STRESS", "") == "1"
# __parsec_reschedule (only caller: device_gpu.c, not compiled here) schedules onto the *next* stream; llp's single-writer shortcut
# (es->th_id != 0) is unsound for that caller.  Off by default (the statement quantifies foreign submissions onto stream 0).
NEXT_TARGET = os.environ.get("C08_NEXT_TARGET", "1") == "1"     # next-stream target of __parsec_reschedule: generated for every module ...
# ... except llp: commit 50b2d8e stopped a foreign thread from taking the single-writer shortcut, but the OWNER of a queue other than 0
# still takes it (detach, merge, plain store of the head) and overwrites a ring __parsec_reschedule pushed in between: task lost
# (corpus/C08/regress/llp_owner_shortcut_vs_foreign_writer.txt, llp_owner_shortcut_search.txt).  C08_LLP_NEXT_TARGET=1 includes it again.
LLP_NEXT_TARGET = os.environ.get("C08_LLP_NEXT_TARGET", "1") == "1"     # repaired in /repo (ca93a17): included by default


def _env_for(m):
    on = NEXT_TARGET and (m != "llp" or LLP_NEXT_TARGET)
    return {"C08_NEXT_TARGET": "1" if on else "0"}


def _build():
    san = core.build_harness("C08/sched", SRC, tree="san", rapidcheck=True, plain_c_sources=SHIM)
    hooks = core.build_harness("C08/sched", SRC, tree="hooks", rapidcheck=True, plain_c_sources=SHIM)
    return san, hooks


def _collect(res, wr):
    for f in wr.failures:
        res.violations.append(core.Violation("[%s] %s" % (f["tag"], f["msg"]), replay_text=f["replay_text"]))
    for c in wr.crashes:
        if c["rc"] == "timeout":
            res.inconclusive = "a %s process hit the wall-clock cap (load?); not a verdict" % c["tag"]
            continue
        tail = c["log_tail"]
        if "file too short" in tail or "cannot open shared object" in tail:
            res.inconclusive = "libparsec.so was being relinked by a concurrent build while a worker started"
            continue
        res.violations.append(core.Violation("[%s] harness process died (rc=%s): %s" % (c["tag"], c["rc"], tail[-1200:]),
                                             replay_text="# crash of %s\n%s" % (" ".join(c["cmd"]), tail[-1500:])))


def run(tier, seed, res):
    san, hooks = _build()
    quick = tier == "quick"
    res.rule = RULE
    res.assumptions = ["rings are in non-increasing priority order, as parsec_list_item_ring_push_sorted leaves them",
                       "a stream's own schedule/select calls come from one thread (the stream's); foreign submissions target stream 0 of the VP "
                       "(__parsec_schedule_vp), as in this build's runtime; the next-stream target of __parsec_reschedule (GPU code only) is "
                       "generated too (C08_NEXT_TARGET=0 switches it off)",
                       "virtual processes: flat map (1 VP) and --mca runtime_vpmap rr:<nvp>:<tpv>:<cores> with nvp 2 or 3 (checked against context->nb_vp / "
                       "nb_cores); foreign-VP submissions go to stream 0 of the destination VP (what __parsec_schedule_vp / __parsec_reschedule do); "
                       "no module shares a queue across VPs, so 'same VP' is demanded strictly; tasks are harness-allocated and never freed during a process",
                       "sequential consistency at atomic-operation granularity under dsched; real parallelism only in the stress part",
                       "ltq stress runs without ASan unless C08_LTQ_ASAN_STRESS=1 (known use-after-free read in parsec_hbbuffer_pop_best)"]
    if NEXT_TARGET and not LLP_NEXT_TARGET:
        res.coverage.setdefault("labels", {})["llp_next_stream_target_excluded_known_defect"] = 1
    # (1) exhaustive tiny programs, one process per module
    jobs = [dict(cmd=[san, "exh", m, "2"], env=_env_for(m), tag="exh:" + m, timeout=900) for m in MODULES if not ONLY or m in ONLY]
    wr = core.run_workers(PROP, jobs)
    res.absorb(wr, "exhaustive")
    res.coverage["exhaustive"] = not (wr.failures or wr.crashes) and not ONLY
    res.coverage["exhaustive_subspace"] = ("per module: 2 streams, 0 or 2 tasks pre-queued on stream 0, one operation per stream from "
                                           "{S(2),VP-NULL(2),VP-NULL(1,d=1),select,VP-own(2)}; all interleavings with at most 2 preemptions")
    _collect(res, wr)
    # (2) rapidcheck programs + schedules, (module, n) per process
    per = 50 if quick else 7000          # single VP (flat map), n = 2, 3 streams
    per_vp = 40 if quick else 5000       # several VPs: runtime_vpmap rr:2:2 (4 streams) and rr:3:1 (3 streams)
    jobs = []
    for i, m in enumerate(MODULES):
        if ONLY and m not in ONLY:
            continue
        for n in (2, 3):
            e = {"RC_PARAMS": "seed=%d max_success=%d max_size=100" % (seed * 131 + i * 7 + n, per)}
            e.update(_env_for(m))
            jobs.append(dict(cmd=[san, "rc", m, str(n)], env=e, tag="rc:%s:%d" % (m, n), timeout=600 if quick else 7200))
        for nvp, tpv in ((2, 2), (3, 1)):
            e = {"RC_PARAMS": "seed=%d max_success=%d max_size=100" % (seed * 131 + i * 7 + 50 + nvp, per_vp)}
            e.update(_env_for(m))
            jobs.append(dict(cmd=[san, "rc", m, "0", str(nvp), str(tpv)], env=e, tag="rc:%s:%dx%d" % (m, nvp, tpv), timeout=600 if quick else 7200))
    wr = core.run_workers(PROP, jobs)
    res.absorb(wr, "rc")
    _collect(res, wr)
    # (3) stress
    T = 8 if quick else 16
    iters = 2000 if quick else 300000    # per process; every module gets a flat run and a multi-VP run
    jobs = []
    for i, m in enumerate(MODULES):
        if ONLY and m not in ONLY:
            continue
        b = san
        if m == "ltq" and not LTQ_ASAN_STRESS:
            b = hooks
            res.coverage.setdefault("labels", {})["stress:ltq_without_asan_known_uaf_excluded"] = 1
        jobs.append(dict(cmd=[b, "stress", m, str(T), str(iters), str(seed * 17 + i)], tag="stress:" + m, timeout=600 if quick else 7200))
        nvp, tpv = ((2, 4) if i % 2 == 0 else (3, 3)) if quick else ((2, 8) if i % 2 == 0 else (3, 5))
        jobs.append(dict(cmd=[b, "stress", m, "0", str(iters), str(seed * 17 + i + 100), str(nvp), str(tpv)], tag="stress:%s:%dx%d" % (m, nvp, tpv),
                         timeout=600 if quick else 7200))
    wr = core.run_workers(PROP, jobs, max_parallel=4 if quick else 2)
    res.absorb(wr, "stress")
    _collect(res, wr)


def replay(path):
    san, hooks = _build()
    txt = open(path).read()
    b = san
    if "tree hooks" in txt.splitlines()[0] if txt else False:
        b = hooks
    env = dict(os.environ)
    env.update(core.MPI_ENV)
    env.update(core.SAN_RUN_ENV)
    if "next 1" in (txt.splitlines()[0] if txt else "") or NEXT_TARGET:
        env["C08_NEXT_TARGET"] = "1"
    env.pop("VF_OUT", None)
    first = txt.splitlines()[0] if txt else ""
    if first.startswith("C08-search"):      # re-run a bounded generator search instead of one exact schedule
        w = first.split()
        kv = dict(zip(w[1::2], w[2::2]))
        rd = core.run_dir(PROP)
        env["VF_OUT"] = os.path.join(rd, "search.json")
        env["RC_PARAMS"] = "seed=%s max_success=%s max_size=100" % (kv.get("seed", "1"), kv.get("cases", "400"))
        p = subprocess.run([b, "rc", kv["mod"], kv.get("n", "3")], env=env, stdout=subprocess.PIPE, stderr=subprocess.STDOUT, text=True, errors="replace")
        msg = open(env["VF_OUT"] + ".failmsg").read().strip() if os.path.exists(env["VF_OUT"] + ".failmsg") else ""
        core.cleanup_run_dir(PROP)
        return p.returncode == 0, (msg or p.stdout[-800:])[:2000]
    p = subprocess.run([b, "replay", path], env=env, stdout=subprocess.PIPE, stderr=subprocess.STDOUT, text=True, errors="replace")
    out = p.stdout
    ok = p.returncode == 0 and "REPLAY-PASS" in out
    msg = [l for l in out.splitlines() if l.startswith("REPLAY-FAIL") or "ERROR: AddressSanitizer" in l or l.startswith("FAILURE:") or "SUMMARY:" in l]
    return ok, ("\n".join(msg) or out[-1500:])[:2000]
