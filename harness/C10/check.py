"""C10 -- local termination detector: schedule-owned protocol histories (dsched) + exhaustive tiny space + stress."""
import glob
import os
import subprocess

from vf import core

PROP = "C10"
RULE = ("case = (1..3 worker programs of addto_nb_tasks(+-v) / addto_runtime_actions(+-v) / set_nb_tasks (one owner thread only) / "
        "taskpool_state probes, each worker owning one hold released last and subtracting only what it added or was given before "
        "the start; a main thread doing [probes, taskpool_ready, probes]; schedule bytes) on a real parsec_taskpool_t whose detector "
        "comes from parsec_termdet_open_module(tp, \"local\"); run under dsched, context switches only at atomic operations; oracle = "
        "callback at most once and only with both counters 0, ready called and every hold released; taskpool_state never TERMINATED "
        "before that nor before the callback returned, never NOT_READY after ready returned; at the end callback count == 1 and state "
        "TERMINATED (liveness, no clock); non-trivial = taskpool_ready and the last hold release were invoked within 3 scheduler steps "
        "of each other, or nb_tasks reached zero >= 2 times after ready was invoked; distinct = distinct (programs, schedule) texts; "
        "exhaustive part = every pair of effective worker programs of length <= L over {T+1,T-1,A+1,A-1,state} x every schedule with "
        "<= pb preemptions")


def _build():
    return core.build_harness("C10/termdet", ["harness/C10/termdet.cc"], tree="san", rapidcheck=True,
                              plain_c_sources=["harness/C10/shim.c"])


def collect(res, wr):
    for f in wr.failures:
        res.violations.append(core.Violation(f["msg"], replay_text=f["replay_text"]))
    for c in wr.crashes:
        res.violations.append(core.Violation("harness process died (rc=%s): %s" % (c["rc"], c["log_tail"][-1200:]),
                                             replay_text="# crash of %s\n%s" % (" ".join(c["cmd"]), c["log_tail"][-1500:])))


def run(tier, seed, res):
    b = _build()
    quick = tier == "quick"
    res.rule = RULE
    res.assumptions = ["protocol of termdet.h: counters never negative, set_nb_tasks only by the thread owning the whole task count, "
                       "work added after ready only by threads that still hold a pending action",
                       "sequential consistency at atomic-operation granularity under dsched (stress part: real parallelism on x86)",
                       "TERMINATED is reported only after the callback returned (module's own documentation)",
                       "the reference-count window of taskpool_ready (release before retain) is observed and counted (labels obs_*), "
                       "not judged: the property statement does not speak about object lifetime"]
    n = 16
    L, pb = (2, 2) if quick else (3, 2)
    jobs = [dict(cmd=[b, "exh", str(L), str(pb), str(i), str(n)], tag="exh") for i in range(n)]
    wr = core.run_workers(PROP, jobs)
    res.absorb(wr, "exhaustive")
    res.coverage["exhaustive"] = not (wr.failures or wr.crashes)
    res.coverage["exhaustive_subspace"] = ("2 workers x every effective program of length <= %d over {T+1,T-1,A+1,A-1,state} (worker 0 with 0 or 1 "
                                           "initial task) + main [ready, probe]; every schedule with <= %d preemptions" % (L, pb))
    collect(res, wr)
    per = 1500 if quick else 190000
    jobs = [dict(cmd=[b, "rc"], env={"RC_PARAMS": "seed=%d max_success=%d max_size=100" % (seed * 131 + i, per)}, tag="rc") for i in range(n)]
    wr = core.run_workers(PROP, jobs)
    res.absorb(wr, "rc")
    collect(res, wr)
    iters = 2000 if quick else 400000
    jobs = [dict(cmd=[b, "stress", str(t), str(iters), str(seed * 17 + t)], tag="stress") for t in ((2, 4, 8) if quick else (2, 4, 8, 15))]
    wr = core.run_workers(PROP, jobs, max_parallel=3)
    res.absorb(wr, "stress")
    collect(res, wr)
    for f in sorted(glob.glob(os.path.join(core.VERIF, "corpus", PROP, "regress", "*.txt"))):
        ok, msg = replay(f)
        res.coverage.setdefault("regress_replays", {})[os.path.basename(f)] = "pass" if ok else "fail"
        if not ok:
            res.violations.append(core.Violation("regression replay %s fails: %s" % (os.path.basename(f), msg.strip()[-600:]), replay_path=f))


def replay(path):
    b = _build()
    env = dict(os.environ)
    env.update(core.MPI_ENV)
    env.update(core.SAN_RUN_ENV)
    p = subprocess.run([b, "replay", path], env=env, stdout=subprocess.PIPE, stderr=subprocess.STDOUT, text=True)
    return p.returncode == 0 and "REPLAY-PASS" in p.stdout, p.stdout[-2000:]
