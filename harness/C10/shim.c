/* C shim for C10: a real parsec_taskpool_t object (class parsec_taskpool_t, harness-provided release function so the
 * memory is never freed under the test) monitored by the *local* termination detector obtained the way the DSLs get it
 * (parsec_termdet_open_module(tp, "local"), calls through tp->tdm.module->...). */
#include "parsec/parsec_config.h"
#include "parsec/runtime.h"
#include "parsec/parsec_internal.h"
#include "parsec/mca/termdet/termdet.h"
#include <mpi.h>
#include <stdlib.h>
#include <string.h>

static parsec_context_t *g_ctx;

int c10_init(void)
{
    int provided = 0, argc = 1;
    char *argv_s[2] = { (char *)"c10", NULL };
    char **argv = argv_s;
    MPI_Init_thread(NULL, NULL, MPI_THREAD_SERIALIZED, &provided);
    g_ctx = parsec_init(1, &argc, &argv);
    return NULL == g_ctx ? -1 : 0;
}

void *c10_tp_new(void (*release)(void *), void (*cb)(void *))
{
    parsec_taskpool_t *tp = (parsec_taskpool_t *)calloc(1, sizeof(parsec_taskpool_t));
    PARSEC_OBJ_CONSTRUCT_WRELEASE(tp, parsec_taskpool_t, release);
    parsec_termdet_open_module(tp, "local");
    tp->tdm.module->monitor_taskpool(tp, (parsec_termdet_termination_detected_function_t)cb);
    return tp;
}
/* only for a taskpool that reached its final state */
void c10_tp_free(void *vtp)
{
    parsec_taskpool_t *tp = (parsec_taskpool_t *)vtp;
    tp->tdm.module->unmonitor_taskpool(tp);
    PARSEC_OBJ_DESTRUCT(tp);
    free(tp);
}
void c10_tp_leak(void *vtp) { (void)vtp; }
int c10_ready(void *tp)              { return ((parsec_taskpool_t *)tp)->tdm.module->taskpool_ready((parsec_taskpool_t *)tp); }
int c10_addto_tasks(void *tp, int v)   { return ((parsec_taskpool_t *)tp)->tdm.module->taskpool_addto_nb_tasks((parsec_taskpool_t *)tp, v); }
int c10_addto_actions(void *tp, int v) { return ((parsec_taskpool_t *)tp)->tdm.module->taskpool_addto_runtime_actions((parsec_taskpool_t *)tp, v); }
int c10_set_tasks(void *tp, int v)     { return ((parsec_taskpool_t *)tp)->tdm.module->taskpool_set_nb_tasks((parsec_taskpool_t *)tp, v); }
int c10_set_actions(void *tp, int v)   { return ((parsec_taskpool_t *)tp)->tdm.module->taskpool_set_runtime_actions((parsec_taskpool_t *)tp, v); }
int c10_state(void *tp)              { return (int)((parsec_taskpool_t *)tp)->tdm.module->taskpool_state((parsec_taskpool_t *)tp); }
int c10_nb_tasks(void *tp)           { return ((parsec_taskpool_t *)tp)->nb_tasks; }
int c10_nb_pa(void *tp)              { return ((parsec_taskpool_t *)tp)->nb_pending_actions; }
int c10_refcount(void *tp)           { return ((parsec_object_t *)tp)->obj_reference_count; }
int c10_is_local_module(void *tp)    { extern const parsec_termdet_module_t parsec_termdet_local_module; return ((parsec_taskpool_t *)tp)->tdm.module == &parsec_termdet_local_module.module; }
