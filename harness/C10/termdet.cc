// C10 -- Local termination detection is exact.
//
// case = (per-worker programs of balanced addto_nb_tasks / addto_runtime_actions / set_nb_tasks (owner only) / state
// probes, a main program [probes, taskpool_ready, probes], schedule).  Every worker owns one *hold* (a runtime action
// taken for it before the threads start) which it releases last, and never subtracts what it did not add (or was given
// before the start), so the counters are never negative in any interleaving.
// Executed under dsched (rc: sampled schedules, exh: every schedule with <= pb preemptions of every tiny program pair)
// and free-running (stress).  Oracle: the termination callback runs at most once, only with nb_tasks == 0 &&
// nb_pending_actions == 0 && ready called && every hold released; taskpool_state never says TERMINATED before that (and
// before the callback returned), never NOT_READY after ready returned; at the end: callback count == 1, state TERMINATED.
#include <algorithm>
#include <atomic>
#include <thread>
#include "vf.hpp"
#include "dsched.hpp"
#include "fair.hpp"
#include <rapidcheck.h>

extern "C" {
int c10_init(void);
void *c10_tp_new(void (*release)(void *), void (*cb)(void *));
void c10_tp_free(void *);
int c10_ready(void *); int c10_addto_tasks(void *, int); int c10_addto_actions(void *, int);
int c10_set_tasks(void *, int); int c10_set_actions(void *, int); int c10_state(void *);
int c10_nb_tasks(void *); int c10_nb_pa(void *); int c10_refcount(void *); int c10_is_local_module(void *);
}
enum { ST_NOT_MONITORED = 0, ST_NOT_READY = 1, ST_BUSY = 2, ST_IDLE = 3, ST_TERMINATED = 4 };
enum { K_TADD = 0, K_TSUB, K_AADD, K_ASUB, K_TSET, K_STATE, K_NK };

struct Op { int k, v; };
struct Case {
    int sparse = 0, owner = -1, dtd_reset = 0, probes_before = 0, probes_after = 0;
    std::vector<int> init_tasks;             // per worker: tasks accounted for it before the threads start
    std::vector<std::vector<Op>> prog;       // per worker
    std::vector<uint8_t> sched;
    std::string repr() const {
        std::ostringstream o;
        o << "C10 sparse " << sparse << " owner " << owner << " dtd_reset " << dtd_reset << " probes_before " << probes_before << " probes_after " << probes_after << "\n";
        o << "init"; for (int x : init_tasks) o << " " << x; o << "\n";
        for (auto &p : prog) { o << "worker"; for (auto &x : p) o << " " << x.k << " " << x.v; o << "\n"; }
        o << "sched"; for (uint8_t b : sched) o << " " << (int)b; o << "\n";
        return o.str();
    }
    static Case parse(const std::string &s) {
        Case c; std::istringstream in(s); std::string line;
        while (std::getline(in, line)) {
            std::istringstream ls(line); std::string w; ls >> w;
            if (w == "C10") { std::string k; int v; while (ls >> k >> v) { if (k == "sparse") c.sparse = v; else if (k == "owner") c.owner = v; else if (k == "dtd_reset") c.dtd_reset = v; else if (k == "probes_before") c.probes_before = v; else if (k == "probes_after") c.probes_after = v; } }
            else if (w == "init") { int x; while (ls >> x) c.init_tasks.push_back(x); }
            else if (w == "worker") { std::vector<Op> p; Op o; while (ls >> o.k >> o.v) p.push_back(o); c.prog.push_back(p); }
            else if (w == "sched") { int x; while (ls >> x) c.sched.push_back((uint8_t)x); }
        }
        while (c.init_tasks.size() < c.prog.size()) c.init_tasks.push_back(0);
        return c;
    }
};

// ---- oracle state of the running case (one runnable thread at a time under dsched; atomics for the stress mode)
struct Obs {
    void *tp = nullptr; int W = 0;
    std::atomic<int> cb_count{0}, cb_returned{0}, ready_invoked{0}, ready_returned{0}, holds_released{0}, released_hook{0};
    std::atomic<int> cb_bad_counts{0}, cb_before_ready{0}, cb_hold_out{0}, cb_in_window{0};
    int cb_nb_tasks = 0, cb_nb_pa = 0, cb_refcount = 0, cb_thread = -2;
    uint64_t ready_step = 0, last_release_step = 0, cb_step = 0;
};
static Obs *g_obs = nullptr;
static bool g_strict_refcount = false;

static void on_release(void *) { if (g_obs) g_obs->released_hook++; }     // reference count reached 0: would be freed here
static void on_terminated(void *tp) {
    Obs *o = g_obs; if (!o) return;
    if (dsched::self() >= 0) dsched::yield_point();      // the callback is user code: other threads may run while it executes
    int n = o->cb_count.fetch_add(1);
    int t = c10_nb_tasks(tp), a = c10_nb_pa(tp);
    if (n == 0) { o->cb_nb_tasks = t; o->cb_nb_pa = a; o->cb_refcount = c10_refcount(tp); o->cb_thread = dsched::self(); o->cb_step = dsched::now(); }
    if (t != 0 || a != 0) o->cb_bad_counts++;
    if (!o->ready_invoked.load()) o->cb_before_ready++;
    if (o->holds_released.load() != o->W) o->cb_hold_out++;
    // ready has made the taskpool BUSY but has not yet taken its own reference: the release that follows this callback
    // drops the count below the user's reference
    if (o->ready_invoked.load() && !o->ready_returned.load() && c10_refcount(tp) == 1) o->cb_in_window++;
    o->cb_returned++;
}

// persistent free-running threads for the stress mode (thread creation per taskpool would dominate)
struct ParPool {
    std::vector<std::thread> th; pthread_barrier_t b1, b2; const std::vector<std::function<void()>> *bodies = nullptr; bool stop = false; int n;
    explicit ParPool(int n_) : n(n_) {
        pthread_barrier_init(&b1, nullptr, (unsigned)n + 1); pthread_barrier_init(&b2, nullptr, (unsigned)n + 1);
        for (int i = 0; i < n; i++) th.emplace_back([this, i]() { for (;;) { pthread_barrier_wait(&b1); if (stop) return; if ((size_t)i < bodies->size()) (*bodies)[(size_t)i](); pthread_barrier_wait(&b2); } });
    }
    void run(const std::vector<std::function<void()>> &b) { bodies = &b; pthread_barrier_wait(&b1); pthread_barrier_wait(&b2); }
    ~ParPool() { stop = true; pthread_barrier_wait(&b1); for (auto &t : th) t.join(); }
};
static ParPool *g_pool = nullptr;

struct RunInfo { bool nontrivial = false, close_race = false, window = false, released_hook = false; int zero_cross_after_ready = 0; int cb_thread = -2; uint64_t steps = 0; };

static std::string probe(Obs &o, const char *who) {
    // what must hold is sampled *before* the call: the state returned can only be more advanced than that
    int cbr = o.cb_returned.load(), rr = o.ready_returned.load();
    int s = c10_state(o.tp);
    int hr = o.holds_released.load(), ri = o.ready_invoked.load(), cbr2 = o.cb_returned.load();
    if (s == ST_NOT_MONITORED) return std::string(who) + ": taskpool_state says NOT_MONITORED for a monitored taskpool";
    if (s == ST_TERMINATED) {
        if (!ri) return std::string(who) + ": taskpool_state says TERMINATED before taskpool_ready was called";
        if (hr != o.W) return std::string(who) + ": taskpool_state says TERMINATED while " + std::to_string(o.W - hr) + " hold(s) (pending actions) are outstanding";
        if (!cbr2) return std::string(who) + ": taskpool_state says TERMINATED before the termination callback returned";
    }
    if (s == ST_NOT_READY && rr) return std::string(who) + ": taskpool_state says NOT_READY after taskpool_ready returned";
    (void)cbr;
    return "";
}

static std::string run_case(const Case &c, dsched::Chooser *ch, RunInfo *ri) {
    int W = (int)c.prog.size();
    Obs obs; obs.W = W; g_obs = &obs;
    void *tp = c10_tp_new(on_release, on_terminated); obs.tp = tp;
    std::string err;
    if (!c10_is_local_module(tp)) { g_obs = nullptr; return "harness: the taskpool did not get the local termination detector"; }
    if (c.dtd_reset) { c10_set_tasks(tp, 0); c10_set_actions(tp, 0); }      // what the DTD interface does after monitor
    int total_init = 0;
    for (int w = 0; w < W; w++) { int it = (c.owner >= 0 && w != c.owner) ? 0 : c.init_tasks[w]; total_init += it; }
    if (W) c10_addto_actions(tp, W);                                          // one hold per worker
    if (total_init) c10_addto_tasks(tp, total_init);
    std::vector<std::string> terr(W + 1);
    std::atomic<int> zero_cross{0};
    std::vector<std::function<void()>> bodies;
    for (int w = 0; w < W; w++) bodies.push_back([&, w]() {
        bool tasks_ok = c.owner < 0 || c.owner == w;
        int bt = tasks_ok ? c.init_tasks[w] : 0, ba = 0;                      // what this thread may subtract
        auto note_tasks = [&](int now_total) { if (now_total == 0 && obs.ready_invoked.load()) zero_cross++; };
        for (const Op &op : c.prog[w]) {
            int k = op.k, v = 1 + (std::max(1, op.v) - 1) % 3;
            if (!tasks_ok && (k == K_TADD || k == K_TSUB)) k += 2;            // only the owner touches nb_tasks when set_nb_tasks is in play
            if (k == K_TSET && c.owner != w) k = K_STATE;
            switch (k) {
            case K_TADD: bt += v; c10_addto_tasks(tp, v); break;
            case K_TSUB: v = std::min(v, bt); if (!v) break; bt -= v; note_tasks(c10_addto_tasks(tp, -v)); break;
            case K_AADD: ba += v; c10_addto_actions(tp, v); break;
            case K_ASUB: v = std::min(v, ba); if (!v) break; ba -= v; c10_addto_actions(tp, -v); break;
            case K_TSET: { int nv = op.v % 4; bool cross = bt > 0 && nv == 0; bt = nv; c10_set_tasks(tp, nv); if (cross) note_tasks(0); break; }
            case K_STATE: { std::string e = probe(obs, "worker"); if (!e.empty() && terr[w].empty()) terr[w] = e; break; }
            }
        }
        if (bt) note_tasks(c10_addto_tasks(tp, -bt));
        if (ba) c10_addto_actions(tp, -ba);
        obs.last_release_step = dsched::now();
        obs.holds_released++;                                                  // invoked: from here on termination is legal w.r.t. this hold
        c10_addto_actions(tp, -1);
    });
    bodies.push_back([&]() {
        for (int i = 0; i < c.probes_before; i++) { std::string e = probe(obs, "main"); if (!e.empty() && terr[W].empty()) terr[W] = e; }
        obs.ready_step = dsched::now();
        obs.ready_invoked = 1;
        c10_ready(tp);
        obs.ready_returned = 1;
        for (int i = 0; i < c.probes_after; i++) { std::string e = probe(obs, "main"); if (!e.empty() && terr[W].empty()) terr[W] = e; }
    });
    if (ch) { dsched::Outcome out = dsched::run(bodies, *ch, 100000); ri->steps = out.steps; }
    else g_pool->run(bodies);
    // ---- verdict
    for (auto &e : terr) if (!e.empty() && err.empty()) err = e;
    int cbn = obs.cb_count.load();
    if (err.empty() && cbn > 1) err = "termination callback ran " + std::to_string(cbn) + " times";
    if (err.empty() && obs.cb_before_ready.load()) err = "termination callback ran before taskpool_ready was called";
    if (err.empty() && obs.cb_hold_out.load()) err = "termination callback ran while a hold (pending action) was outstanding";
    if (err.empty() && obs.cb_bad_counts.load()) err = "termination callback ran with nb_tasks=" + std::to_string(obs.cb_nb_tasks) + " nb_pending_actions=" + std::to_string(obs.cb_nb_pa);
    if (err.empty() && cbn == 0) err = "all threads finished, both counters are back to zero after ready, but termination was never reported (callback count 0, state " + std::to_string(c10_state(tp)) + ", nb_tasks " + std::to_string(c10_nb_tasks(tp)) + ", nb_pending_actions " + std::to_string(c10_nb_pa(tp)) + ")";
    if (err.empty() && c10_state(tp) != ST_TERMINATED) err = "callback ran but the final state is " + std::to_string(c10_state(tp)) + " instead of TERMINATED";
    if (err.empty() && (c10_nb_tasks(tp) != 0 || c10_nb_pa(tp) != 0)) err = "final counters are not zero";
    ri->window = obs.cb_in_window.load() != 0; ri->released_hook = obs.released_hook.load() != 0;
    if (err.empty() && g_strict_refcount && (obs.released_hook.load() || c10_refcount(tp) != 1))
        err = "the detector's release ran before taskpool_ready took its reference: the reference count reached 0 (object would be destroyed) while the user's reference and taskpool_ready were still using the taskpool; final count " + std::to_string(c10_refcount(tp));
    ri->zero_cross_after_ready = zero_cross.load(); ri->cb_thread = obs.cb_thread;
    uint64_t d = obs.ready_step > obs.last_release_step ? obs.ready_step - obs.last_release_step : obs.last_release_step - obs.ready_step;
    ri->close_race = ch && d <= 3;
    ri->nontrivial = ri->close_race || ri->zero_cross_after_ready >= 2;
    g_obs = nullptr;
    if (err.empty()) c10_tp_free(tp);        // a taskpool in a wrong final state is leaked (unmonitor asserts on it)
    return err;
}

static std::string g_current;
static void fatal_hook(const char *what) { vf::record_failure(g_current, what); vf::dump(); }

static void labels(const Case &c, const RunInfo &ri) {
    vf::label("workers_" + std::to_string(c.prog.size()));
    if (ri.close_race) vf::label("ready_and_last_release_within_3_steps");
    if (ri.zero_cross_after_ready >= 2) vf::label("nb_tasks_crossed_zero_twice_after_ready");
    if (ri.window) vf::label("obs_callback_between_ready_cas_and_retain");
    if (ri.released_hook) vf::label("obs_refcount_reached_zero");
    if (ri.cb_thread == (int)c.prog.size()) vf::label("detected_by_ready"); else if (ri.cb_thread >= 0) vf::label("detected_by_worker");
    if (c.owner >= 0) vf::label("with_set_nb_tasks_owner");
}

static int do_replay(const char *path) {
    std::string txt = vf::slurp(path);
    Case c = Case::parse(txt); g_current = c.repr();
    hx::FairByteChooser ch(c.sched.data(), c.sched.size(), c.sparse);
    RunInfo ri; std::string e = run_case(c, &ch, &ri);
    if (e.empty()) { printf("REPLAY-PASS%s\n", ri.released_hook ? " (observation: reference count reached 0 in the ready window)" : ""); return 0; }
    printf("REPLAY-FAIL %s\n", e.c_str()); return 1;
}

// ---- exhaustive: every pair of effective worker programs of length <= L over {T+1, T-1, A+1, A-1, state}, init tasks 0/1
// for worker 0, main = [ready, probe], every schedule with at most pb preemptions
static void gen_programs(int L, int init, std::vector<std::vector<Op>> &out) {
    std::vector<Op> cur;
    std::function<void(int, int)> rec = [&](int bt, int ba) {
        out.push_back(cur);
        if ((int)cur.size() == L) return;
        for (int k = 0; k < K_NK; k++) {
            if (k == K_TSET) continue;
            if (k == K_TSUB && bt == 0) continue;
            if (k == K_ASUB && ba == 0) continue;
            cur.push_back({k, 1});
            rec(bt + (k == K_TADD) - (k == K_TSUB), ba + (k == K_AADD) - (k == K_ASUB));
            cur.pop_back();
        }
    };
    rec(init, 0);
}

static int do_exh(int L, int pb, int part, int nparts) {
    std::vector<std::vector<Op>> p0[2], p1;
    gen_programs(L, 0, p0[0]); gen_programs(L, 1, p0[1]); gen_programs(L, 0, p1);
    uint64_t execs = 0; bool truncated = false; long idx = 0, mine = 0;
    for (int init = 0; init < 2; init++) for (auto &a : p0[init]) for (auto &b : p1) {
        if (idx++ % nparts != part) continue;
        mine++;
        Case c; c.prog = {a, b}; c.init_tasks = {init, 0}; c.probes_after = 1;
        dsched::DfsChooser d(pb);
        bool any_nt = false, any_window = false; uint64_t n0 = 0;
        do {
            d.begin();
            RunInfo ri; std::string e = run_case(c, &d, &ri);
            execs++; n0++;
            any_nt = any_nt || ri.nontrivial; any_window = any_window || ri.released_hook;
            if (!e.empty()) {
                Case f = c; f.sparse = -1;
                for (size_t k = 0; k < d.depth && k < d.stack.size(); k++) f.sched.push_back((uint8_t)d.stack[k].chosen);
                vf::record_failure(f.repr(), e); vf::R().evaluations += execs; vf::dump(); return 1;
            }
        } while (d.next());
        truncated = truncated || d.truncated;
        vf::note_case(c.repr() + "#schedules " + std::to_string(n0) + "\n", any_nt);
        vf::R().evaluations += n0 - 1;
        vf::label("schedules_enumerated", n0);
        if (any_window) vf::label("obs_programs_with_refcount_zero_schedule");
    }
    vf::R().extra["exh_truncated"] = truncated ? "true" : "false";
    vf::R().extra["exh_program_pairs"] = std::to_string(mine);
    vf::dump();
    return 0;
}

// ---- stress: the same protocol free-running; programs derived from the seed by an LCG
static int do_stress(int W, long iters, unsigned seed) {
    uint64_t x = seed * 7919u + 12345;
    auto next = [&]() { x = x * 6364136223846793005ULL + 1442695040888963407ULL; return (int)(x >> 35); };
    long windows = 0;
    ParPool pool(W + 1); g_pool = &pool;
    for (long it = 0; it < iters; it++) {
        Case c; c.prog.resize(W); c.init_tasks.resize(W);
        c.owner = (next() % 5 == 0) ? next() % W : -1; c.dtd_reset = next() % 2; c.probes_before = next() % 2; c.probes_after = next() % 3;
        for (int w = 0; w < W; w++) { c.init_tasks[w] = next() % 3; int n = next() % 7; for (int i = 0; i < n; i++) c.prog[w].push_back({next() % K_NK, 1 + next() % 8}); }
        RunInfo ri; std::string e = run_case(c, nullptr, &ri);
        if (ri.released_hook) windows++;
        if (!e.empty()) {
            std::string repr = "C10-stress workers " + std::to_string(W) + " iters " + std::to_string(iters) + " seed " + std::to_string(seed) + "\n# failing iteration " + std::to_string(it) + ":\n# " + c.repr();
            vf::record_failure(repr, e); vf::dump(); g_pool = nullptr; return 1;
        }
    }
    g_pool = nullptr;
    std::string repr = "C10-stress workers " + std::to_string(W) + " iters " + std::to_string(iters) + " seed " + std::to_string(seed) + "\n";
    vf::note_case(repr, W >= 2);
    vf::R().evaluations += iters - 1;
    vf::label("stress_taskpools", iters);
    if (windows) vf::label("obs_refcount_reached_zero", windows);
    vf::dump();
    return 0;
}

int main(int argc, char **argv) {
    std::string mode = argc > 1 ? argv[1] : "rc";
    g_strict_refcount = vf::envl("C10_STRICT_REFCOUNT", 0) != 0;
    dsched::on_fatal() = fatal_hook;
    if (c10_init() != 0) { fprintf(stderr, "parsec_init failed\n"); return 2; }
    if (mode == "replay") {
        std::string txt = vf::slurp(argv[2]);
        if (txt.rfind("C10-stress", 0) == 0) { int W; long it; unsigned sd; sscanf(txt.c_str(), "C10-stress workers %d iters %ld seed %u", &W, &it, &sd); int r = do_stress(W, it, sd); printf(r ? "REPLAY-FAIL stress\n" : "REPLAY-PASS\n"); fflush(stdout); _exit(r); }
        int r = do_replay(argv[2]); fflush(stdout); _exit(r);
    }
    if (mode == "exh") { int r = do_exh(atoi(argv[2]), atoi(argv[3]), atoi(argv[4]), atoi(argv[5])); _exit(r); }
    if (mode == "stress") { int r = do_stress(atoi(argv[2]), atol(argv[3]), (unsigned)atoi(argv[4])); _exit(r); }
    bool ok = rc::check("local termination detection: callback once, only at zero after ready, and eventually", []() {
        Case c;
        int W = *rc::gen::element(1, 2, 2, 2, 3, 3);
        c.sparse = *rc::gen::element(0, 0, 128, 200, 240);
        c.owner = *rc::gen::element(-1, -1, -1, 0);
        c.dtd_reset = *rc::gen::inRange(0, 2);
        c.probes_before = *rc::gen::inRange(0, 2); c.probes_after = *rc::gen::inRange(0, 3);
        for (int w = 0; w < W; w++) {
            c.init_tasks.push_back(*rc::gen::inRange(0, 3));
            int n = *rc::gen::inRange(0, 7);
            c.prog.push_back(*rc::gen::container<std::vector<Op>>((size_t)n, rc::gen::resize(100, rc::gen::apply([](int k, int v) { return Op{k, v}; },
                rc::gen::element((int)K_TADD, (int)K_TADD, (int)K_TSUB, (int)K_TSUB, (int)K_TSUB, (int)K_AADD, (int)K_ASUB, (int)K_ASUB, (int)K_TSET, (int)K_STATE), rc::gen::inRange(1, 9)))));
        }
        int sl = *rc::gen::inRange(0, 80);
        c.sched = *rc::gen::container<std::vector<uint8_t>>((size_t)sl, rc::gen::resize(100, rc::gen::arbitrary<uint8_t>()));
        g_current = c.repr();
        hx::FairByteChooser ch(c.sched.data(), c.sched.size(), c.sparse);
        RunInfo ri; std::string e = run_case(c, &ch, &ri);
        vf::note_case(g_current, ri.nontrivial);
        labels(c, ri);
        if (!e.empty()) { vf::record_failure(g_current, e); RC_FAIL(e); }
    });
    vf::dump();
    fflush(nullptr);
    _exit(ok ? 0 : 1);      // no parsec_fini / MPI_Finalize: the context was never started
}
