"""C36 -- red-black tree: model-based PBT (rapidcheck) + exhaustive small space + libFuzzer."""
import glob
import os
import shutil
import subprocess

from vf import core

PROP = "C36"
SRC = ["harness/C36/rbtree.cc"]
RULE = ("case = operation sequence (insert unique key / remove live node / update_node to any key / find / "
        "find_or_larger) decoded from generated words; oracle = std::set model + red-black invariants + parent "
        "links + foreach order after every operation; non-trivial = the sequence removed a node with two children "
        "AND performed an update_node that moved the key past a neighbour (re-insertion path); distinct = distinct "
        "word vectors (hash)")


def _build():
    rcbin = core.build_harness("C36/rbtree_rc", SRC, tree="san", rapidcheck=True)
    fzbin = core.build_harness("C36/rbtree_fuzz", SRC, tree="san", fuzzer=True, extra_cflags=["-DVF_FUZZ"])
    return rcbin, fzbin


def run(tier, seed, res):
    rcbin, fzbin = _build()
    quick = tier == "quick"
    res.rule = RULE
    res.assumptions = ["keys inserted are unique (callers' precondition)", "single-threaded use (the tree has no locking of its own)",
                       "std::set is the reference model"]
    jobs = []
    # (1) exhaustive: all effective sequences over K keys up to length L, split over workers by first key
    K, L = (4, 6) if quick else (5, 7)
    for part in range(K):
        jobs.append(dict(cmd=[rcbin, "exh", str(K), str(L), str(part), str(K)], tag="exh"))
    wr = core.run_workers(PROP, jobs)
    res.absorb(wr, "exhaustive")
    res.coverage["exhaustive"] = not (wr.failures or wr.crashes)
    res.coverage["exhaustive_subspace"] = "all effective op sequences over keys 0..%d up to length %d" % (K - 1, L)
    _collect(res, wr, rcbin)
    # (2) rapidcheck, 12 workers with derived seeds
    n = 12
    per = 2000 if quick else 150000
    jobs = [dict(cmd=[rcbin, "rc"], env={"RC_PARAMS": "seed=%d max_success=%d max_size=200" % (seed * 131 + i, per)}, tag="rc")
            for i in range(n)]
    wr = core.run_workers(PROP, jobs)
    res.absorb(wr, "rc")
    _collect(res, wr, rcbin)
    # (3) libFuzzer with the same oracle
    runs = 40000 if quick else 6000000
    nf = 8 if quick else 16
    jobs = []
    rd = core.run_dir(PROP)
    for i in range(nf):
        cdir = os.path.join(rd, "corpus%d" % i)
        adir = os.path.join(rd, "art%d" % i)
        os.makedirs(cdir, exist_ok=True)
        os.makedirs(adir, exist_ok=True)
        for f in glob.glob(os.path.join(core.VERIF, "corpus", PROP, "seed", "*")):
            shutil.copy(f, cdir)
        jobs.append(dict(cmd=[fzbin, "-seed=%d" % (seed * 131 + i), "-runs=%d" % runs, "-max_len=1200", "-len_control=20",
                              "-artifact_prefix=" + adir + "/", "-print_final_stats=0", "-verbosity=0", cdir], tag="fuzz%d" % i))
    wr = core.run_workers(PROP, jobs)
    res.absorb(wr, "fuzz")
    _collect(res, wr, rcbin, fuzz=True)


def _collect(res, wr, rcbin, fuzz=False):
    for f in wr.failures:
        res.violations.append(core.Violation(f["msg"], replay_text=f["replay_text"]))
    for c in wr.crashes:
        if fuzz and ("slow-unit" in c["log_tail"] or "timeout" in c["log_tail"] or "out-of-memory" in c["log_tail"]) \
                and "ERROR: AddressSanitizer" not in c["log_tail"] and "runtime error" not in c["log_tail"]:
            res.coverage.setdefault("load_noise", 0)
            res.coverage["load_noise"] += 1
            continue
        res.violations.append(core.Violation("harness process died (rc=%s) without a recorded case: %s" % (c["rc"], c["log_tail"][-1500:]),
                                             replay_text="# crash of %s\n%s" % (" ".join(c["cmd"]), c["log_tail"][-1500:])))


def replay(path):
    rcbin, _ = _build()
    env = dict(os.environ)
    env.update(core.SAN_RUN_ENV)
    p = subprocess.run([rcbin, "replay", path], env=env, stdout=subprocess.PIPE, stderr=subprocess.STDOUT, text=True)
    return p.returncode == 0 and "REPLAY-PASS" in p.stdout, p.stdout[-2000:]
