// C36 -- The red-black tree keeps order and balance.
//
// One executable check (run_case) over a generated operation sequence, compared
// after every operation with a std::set model plus the structural red-black
// invariants.  Three drivers share it:
//   rc   : rapidcheck generates/shrinks the word vector the decoder consumes
//   exh  : complete enumeration of all effective op sequences over a tiny key set
//   fuzz : libFuzzer (when compiled with -DVF_FUZZ) feeds bytes to the same decoder
// Replay file: the decoded words, as text.
#include <set>
#include <array>
#include <climits>
#include <functional>
#include "vf.hpp"
#ifndef VF_FUZZ
#include <rapidcheck.h>
#endif

extern "C" {
#include "parsec/parsec_config.h"
#include "parsec/class/parsec_rbtree.h"
#include "parsec/constants.h"
}

struct Node {
    parsec_rbtree_node_t super;
    int pad;          // makes the key offset something else than "right after the node"
    int key;
    int id;
};

enum { OP_INS, OP_REM, OP_UPD, OP_FIND, OP_FOL, OP_MIN, OP_FOREACH };

struct Op { int op; int a; int b; };

typedef std::vector<long> Words;

static int key_from(long mode, long w) {
    switch (mode % 5) {
    case 0: return (int)(w % 8);
    case 1: return (int)(w % 64) - 32;
    case 2: return (int)(w % 2001) - 1000;
    case 3: { static const int ex[] = {INT_MIN, INT_MIN + 1, -1, 0, 1, INT_MAX - 1, INT_MAX, 7, -7, 1000}; return ex[w % 10]; }
    default: return (int)(w % 16);
    }
}

static std::string words_repr(const Words &w) {
    std::ostringstream o;
    for (size_t i = 0; i < w.size(); i++) o << (i ? " " : "") << w[i];
    o << "\n";
    return o.str();
}

#define LEFTOF(n)  ((parsec_rbtree_node_t *)(n)->super.list_prev)
#define RIGHTOF(n) ((parsec_rbtree_node_t *)(n)->super.list_next)

struct Checker {
    parsec_rbtree_t tree;
    std::set<int> model;
    std::map<int, Node *> nodes;   // key -> node (harness bookkeeping)
    std::vector<Node *> all;
    std::string err;
    bool saw_two_child_removal = false, saw_reinsert = false;
    int nops = 0;

    Checker() { parsec_rbtree_init(&tree, offsetof(Node, key)); }
    ~Checker() {
        for (Node *n : all) { free(n); }
        parsec_rbtree_fini(&tree);
    }
    Node *mk(int k) {
        Node *n = (Node *)calloc(1, sizeof(Node));
        PARSEC_OBJ_CONSTRUCT(&n->super, parsec_rbtree_node_t);
        n->key = k; n->id = (int)all.size(); n->pad = 0x5a5a5a5a;
        all.push_back(n);
        return n;
    }
    bool fail(const std::string &m) { if (err.empty()) err = m; return false; }

    // returns black height or -1
    int walk(parsec_rbtree_node_t *x, parsec_rbtree_node_t *parent, long lo, long hi, std::vector<int> &inorder, int depth) {
        if (x == tree.nil) return 1;
        if (depth > 128) { fail("tree deeper than 128: cycle or broken balance"); return -1; }
        Node *n = (Node *)x;
        if (x->parent != parent) { fail("parent pointer inconsistent at key " + std::to_string(n->key)); return -1; }
        if ((long)n->key <= lo || (long)n->key >= hi) { fail("BST order violated at key " + std::to_string(n->key)); return -1; }
        if (x->color != PARSEC_RBTREE_RED && x->color != PARSEC_RBTREE_BLACK) { fail("bad colour"); return -1; }
        if (x->color == PARSEC_RBTREE_RED) {
            if ((LEFTOF(x) != tree.nil && LEFTOF(x)->color == PARSEC_RBTREE_RED) ||
                (RIGHTOF(x) != tree.nil && RIGHTOF(x)->color == PARSEC_RBTREE_RED)) {
                fail("red node " + std::to_string(n->key) + " has a red child"); return -1;
            }
        }
        int l = walk(LEFTOF(x), x, lo, n->key, inorder, depth + 1);
        if (l < 0) return -1;
        inorder.push_back(n->key);
        int r = walk(RIGHTOF(x), x, n->key, hi, inorder, depth + 1);
        if (r < 0) return -1;
        if (l != r) { fail("black heights differ below key " + std::to_string(n->key)); return -1; }
        return l + (x->color == PARSEC_RBTREE_BLACK ? 1 : 0);
    }

    static void visit(parsec_rbtree_node_t *n, void *cb) { ((std::vector<int> *)cb)->push_back(((Node *)n)->key); }

    bool invariants() {
        if (tree.nil != &tree.nil_element) return fail("nil sentinel moved");
        if (tree.nil->color != PARSEC_RBTREE_BLACK) return fail("nil sentinel is not black");
        if (tree.root != tree.nil && tree.root->color != PARSEC_RBTREE_BLACK) return fail("root is not black");
        if (tree.root != tree.nil && tree.root->parent != tree.nil) return fail("root has a parent");
        std::vector<int> inorder;
        if (walk(tree.root, tree.nil, (long)INT_MIN - 1, (long)INT_MAX + 1, inorder, 0) < 0) return false;
        std::vector<int> want(model.begin(), model.end());
        if (inorder != want) return fail("in-order walk differs from the model (" + std::to_string(inorder.size()) + " vs " + std::to_string(want.size()) + " keys)");
        std::vector<int> fe;
        parsec_rbtree_foreach(&tree, visit, &fe);
        if (fe != want) return fail("foreach does not visit the stored keys in order");
        for (Node *n : all) if (n->pad != 0x5a5a5a5a) return fail("node padding overwritten");
        if (!model.empty()) {
            parsec_rbtree_node_t *m = parsec_rbtree_minimum(&tree, tree.root);
            if (((Node *)m)->key != *model.begin()) return fail("minimum is not the smallest key");
        }
        return true;
    }

    bool check_find(int k) {
        parsec_rbtree_node_t *f = parsec_rbtree_find(&tree, k);
        bool in = model.count(k) != 0;
        if (in && (f == NULL || ((Node *)f)->key != k)) return fail("find(" + std::to_string(k) + ") misses a stored key");
        if (in && (Node *)f != nodes[k]) return fail("find returns another node than the one stored under the key");
        if (!in && f != NULL) return fail("find(" + std::to_string(k) + ") returns a node for an absent key");
        return true;
    }
    bool check_fol(int q) {
        parsec_rbtree_node_t *f = parsec_rbtree_find_or_larger(&tree, q);
        auto it = model.lower_bound(q);
        if (it == model.end()) { if (f != NULL) return fail("find_or_larger(" + std::to_string(q) + ") should be NULL"); return true; }
        if (f == NULL) return fail("find_or_larger(" + std::to_string(q) + ") is NULL but " + std::to_string(*it) + " is stored");
        if (((Node *)f)->key != *it) return fail("find_or_larger(" + std::to_string(q) + ") = " + std::to_string(((Node *)f)->key) + ", expected " + std::to_string(*it));
        return true;
    }

    bool apply(const Op &o) {
        nops++;
        switch (o.op) {
        case OP_INS: {
            if (model.count(o.a)) return check_find(o.a);      // callers keep keys unique
            Node *n = mk(o.a);
            parsec_rbtree_insert(&tree, &n->super);
            model.insert(o.a); nodes[o.a] = n;
            break;
        }
        case OP_REM: {
            if (!model.count(o.a)) return check_find(o.a);
            Node *n = nodes[o.a];
            if (LEFTOF(&n->super) != tree.nil && RIGHTOF(&n->super) != tree.nil) saw_two_child_removal = true;
            parsec_rbtree_remove(&tree, &n->super);
            model.erase(o.a); nodes.erase(o.a);
            break;
        }
        case OP_UPD: {
            if (!model.count(o.a)) return check_fol(o.a);
            Node *n = nodes[o.a];
            int nk = o.b;
            bool other_has = (nk != o.a) && model.count(nk);
            // does the new key leave the (pred, succ) interval?
            auto it = model.find(o.a);
            bool leaves = false;
            if (it != model.begin()) { auto p = std::prev(it); if (*p >= nk) leaves = true; }
            { auto s = std::next(it); if (s != model.end() && *s <= nk) leaves = true; }
            int rc = parsec_rbtree_update_node(&tree, &n->super, nk);
            if (other_has) {
                if (rc != PARSEC_ERR_EXISTS) return fail("update_node to a key held by another node did not return EXISTS");
                if (n->key != o.a) return fail("update_node returned EXISTS but changed the key");
            } else {
                if (rc != PARSEC_SUCCESS) return fail("update_node to a free key did not return SUCCESS (rc=" + std::to_string(rc) + ")");
                if (n->key != nk) return fail("update_node returned SUCCESS but the key is unchanged");
                model.erase(o.a); nodes.erase(o.a); model.insert(nk); nodes[nk] = n;
                if (leaves) saw_reinsert = true;
            }
            break;
        }
        case OP_FIND: return check_find(o.a);
        case OP_FOL: return check_fol(o.a);
        default: break;
        }
        if (!invariants()) return false;
        // spot lookups around the touched keys
        if (!check_find(o.a) || !check_fol(o.a) || !check_fol(o.b)) return false;
        if (o.a < INT_MAX && !check_fol(o.a + 1)) return false;
        return true;
    }
};

// Decode words into ops and run them.  Returns "" when the property held.
static std::string run_ops(const std::vector<Op> &ops, bool *nontrivial) {
    Checker c;
    for (size_t i = 0; i < ops.size(); i++) {
        if (!c.apply(ops[i])) {
            *nontrivial = true;
            return "after op #" + std::to_string(i) + " (op=" + std::to_string(ops[i].op) + " a=" + std::to_string(ops[i].a) + " b=" + std::to_string(ops[i].b) + "): " + c.err;
        }
    }
    // final: every stored key found, every neighbour query right
    for (int k : c.model) { if (!c.check_find(k) || !c.check_fol(k)) return "final lookup: " + c.err; if (k > INT_MIN && !c.check_fol(k - 1)) return "final: " + c.err; }
    *nontrivial = c.saw_two_child_removal && c.saw_reinsert;
    return "";
}

static std::vector<Op> decode(const Words &w) {
    std::vector<Op> ops;
    if (w.empty()) return ops;
    long mode = w[0];
    std::set<int> present;   // mirrors the model so that REM/UPD pick live keys (construction, not rejection)
    for (size_t i = 1; i + 2 < w.size() + 0 && ops.size() < 600; i += 3) {
        long sel = w[i] % 10;
        Op o; o.a = key_from(mode, w[i + 1]); o.b = key_from(mode, w[i + 2]);
        auto pick = [&](long x) -> int {
            if (present.empty()) return o.a;
            auto it = present.begin(); std::advance(it, (size_t)(x % (long)present.size())); return *it;
        };
        if (sel <= 3) { o.op = OP_INS; present.insert(o.a); }
        else if (sel <= 5) { o.op = OP_REM; o.a = pick(w[i + 1]); present.erase(o.a); }
        else if (sel <= 7) {
            o.op = OP_UPD; o.a = pick(w[i + 1]);
            if (present.count(o.a) && (o.b == o.a || !present.count(o.b))) { present.erase(o.a); present.insert(o.b); }
        }
        else if (sel == 8) o.op = OP_FIND;
        else o.op = OP_FOL;
        ops.push_back(o);
    }
    return ops;
}

static std::string run_words(const Words &w, bool *nontrivial) { return run_ops(decode(w), nontrivial); }

#ifdef VF_FUZZ
// ---- libFuzzer driver: 2 bytes per word
static uint64_t g_execs = 0;
extern "C" int LLVMFuzzerTestOneInput(const uint8_t *data, size_t size) {
    Words w;
    for (size_t i = 0; i + 1 < size; i += 2) w.push_back((long)data[i] | ((long)data[i + 1] << 8));
    bool nt = false;
    std::string e = run_words(w, &nt);
    vf::note_case(words_repr(w), nt);
    if (++g_execs % 20000 == 0) vf::dump();
    if (!e.empty()) {
        vf::record_failure(words_repr(w), e);
        vf::dump();
        fprintf(stderr, "PROPERTY FAILURE: %s\n", e.c_str());
        __builtin_trap();
    }
    return 0;
}
extern "C" int LLVMFuzzerInitialize(int *, char ***) { atexit(vf::dump); return 0; }
#else

// ---- exhaustive driver: all effective sequences over keys 0..K-1 up to length L
static uint64_t exh_count = 0;
static bool exh_rec(std::vector<Op> &seq, std::set<int> &present, int K, int L, std::string *bad) {
    // run the sequence built so far (complete re-execution keeps the checker simple and the code under test real)
    if (!seq.empty()) {
        bool nt = false;
        std::string e = run_ops(seq, &nt);
        std::ostringstream r; r << "# ops (op a b)\n";
        for (auto &o : seq) r << "OPS " << o.op << " " << o.a << " " << o.b << "\n";
        vf::note_case(r.str(), nt);
        exh_count++;
        if (!e.empty()) { *bad = e; vf::record_failure(r.str(), e); return false; }
    }
    if ((int)seq.size() == L) return true;
    for (int k = 0; k < K; k++) {
        if (!present.count(k)) {
            seq.push_back({OP_INS, k, 0}); present.insert(k);
            if (!exh_rec(seq, present, K, L, bad)) return false;
            present.erase(k); seq.pop_back();
        } else {
            seq.push_back({OP_REM, k, 0}); present.erase(k);
            if (!exh_rec(seq, present, K, L, bad)) return false;
            present.insert(k); seq.pop_back();
            for (int k2 = 0; k2 < K; k2++) {
                bool moves = (k2 == k) || !present.count(k2);
                seq.push_back({OP_UPD, k, k2});
                if (moves) { present.erase(k); present.insert(k2); }
                if (!exh_rec(seq, present, K, L, bad)) return false;
                if (moves) { present.erase(k2); present.insert(k); }
                seq.pop_back();
            }
        }
    }
    return true;
}

static int replay_file(const char *path) {
    std::string txt = vf::slurp(path);
    bool nt = false; std::string e;
    if (txt.find("OPS ") != std::string::npos) {
        std::vector<Op> ops; std::istringstream in(txt); std::string line;
        while (std::getline(in, line)) { Op o; if (sscanf(line.c_str(), "OPS %d %d %d", &o.op, &o.a, &o.b) == 3) ops.push_back(o); }
        e = run_ops(ops, &nt);
    } else {
        e = run_words(vf::parse_ints(txt), &nt);
    }
    if (e.empty()) { printf("REPLAY-PASS\n"); return 0; }
    printf("REPLAY-FAIL %s\n", e.c_str());
    return 1;
}

int main(int argc, char **argv) {
    std::string mode = argc > 1 ? argv[1] : "rc";
    if (mode == "replay") return replay_file(argv[2]);
    if (mode == "replay-bytes") {
        std::string d = vf::slurp(argv[2]); Words w;
        for (size_t i = 0; i + 1 < d.size(); i += 2) w.push_back((long)(unsigned char)d[i] | ((long)(unsigned char)d[i + 1] << 8));
        bool nt; std::string e = run_words(w, &nt);
        if (e.empty()) { printf("REPLAY-PASS\n"); return 0; }
        printf("REPLAY-FAIL %s\n", e.c_str()); return 1;
    }
    if (mode == "exh") {
        int K = atoi(argv[2]), L = atoi(argv[3]);
        // optional split: only sequences whose first op is insert of key == part (mod nparts); all sequences start with an insert
        int part = argc > 5 ? atoi(argv[4]) : 0, nparts = argc > 5 ? atoi(argv[5]) : 1;
        std::string bad; bool ok = true;
        for (int k = 0; k < K && ok; k++) {
            if (k % nparts != part) continue;
            std::vector<Op> seq{{OP_INS, k, 0}}; std::set<int> present{k};
            ok = exh_rec(seq, present, K, L, &bad);
        }
        vf::R().extra["exhaustive_sequences"] = std::to_string(exh_count);
        vf::dump();
        return ok ? 0 : 1;
    }
    // rapidcheck: the generated value is the word vector
    bool ok = rc::check("rbtree == std::set model + red-black invariants after every operation", []() {
        const auto len = *rc::gen::inRange<int>(0, 250);
        Words w = *rc::gen::container<Words>((size_t)(1 + 3 * len), rc::gen::resize(100, rc::gen::inRange<long>(0, 65536)));
        bool nt = false;
        std::string e = run_words(w, &nt);
        vf::note_case(words_repr(w), nt);
        vf::label(std::string("keymode_") + std::to_string(w[0] % 5));
        if (!e.empty()) { vf::record_failure(words_repr(w), e); RC_FAIL(e); }
    });
    vf::dump();
    return ok ? 0 : 1;
}
#endif
