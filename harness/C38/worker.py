"""C38 worker process: a seeded Hypothesis run; every example = one mca_driver subprocess; shrinking by Hypothesis."""
import json
import os
import shutil
import sys

sys.path.insert(0, os.path.dirname(os.path.abspath(__file__)))
from hypothesis import HealthCheck, Phase, given, seed, settings   # noqa: E402

import model   # noqa: E402
import vfpy    # noqa: E402


def main():
    driver, seedv, n, workdir = sys.argv[1], int(sys.argv[2]), int(sys.argv[3]), sys.argv[4]
    rep = vfpy.Report()
    counter = [0]
    inconclusive = [0]

    @seed(seedv)
    @settings(database=None, deadline=None, derandomize=False, max_examples=n, suppress_health_check=list(HealthCheck),
              phases=[Phase.generate, Phase.shrink], report_multiple_bugs=False, print_blob=False)
    @given(model.cases())
    def prop(case):
        counter[0] += 1
        d = os.path.join(workdir, "c%05d" % counter[0])
        text = json.dumps(case, sort_keys=True)
        err, labels, inconc = model.run_case(case, driver, d, os.environ)
        shutil.rmtree(d, ignore_errors=True)
        if inconc:
            inconclusive[0] += 1
            return
        nt, cl = model.classify(case)
        rep.note_case(text, nt)
        for l in cl + labels:
            rep.label(l)
        if err:
            rep.record_failure(json.dumps(case, sort_keys=True, indent=1), err)
            raise AssertionError(err)

    rc = 0
    try:
        prop()
    except AssertionError:
        rc = 1
    rep.extra["inconclusive_timeouts"] = inconclusive[0]
    rep.dump()
    sys.exit(rc)


if __name__ == "__main__":
    main()
