"""C38 model: Hypothesis strategy for MCA-parameter source combinations, the precedence oracle, and the case runner.

A case (JSON-serialisable dict = the replay format):
  mode       "init" (MPI_Init + parsec_init(argv)) | "direct" (parsec_cmd_line_parse + parsec_mca_cmd_line_process_args)
  argv_form  "plain" | "dashdash" | "prog"      how the PaRSEC options are presented to parsec_init
  files      {"style": "env_list"|"home"|"none", "n": k, "deco": [...]}   parameter files
  params     list of {kind, tname, pname, default, syns[], override, unset, cmdline[], env[], file[]}
             every source entry carries name = 0 (primary name) or k (k-th synonym) and a value that is unique per parameter
"""
import json
import os
import subprocess

from hypothesis import strategies as st

TYPE_NAMES = ["vfa", "vfb", "vfzz"]
WORDS = ["alpha", "beta", "gamma", "delta", "eps", "x1", "y_2", "limit", "path", "mode"]
STR_ALPHA = "abcXYZ019_./:-+,"


# ------------------------------------------------------------------------------------------------ generation

@st.composite
def _value(draw, kind, slot):
    """A textual value, unique within its parameter thanks to the slot number (construction, not rejection)."""
    if kind == "int":
        v = draw(st.integers(-2000, 2000)) * 64 + slot
        hexa = draw(st.booleans()) and v >= 0
        return {"text": hex(v) if hexa else str(v), "plain": str(v)}
    if kind == "sizet":
        v = draw(st.one_of(st.integers(0, 5000), st.integers(2 ** 31, 2 ** 42))) * 64 + slot
        hexa = draw(st.booleans())
        return {"text": hex(v) if hexa else str(v), "plain": str(v)}
    body = draw(st.text(STR_ALPHA, min_size=1, max_size=12))
    tilde = draw(st.integers(0, 7))
    s = body.strip(",") or "v"
    s = s + "_s%d" % slot
    if tilde == 0:
        s = "~/" + s
    elif tilde == 1:
        s = s + ":~/t" + draw(st.text("abc", min_size=1, max_size=3))
    return {"text": s, "plain": s}


@st.composite
def _param(draw, idx, nfiles):
    kind = draw(st.sampled_from(["int", "sizet", "string", "string"]))
    p = {"kind": kind, "tname": draw(st.sampled_from(TYPE_NAMES)), "pname": "%s%d" % (draw(st.sampled_from(WORDS)), idx)}
    nsyn = draw(st.sampled_from([0, 0, 1, 1, 2]))
    p["syns"] = [{"tname": draw(st.sampled_from(TYPE_NAMES)), "pname": "old%d_%s%d" % (k, draw(st.sampled_from(WORDS)), idx),
                  "dep": draw(st.booleans())} for k in range(nsyn)]
    slot = [0]

    def val(k=kind):
        slot[0] += 1
        return draw(_value(k, slot[0]))
    d = val()
    p["default"] = d["plain"]
    if kind == "string" and draw(st.integers(0, 5)) == 0:
        p["default"] = None
    p["override"] = val()["plain"] if draw(st.integers(0, 3)) == 0 else None
    p["unset"] = bool(p["override"] is not None and draw(st.integers(0, 4)) == 0)
    names = list(range(nsyn + 1))
    # command line: 0..3 occurrences; repeated occurrences of one name only for strings (the statement defines the joined *string*)
    ncl = draw(st.sampled_from([0, 0, 1, 1, 2, 3]))
    opt = draw(st.sampled_from(["--mca", "--mca", "--mca", "-mca", "--gmca"]))
    cl = []
    used = set()
    for _ in range(ncl):
        nm = draw(st.sampled_from(names))
        if nm in used and kind != "string":
            continue
        used.add(nm)
        cl.append({"name": nm, "value": val()["text"], "opt": opt})
    p["cmdline"] = cl
    # environment: each name at most once
    env = []
    for nm in names:
        if draw(st.integers(0, 2 if nm == 0 else 3)) == 0:
            env.append({"name": nm, "value": val()["text"]})
    p["env"] = env
    fl = []
    if nfiles > 0:
        for _ in range(draw(st.sampled_from([0, 0, 1, 1, 2, 3]))):
            v = val()["text"]
            fl.append({"file": draw(st.integers(0, nfiles - 1)), "name": draw(st.sampled_from(names)), "value": v,
                       "ws": draw(st.sampled_from(["=", " = ", "\t=\t", " =", "= "])), "trail": draw(st.sampled_from(["", " ", "\t", "  "]))})
    if nfiles >= 2 and fl and draw(st.booleans()):
        # the same name in a second file: the leftmost file must win
        e0 = fl[0]
        other = (e0["file"] + draw(st.integers(1, nfiles - 1))) % nfiles
        fl.append({"file": other, "name": e0["name"], "value": val()["text"], "ws": " = ", "trail": ""})
    p["file"] = fl
    return p


@st.composite
def cases(draw):
    c = {"mode": draw(st.sampled_from(["init", "direct", "direct"])), "argv_form": draw(st.sampled_from(["plain", "dashdash", "prog"]))}
    if c["mode"] == "direct":
        c["argv_form"] = "plain"      # the '--' / program-name conventions belong to parsec_init, not to the command-line parser
    style = draw(st.sampled_from(["env_list", "env_list", "home", "none"]))
    n = 0 if style == "none" else 1 if style == "home" else draw(st.sampled_from([1, 2, 2, 3]))
    c["files"] = {"style": style, "n": n,
                  "deco": [draw(st.lists(st.sampled_from(["# comment", "", "// c++ comment", "/* block\n   comment */", "unrelated_thing = 17",
                                                          "   ", "other.name-x = some text"]), max_size=4)) for _ in range(n)]}
    np_ = draw(st.integers(1, 4))
    c["params"] = [draw(_param(i, n)) for i in range(np_)]
    # some parameters are named after the first one plus a suffix, so that one full name is a proper prefix of another
    # (real pairs exist: runtime_comm_thread_yield / runtime_comm_thread_yield_duration); names stay distinct
    for i in range(1, np_):
        if draw(st.integers(0, 2)) == 0:
            c["params"][i]["tname"] = c["params"][0]["tname"]
            c["params"][i]["pname"] = "%s_x%d" % (c["params"][0]["pname"], i)
    c["order"] = draw(st.permutations(list(range(sum(len(p["cmdline"]) for p in c["params"])))))
    return c


# ------------------------------------------------------------------------------------------------ model

def full_name(p, nm):
    if nm == 0:
        return "%s_%s" % (p["tname"], p["pname"])
    s = p["syns"][nm - 1]
    return "%s_%s" % (s["tname"], s["pname"])


def expand(s, home):
    if s is None:
        return None
    if s.startswith("~/"):
        rest = s[2:]
        s = home + rest if rest.startswith("/") else home + "/" + rest      # parsec_os_path adds the separator only when missing
    return s.replace(":~/", ":" + home + "/")


def typed(kind, text, home):
    if kind == "string":
        return expand(text, home)
    return int(text, 0)


def argv_of(case):
    items = []
    for p in case["params"]:
        for e in p["cmdline"]:
            items.append([e["opt"], full_name(p, e["name"]), e["value"]])
    order = [i for i in case.get("order", []) if i < len(items)] or list(range(len(items)))
    # keep the relative order of occurrences of one (option, name): the join order is part of the oracle
    seq = [items[i] for i in order]
    av = [x for it in seq for x in it]
    if case["mode"] == "direct":
        pass
    elif case["argv_form"] == "dashdash":
        av = ["--"] + av
    elif case["argv_form"] == "prog":
        av = ["someprog"] + av
    return av, seq


def expected(case, home):
    """Per parameter: (source, set of accepted values, info)."""
    _, seq = argv_of(case)
    out = []
    for p in case["params"]:
        kind = p["kind"]
        names = [full_name(p, k) for k in range(len(p["syns"]) + 1)]
        cl = {}
        for opt, name, value in seq:
            if name in names:
                cl.setdefault(name, []).append(value)
        cl_vals = {n: ",".join(v) for n, v in cl.items()}
        env_vals = {full_name(p, e["name"]): e["value"] for e in p["env"]}
        # files: leftmost file that mentions the name wins; inside a file the last assignment
        file_vals = {}
        for n in names:
            best = None
            for e in p["file"]:
                if full_name(p, e["name"]) == n and (best is None or e["file"] <= best["file"]):
                    best = e          # '<=': a later line of the same file replaces an earlier one
            if best is not None:
                file_vals[n] = best["value"]
        info = {"cl": cl_vals, "env": env_vals, "file": file_vals}
        if p["override"] is not None and not p["unset"]:
            out.append(("override", {typed(kind, p["override"], home)}, info))
        elif cl_vals or env_vals:
            out.append(("env", {typed(kind, v, home) for v in list(cl_vals.values()) + list(env_vals.values())}, info))
        elif file_vals:
            out.append(("file", {typed(kind, v, home) for v in file_vals.values()}, info))
        else:
            out.append(("default", {typed(kind, p["default"], home) if p["default"] is not None else None}, info))
    return out


def classify(case):
    """(nontrivial, labels)."""
    labels = ["mode_" + case["mode"], "argv_" + case["argv_form"], "files_" + case["files"]["style"]]
    nt = False
    for p in case["params"]:
        nsrc = 1 + (p["override"] is not None) + bool(p["cmdline"]) + bool(p["env"]) + bool(p["file"])
        syn_used = any(e["name"] > 0 for e in p["cmdline"] + p["env"] + p["file"])
        names = [e["name"] for e in p["cmdline"]]
        repeated = len(names) != len(set(names))
        labels.append("kind_" + p["kind"])
        labels.append("sources_%d" % nsrc)
        if syn_used:
            labels.append("synonym_used")
        if repeated:
            labels.append("repeated_mca")
        if p["unset"]:
            labels.append("override_unset")
        if p["cmdline"] and p["env"]:
            labels.append("cmdline_and_env")
        if p["cmdline"]:
            labels.append("opt_" + p["cmdline"][0]["opt"].lstrip("-"))
        if any("~/" in str(e.get("value", "")) for e in p["cmdline"] + p["env"] + p["file"]) or "~/" in str(p["default"]) or "~/" in str(p["override"]):
            labels.append("tilde")
        if nsrc >= 3 or syn_used or repeated:
            nt = True
    return nt, labels


# ------------------------------------------------------------------------------------------------ execution

def write_case(case, d):
    """Create the case directory content; returns (casefile, env additions)."""
    os.makedirs(d, exist_ok=True)
    home = os.path.join(d, "home")
    os.makedirs(os.path.join(home, ".parsec"), exist_ok=True)
    env = {"HOME": home}
    av, _ = argv_of(case)
    lines = ["mode\t" + case["mode"]]
    lines += ["arg\t" + a for a in av]
    for p in case["params"]:
        lines.append("param\t%s\t%s\t%s\t%s" % (p["kind"], p["tname"], p["pname"], "@NULL" if p["default"] is None else p["default"]))
    for i, p in enumerate(case["params"]):
        for s in p["syns"]:
            lines.append("syn\t%d\t%s\t%s\t%d" % (i, s["tname"], s["pname"], 1 if s["dep"] else 0))
    for i, p in enumerate(case["params"]):
        if p["override"] is not None:
            lines.append("set\t%d\t%s" % (i, p["override"]))
            if p["unset"]:
                lines.append("unset\t%d" % i)
    cf = os.path.join(d, "case.txt")
    with open(cf, "w") as f:
        f.write("\n".join(lines) + "\n")
    for p in case["params"]:
        for e in p["env"]:
            env["PARSEC_MCA_" + full_name(p, e["name"])] = e["value"]
    fs = case["files"]
    paths = []
    for k in range(fs["n"]):
        path = os.path.join(home, ".parsec", "mca-params.conf") if fs["style"] == "home" else os.path.join(d, "params%d.conf" % k)
        body = []
        deco = list(fs["deco"][k])
        for p in case["params"]:
            for e in p["file"]:
                if e["file"] == k:
                    if deco:
                        body.append(deco.pop(0))
                    body.append("%s%s%s%s" % (full_name(p, e["name"]), e["ws"], e["value"], e["trail"]))
        body += deco
        with open(path, "w") as f:
            f.write("\n".join(body) + "\n")
        paths.append(path)
    if fs["style"] == "env_list":
        env["PARSEC_MCA_mca_param_files"] = ":".join(paths)
    return cf, env, home


def run_case(case, driver, d, base_env, timeout=120):
    """Returns (error or None, winner labels, inconclusive flag)."""
    cf, env_add, home = write_case(case, d)
    env = dict(base_env)
    for k in list(env):
        if k.startswith("PARSEC_MCA_vf") or k == "PARSEC_MCA_mca_param_files":
            del env[k]
    env.update(env_add)
    try:
        p = subprocess.run([driver, cf], env=env, stdout=subprocess.PIPE, stderr=subprocess.PIPE, text=True, errors="replace", timeout=timeout, cwd=d)
    except subprocess.TimeoutExpired:
        return None, [], True
    if "C38-BEGIN" not in p.stdout or "C38-END" not in p.stdout:
        tail = (p.stderr or "")[-600:]
        return "driver died (rc=%s) without output: %s" % (p.returncode, tail), [], False
    try:
        obs = json.loads(p.stdout.split("C38-BEGIN", 1)[1].split("C38-END", 1)[0])["params"]
    except Exception as e:
        return "unparsable driver output: %s" % e, [], False
    if p.returncode != 0:
        return "driver exited with %s after printing its observations: %s" % (p.returncode, (p.stderr or "")[-400:]), [], False
    exp = expected(case, home)
    labels = []
    for i, (prm, o, (src, accepted, info)) in enumerate(zip(case["params"], obs, exp)):
        name = full_name(prm, 0)
        if o["index"] < 0 or o["lookup_rc"] != 0 or o["source_rc"] != 0:
            return "%s: registration/lookup failed (index=%s lookup_rc=%s source_rc=%s)" % (name, o["index"], o["lookup_rc"], o["source_rc"]), labels, False
        if o["source"] != src:
            return "%s (%s): lookup_source says '%s', the precedence model says '%s' (sources: %s)" % (name, prm["kind"], o["source"], src, _srcs(prm, info)), labels, False
        if o["value"] not in accepted:
            return "%s (%s): effective value %r, expected %s from source '%s' (sources: %s)" % (
                name, prm["kind"], o["value"], " or ".join(repr(a) for a in sorted(accepted, key=repr)), src, _srcs(prm, info)), labels, False
        if src == "env" and info["cl"] and info["env"]:
            kind = prm["kind"]
            clv = {typed(kind, v, home) for v in info["cl"].values()}
            labels.append("both_present:cmdline_wins" if o["value"] in clv else "both_present:env_wins")
        if src == "env" and len(info["cl"]) + len(info["env"]) > 1:
            labels.append("several_names_in_env_tier")
        if src == "file" and len(info["file"]) > 1:
            labels.append("several_names_in_files")
        if src == "file" and case["files"]["n"] > 1 and len({e["file"] for e in prm["file"]}) > 1:
            labels.append("value_in_several_files")
    return None, labels, False


def _srcs(prm, info):
    return "default=%r override=%r%s cmdline=%r env=%r file=%r" % (prm["default"], prm["override"], "(unset)" if prm["unset"] else "",
                                                                   info["cl"], info["env"], info["file"])
