/* C38 driver: one process per case (the MCA parameter system keeps process-global state).
 *
 *   mca_driver <casefile>
 *
 * Case file (one directive per line; '\t' separates fields so that values may contain spaces):
 *   mode init|direct        init: MPI_Init + parsec_init(argv) + parsec_fini ; direct: cmd_line + parsec_mca_cmd_line_process_args
 *   arg <text>              one element of the argument vector handed to parsec_init / parsec_cmd_line_parse (in order)
 *   param <int|sizet|string> <type_name> <param_name> <default | @NULL>
 *   syn <param#> <type_name> <param_name> <deprecated 0|1>
 *   set <param#> <value>    override through parsec_mca_param_set_*   (after all registrations)
 *   unset <param#>          parsec_mca_param_unset
 * Environment variables and parameter files are prepared by check.py.
 * Output: one JSON object on stdout (between the markers C38-BEGIN / C38-END).
 */
#include "parsec/parsec_config.h"
#include "parsec/runtime.h"
#include "parsec/utils/mca_param.h"
#include "parsec/utils/mca_param_cmd_line.h"
#include "parsec/utils/cmd_line.h"
#include "parsec/utils/parsec_environ.h"
#include "parsec/utils/output.h"
#include "parsec/utils/show_help.h"
#include "parsec/utils/installdirs.h"
#include <mpi.h>
#include <stdio.h>
#include <stdlib.h>
#include <string.h>

extern char **environ;

#define MAXP 16
#define MAXA 64
#define MAXOPS 64

typedef struct { char kind[8]; char tname[64]; char pname[64]; char *dflt; int dflt_null; int index; char *reg_string; long long reg_int; unsigned long long reg_sizet; } param_t;
typedef struct { int what; int p; char tname[64]; char pname[64]; int dep; char *value; } op_t;   /* what: 0 syn, 1 set, 2 unset */

static param_t P[MAXP]; static int np = 0;
static op_t OPS[MAXOPS]; static int nops = 0;
static char *ARGS[MAXA + 1]; static int nargs = 0;
static int mode_init = 0;

static void jstr(const char *s)
{
    if (NULL == s) { printf("null"); return; }
    putchar('"');
    for (const unsigned char *c = (const unsigned char *)s; *c; c++) {
        if (*c == '"' || *c == '\\') printf("\\%c", *c);
        else if (*c < 0x20 || *c >= 0x7f) printf("\\u%04x", *c);
        else putchar(*c);
    }
    putchar('"');
}

static char *field(char **cursor)
{
    char *s = *cursor, *t;
    if (NULL == s) return NULL;
    t = strchr(s, '\t');
    if (t) { *t = '\0'; *cursor = t + 1; } else *cursor = NULL;
    return s;
}

static int read_case(const char *path)
{
    FILE *f = fopen(path, "r");
    char *line = NULL; size_t n = 0; ssize_t l;
    if (!f) return -1;
    while ((l = getline(&line, &n, f)) != -1) {
        while (l > 0 && (line[l - 1] == '\n' || line[l - 1] == '\r')) line[--l] = '\0';
        if (0 == l || '#' == line[0]) continue;
        char *cur = line, *k = field(&cur);
        if (!strcmp(k, "mode")) { char *m = field(&cur); mode_init = (m && !strcmp(m, "init")); }
        else if (!strcmp(k, "arg")) { if (nargs < MAXA) ARGS[nargs++] = strdup(cur ? cur : ""); }
        else if (!strcmp(k, "param") && np < MAXP) {
            param_t *p = &P[np++];
            snprintf(p->kind, sizeof p->kind, "%s", field(&cur));
            snprintf(p->tname, sizeof p->tname, "%s", field(&cur));
            snprintf(p->pname, sizeof p->pname, "%s", field(&cur));
            p->dflt = strdup(cur ? cur : "");
            p->dflt_null = !strcmp(p->dflt, "@NULL");
        } else if (!strcmp(k, "syn") && nops < MAXOPS) {
            op_t *o = &OPS[nops++]; o->what = 0; o->p = atoi(field(&cur));
            snprintf(o->tname, sizeof o->tname, "%s", field(&cur));
            snprintf(o->pname, sizeof o->pname, "%s", field(&cur));
            o->dep = atoi(cur ? cur : "0");
        } else if (!strcmp(k, "set") && nops < MAXOPS) {
            op_t *o = &OPS[nops++]; o->what = 1; o->p = atoi(field(&cur)); o->value = strdup(cur ? cur : "");
        } else if (!strcmp(k, "unset") && nops < MAXOPS) {
            op_t *o = &OPS[nops++]; o->what = 2; o->p = atoi(cur ? cur : "0");
        }
    }
    free(line); fclose(f);
    ARGS[nargs] = NULL;
    return 0;
}

int main(int argc, char **argv)
{
    parsec_context_t *ctx = NULL;
    int i, rc;
    if (argc < 2 || read_case(argv[1]) != 0) { fprintf(stderr, "usage: mca_driver casefile\n"); return 2; }

    if (mode_init) {
        int prov, pargc = nargs; char **pargv = ARGS;
        MPI_Init_thread(&argc, &argv, MPI_THREAD_SERIALIZED, &prov);
        ctx = parsec_init(1, &pargc, &pargv);
        if (NULL == ctx) { fprintf(stderr, "parsec_init failed\n"); return 3; }
    } else {
        /* the command-line half of parsec_init, nothing else */
        parsec_cmd_line_t *cmd;
        char **ctx_env = NULL, **e;
        char **pv = (char **)calloc((size_t)nargs + 2, sizeof(char *));
        parsec_installdirs_open();
        parsec_mca_param_init();
        parsec_output_init();
        parsec_show_help_init();
        cmd = PARSEC_OBJ_NEW(parsec_cmd_line_t);
        parsec_mca_cmd_line_setup(cmd);
        pv[0] = (char *)"mca_driver";
        for (i = 0; i < nargs; i++) pv[i + 1] = ARGS[i];
        rc = parsec_cmd_line_parse(cmd, true, nargs + 1, pv);
        if (PARSEC_SUCCESS != rc) fprintf(stderr, "command line error (%d)\n", rc);
        parsec_mca_cmd_line_process_args(cmd, &ctx_env, &environ);
        for (e = ctx_env; NULL != e && NULL != *e; e++) {      /* what parsec_init does with the context environment */
            char *eq = strchr(*e, '=');
            if (eq) { *eq = '\0'; parsec_setenv(*e, eq + 1, true, &environ); }
            free(*e);
        }
        free(ctx_env);
        PARSEC_OBJ_RELEASE(cmd);
        free(pv);
    }

    /* registrations, in order */
    for (i = 0; i < np; i++) {
        param_t *p = &P[i];
        if (!strcmp(p->kind, "int")) {
            int v = -1;
            p->index = parsec_mca_param_reg_int_name(p->tname, p->pname, "C38 int parameter", false, false, atoi(p->dflt), &v);
            p->reg_int = v;
        } else if (!strcmp(p->kind, "sizet")) {
            size_t v = 0;
            p->index = parsec_mca_param_reg_sizet_name(p->tname, p->pname, "C38 size_t parameter", false, false, (size_t)strtoull(p->dflt, NULL, 10), &v);
            p->reg_sizet = v;
        } else {
            char *v = NULL;
            p->index = parsec_mca_param_reg_string_name(p->tname, p->pname, "C38 string parameter", false, false, p->dflt_null ? NULL : p->dflt, &v);
            p->reg_string = v;
        }
    }
    for (i = 0; i < nops; i++) {
        op_t *o = &OPS[i];
        if (o->p < 0 || o->p >= np || P[o->p].index < 0) continue;
        param_t *p = &P[o->p];
        if (0 == o->what) parsec_mca_param_reg_syn_name(p->index, o->tname, o->pname, o->dep ? true : false);
        else if (1 == o->what) {
            if (!strcmp(p->kind, "int")) parsec_mca_param_set_int(p->index, atoi(o->value));
            else if (!strcmp(p->kind, "sizet")) parsec_mca_param_set_sizet(p->index, (size_t)strtoull(o->value, NULL, 10));
            else parsec_mca_param_set_string(p->index, o->value);
        } else parsec_mca_param_unset(p->index);
    }

    printf("\nC38-BEGIN\n{\"params\": [");
    for (i = 0; i < np; i++) {
        param_t *p = &P[i];
        parsec_mca_param_source_t src = MCA_PARAM_SOURCE_MAX; char *sfile = NULL;
        int lrc, src_rc;
        printf("%s{\"index\": %d, \"kind\": \"%s\", ", i ? ", " : "", p->index, p->kind);
        if (!strcmp(p->kind, "int")) {
            int v = 0; lrc = parsec_mca_param_lookup_int(p->index, &v);
            printf("\"value\": %d, \"reg_value\": %lld, ", v, p->reg_int);
        } else if (!strcmp(p->kind, "sizet")) {
            size_t v = 0; lrc = parsec_mca_param_lookup_sizet(p->index, &v);
            printf("\"value\": %llu, \"reg_value\": %llu, ", (unsigned long long)v, p->reg_sizet);
        } else {
            char *v = NULL; lrc = parsec_mca_param_lookup_string(p->index, &v);
            printf("\"value\": "); jstr(v); printf(", \"reg_value\": "); jstr(p->reg_string); printf(", ");
        }
        src_rc = parsec_mca_param_lookup_source(p->index, &src, &sfile);
        printf("\"lookup_rc\": %d, \"source_rc\": %d, \"source\": \"%s\", \"source_file\": ", lrc, src_rc,
               MCA_PARAM_SOURCE_DEFAULT == src ? "default" : MCA_PARAM_SOURCE_ENV == src ? "env" :
               MCA_PARAM_SOURCE_FILE == src ? "file" : MCA_PARAM_SOURCE_OVERRIDE == src ? "override" : "unknown");
        jstr(sfile);
        printf("}");
    }
    printf("]}\nC38-END\n");
    fflush(stdout);

    if (mode_init) { parsec_fini(&ctx); MPI_Finalize(); }
    return 0;
}
