"""C38 -- MCA parameter precedence: Hypothesis-generated source combinations, one mca_driver subprocess per case."""
import json
import os
import shutil
import sys

from vf import core

sys.path.insert(0, os.path.dirname(os.path.abspath(__file__)))
import model   # noqa: E402

PROP = "C38"
TREE = "san"
RULE = ("case = 1..4 parameters (int / size_t / string, 0..2 synonyms, some deprecated) each with an independent choice of sources: "
        "default, parsec_mca_param_set_* override (sometimes unset again), 0..3 --mca/-mca/--gmca occurrences (primary or synonym name, "
        "argument vector given to parsec_init plain / after '--' / after a program name, or to parsec_mca_cmd_line_process_args "
        "directly), PARSEC_MCA_<name> environment variables, 1..3 parameter files named by PARSEC_MCA_mca_param_files or "
        "$HOME/.parsec/mca-params.conf (comments, blank lines, spacing); values unique per source; oracle = lookup_* value and "
        "lookup_source equal the winner by override > (command line | environment) > file > default, repeated --mca joined by "
        "commas, ~/ expanded; non-trivial = >= 3 sources for one parameter, or a synonym used, or a repeated --mca; distinct = "
        "distinct case values")


def _build():
    return core.build_harness("C38/mca_driver", ["harness/C38/mca_driver.c"], tree=TREE, lang="c")


def run(tier, seed, res):
    drv = _build()
    quick = tier == "quick"
    res.rule = RULE
    res.assumptions = ["command line and environment are one precedence tier (either value accepted, outcome labelled)",
                       "several names (primary/synonyms) present in one tier: any of their values accepted",
                       "several files: the leftmost file mentioning a name wins, inside a file the last assignment (unix path semantics stated in mca_param.c)",
                       "values are non-empty, contain no '#', no leading/trailing blanks; integers decimal or 0x-hex; repeated --mca only for string parameters",
                       "parameters are registered after parsec_init / command-line processing, synonyms right after their parameter, lookups at the end"]
    nw = 16
    per = 12 if quick else 2500
    rd = core.run_dir(PROP)
    jobs = []
    for i in range(nw):
        wd = os.path.join(rd, "wk%02d" % i)
        os.makedirs(wd, exist_ok=True)
        jobs.append(dict(cmd=[sys.executable, os.path.join(core.VERIF, "harness", PROP, "worker.py"), drv, str(seed * 131 + i), str(per), wd],
                         tag="hyp", timeout=None if not quick else 900))
    wr = core.run_workers(PROP, jobs)
    res.absorb(wr, "hyp")
    for f in wr.failures:
        res.violations.append(core.Violation(f["msg"], replay_text=f["replay_text"], ext="json"))
    for c in wr.crashes:
        if c["rc"] == "timeout":
            res.inconclusive = "worker timeout"
        else:
            res.inconclusive = "generator worker failed (rc=%s): %s" % (c["rc"], c["log_tail"][-400:])
    import glob
    for f in sorted(glob.glob(os.path.join(core.VERIF, "corpus", PROP, "regress", "*.json"))):
        ok, msg = replay(f)
        res.coverage.setdefault("regress_replays", {})[os.path.basename(f)] = "pass" if ok else "fail"
        if not ok and os.environ.get("C38_NO_REGRESS", "") != "1":
            res.violations.append(core.Violation("regression replay %s: %s" % (os.path.basename(f), msg[-500:]), replay_path=f))


def replay(path):
    drv = _build()
    case = json.load(open(path))
    d = os.path.join(core.run_dir(PROP), "replay")
    shutil.rmtree(d, ignore_errors=True)
    env = dict(os.environ)
    env.update(core.MPI_ENV)
    env.update(core.SAN_RUN_ENV)
    err, labels, inconc = model.run_case(case, drv, d, env)
    shutil.rmtree(d, ignore_errors=True)
    if inconc:
        return False, "timeout (inconclusive)"
    return err is None, err or "ok"
