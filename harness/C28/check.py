"""C28 -- zone allocator: unit-array model; rapidcheck + exhaustive small zones + libFuzzer."""
import glob
import os
import shutil
import subprocess

from vf import core

PROP = "C28"
SRC = ["harness/C28/zone.cc"]
# a small ASan quarantine: the harness allocates many short-lived objects; the default 256 MB quarantine makes every
# worker page-fault through fresh memory (5x slower), 8 MB still holds thousands of freed nodes
ASAN = {"ASAN_OPTIONS": core.SAN_RUN_ENV["ASAN_OPTIONS"] + ":quarantine_size_mb=8"}

RULE = ("case = (zone of Z units, unit_size in {1,8,512}, sequence of zone_malloc(bytes, also not a multiple of the unit) / "
        "zone_free(live address)); oracle after every operation = unit array with owner ids: address inside the zone, unit "
        "aligned, >= requested size, disjoint from live blocks, NULL iff the model has no free run of enough units, "
        "zone_in_use == live units x unit_size, zone_debug free bytes, payload tags intact at free; at the end everything is "
        "freed and the whole zone must be allocatable at the base again; non-trivial = >= 1 free that merged with both "
        "neighbours AND >= 1 failing malloc; distinct = distinct concrete operation texts (hash)")


def _build():
    rcbin = core.build_harness("C28/zone_rc", SRC, tree="san", rapidcheck=True)
    fzbin = core.build_harness("C28/zone_fuzz", SRC, tree="san", fuzzer=True, extra_cflags=["-DVF_FUZZ"])
    return rcbin, fzbin


def run(tier, seed, res):
    rcbin, fzbin = _build()
    quick = tier == "quick"
    res.rule = RULE
    res.assumptions = ["only live addresses are freed (double/invalid free is outside the statement)",
                       "size 0 is not requested", "single-threaded use (the zone lock is not under test here)",
                       "best-fit choice is recorded as a label (best_fit_chosen / not_best_fit), not asserted"]
    # (1) exhaustive: every effective sequence (sizes 1..largest run+1, every live index) up to length L on zones of Z units
    jobs = []
    if quick:
        plan = [(z, 6, 1) for z in range(1, 8)] + [(z, 5, 8) for z in range(1, 9)] + [(z, 4, 1) for z in range(9, 17)]
    else:
        plan = [(z, 6, 1) for z in range(1, 17)] + [(z, 6, 8) for z in range(1, 13)] + [(z, 7, 1) for z in range(1, 9)]
    for (z, l, u) in plan:
        jobs.append(dict(cmd=[rcbin, "exh", str(z), str(l), str(u)], env=dict(ASAN), tag="exh"))
    wr = core.run_workers(PROP, jobs)
    res.absorb(wr, "exhaustive")
    res.coverage["exhaustive"] = not (wr.failures or wr.crashes)
    res.coverage["exhaustive_subspace"] = ("all effective op sequences (malloc of 1..largest_free_run+1 units, free of every live block) "
                                           "for (zone units, max length, unit_size) in %s" % (plan,))
    _collect(res, wr)
    # (2) rapidcheck
    n = 12
    per = 2000 if quick else 200000
    jobs = [dict(cmd=[rcbin, "rc"], env=dict(ASAN, RC_PARAMS="seed=%d max_success=%d max_size=200" % (seed * 131 + i, per)), tag="rc")
            for i in range(n)]
    wr = core.run_workers(PROP, jobs)
    res.absorb(wr, "rc")
    _collect(res, wr)
    # (3) libFuzzer, same interpreter + oracle
    runs = 15000 if quick else 3000000
    nf = 8 if quick else 16
    jobs = []
    rd = core.run_dir(PROP)
    for i in range(nf):
        cdir = os.path.join(rd, "corpus%d" % i)
        adir = os.path.join(rd, "art%d" % i)
        os.makedirs(cdir, exist_ok=True)
        os.makedirs(adir, exist_ok=True)
        for f in glob.glob(os.path.join(core.VERIF, "corpus", PROP, "seed", "*")):
            shutil.copy(f, cdir)
        jobs.append(dict(cmd=[fzbin, "-seed=%d" % (seed * 131 + i), "-runs=%d" % runs, "-max_len=1400", "-len_control=20",
                              "-artifact_prefix=" + adir + "/", "-print_final_stats=0", "-verbosity=0", cdir], env=dict(ASAN), tag="fuzz%d" % i))
    wr = core.run_workers(PROP, jobs)
    res.absorb(wr, "fuzz")
    _collect(res, wr, fuzz=True)


def _collect(res, wr, fuzz=False):
    for f in wr.failures:
        res.violations.append(core.Violation(f["msg"], replay_text=f["replay_text"]))
    for c in wr.crashes:
        if fuzz and ("slow-unit" in c["log_tail"] or "timeout" in c["log_tail"] or "out-of-memory" in c["log_tail"]) \
                and "ERROR: AddressSanitizer" not in c["log_tail"] and "runtime error" not in c["log_tail"]:
            res.coverage.setdefault("load_noise", 0)
            res.coverage["load_noise"] += 1
            continue
        res.violations.append(core.Violation("harness process died (rc=%s) without a recorded case: %s" % (c["rc"], c["log_tail"][-1500:]),
                                             replay_text="# crash of %s\n%s" % (" ".join(c["cmd"]), c["log_tail"][-1500:])))


def replay(path):
    rcbin, _ = _build()
    env = dict(os.environ)
    env.update(core.SAN_RUN_ENV)
    p = subprocess.run([rcbin, "replay", path], env=env, stdout=subprocess.PIPE, stderr=subprocess.STDOUT, text=True)
    return p.returncode == 0 and "REPLAY-PASS" in p.stdout, p.stdout[-2000:]
