// C28 -- The zone allocator is a correct best-fit allocator.
//
// One checker (Runner) executes a sequence of concrete operations
//     M <units> <delta>   zone_malloc(units*unit_size - delta)      (delta < unit_size)
//     F <index>           zone_free(address of the index-th live allocation, oldest first)
// against a model "array of units with owner ids".  Drivers:
//   rc   : rapidcheck generates a word vector; words are interpreted against the current model
//          state (so that frees always name live blocks, and sizes hit the interesting boundaries)
//   exh  : every effective sequence up to length L on a zone of Z units (sizes 1..maxrun+1, every live index)
//   fuzz : libFuzzer bytes -> words -> same interpreter (-DVF_FUZZ)
// Replay file: either "W <words...>" or the concrete text "Z <zone> <unit>\nM n d\nF i\n...".
#include <algorithm>
#include <functional>
#include "vf.hpp"
#include "crashnote.hpp"
#ifndef VF_FUZZ
#include <rapidcheck.h>
#endif

extern "C" {
#include "parsec/parsec_config.h"
#include "parsec/utils/zone_malloc.h"
}

struct COp { char k; int a; int b; };          // 'M' units delta | 'F' index
typedef std::vector<long> Words;

struct Block { int id; int start; int units; char *p; size_t bytes; };

struct Runner {
    static const size_t ARENA = 512 * 512 + 4096;
    int Z; size_t unit;
    char *base = nullptr;
    zone_malloc_t *zone = nullptr;
    std::vector<int> owner;            // model: 0 = free, else allocation id
    std::vector<Block> live;           // in allocation order
    int next_id = 1;
    std::string err;
    std::vector<COp> done;             // concrete ops executed so far (for replay text)
    // evidence
    int merges_both = 0, merges_one = 0, merges_none = 0, failed_mallocs = 0, ok_mallocs = 0, frees = 0;
    int best_fit = 0, not_best_fit = 0, split = 0, exact = 0, not_at_run_start = 0;

    Runner(int z, size_t u) : Z(z), unit(u), owner(z, 0) {
        // one static arena, everything past the zone poisoned: ASan sees any access outside [base, base + Z*unit)
        static char *arena = (char *)aligned_alloc(4096, ARENA);
        if ((size_t)Z * unit > ARENA) { Z = (int)(ARENA / unit); owner.resize(Z); }
        base = arena;
        __asan_unpoison_memory_region(arena, ARENA);
        __asan_poison_memory_region(arena + (size_t)Z * unit, ARENA - (size_t)Z * unit);
        zone = zone_malloc_init(base, Z, unit);
    }
    ~Runner() {
        if (zone) { void *b = zone_malloc_fini(&zone); (void)b; }
    }
    bool fail(const std::string &m) { if (err.empty()) err = m; return false; }

    int maxrun() const {
        int best = 0, cur = 0;
        for (int i = 0; i < Z; i++) { if (owner[i] == 0) { cur++; best = std::max(best, cur); } else cur = 0; }
        return best;
    }
    int live_units() const { int n = 0; for (int o : owner) n += (o != 0); return n; }
    static unsigned char tag(int id, size_t off) { return (unsigned char)(0x40 + ((id * 7 + (int)(off & 3)) & 0x3f)); }

    // payload positions that carry a tag: every byte of small blocks; for big ones the first and last 64 bytes and
    // the first and last byte of every 512-byte stride
    static size_t step(size_t i, size_t bytes) {
        if (bytes <= 2048 || i < 63 || i + 65 >= bytes) return i + 1;
        size_t n = ((i & 511) == 511) ? i + 1 : (i | 511);
        return std::min(n, bytes - 64);
    }
    bool accounting() {
        size_t want = (size_t)live_units() * unit;
        size_t got = zone_in_use(zone);
        if (got != want) return fail("zone_in_use = " + std::to_string(got) + " but live allocations sum to " + std::to_string(want) + " bytes");
        size_t fr = zone_debug(zone, 100, 0, NULL);
        if (fr != (size_t)Z * unit - want) return fail("zone_debug reports " + std::to_string(fr) + " free bytes, model has " + std::to_string((size_t)Z * unit - want));
        return true;
    }

    bool do_malloc(int units, int delta) {
        size_t bytes = (size_t)units * unit - (size_t)delta;
        int need = units;
        int mr = maxrun();
        char *p = (char *)zone_malloc(zone, bytes);
        if (p == NULL) {
            if (mr >= need) return fail("zone_malloc(" + std::to_string(bytes) + " bytes = " + std::to_string(need) + " units) returned NULL although a free run of " + std::to_string(mr) + " units exists");
            failed_mallocs++;
            return accounting();
        }
        if (mr < need) return fail("zone_malloc(" + std::to_string(need) + " units) succeeded although the largest free run has " + std::to_string(mr) + " units");
        if (p < base || p >= base + (size_t)Z * unit) return fail("returned address is outside the zone");
        size_t off = (size_t)(p - base);
        if (off % unit) return fail("returned address is not aligned to the unit (offset " + std::to_string(off) + ")");
        int s = (int)(off / unit);
        if (s + need > Z) return fail("allocation of " + std::to_string(need) + " units at unit " + std::to_string(s) + " runs past the end of the zone");
        for (int i = s; i < s + need; i++)
            if (owner[i]) return fail("allocation at units [" + std::to_string(s) + "," + std::to_string(s + need) + ") overlaps live allocation #" + std::to_string(owner[i]));
        // label: was the chosen run a smallest sufficient one?
        int a = s, b = s + need; while (a > 0 && owner[a - 1] == 0) a--; while (b < Z && owner[b] == 0) b++;
        int chosen = b - a, smallest = Z + 1, cur = 0;
        for (int i = 0; i <= Z; i++) {
            if (i < Z && owner[i] == 0) cur++;
            else { if (cur >= need) smallest = std::min(smallest, cur); cur = 0; }
        }
        if (chosen == smallest) best_fit++; else not_best_fit++;
        if (chosen == need) exact++; else split++;
        if (a != s) not_at_run_start++;
        Block bl{next_id++, s, need, p, (size_t)need * unit};
        for (int i = s; i < s + need; i++) owner[i] = bl.id;
        for (size_t i = 0; i < bl.bytes; i = step(i, bl.bytes)) p[i] = (char)tag(bl.id, i);
        live.push_back(bl);
        ok_mallocs++;
        return accounting();
    }

    bool check_payload(const Block &b) {
        for (size_t i = 0; i < b.bytes; i = step(i, b.bytes))
            if ((unsigned char)b.p[i] != tag(b.id, i)) return fail("payload of live allocation #" + std::to_string(b.id) + " was overwritten at byte " + std::to_string(i));
        return true;
    }

    bool do_free(int idx) {
        if (idx < 0 || idx >= (int)live.size()) return true;     // only live addresses are freed
        Block b = live[idx];
        if (!check_payload(b)) return false;
        bool lf = b.start > 0 && owner[b.start - 1] == 0;
        bool rf = b.start + b.units < Z && owner[b.start + b.units] == 0;
        if (lf && rf) merges_both++; else if (lf || rf) merges_one++; else merges_none++;
        for (size_t i = 0; i < b.bytes; i = step(i, b.bytes)) b.p[i] = (char)0xEE;
        zone_free(zone, b.p);
        for (int i = b.start; i < b.start + b.units; i++) owner[i] = 0;
        live.erase(live.begin() + idx);
        frees++;
        return accounting();
    }

    bool apply(const COp &o) {
        done.push_back(o);
        if (o.k == 'M') return do_malloc(o.a, o.b);
        return do_free(o.a);
    }

    // after the sequence: all payloads intact; free everything; the whole zone must be one run again
    bool finish() {
        for (auto &b : live) if (!check_payload(b)) return false;
        while (!live.empty()) if (!do_free((int)live.size() / 2)) return false;
        if (zone_in_use(zone) != 0) return fail("zone_in_use != 0 after freeing everything");
        char *p = (char *)zone_malloc(zone, (size_t)Z * unit);
        if (p != base) return fail("after freeing everything an allocation of the whole zone " + std::string(p ? "is not at the base" : "fails (free runs were not merged)"));
        if (zone_in_use(zone) != (size_t)Z * unit) return fail("zone_in_use wrong for a full zone");
        if (zone_malloc(zone, 1) != NULL) return fail("allocation succeeds in a full zone");
        zone_free(zone, p);
        if (zone_in_use(zone) != 0) return fail("zone_in_use != 0 after final free");
        return true;
    }

    std::string text() const {
        std::ostringstream o; o << "Z " << Z << " " << unit << "\n";
        for (auto &c : done) { if (c.k == 'M') o << "M " << c.a << " " << c.b << "\n"; else o << "F " << c.a << "\n"; }
        return o.str();
    }
    bool nontrivial() const { return merges_both >= 1 && failed_mallocs >= 1; }
};

struct Outcome { std::string err, text; bool nontrivial = false; int live_end = 0, maxrun_end = 0; std::map<std::string, int> lab; };

static void labels_of(const Runner &r, Outcome &o) {
    o.lab["best_fit_chosen"] = r.best_fit; o.lab["not_best_fit"] = r.not_best_fit;
    o.lab["malloc_split"] = r.split; o.lab["malloc_exact"] = r.exact; o.lab["malloc_failed"] = r.failed_mallocs;
    o.lab["free_merge_both"] = r.merges_both; o.lab["free_merge_one"] = r.merges_one; o.lab["free_merge_none"] = r.merges_none;
    o.lab["placed_inside_run"] = r.not_at_run_start;
}

static Outcome run_concrete(int Z, size_t unit, const std::vector<COp> &ops, bool finish = true) {
    { std::ostringstream o; o << "Z " << Z << " " << unit << "\n"; for (auto &c : ops) { if (c.k == 'M') o << "M " << c.a << " " << c.b << "\n"; else o << "F " << c.a << "\n"; } crashnote::set(o.str()); }
    Outcome out; Runner r(Z, unit);
    bool ok = true;
    for (size_t i = 0; i < ops.size() && ok; i++) {
        ok = r.apply(ops[i]);
        if (!ok) out.err = "op #" + std::to_string(i) + " (" + ops[i].k + " " + std::to_string(ops[i].a) + "): " + r.err;
    }
    out.live_end = (int)r.live.size(); out.maxrun_end = r.maxrun();
    out.nontrivial = r.nontrivial();
    out.text = r.text();
    if (ok && finish && !r.finish()) out.err = "final drain: " + r.err;
    labels_of(r, out);
    return out;
}

static const size_t UNITS[3] = {1, 8, 512};

// words -> operations, resolved against the current model state
static Outcome run_words(const Words &w) {
    Outcome out;
    { std::ostringstream o; o << "W"; for (long x : w) o << " " << x; o << "\n"; crashnote::set(o.str()); }
    if (w.size() < 3) { out.text = "Z 1 1\n"; return out; }
    int Z;
    switch (w[0] % 4) {
    case 0: Z = 1 + (int)(w[1] % 16); break;
    case 1: Z = 17 + (int)(w[1] % 48); break;
    case 2: Z = 65 + (int)(w[1] % 448); break;
    default: Z = 1 + (int)(w[1] % 32); break;
    }
    size_t unit = UNITS[w[2] % 3];
    Runner r(Z, unit);
    bool ok = true; size_t nops = 0;
    for (size_t i = 3; i + 1 < w.size() && ok && nops < 700; i += 2, nops++) {
        long sel = w[i] % 8, arg = w[i + 1];
        COp o;
        if (sel >= 5 && !r.live.empty()) { o.k = 'F'; o.a = (int)(arg % (long)r.live.size()); o.b = 0; }
        else {
            int units, mr = r.maxrun();
            switch (arg % 5) {
            case 0: units = 1 + (int)((arg / 5) % 3); break;
            case 1: units = 1 + (int)((arg / 5) % (Z / 4 + 1)); break;
            case 2: units = 1 + (int)((arg / 5) % (Z + 1)); break;                 // up to zone+1
            case 3: units = std::max(1, mr + (int)((arg / 5) % 2)); break;        // exactly the largest run, or one more
            default: units = 1 + (int)((arg / 5) % (Z / 8 + 2)); break;
            }
            o.k = 'M'; o.a = units; o.b = unit > 1 ? (int)((arg / 64) % (long)unit) : 0;
            if ((arg / 7) % 3 == 0) o.b = 0;
        }
        ok = r.apply(o);
        if (!ok) out.err = "op #" + std::to_string(nops) + " (" + o.k + " " + std::to_string(o.a) + "): " + r.err;
    }
    out.nontrivial = r.nontrivial();
    out.text = r.text();
    if (ok && !r.finish()) out.err = "final drain: " + r.err;
    labels_of(r, out);
    out.lab[std::string("unit_") + std::to_string(unit)] = 1;
    out.lab[Z <= 16 ? "zone_1_16" : (Z <= 64 ? "zone_17_64" : "zone_65_512")] = 1;
    return out;
}

static void note(const Outcome &o) {
    vf::note_case(o.text, o.nontrivial);
    for (auto &kv : o.lab) if (kv.second) vf::label(kv.first, (uint64_t)kv.second);
}

static Words bytes_to_words(const uint8_t *d, size_t n) {
    Words w; for (size_t i = 0; i + 1 < n; i += 2) w.push_back((long)d[i] | ((long)d[i + 1] << 8)); return w;
}

#ifdef VF_FUZZ
static uint64_t g_execs = 0;
extern "C" int LLVMFuzzerTestOneInput(const uint8_t *data, size_t size) {
    Outcome o = run_words(bytes_to_words(data, size));
    note(o);
    if (++g_execs % 20000 == 0) vf::dump();
    if (!o.err.empty()) {
        vf::record_failure(o.text, o.err);
        vf::dump();
        fprintf(stderr, "PROPERTY FAILURE: %s\n", o.err.c_str());
        __builtin_trap();
    }
    return 0;
}
extern "C" int LLVMFuzzerInitialize(int *, char ***) { atexit(vf::dump); return 0; }
#else

// ---- exhaustive: all effective sequences of length <= L on a zone of Z units
static uint64_t exh_count = 0;
static bool exh_rec(int Z, size_t unit, int delta, std::vector<COp> &seq, int L, std::string *bad) {
    Outcome o = run_concrete(Z, unit, seq, true);
    note(o); exh_count++;
    if (!o.err.empty()) { *bad = o.err; vf::record_failure(o.text, o.err); return false; }
    if ((int)seq.size() == L) return true;
    int top = std::min(Z + 1, o.maxrun_end + 1);           // every failing size behaves alike: keep the smallest one
    for (int n = 1; n <= top; n++) {
        seq.push_back({'M', n, delta});
        if (!exh_rec(Z, unit, delta, seq, L, bad)) return false;
        seq.pop_back();
    }
    for (int i = 0; i < o.live_end; i++) {
        seq.push_back({'F', i, 0});
        if (!exh_rec(Z, unit, delta, seq, L, bad)) return false;
        seq.pop_back();
    }
    return true;
}

static bool parse_concrete(const std::string &txt, int *Z, size_t *unit, std::vector<COp> *ops) {
    std::istringstream in(txt); std::string line; bool have = false;
    while (std::getline(in, line)) {
        int a, b; unsigned long u;
        if (sscanf(line.c_str(), "Z %d %lu", &a, &u) == 2) { *Z = a; *unit = u; have = true; }
        else if (sscanf(line.c_str(), "M %d %d", &a, &b) == 2) ops->push_back({'M', a, b});
        else if (sscanf(line.c_str(), "F %d", &a) == 1) ops->push_back({'F', a, 0});
    }
    return have;
}

static int replay_file(const char *path) {
    std::string txt = vf::slurp(path);
    Outcome o;
    int Z = 1; size_t unit = 1; std::vector<COp> ops;
    if (parse_concrete(txt, &Z, &unit, &ops)) {
        if (Z < 1 || Z > 100000 || unit < 1) { printf("REPLAY-FAIL bad header\n"); return 1; }
        for (auto &c : ops) if (c.k == 'M' && (c.a < 1 || c.b < 0 || (size_t)c.b >= unit)) { printf("REPLAY-FAIL bad op\n"); return 1; }
        o = run_concrete(Z, unit, ops);
    } else {
        Words w; std::istringstream in(txt); std::string tok;
        while (in >> tok) { if (tok == "W" || tok[0] == '#') continue; w.push_back(atol(tok.c_str())); }
        o = run_words(w);
    }
    if (o.err.empty()) { printf("REPLAY-PASS\n"); return 0; }
    printf("REPLAY-FAIL %s\n", o.err.c_str());
    return 1;
}

int main(int argc, char **argv) {
    std::string mode = argc > 1 ? argv[1] : "rc";
    if (mode == "replay") return replay_file(argv[2]);
    crashnote::install();
    if (mode == "replay-bytes") {
        std::string d = vf::slurp(argv[2]);
        Outcome o = run_words(bytes_to_words((const uint8_t *)d.data(), d.size()));
        if (o.err.empty()) { printf("REPLAY-PASS\n"); return 0; }
        printf("REPLAY-FAIL %s\n", o.err.c_str()); return 1;
    }
    if (mode == "exh") {       // exh Z L unit
        int Z = atoi(argv[2]), L = atoi(argv[3]); size_t unit = (size_t)atol(argv[4]);
        int delta = unit > 1 ? (int)(unit / 2 + 1) % (int)unit : 0;       // byte sizes that are not a multiple of the unit
        std::vector<COp> seq; std::string bad;
        bool ok = exh_rec(Z, unit, delta, seq, L, &bad);
        vf::R().extra["exhaustive_sequences"] = std::to_string(exh_count);
        vf::dump();
        return ok ? 0 : 1;
    }
    bool ok = rc::check("zone allocator == unit-array model after every operation", []() {
        const auto len = *rc::gen::inRange<int>(0, 320);
        Words w = *rc::gen::container<Words>((size_t)(3 + 2 * len), rc::gen::resize(100, rc::gen::inRange<long>(0, 65536)));
        Outcome o = run_words(w);
        note(o);
        if (!o.err.empty()) { vf::record_failure(o.text, o.err); RC_FAIL(o.err); }
    });
    vf::dump();
    return ok ? 0 : 1;
}
#endif
