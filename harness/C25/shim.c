/* C shim for C25: a real PaRSEC context (never started) provides execution streams with their data-repo mempools;
 * out-of-line access to the data repository API (macros in datarepo.h) and read-only peeks into an entry. */
#include "parsec/parsec_config.h"
#include "parsec/runtime.h"
#include "parsec/parsec_internal.h"
#include "parsec/execution_stream.h"
#include "parsec/datarepo.h"
#include "parsec/class/parsec_hash_table.h"
#include <mpi.h>
#include <stdlib.h>

static parsec_context_t *g_ctx;

int c25_init(int nstreams)
{
    int provided = 0, argc = 1;
    char *argv_s[2] = { (char *)"c25", NULL };
    char **argv = argv_s;
    MPI_Init_thread(NULL, NULL, MPI_THREAD_SERIALIZED, &provided);
    g_ctx = parsec_init(nstreams, &argc, &argv);
    if (NULL == g_ctx) return -1;
    return g_ctx->virtual_processes[0]->nb_cores;
}
void *c25_es(int i) { return g_ctx->virtual_processes[0]->execution_streams[i % g_ctx->virtual_processes[0]->nb_cores]; }
void *c25_repo_new(int nbdata) { return data_repo_create_nothreadsafe(64, parsec_hash_table_generic_key_fn, NULL, (unsigned)nbdata); }
void c25_repo_free(void *r) { data_repo_destroy_nothreadsafe((data_repo_t *)r); }
void *c25_create(void *es, void *r, unsigned long key) { return data_repo_lookup_entry_and_create((parsec_execution_stream_t *)es, (data_repo_t *)r, (parsec_key_t)key); }
void c25_addto(void *r, unsigned long key, unsigned n) { data_repo_entry_addto_usage_limit((data_repo_t *)r, (parsec_key_t)key, n); }
void c25_used_once(void *r, unsigned long key) { data_repo_entry_used_once((data_repo_t *)r, (parsec_key_t)key); }
void *c25_lookup(void *r, unsigned long key) { return data_repo_lookup_entry((data_repo_t *)r, (parsec_key_t)key); }
unsigned long c25_entry_key(void *e) { return (unsigned long)((data_repo_entry_t *)e)->ht_item.key; }
int c25_entry_cnt(void *e) { return ((data_repo_entry_t *)e)->usagecnt; }
int c25_entry_lmt(void *e) { return ((data_repo_entry_t *)e)->usagelmt; }
int c25_entry_retained(void *e) { return ((data_repo_entry_t *)e)->retained; }
