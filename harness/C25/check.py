"""C25 -- data repository reclamation: schedule-owned histories (dsched, hook H3) + exhaustive tiny space + stress."""
import glob
import os
import subprocess

from vf import core

PROP = "C25"
RULE = ("case = (1..3 keys, 1..3 creators per key with announced limits n_i in 0..3, per-thread lists of CREATE(i) / ADDTO(i) / USE(i) / "
        "LOOKUP(key) that are sub-sequences of one valid global order, schedule bytes); lookup_entry_and_create and the one matching "
        "entry_addto_usage_limit(n_i) by the same thread, the n_i entry_used_once calls on any thread after the create returned; real "
        "execution streams of a never-started context provide the mempools; run under dsched with reclaim events from hook H3; oracle = "
        "per key the history (entry returned by create/lookup, 'this call reclaimed') is Wing&Gong-linearizable w.r.t. the model "
        "'findable iff a creator has not announced yet or uses < announced limits; exactly the call making this false reclaims', no "
        "key findable at the end, reclaimed entries have retained==0 and usagecnt==usagelmt; non-trivial = two creators of one key "
        "overlap in time AND a use completed before its creator announced its limit; distinct = distinct (programs, schedule) texts; "
        "exhaustive part = 2 creators of one key on 2 threads, n in 0..nmax, ADDTO at every position among the uses, own/cross users, "
        "trailing lookup when n_A == n_B x every schedule with <= pb preemptions")


def _build():
    return core.build_harness("C25/repo", ["harness/C25/repo.cc"], tree="san", rapidcheck=True,
                              plain_c_sources=["harness/C25/shim.c"])


def collect(res, wr):
    for f in wr.failures:
        res.violations.append(core.Violation(f["msg"], replay_text=f["replay_text"]))
    for c in wr.crashes:
        res.violations.append(core.Violation("harness process died (rc=%s): %s" % (c["rc"], c["log_tail"][-1200:]),
                                             replay_text="# crash of %s\n%s" % (" ".join(c["cmd"]), c["log_tail"][-1500:])))


def run(tier, seed, res):
    b = _build()
    quick = tier == "quick"
    res.rule = RULE
    res.assumptions = ["one entry_addto_usage_limit per lookup_entry_and_create, by the creating thread; uses only after the corresponding create returned",
                       "sum of uses == sum of announced limits at the end of every case",
                       "sequential consistency at atomic-operation granularity under dsched (stress part: real parallelism on x86)"]
    n = 16
    nmax, pb, crossmax = (2, 2, 1) if quick else (2, 3, 2)
    jobs = [dict(cmd=[b, "exh", str(nmax), str(pb), str(i), str(n), str(crossmax)], tag="exh") for i in range(n)]
    wr = core.run_workers(PROP, jobs)
    res.absorb(wr, "exhaustive")
    res.coverage["exhaustive"] = not (wr.failures or wr.crashes)
    res.coverage["exhaustive_subspace"] = ("2 creators of one key on 2 threads, n_A,n_B in 0..%d, ADDTO at every position among the thread's uses, uses of the own "
                                           "creator or (n_A,n_B <= %d) of the other creator, trailing lookup when n_A == n_B; every schedule with <= %d preemptions" % (nmax, crossmax, pb))
    collect(res, wr)
    per = 1200 if quick else 190000
    jobs = [dict(cmd=[b, "rc"], env={"RC_PARAMS": "seed=%d max_success=%d max_size=100" % (seed * 131 + i, per)}, tag="rc") for i in range(n)]
    wr = core.run_workers(PROP, jobs)
    res.absorb(wr, "rc")
    collect(res, wr)
    rounds = 10000 if quick else 3000000
    jobs = [dict(cmd=[b, "stress", str(t), str(rounds), str(seed * 17 + t)], tag="stress") for t in (2, 4, 8, 16)]
    wr = core.run_workers(PROP, jobs, max_parallel=4)
    res.absorb(wr, "stress")
    collect(res, wr)
    for f in sorted(glob.glob(os.path.join(core.VERIF, "corpus", PROP, "regress", "*.txt"))):
        ok, msg = replay(f)
        res.coverage.setdefault("regress_replays", {})[os.path.basename(f)] = "pass" if ok else "fail"
        if not ok:
            res.violations.append(core.Violation("regression replay %s fails: %s" % (os.path.basename(f), msg.strip()[-600:]), replay_path=f))


def replay(path):
    b = _build()
    env = dict(os.environ)
    env.update(core.MPI_ENV)
    env.update(core.SAN_RUN_ENV)
    p = subprocess.run([b, "replay", path], env=env, stdout=subprocess.PIPE, stderr=subprocess.STDOUT, text=True)
    return p.returncode == 0 and "REPLAY-PASS" in p.stdout, p.stdout[-2000:]
