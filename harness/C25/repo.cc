// C25 -- Data repository entries are reclaimed exactly when unused.
//
// case = (creators (key, n_i) on 1..3 keys, per-thread action lists CREATE(i) / ADDTO(i) / USE(i) / LOOKUP(key) that are
// sub-sequences of one valid global order (CREATE(i) first), schedule).  One addto_usage_limit(n_i) per
// lookup_entry_and_create, by the same thread; the n_i uses of creator i happen after its create returned, in any
// interleaving with the limit announcement.  Real execution streams (parsec_init, context never started) give the mempools.
// Run under dsched; hook H3 reports every reclaim.  Oracle: per key, the history (results: entry returned by create /
// lookup, "this call reclaimed the entry" from H3) is linearizable w.r.t. the model
//   findable <=> some creator has not announced its limit yet, or uses seen < sum of announced limits;
//   the call that makes this false reclaims, no other call does;
// + at the end no key is findable; + a reclaimed entry has retained == 0 && usagecnt == usagelmt.
#include <algorithm>
#include <atomic>
#include <thread>
#include "vf.hpp"
#include "dsched.hpp"
#include "linearize.hpp"
#include "fair.hpp"
#include <rapidcheck.h>

extern "C" {
int c25_init(int); void *c25_es(int); void *c25_repo_new(int); void c25_repo_free(void *);
void *c25_create(void *, void *, unsigned long); void c25_addto(void *, unsigned long, unsigned); void c25_used_once(void *, unsigned long);
void *c25_lookup(void *, unsigned long);
unsigned long c25_entry_key(void *); int c25_entry_cnt(void *); int c25_entry_lmt(void *); int c25_entry_retained(void *);
extern int (*parsec_verif_event_fn)(int, void *, void *);
}
enum { A_CREATE = 0, A_ADDTO, A_USE, A_LOOKUP };
static const unsigned long KEYBASE = 0x1000;

struct Act { int kind, x; };    // x = creator index (CREATE/ADDTO/USE) or key index (LOOKUP)
struct Case {
    int sparse = 0, nkeys = 1;
    std::vector<int> cr_key, cr_n;
    std::vector<std::vector<Act>> prog;
    std::vector<uint8_t> sched;
    std::string repr() const {
        std::ostringstream o; o << "C25 sparse " << sparse << " keys " << nkeys << "\n";
        for (size_t i = 0; i < cr_key.size(); i++) o << "creator " << cr_key[i] << " " << cr_n[i] << "\n";
        for (auto &p : prog) { o << "thread"; for (auto &a : p) o << " " << a.kind << " " << a.x; o << "\n"; }
        o << "sched"; for (uint8_t b : sched) o << " " << (int)b; o << "\n";
        return o.str();
    }
    static Case parse(const std::string &s) {
        Case c; std::istringstream in(s); std::string line;
        while (std::getline(in, line)) {
            std::istringstream ls(line); std::string w; ls >> w;
            if (w == "C25") { std::string k; int v; while (ls >> k >> v) { if (k == "sparse") c.sparse = v; else if (k == "keys") c.nkeys = v; } }
            else if (w == "creator") { int k, n; ls >> k >> n; c.cr_key.push_back(k); c.cr_n.push_back(n); }
            else if (w == "thread") { std::vector<Act> p; Act a; while (ls >> a.kind >> a.x) p.push_back(a); c.prog.push_back(p); }
            else if (w == "sched") { int x; while (ls >> x) c.sched.push_back((uint8_t)x); }
        }
        return c;
    }
};

struct HOp {
    int kind = 0, n = 0, cr = -1; void *res = nullptr; bool reclaimed = false; void *reclaimed_ptr = nullptr; std::vector<void *> discards;
    int thread = -1; uint64_t inv = 0, resp = 0;
};
struct KeyModel {
    bool exists = false; void *ptr = nullptr; int retained = 0, lmt = 0, cnt = 0;
    bool gone(const HOp &o) { if (!o.reclaimed || o.reclaimed_ptr != ptr) return false; exists = false; ptr = nullptr; retained = lmt = cnt = 0; return true; }
    bool apply(const HOp &o) {
        switch (o.kind) {
        case A_CREATE:
            if (o.reclaimed) return false;
            if (exists) { if (o.res != ptr) return false; retained++; }
            else { if (o.res == nullptr) return false; exists = true; ptr = o.res; retained = 1; lmt = cnt = 0; }
            return true;
        case A_ADDTO:
            if (!exists || retained <= 0) return false;
            lmt += o.n; retained--;
            if (retained == 0 && lmt == cnt) return gone(o);
            return !o.reclaimed;
        case A_USE:
            if (!exists) return false;
            cnt++;
            if (retained == 0 && lmt == cnt) return gone(o);
            return !o.reclaimed;
        case A_LOOKUP: return o.res == (exists ? ptr : nullptr);
        }
        return false;
    }
    std::string key() const { std::ostringstream s; s << exists << "," << ptr << "," << retained << "," << lmt << "," << cnt; return s.str(); }
};

// ---- H3 event sink
static thread_local HOp *t_cur = nullptr;
static std::atomic<long> g_ev_site[3];
static std::atomic<int> g_ev_bad{0};
static std::string g_ev_err;
static int ev_hook(int ev, void *a, void *b) {
    if (ev != 1) return 0;
    int site = (int)(intptr_t)b;
    if (site >= 0 && site < 3) g_ev_site[site]++;
    if (site != 0) {
        int r = c25_entry_retained(a), c = c25_entry_cnt(a), l = c25_entry_lmt(a);
        if (r != 0 || c != l) { if (!g_ev_bad.fetch_add(1)) g_ev_err = "an entry is reclaimed with retained=" + std::to_string(r) + " usagecnt=" + std::to_string(c) + " usagelmt=" + std::to_string(l); }
    }
    if (t_cur) { if (site == 0) t_cur->discards.push_back(a); else { if (t_cur->reclaimed) { if (!g_ev_bad.fetch_add(1)) g_ev_err = "one call reclaimed two entries"; } t_cur->reclaimed = true; t_cur->reclaimed_ptr = a; } }
    else if (!g_ev_bad.fetch_add(1)) g_ev_err = "reclaim event outside of any repository call of the harness";
    return 0;
}

struct RunInfo { bool nontrivial = false, overlap_creators = false, use_before_limit = false, dup_discarded = false; int incarnations = 0; uint64_t steps = 0; };

static std::string run_case(const Case &c, dsched::Chooser &ch, RunInfo *ri) {
    int T = (int)c.prog.size(), NC = (int)c.cr_key.size();
    void *repo = c25_repo_new(2);
    for (auto &x : g_ev_site) x = 0; g_ev_bad = 0; g_ev_err.clear();
    parsec_verif_event_fn = ev_hook;
    std::vector<int> created(NC, 0);
    std::vector<uint64_t> cr_create_resp(NC, 0), cr_addto_inv(NC, ~0ULL), cr_addto_resp(NC, ~0ULL), cr_create_inv(NC, 0);
    std::vector<std::vector<HOp>> hist(c.nkeys);
    bool use_before = false;
    std::vector<std::function<void()>> bodies;
    for (int t = 0; t < T; t++) bodies.push_back([&, t]() {
        void *es = c25_es(t);
        for (const Act &a : c.prog[t]) {
            HOp h; h.kind = a.kind; h.thread = t;
            int k = a.kind == A_LOOKUP ? a.x : c.cr_key[a.x];
            unsigned long key = KEYBASE + (unsigned long)k * 17;
            if (a.kind != A_LOOKUP) { h.cr = a.x; while (a.kind != A_CREATE && !created[a.x]) dsched::spin_point(); }
            t_cur = &h;
            h.inv = dsched::now();
            switch (a.kind) {
            case A_CREATE: h.res = c25_create(es, repo, key); break;
            case A_ADDTO: h.n = c.cr_n[a.x]; c25_addto(repo, key, (unsigned)h.n); break;
            case A_USE: c25_used_once(repo, key); break;
            case A_LOOKUP: h.res = c25_lookup(repo, key); break;
            }
            h.resp = dsched::now() + 1;
            t_cur = nullptr;
            if (a.kind == A_CREATE) { created[a.x] = 1; cr_create_inv[a.x] = h.inv; cr_create_resp[a.x] = h.resp; }
            if (a.kind == A_ADDTO) { cr_addto_inv[a.x] = h.inv; cr_addto_resp[a.x] = h.resp; }
            if (a.kind == A_USE && cr_addto_inv[a.x] == ~0ULL) use_before = true;
            hist[k].push_back(h);
        }
    });
    dsched::Outcome out = dsched::run(bodies, ch, 300000);
    parsec_verif_event_fn = nullptr;
    ri->steps = out.steps;
    std::string err = g_ev_err;
    uint64_t stamp = out.steps + 10;
    for (int k = 0; k < c.nkeys && err.empty(); k++) {
        auto &h = hist[k];
        HOp f; f.kind = A_LOOKUP; f.thread = -1; f.inv = stamp++; f.res = c25_lookup(repo, KEYBASE + (unsigned long)k * 17); f.resp = stamp++;
        if (f.res != nullptr && !h.empty()) {
            err = "key " + std::to_string(k) + ": entry still findable after every creator announced its limit and every announced use happened (usagecnt=" + std::to_string(c25_entry_cnt(f.res)) + " usagelmt=" + std::to_string(c25_entry_lmt(f.res)) + " retained=" + std::to_string(c25_entry_retained(f.res)) + ")";
            break;
        }
        h.push_back(f);
        for (auto &o : h) for (void *d : o.discards) if (o.kind != A_CREATE || d == o.res) err = "a discarded duplicate entry is the entry that was returned / discarded outside create";
        if (err.empty() && h.size() <= 40 && !lin::linearizable<HOp, KeyModel>(h, KeyModel())) {
            std::ostringstream o; o << "key " << k << ": history is not linearizable w.r.t. the reclamation model:";
            static const char *nm[] = {"create", "addto", "use", "lookup"};
            for (auto &x : h) { o << " [t" << x.thread << " " << nm[x.kind]; if (x.kind == A_ADDTO) o << "(" << x.n << ")"; if (x.cr >= 0) o << "#" << x.cr; if (x.kind == A_CREATE || x.kind == A_LOOKUP) o << "->" << x.res; if (x.reclaimed) o << " RECLAIMED " << x.reclaimed_ptr; o << " @" << x.inv << "-" << x.resp << "]"; }
            err = o.str();
        }
        for (auto &o : h) { if (o.reclaimed) ri->incarnations++; if (!o.discards.empty()) ri->dup_discarded = true; }
    }
    for (int i = 0; i < NC; i++) for (int j = i + 1; j < NC; j++)
        if (c.cr_key[i] == c.cr_key[j] && cr_create_inv[i] < cr_addto_resp[j] && cr_create_inv[j] < cr_addto_resp[i]) ri->overlap_creators = true;
    ri->use_before_limit = use_before;
    ri->nontrivial = ri->overlap_creators && ri->use_before_limit;
    if (err.empty()) c25_repo_free(repo);     // (leaked after a failure: entries may still be in the table)
    return err;
}

static std::string g_current;
static void fatal_hook(const char *what) { vf::record_failure(g_current, what); vf::dump(); }

static int do_replay(const char *path) {
    Case c = Case::parse(vf::slurp(path)); g_current = c.repr();
    hx::FairByteChooser ch(c.sched.data(), c.sched.size(), c.sparse);
    RunInfo ri; std::string e = run_case(c, ch, &ri);
    if (e.empty()) { printf("REPLAY-PASS\n"); return 0; }
    printf("REPLAY-FAIL %s\n", e.c_str()); return 1;
}

// ---- exhaustive: 2 creators of one key on 2 threads, n_A, n_B in 0..nmax; each thread: CREATE, then its n uses and its
// ADDTO in every order; the uses are those of its own creator ("own") or of the other thread's creator ("cross", n <= crossmax);
// a trailing LOOKUP in thread 0 when n_A == n_B; every schedule with <= pb preemptions
static int do_exh(int nmax, int pb, int part, int nparts, int crossmax) {
    uint64_t execs = 0; bool truncated = false; long idx = 0, programs = 0;
    for (int cross = 0; cross < 2; cross++) for (int nA = 0; nA <= nmax; nA++) for (int nB = 0; nB <= nmax; nB++)
    {
        if (cross && (nA > crossmax || nB > crossmax)) continue;
        int look = nA == nB;
        int u0 = cross ? nB : nA, u1 = cross ? nA : nB;          // number of USE actions in thread 0 / 1
        for (int pa = 0; pa <= u0; pa++) for (int pbb = 0; pbb <= u1; pbb++) {
            if (idx++ % nparts != part) continue;
            programs++;
            Case c; c.nkeys = 1; c.cr_key = {0, 0}; c.cr_n = {nA, nB}; c.prog.resize(2);
            for (int t = 0; t < 2; t++) {
                int u = t ? u1 : u0, pos = t ? pbb : pa, target = cross ? 1 - t : t;
                c.prog[t].push_back({A_CREATE, t});
                for (int i = 0; i <= u; i++) { if (i == pos) c.prog[t].push_back({A_ADDTO, t}); if (i < u) c.prog[t].push_back({A_USE, target}); }
            }
            if (look) c.prog[0].push_back({A_LOOKUP, 0});
            dsched::DfsChooser d(pb);
            bool any_nt = false; uint64_t n0 = 0;
            do {
                d.begin();
                RunInfo ri; std::string e = run_case(c, d, &ri);
                execs++; n0++; any_nt = any_nt || ri.nontrivial;
                if (!e.empty()) {
                    Case f = c; f.sparse = -1;
                    for (size_t k = 0; k < d.depth && k < d.stack.size(); k++) f.sched.push_back((uint8_t)d.stack[k].chosen);
                    vf::record_failure(f.repr(), e); vf::R().evaluations += execs; vf::dump(); return 1;
                }
            } while (d.next());
            truncated = truncated || d.truncated;
            vf::note_case(c.repr() + "#schedules " + std::to_string(n0) + "\n", any_nt);
            vf::R().evaluations += n0 - 1;
            vf::label("schedules_enumerated", n0);
        }
    }
    vf::R().extra["exh_truncated"] = truncated ? "true" : "false";
    vf::R().extra["exh_programs"] = std::to_string(programs);
    vf::dump();
    return 0;
}

// ---- stress: free running threads, each repeatedly creates an entry of one of a few keys, performs its own n uses and
// its limit announcement in an LCG-chosen order
static int do_stress(int T, long rounds, unsigned seed) {
    void *repo = c25_repo_new(2);
    for (auto &x : g_ev_site) x = 0; g_ev_bad = 0; g_ev_err.clear();
    parsec_verif_event_fn = ev_hook;
    const int K = 3;
    std::atomic<long> creates{0};
    std::vector<std::thread> th;
    for (int t = 0; t < T; t++) th.emplace_back([&, t]() {
        static thread_local HOp dummy;
        void *es = c25_es(t);
        uint64_t x = seed * 7919u + t * 104729u + 1;
        auto next = [&]() { x = x * 6364136223846793005ULL + 1442695040888963407ULL; return (unsigned)(x >> 35); };
        for (long r = 0; r < rounds; r++) {
            unsigned long key = KEYBASE + (next() % K) * 17;
            int n = next() % 4, pos = next() % (n + 1);
            dummy = HOp(); t_cur = &dummy;
            c25_create(es, repo, key); creates++;
            for (int i = 0; i <= n; i++) { dummy.reclaimed = false; if (i == pos) c25_addto(repo, key, (unsigned)n); dummy.reclaimed = false; if (i < n) c25_used_once(repo, key); }
            t_cur = nullptr;
        }
    });
    for (auto &t : th) t.join();
    parsec_verif_event_fn = nullptr;
    std::string e = g_ev_err;
    for (int k = 0; k < K && e.empty(); k++) { void *p = c25_lookup(repo, KEYBASE + k * 17); if (p) e = "stress: key " + std::to_string(k) + " still findable at the end (usagecnt=" + std::to_string(c25_entry_cnt(p)) + " usagelmt=" + std::to_string(c25_entry_lmt(p)) + " retained=" + std::to_string(c25_entry_retained(p)) + ")"; }
    long rec = g_ev_site[1] + g_ev_site[2];
    if (e.empty() && (rec < 1 || rec > creates.load())) e = "stress: " + std::to_string(rec) + " reclaims for " + std::to_string(creates.load()) + " creates";
    std::string repr = "C25-stress threads " + std::to_string(T) + " rounds " + std::to_string(rounds) + " seed " + std::to_string(seed) + "\n";
    vf::note_case(repr, T >= 2);
    vf::label("stress_creates", (uint64_t)creates.load()); vf::label("stress_reclaims", (uint64_t)rec); vf::label("stress_duplicates_discarded", (uint64_t)g_ev_site[0].load());
    if (!e.empty()) { vf::record_failure(repr, e); vf::dump(); return 1; }
    c25_repo_free(repo);
    vf::dump();
    return 0;
}

int main(int argc, char **argv) {
    std::string mode = argc > 1 ? argv[1] : "rc";
    dsched::on_fatal() = fatal_hook;
    int want = mode == "stress" ? atoi(argv[2]) : 4;
    if (mode == "replay") { std::string txt = vf::slurp(argv[2]); if (txt.rfind("C25-stress", 0) == 0) want = 16; }
    int got = c25_init(want);
    if (got < want) { fprintf(stderr, "parsec_init gave %d execution streams, %d needed\n", got, want); return 2; }
    if (mode == "replay") {
        std::string txt = vf::slurp(argv[2]);
        if (txt.rfind("C25-stress", 0) == 0) { int T; long it; unsigned sd; sscanf(txt.c_str(), "C25-stress threads %d rounds %ld seed %u", &T, &it, &sd); int r = 0; for (int k = 0; k < 3 && !r; k++) r = do_stress(T, it, sd); printf(r ? "REPLAY-FAIL stress\n" : "REPLAY-PASS\n"); fflush(stdout); _exit(r); }
        int r = do_replay(argv[2]); fflush(stdout); _exit(r);
    }
    if (mode == "exh") _exit(do_exh(atoi(argv[2]), atoi(argv[3]), atoi(argv[4]), atoi(argv[5]), argc > 6 ? atoi(argv[6]) : atoi(argv[2])));
    if (mode == "stress") _exit(do_stress(atoi(argv[2]), atol(argv[3]), (unsigned)atoi(argv[4])));
    bool ok = rc::check("data repository histories are linearizable w.r.t. the exact-reclamation model", []() {
        Case c;
        c.nkeys = *rc::gen::element(1, 1, 2, 3);
        c.sparse = *rc::gen::element(0, 0, 128, 200, 240);
        int T = *rc::gen::element(2, 2, 3, 3, 4);
        c.prog.resize(T);
        struct G { int pri, thread; Act a; };
        std::vector<G> all;
        int NC = 0;
        for (int k = 0; k < c.nkeys; k++) {
            int nc = *rc::gen::element(1, 2, 2, 3);
            for (int j = 0; j < nc && NC < 6; j++, NC++) {
                int n = *rc::gen::resize(100, rc::gen::inRange(0, 4));
                c.cr_key.push_back(k); c.cr_n.push_back(n);
                int p = *rc::gen::resize(100, rc::gen::inRange(0, 600)), th = *rc::gen::resize(100, rc::gen::inRange(0, T));
                all.push_back({p, th, {A_CREATE, NC}});
                all.push_back({p + 1 + *rc::gen::resize(100, rc::gen::inRange(0, 400)), th, {A_ADDTO, NC}});
                for (int u = 0; u < n; u++) all.push_back({p + 1 + *rc::gen::resize(100, rc::gen::inRange(0, 400)), *rc::gen::resize(100, rc::gen::inRange(0, T)), {A_USE, NC}});
            }
        }
        int nl = *rc::gen::inRange(0, 4);
        for (int i = 0; i < nl; i++) all.push_back({*rc::gen::resize(100, rc::gen::inRange(0, 1000)), *rc::gen::resize(100, rc::gen::inRange(0, T)), {A_LOOKUP, *rc::gen::resize(100, rc::gen::inRange(0, c.nkeys))}});
        std::stable_sort(all.begin(), all.end(), [](const G &a, const G &b) { return a.pri < b.pri; });
        for (auto &g : all) c.prog[g.thread].push_back(g.a);
        int sl = *rc::gen::inRange(0, 200);
        c.sched = *rc::gen::container<std::vector<uint8_t>>((size_t)sl, rc::gen::resize(100, rc::gen::arbitrary<uint8_t>()));
        g_current = c.repr();
        hx::FairByteChooser ch(c.sched.data(), c.sched.size(), c.sparse);
        RunInfo ri; std::string e = run_case(c, ch, &ri);
        vf::note_case(g_current, ri.nontrivial);
        vf::label("threads_" + std::to_string(T));
        if (ri.overlap_creators) vf::label("creators_overlap_on_a_key");
        if (ri.use_before_limit) vf::label("use_before_its_limit_announcement");
        if (ri.dup_discarded) vf::label("duplicate_entry_discarded_at_creation");
        if (ri.incarnations > c.nkeys) vf::label("key_reincarnated");
        if (!e.empty()) { vf::record_failure(g_current, e); RC_FAIL(e); }
    });
    vf::dump();
    fflush(nullptr);
    _exit(ok ? 0 : 1);
}
