"""C18 -- typed PTG flows deliver correctly converted copies (Hypothesis-generated reshape programs on 1..4 ranks)."""
import glob
import json
import os
import subprocess

from vf import core

PROP = "C18"
HERE = os.path.dirname(os.path.abspath(__file__))
WORKER = os.path.join(HERE, "c18worker.py")


def prebuild():
    core.ensure_tree("hooks")
    subprocess.run(["python3-vt", "-c", "import sys; sys.path.insert(0, %r); sys.path.insert(0, %r); import ptgrun; ptgrun.support_obj()"
                    % (os.path.join(HERE, "..", "ptg"), os.path.join(core.VERIF, "lib", "py"))], check=False)


def _regress(res):
    """corpus/C18/regress/*.json: cases with "expect": "violation" document a finding (they must keep failing until the finding
    is fixed: reported as KNOWN-FINDING when listed in known_findings.json, otherwise as an open finding in the evidence);
    all others are regression tests that must pass."""
    known = {f.get("id"): f for f in core.known_for(PROP)}
    for path in sorted(glob.glob(os.path.join(core.VERIF, "corpus", PROP, "regress", "*.json"))):
        case = json.load(open(path))
        ok, msg = replay(path)
        msg = ([ln for ln in msg.splitlines() if ln.startswith("REPLAY-")] or [msg.strip()])[-1]
        name = os.path.basename(path)
        res.coverage["regression_replays"] = res.coverage.get("regression_replays", 0) + 1
        if case.get("expect") == "violation":
            fid = case.get("finding", name)
            if ok:
                res.coverage.setdefault("findings_no_longer_reproduced", []).append("%s (corpus/%s/regress/%s)" % (fid, PROP, name))
            elif fid in known:
                res.known.append("%s reproduced by corpus/%s/regress/%s" % (fid, PROP, name))
            else:
                res.coverage.setdefault("open_findings_reproduced", []).append("%s (corpus/%s/regress/%s): %s" % (fid, PROP, name, msg.strip()[-300:]))
        elif not ok:
            res.violations.append(core.Violation("regression case fails: " + msg[-400:], replay_path=path))


def run(tier, seed, res):
    prebuild()
    quick = tier == "quick"
    bg = None
    try:
        import threading
        bg = threading.Thread(target=_regress, args=(res,))
        bg.start()
    except Exception:
        _regress(res)
    rd = core.run_dir(PROP)
    n = 16
    cases, configs = (2, 2) if quick else (40, 4)
    jobs = []
    for i in range(n):
        out = os.path.join(rd, "rep%d.json" % i)
        jobs.append(dict(cmd=["python3-vt", WORKER, "--seed", str(seed * 977 + i), "--cases", str(cases), "--configs", str(configs),
                              "--shrink-budget", "6" if quick else "40", "--out", out], tag="c18", out=out))
    wr = core.run_workers(PROP, jobs, san=False)
    if bg is not None:
        bg.join()
    hashes, labels = set(), {}
    for j in jobs:
        if not os.path.exists(j["out"]):
            continue
        rep = json.load(open(j["out"]))
        res.evaluations += rep["evaluations"]
        hashes.update(rep["nontrivial"])
        for k, v in rep["labels"].items():
            labels[k] = labels.get(k, 0) + v
        for s in rep["samples"]:
            if len(res.samples) < 5:
                res.samples.append(s)
        f = rep.get("failure")
        if f:
            res.violations.append(core.Violation(f["msg"], replay_text=json.dumps(f["replay"]), ext="json"))
        res.coverage["inconclusive_timeouts"] = res.coverage.get("inconclusive_timeouts", 0) + rep.get("inconclusive", 0)
    for c in wr.crashes:
        if not os.path.exists(jobs[c["worker"]]["out"]):
            res.inconclusive = "worker %d died: %s" % (c["worker"], c["log_tail"][-400:])
    res.distinct_nontrivial = len(hashes)
    res.coverage["labels"] = labels
    res.coverage["exclusions"] = {k: v for k, v in labels.items() if k.startswith("excl_")}
    res.rule = ("case = structure x configuration.  structure: one producer class PROD(k) that fills the m x n int tile k of a collection in place "
                "and forwards flow A to 1..4 consumer classes, each dependency annotated with [type = T] / [type_remote = T] (T in DEFAULT, "
                "FULL, UPPER, LOWER arena datatypes from parsec_matrix_arena_datatype_define_type) on the output side, the input side or both; "
                "consumers READ or RW (an RW consumer overwrites its m x n region with its own marker); per consumer a LATE task re-reads the "
                "consumer's copy and a CHK task re-reads the producer's tile after all consumers of the tile finished.  The JDF text is instantiated "
                "from reshape.jdf.in / consumer.jdf.in and compiled with the tree's parsec-ptgpp.  configuration: m, n in 2..6, ld = m..m+2, "
                "triangles with or without diagonal, 1..3 tiles, 1..4 ranks, placement of producer and consumers per tile, 1..4 threads, "
                "scheduler, runtime_comm_short_limit in {default, 0, 16, 64, 256, 4096}, broadcast topology in {default, star, chain, binomial}, body delay.  Oracle (Python, from the logged tile "
                "contents): on entry the elements selected by the edge's datatypes hold the producer's values (pack with the output-side type, "
                "unpack with the input-side type; [type] on local edges, [type_remote] on remote edges); at the end of the body and again after "
                "all consumers, a READ consumer's selected elements are unchanged and an RW consumer's tile holds only its own marker; the "
                "producer's tile holds the producer's values in CHK and after parsec_context_wait; every task ran once on its rank.  "
                "non-trivial = some tile has >= 2 consumers whose edges use different datatype pairs and the structure has >= 1 RW consumer; "
                "distinct = distinct (structure, configuration)")
    res.assumptions = ["the two datatypes of one edge have equal packed size (same shape, or upper <-> lower of a square tile): a triangle on one side "
                       "only of an edge is never generated",
                       "an RW consumer is only placed where the documented semantics give it a copy of its own: not the producer's copy (no reshape) "
                       "and not on a rank with another consumer of the same datatype pair (copies of equal shape are shared by design)",
                       "documented unsupported case excluded: when two different messages (<type, type_remote> combinations) of one flow go to one rank, "
                       "runtime_comm_short_limit is forced to 0 (label excl_short_limit_forced_0_several_remote_shapes; C18_ALLOW_SHORT_MULTI_REMOTE=1 re-enables)",
                       "finding C18-F1 excluded: all output dependencies of the producer's flow carry the same [type =] (label "
                       "excl_F1_mixed_output_types_made_uniform; C18_ALLOW_MIXED_OUT_TYPES=1 re-enables; corpus/C18/regress/F1_*.json reproduce it)",
                       "finding C18-F2 excluded: no process receives a PACKED message (one message, two reception datatypes) together with another "
                       "message of the same flow (label excl_F2_packed_plus_other_remote_shape_redrawn; C18_ALLOW_PACKED_PLUS_SHAPE=1 re-enables; "
                       "corpus/C18/regress/F2_*.json)",
                       "finding C18-F3 excluded (not type related): when an RW consumer sits on a remote rank and the same message also goes to another "
                       "remote rank the star broadcast is forced (label excl_F3_star_broadcast_forced_rw_consumer_on_forwarding_rank; "
                       "C18_ALLOW_FORWARD_AFTER_RW=1 re-enables; corpus/C18/regress/F3_*.json)",
                       "hangs are decided by the in-process quiescence watchdog over all ranks (3 tries with doubled quiescence time); plain timeouts are inconclusive"]
    floor = 20 if quick else 600
    if not res.violations and res.inconclusive is None and res.distinct_nontrivial < floor:
        res.inconclusive = "only %d non-trivial cases executed (floor %d)" % (res.distinct_nontrivial, floor)


def replay(path):
    p = subprocess.run(["python3-vt", WORKER, "--replay", path], stdout=subprocess.PIPE, stderr=subprocess.STDOUT, text=True)
    return "REPLAY-PASS" in p.stdout, p.stdout[-1200:]
