/* C18 driver: runs one generated "reshape" taskpool (rs.jdf instantiated from reshape.jdf.in) and logs what every
 * task observes in its tile.  All judgement happens in Python (c18gen.judge) from the log.
 *
 * case file (ints):
 *   threads tq_ms m n ld diag nt ncons delay_us dflt_is_dc
 *   prank[nt]
 *   for c < ncons: rw[c] crank[c][nt]
 *
 * task class ids in the log: 0 PROD, 1 CHK, 10+c CONS<c>, 20+c LATE<c>
 * notes:  OBS <what> <c> <k> <ptr> <m*n values, column major (i fastest)>
 *         FIN <k> <m*n values>            final content of the producer collection's tile (owner rank only)
 */
#include "parsec/runtime.h"
#include "parsec/data_internal.h"
#include "parsec/data_dist/matrix/matrix.h"
#include "vs_support.h"
#include "rs.h"
#include <mpi.h>
#include <stdio.h>
#include <stdlib.h>
#include <string.h>
#include <unistd.h>
#include <time.h>

#define MAXC 4
static int M, N, LD, DIAG, NTILES, NCONS, DELAY_US;

int c18_prod_val(int k, int i, int j) { return 100000 * (k + 1) + 100 * j + i + 11; }
int c18_init_val(int k, int i, int j) { return 7000000 + 1000 * k + 10 * j + i; }
int c18_marker(int c, int k) { return -(1000 * (c + 1) + k + 1); }

void c18_obs(const char *what, int c, int k, const void *ptr)
{
    char buf[480]; int len = 0;
    const int *A = (const int *)ptr;
    len += snprintf(buf + len, sizeof buf - len, "OBS %s %d %d %p", what, c, k, ptr);
    if( NULL == A ) { vs_note("%s NULL", buf); return; }
    for( int j = 0; j < N; j++ )
        for( int i = 0; i < M; i++ )
            len += snprintf(buf + len, sizeof buf - len, " %d", A[j * LD + i]);
    vs_note("%s", buf);
}

void c18_fill(int k, void *ptr)
{
    int *A = (int *)ptr;
    for( int j = 0; j < N; j++ )
        for( int i = 0; i < M; i++ )
            A[j * LD + i] = c18_prod_val(k, i, j);
}

void c18_mark(int c, int k, void *ptr)
{
    int *A = (int *)ptr;
    for( int j = 0; j < N; j++ )
        for( int i = 0; i < M; i++ )
            A[j * LD + i] = c18_marker(c, k);
}

void c18_delay(void)
{
    if( DELAY_US > 0 ) { struct timespec ts = {0, DELAY_US * 1000L}; nanosleep(&ts, NULL); }
}

static void set_adt(parsec_arena_datatype_t *slot, parsec_matrix_uplo_t uplo)
{
    /* the generated constructor only default-constructs the slots: the user defines them (as tests/collections/reshape does) */
    parsec_matrix_arena_datatype_define_type(slot, parsec_datatype_int_t, uplo, DIAG, M, N, LD, PARSEC_ARENA_ALIGNMENT_SSE, -1);
}

int main(int argc, char **argv)
{
    int provided, rank, world;
    MPI_Init_thread(&argc, &argv, MPI_THREAD_SERIALIZED, &provided);
    MPI_Comm_rank(MPI_COMM_WORLD, &rank);
    MPI_Comm_size(MPI_COMM_WORLD, &world);
    if( argc < 3 ) { fprintf(stderr, "usage: c18 case log\n"); return 2; }
    FILE *f = fopen(argv[1], "r"); if( !f ) { perror(argv[1]); return 2; }
    int V[512], nv = 0; while( nv < 512 && 1 == fscanf(f, "%d", &V[nv]) ) nv++; fclose(f);
    int p = 0, nthreads = V[p++], tq_ms = V[p++];
    M = V[p++]; N = V[p++]; LD = V[p++]; DIAG = V[p++]; NTILES = V[p++]; NCONS = V[p++]; DELAY_US = V[p++];
    int dflt_is_dc = V[p++];
    int *prank = &V[p]; p += NTILES;
    int rw[MAXC] = {0}, *crank[MAXC] = {0};
    for( int c = 0; c < NCONS; c++ ) { rw[c] = V[p++]; crank[c] = &V[p]; p += NTILES; }
    if( p != nv ) { fprintf(stderr, "c18: malformed case file (%d of %d values)\n", p, nv); return 2; }
    int expected = 0;
    for( int k = 0; k < NTILES; k++ ) {
        if( prank[k] % world == rank ) expected += 2;
        for( int c = 0; c < NCONS; c++ ) if( crank[c][k] % world == rank ) expected += 2;
    }
    char logpath[1024]; snprintf(logpath, sizeof logpath, "%s.%d", argv[2], rank);
    vs_init(rank, expected, tq_ms / 1000.0, logpath);

    int pargc = 0; char **pargv = NULL;
    parsec_context_t *parsec = parsec_init(nthreads, &pargc, &pargv);

    int ts = LD * N;
    parsec_data_collection_t *D = vs_dc_create("D", rank, world, NTILES, ts, prank, NULL, 1);
    /* like parsec_tiled_matrix_init: the collection's copies are typed as the full m x n tile with leading dimension ld */
    ptrdiff_t extent;
    parsec_type_free(&D->default_dtt);
    parsec_matrix_define_datatype(&D->default_dtt, parsec_datatype_int_t, PARSEC_MATRIX_FULL, 1, M, N, LD, -1, &extent);
    for( int k = 0; k < NTILES; k++ ) {
        int32_t *t = vs_dc_tile(D, k);
        for( int x = 0; x < ts; x++ ) t[x] = 6000000 + x;
        for( int j = 0; j < N; j++ ) for( int i = 0; i < M; i++ ) t[j * LD + i] = c18_init_val(k, i, j);
    }
    parsec_data_collection_t *C[MAXC];
    static const char *cname[MAXC] = {"C0", "C1", "C2", "C3"};
    for( int c = 0; c < MAXC; c++ )
        C[c] = vs_dc_create(cname[c], rank, world, NTILES, 1, c < NCONS ? crank[c] : prank, NULL, 1);

    parsec_rs_taskpool_t *tp = parsec_rs_new(D, C[0], C[1], C[2], C[3], NTILES);
    set_adt(&tp->arenas_datatypes[PARSEC_rs_DEFAULT_ADT_IDX], PARSEC_MATRIX_FULL);
    parsec_datatype_t own_default = tp->arenas_datatypes[PARSEC_rs_DEFAULT_ADT_IDX].opaque_dtt;
    if( dflt_is_dc ) /* the AVOID_UNNECESSARY_RESHAPING variant of tests/collections/reshape/testing_avoidable_reshape.c */
        tp->arenas_datatypes[PARSEC_rs_DEFAULT_ADT_IDX].opaque_dtt = D->default_dtt;
#if defined(PARSEC_rs_FULL_ADT_IDX)
    set_adt(&tp->arenas_datatypes[PARSEC_rs_FULL_ADT_IDX], PARSEC_MATRIX_FULL);
#endif
#if defined(PARSEC_rs_UPPER_ADT_IDX)
    set_adt(&tp->arenas_datatypes[PARSEC_rs_UPPER_ADT_IDX], PARSEC_MATRIX_UPPER);
#endif
#if defined(PARSEC_rs_LOWER_ADT_IDX)
    set_adt(&tp->arenas_datatypes[PARSEC_rs_LOWER_ADT_IDX], PARSEC_MATRIX_LOWER);
#endif

    int rc = parsec_context_add_taskpool(parsec, (parsec_taskpool_t *)tp);
    if( rc != 0 ) { fprintf(stderr, "add_taskpool rc=%d\n", rc); return 2; }
    MPI_Barrier(MPI_COMM_WORLD);
    vs_arm();
    rc = parsec_context_start(parsec);
    rc = parsec_context_wait(parsec);
    vs_note("WAITED rc %d", rc);
    for( int k = 0; k < NTILES; k++ ) {
        if( prank[k] % world != rank ) continue;
        char buf[480]; int len = 0; int32_t *t = vs_dc_tile(D, k);
        len += snprintf(buf + len, sizeof buf - len, "FIN %d", k);
        for( int j = 0; j < N; j++ ) for( int i = 0; i < M; i++ ) len += snprintf(buf + len, sizeof buf - len, " %d", t[j * LD + i]);
        vs_note("%s", buf);
    }
    vs_finish();
    /* teardown after the log is written: a crash here is reported as a crash, not as a wrong value */
    parsec_arena_datatype_t adts[PARSEC_rs_ADT_IDX_MAX];
    tp->arenas_datatypes[PARSEC_rs_DEFAULT_ADT_IDX].opaque_dtt = own_default;
    for( int a = 0; a < PARSEC_rs_ADT_IDX_MAX; a++ ) adts[a] = tp->arenas_datatypes[a];
    parsec_taskpool_free((parsec_taskpool_t *)tp);
    for( int a = 0; a < PARSEC_rs_ADT_IDX_MAX; a++ )
        if( NULL != adts[a].arena ) parsec_matrix_arena_datatype_destruct_free_type(&adts[a]);
    for( int c = 0; c < MAXC; c++ ) vs_dc_free(C[c]);
    vs_dc_free(D);
    parsec_fini(&parsec);
    MPI_Finalize();
    return 0;
}
