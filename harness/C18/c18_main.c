/* C18 driver: runs one generated "reshape" taskpool (rs.jdf instantiated from reshape.jdf.in) and logs what every
 * task observes in its tile.  All judgement happens in Python (c18gen.judge) from the log.
 *
 * case file (ints):
 *   threads tq_ms m n ld diag nt ncons delay_us dflt_is_dc
 *   prank[nt]
 *   for c < ncons: rw[c] crank[c][nt]
 *
 * task class ids in the log: 0 PROD, 1 CHK, 10+c CONS<c>, 20+c LATE<c>
 * notes:  OBS <what> <c> <k> <ptr> <m*n values, column major (i fastest)>
 *         FIN <k> <m*n values>            final content of the producer collection's tile (owner rank only)
 */
#include "parsec/runtime.h"
#include "parsec/data_internal.h"
#include "parsec/data_dist/matrix/matrix.h"
#include "vs_support.h"
#include "rs.h"
#include <mpi.h>
#include <stdio.h>
#include <stdlib.h>
#include <string.h>
#include <unistd.h>
#include <fcntl.h>
#include <pthread.h>
#include <time.h>

#define MAXC 4
static int M, N, LD, DIAG, NTILES, NCONS, DELAY_US;

/* ---- quiescence watchdog over ALL ranks (vs_support's own watchdog is per process: under heavy machine load a rank that only
 * waits for a slow peer would be reported as hung).  Every rank publishes (progress, done, expected) in <log>.hb.<rank> every
 * 100 ms; a rank with missing tasks reports QUIESCENT when no rank made progress for tq seconds. */
static long c18_progress, c18_ndone, c18_expected;
static int c18_rank, c18_world, c18_stop;
static double c18_tq;
static char c18_hbprefix[1024];

void c18_done(void) { __atomic_fetch_add(&c18_ndone, 1, __ATOMIC_SEQ_CST); __atomic_fetch_add(&c18_progress, 1, __ATOMIC_SEQ_CST); }

static void *c18_watchdog(void *arg)
{
    (void)arg;
    long last[8][3], cur[8][3]; double idle = 0; int fd[8]; char path[1100];
    memset(last, -1, sizeof last);
    for( int r = 0; r < c18_world; r++ ) fd[r] = -1;
    snprintf(path, sizeof path, "%s.%d", c18_hbprefix, c18_rank);
    fd[c18_rank] = open(path, O_RDWR | O_CREAT | O_TRUNC, 0644);
    for(;;) {
        struct timespec ts = {0, 100 * 1000 * 1000}; nanosleep(&ts, NULL);
        if( __atomic_load_n(&c18_stop, __ATOMIC_SEQ_CST) ) return NULL;
        long mine[3] = { __atomic_load_n(&c18_progress, __ATOMIC_SEQ_CST), __atomic_load_n(&c18_ndone, __ATOMIC_SEQ_CST), c18_expected };
        if( fd[c18_rank] >= 0 && pwrite(fd[c18_rank], mine, sizeof mine, 0) != (ssize_t)sizeof mine ) { /* ignore */ }
        int known = 1, changed = 0;
        for( int r = 0; r < c18_world; r++ ) {
            if( r == c18_rank ) { memcpy(cur[r], mine, sizeof mine); }
            else {
                if( fd[r] < 0 ) { snprintf(path, sizeof path, "%s.%d", c18_hbprefix, r); fd[r] = open(path, O_RDONLY); }
                if( fd[r] < 0 || pread(fd[r], cur[r], sizeof cur[r], 0) != (ssize_t)sizeof cur[r] ) { known = 0; continue; }
            }
            if( memcmp(cur[r], last[r], sizeof cur[r]) ) { changed = 1; memcpy(last[r], cur[r], sizeof cur[r]); }
        }
        if( !known || changed ) { idle = 0; continue; }
        idle += 0.1;
        if( idle >= c18_tq && mine[1] < mine[2] ) {
            char buf[400]; int len = 0;
            for( int r = 0; r < c18_world; r++ ) len += snprintf(buf + len, sizeof buf - len, " %d:%ld/%ld", r, cur[r][1], cur[r][2]);
            vs_note("C18-QUIESCENT rank %d: no rank made progress for %.1f s, tasks done/expected per rank:%s", c18_rank, idle, buf);
            vs_finish();
            fprintf(stderr, "C18 QUIESCENT-INCOMPLETE rank %d%s\n", c18_rank, buf);
            _exit(3);
        }
    }
}

int c18_prod_val(int k, int i, int j) { return 100000 * (k + 1) + 100 * j + i + 11; }
int c18_init_val(int k, int i, int j) { return 7000000 + 1000 * k + 10 * j + i; }
int c18_marker(int c, int k) { return -(1000 * (c + 1) + k + 1); }

void c18_obs(const char *what, int c, int k, const void *ptr)
{
    char buf[480]; int len = 0;
    const int *A = (const int *)ptr;
    __atomic_fetch_add(&c18_progress, 1, __ATOMIC_SEQ_CST);
    len += snprintf(buf + len, sizeof buf - len, "OBS %s %d %d %p", what, c, k, ptr);
    if( NULL == A ) { vs_note("%s NULL", buf); return; }
    for( int j = 0; j < N; j++ )
        for( int i = 0; i < M; i++ )
            len += snprintf(buf + len, sizeof buf - len, " %d", A[j * LD + i]);
    vs_note("%s", buf);
}

void c18_fill(int k, void *ptr)
{
    int *A = (int *)ptr;
    for( int j = 0; j < N; j++ )
        for( int i = 0; i < M; i++ )
            A[j * LD + i] = c18_prod_val(k, i, j);
}

void c18_mark(int c, int k, void *ptr)
{
    int *A = (int *)ptr;
    for( int j = 0; j < N; j++ )
        for( int i = 0; i < M; i++ )
            A[j * LD + i] = c18_marker(c, k);
}

void c18_delay(void)
{
    if( NULL != getenv("C18_SELFTEST_HANG") ) for(;;) pause();   /* self-test of the watchdog path only */
    if( DELAY_US > 0 ) { struct timespec ts = {0, DELAY_US * 1000L}; nanosleep(&ts, NULL); }
}

static void set_adt(parsec_arena_datatype_t *slot, parsec_matrix_uplo_t uplo)
{
    /* the generated constructor only default-constructs the slots: the user defines them (as tests/collections/reshape does) */
    parsec_matrix_arena_datatype_define_type(slot, parsec_datatype_int_t, uplo, DIAG, M, N, LD, PARSEC_ARENA_ALIGNMENT_SSE, -1);
}

int main(int argc, char **argv)
{
    int provided, rank, world;
    MPI_Init_thread(&argc, &argv, MPI_THREAD_SERIALIZED, &provided);
    MPI_Comm_rank(MPI_COMM_WORLD, &rank);
    MPI_Comm_size(MPI_COMM_WORLD, &world);
    if( argc < 3 ) { fprintf(stderr, "usage: c18 case log\n"); return 2; }
    FILE *f = fopen(argv[1], "r"); if( !f ) { perror(argv[1]); return 2; }
    int V[512], nv = 0; while( nv < 512 && 1 == fscanf(f, "%d", &V[nv]) ) nv++; fclose(f);
    int p = 0, nthreads = V[p++], tq_ms = V[p++];
    M = V[p++]; N = V[p++]; LD = V[p++]; DIAG = V[p++]; NTILES = V[p++]; NCONS = V[p++]; DELAY_US = V[p++];
    int dflt_is_dc = V[p++];
    int *prank = &V[p]; p += NTILES;
    int rw[MAXC] = {0}, *crank[MAXC] = {0};
    for( int c = 0; c < NCONS; c++ ) { rw[c] = V[p++]; crank[c] = &V[p]; p += NTILES; }
    if( p != nv ) { fprintf(stderr, "c18: malformed case file (%d of %d values)\n", p, nv); return 2; }
    int expected = 0;
    for( int k = 0; k < NTILES; k++ ) {
        if( prank[k] % world == rank ) expected += 2;
        for( int c = 0; c < NCONS; c++ ) if( crank[c][k] % world == rank ) expected += 2;
    }
    char logpath[1024]; snprintf(logpath, sizeof logpath, "%s.%d", argv[2], rank);
    vs_init(rank, expected, 0.0 /* the watchdog is c18_watchdog */, logpath);
    c18_rank = rank; c18_world = world; c18_expected = expected; c18_tq = tq_ms / 1000.0;
    snprintf(c18_hbprefix, sizeof c18_hbprefix, "%s.hb", argv[2]);

    int pargc = 0; char **pargv = NULL;
    parsec_context_t *parsec = parsec_init(nthreads, &pargc, &pargv);

    int ts = LD * N;
    parsec_data_collection_t *D = vs_dc_create("D", rank, world, NTILES, ts, prank, NULL, 1);
    /* like parsec_tiled_matrix_init: the collection's copies are typed as the full m x n tile with leading dimension ld */
    ptrdiff_t extent;
    parsec_type_free(&D->default_dtt);
    parsec_matrix_define_datatype(&D->default_dtt, parsec_datatype_int_t, PARSEC_MATRIX_FULL, 1, M, N, LD, -1, &extent);
    for( int k = 0; k < NTILES; k++ ) {
        int32_t *t = vs_dc_tile(D, k);
        for( int x = 0; x < ts; x++ ) t[x] = 6000000 + x;
        for( int j = 0; j < N; j++ ) for( int i = 0; i < M; i++ ) t[j * LD + i] = c18_init_val(k, i, j);
    }
    parsec_data_collection_t *C[MAXC];
    static const char *cname[MAXC] = {"C0", "C1", "C2", "C3"};
    for( int c = 0; c < MAXC; c++ )
        C[c] = vs_dc_create(cname[c], rank, world, NTILES, 1, c < NCONS ? crank[c] : prank, NULL, 1);

    parsec_rs_taskpool_t *tp = parsec_rs_new(D, C[0], C[1], C[2], C[3], NTILES);
    set_adt(&tp->arenas_datatypes[PARSEC_rs_DEFAULT_ADT_IDX], PARSEC_MATRIX_FULL);
    parsec_datatype_t own_default = tp->arenas_datatypes[PARSEC_rs_DEFAULT_ADT_IDX].opaque_dtt;
    if( dflt_is_dc ) /* the AVOID_UNNECESSARY_RESHAPING variant of tests/collections/reshape/testing_avoidable_reshape.c */
        tp->arenas_datatypes[PARSEC_rs_DEFAULT_ADT_IDX].opaque_dtt = D->default_dtt;
#if defined(PARSEC_rs_FULL_ADT_IDX)
    set_adt(&tp->arenas_datatypes[PARSEC_rs_FULL_ADT_IDX], PARSEC_MATRIX_FULL);
#endif
#if defined(PARSEC_rs_UPPER_ADT_IDX)
    set_adt(&tp->arenas_datatypes[PARSEC_rs_UPPER_ADT_IDX], PARSEC_MATRIX_UPPER);
#endif
#if defined(PARSEC_rs_LOWER_ADT_IDX)
    set_adt(&tp->arenas_datatypes[PARSEC_rs_LOWER_ADT_IDX], PARSEC_MATRIX_LOWER);
#endif

    int rc = parsec_context_add_taskpool(parsec, (parsec_taskpool_t *)tp);
    if( rc != 0 ) { fprintf(stderr, "add_taskpool rc=%d\n", rc); return 2; }
    MPI_Barrier(MPI_COMM_WORLD);
    if( world > 8 ) { fprintf(stderr, "c18: at most 8 ranks\n"); return 2; }
    pthread_t wd; pthread_create(&wd, NULL, c18_watchdog, NULL); pthread_detach(wd);
    rc = parsec_context_start(parsec);
    rc = parsec_context_wait(parsec);
    __atomic_store_n(&c18_stop, 1, __ATOMIC_SEQ_CST);
    vs_note("WAITED rc %d", rc);
    for( int k = 0; k < NTILES; k++ ) {
        if( prank[k] % world != rank ) continue;
        char buf[480]; int len = 0; int32_t *t = vs_dc_tile(D, k);
        len += snprintf(buf + len, sizeof buf - len, "FIN %d", k);
        for( int j = 0; j < N; j++ ) for( int i = 0; i < M; i++ ) len += snprintf(buf + len, sizeof buf - len, " %d", t[j * LD + i]);
        vs_note("%s", buf);
    }
    vs_finish();
    /* teardown after the log is written: a crash here is reported as a crash, not as a wrong value */
    parsec_arena_datatype_t adts[PARSEC_rs_ADT_IDX_MAX];
    tp->arenas_datatypes[PARSEC_rs_DEFAULT_ADT_IDX].opaque_dtt = own_default;
    for( int a = 0; a < PARSEC_rs_ADT_IDX_MAX; a++ ) adts[a] = tp->arenas_datatypes[a];
    parsec_taskpool_free((parsec_taskpool_t *)tp);
    for( int a = 0; a < PARSEC_rs_ADT_IDX_MAX; a++ )
        if( NULL != adts[a].arena ) parsec_matrix_arena_datatype_destruct_free_type(&adts[a]);
    for( int c = 0; c < MAXC; c++ ) vs_dc_free(C[c]);
    vs_dc_free(D);
    parsec_fini(&parsec);
    MPI_Finalize();
    return 0;
}
