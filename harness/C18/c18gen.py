"""C18: structure -> JDF text, reference model of typed PTG flows, judge of the observation log.

structure  = {"dflt_is_dc": 0|1, "cons": [{"rw": 0|1, "ot": T, "it": T, "otr": T, "itr": T}, ...]}      (1..4 consumers)
             ot / otr : [type = ] / [type_remote = ] on the producer's output dependency to this consumer
             it / itr : the same on the consumer's input dependency;  T in None, DEFAULT, FULL, UPPER, LOWER
config     = {"m","n","ld","diag","nt","P","threads","short","bcast","delay_us","prank":[nt],"crank":[[nt]..],"sched"}
             short / bcast: runtime_comm_short_limit / runtime_comm_coll_bcast (None = the runtime's default)
"""
import os

HERE = os.path.dirname(os.path.abspath(__file__))
TYPES = [None, "DEFAULT", "FULL", "UPPER", "LOWER"]
SHAPE = {None: "F", "DEFAULT": "F", "FULL": "F", "UPPER": "U", "LOWER": "L"}


# ------------------------------------------------------------------ JDF text
def _props(t, tr):
    p = []
    if t:
        p.append("type = %s" % t)
    if tr:
        p.append("type_remote = %s" % tr)
    return ("[" + " ".join(p) + "]") if p else ""


def emit_jdf(struct):
    cons = struct["cons"]
    nc = len(cons)
    tmpl = open(os.path.join(HERE, "reshape.jdf.in")).read()
    ctmpl = open(os.path.join(HERE, "consumer.jdf.in")).read()
    outs = "\n".join("     -> A CONS%d(k) %s" % (c, _props(x["ot"], x["otr"])) for c, x in enumerate(cons))
    chk_ins = "\n".join("CTL X%d <- X CONS%d(k)" % (c, c) for c in range(nc))
    parts = []
    for c, x in enumerate(cons):
        t = ctmpl
        t = t.replace("@IN_PROPS@", _props(x["it"], x["itr"]))
        t = t.replace("@ACC@", "RW" if x["rw"] else "READ").replace("@RW@", "1" if x["rw"] else "0")
        t = t.replace("@CTL_OUTS@", "\n".join("      -> X%d LATE%d(k)" % (c, j) for j in range(nc)))
        t = t.replace("@LATE_CTL_INS@", "\n".join("CTL X%d <- X CONS%d(k)" % (j, j) for j in range(nc)))
        t = t.replace("@C@", str(c))
        parts.append(t)
    return (tmpl.replace("@NCONS@", str(nc)).replace("@PROD_OUTS@", outs).replace("@CHK_CTL_INS@", chk_ins)
            .replace("@CONSUMERS@", "\n".join(parts)))


def struct_key(struct):
    return ("dc;" if struct.get("dflt_is_dc") else "") + ";".join("%s:%s/%s/%s/%s" % ("RW" if x["rw"] else "RD", x["ot"], x["it"], x["otr"], x["itr"]) for x in struct["cons"])


# ------------------------------------------------------------------ reference model
def prod_val(k, i, j):
    return 100000 * (k + 1) + 100 * j + i + 11


def init_val(k, i, j):
    return 7000000 + 1000 * k + 10 * j + i


def marker(c, k):
    return -(1000 * (c + 1) + k + 1)


def order(shape, m, n, diag):
    """positions (i, j) selected by a datatype, in the order MPI packs them (column major)."""
    d = 0 if diag else 1
    out = []
    for j in range(n):
        for i in range(m):
            if shape == "F" or (shape == "U" and i <= j - d) or (shape == "L" and i >= j + d):
                out.append((i, j))
    return out


def handle(t, struct):
    """identity of the MPI datatype a type name stands for.  'DC' is the datatype of the collection's copies (what a copy
    produced in place on D(k) carries); DEFAULT is the same handle when the driver installs the collection's datatype as the
    default arena datatype (the AVOID_UNNECESSARY_RESHAPING variant of testing_avoidable_reshape.c)."""
    if t is None:
        return None
    if t == "DEFAULT" and struct.get("dflt_is_dc"):
        return "DC"
    return t


HSHAPE = {"DC": "F", "DEFAULT": "F", "FULL": "F", "UPPER": "U", "LOWER": "L"}


def edge_class(struct, x, local):
    """(pack handle, unpack handle) of the edge producer -> consumer x.
    local edge : CHANGELOG.ptg.md 'During propagation of dependencies between local tasks': no type -> no reshape (the consumer
                 receives the producer's copy); only input type t2 -> pack A.dtt, unpack t2; both -> pack t1, unpack t2; only
                 output type t1 -> pack t1, unpack t1.  A type equal to the datatype the copy already has is no reshape
                 (parsec_set_up_reshape_promise: 'Same dtt: fulfilled reshape promise').
    remote edge: 'Data is sent with type_remote on the output dependency of the sender and received on the receiver using the
                 type_remote on the input dependency.  If no types are specified, data is sent using the data copy type and
                 received using the default type of the taskpool arena.'  [type = ] plays no role on a remote edge
                 (tests/collections/reshape/remote_no_re_reshape.jdf asserts that)."""
    if local:
        o = handle(x["ot"], struct) or "DC"
        i = handle(x["it"], struct) or o
        return o, i
    return handle(x["otr"], struct) or "DC", handle(x["itr"], struct) or handle("DEFAULT", struct)


def is_fresh(struct, x, local):
    """does the consumer receive a copy of its own kind (True) or the producer's copy itself (False)."""
    return (not local) or edge_class(struct, x, local) != ("DC", "DC")


def share_class(struct, x, local):
    """consumers of one tile on one rank with equal share class may legitimately be handed the same copy
    (tests/collections/reshape/input_dep_single_copy_reshape.jdf: 'a new datacopy is created with the correct shape, and it
    is shared by all the successors'; one received copy per remote datatype)."""
    return (bool(local),) + edge_class(struct, x, local)


def edge_shapes(struct, x, local):
    o, i = edge_class(struct, x, local)
    return HSHAPE[o], HSHAPE[i]


def expected_tile(struct, x, local, k, cfg):
    """dict (i,j) -> value the consumer must see on entry; positions not in the dict are unspecified."""
    m, n, diag = cfg["m"], cfg["n"], cfg["diag"]
    s, d = edge_shapes(struct, x, local)
    so, do = order(s, m, n, diag), order(d, m, n, diag)
    return {do[q]: prod_val(k, *so[q]) for q in range(min(len(so), len(do)))}


def sizes_agree(s, d, square):
    """precondition: the packed sizes of the two datatypes of an edge agree (parsec_local_reshape_cb warns otherwise; a
    longer send than receive is an MPI truncation error): equal shapes, or upper <-> lower of a square tile."""
    return s == d or (square and {s, d} == {"U", "L"})


def is_local(cfg, c, k):
    return cfg["crank"][c][k] % cfg["P"] == cfg["prank"][k] % cfg["P"]


def remote_groups(struct, pl, pr):
    """rank -> {message -> set of reception datatypes} for the consumers of one tile placed as pl (producer on pr).
    One message (one dep_datatype_index) per distinct combination <local type, remote type> of the output dependencies
    (jdf.c:jdf_reorder_dep_list_by_type); several reception datatypes of one message make the receiver fall back to PACKED
    reception (remote_dep_mpi_retrieve_datatype)."""
    per = {}
    for c, x in enumerate(struct["cons"]):
        if pl[c] != pr:
            per.setdefault(pl[c], {}).setdefault((x["ot"], x["otr"]), set()).add(x["itr"] or "DEFAULT")
    return per


def several_remote_shapes(struct, pl, pr):
    """documented unsupported with short messages (tests/collections/reshape/testing_remote_multiple_outs_same_pred_flow.c):
    one output flow sent with several different remote shapes to one process."""
    return any(len(g) >= 2 for g in remote_groups(struct, pl, pr).values())


def packed_plus_other_shape(struct, pl, pr):
    """finding C18-F2: a PACKED reception (one message, two reception datatypes) together with another remote shape of the
    same flow on the same process."""
    return any(len(g) >= 2 and any(len(v) >= 2 for v in g.values()) for g in remote_groups(struct, pl, pr).values())


def forwarded_after_rw(struct, pl, pr):
    """finding C18-F3 (not specific to typed flows): with the chain / binomial broadcast a process forwards the copy it
    received to further processes while its own RW consumer may already have overwritten that copy.  True when an RW consumer
    sits on a remote rank and the same message (same output <type, type_remote>) also goes to another remote rank."""
    for c, x in enumerate(struct["cons"]):
        if x["rw"] and pl[c] != pr:
            for j, y in enumerate(struct["cons"]):
                if j != c and pl[j] != pr and pl[j] != pl[c] and (y["ot"], y["otr"]) == (x["ot"], x["otr"]):
                    return True
    return False


def placement(cfg, k):
    return [cfg["crank"][c][k] % cfg["P"] for c in range(len(cfg["crank"]))]


# ------------------------------------------------------------------ case file
def case_ints(struct, cfg, tq_ms):
    v = [cfg["threads"], tq_ms, cfg["m"], cfg["n"], cfg["ld"], cfg["diag"], cfg["nt"], len(struct["cons"]), cfg["delay_us"], 1 if struct.get("dflt_is_dc") else 0]
    v += list(cfg["prank"])
    for c, x in enumerate(struct["cons"]):
        v += [x["rw"]] + list(cfg["crank"][c])
    return v


# ------------------------------------------------------------------ judge
def parse_obs(notes):
    obs, fin = {}, {}
    for ln in notes:
        w = ln.split()
        if not w:
            continue
        if w[0] == "OBS":
            what, c, k, ptr = w[1], int(w[2]), int(w[3]), w[4]
            vals = None if (len(w) > 5 and w[5] == "NULL") else [int(z) for z in w[5:]]
            obs.setdefault((what, c, k), []).append((ptr, vals))
        elif w[0] == "FIN":
            fin[int(w[1])] = [int(z) for z in w[2:]]
    return obs, fin


def _tile(vals, m, n):
    return {(i, j): vals[j * m + i] for j in range(n) for i in range(m)}


def _cmp(where, got, want):
    bad = [(p, got.get(p), v) for p, v in sorted(want.items(), key=lambda z: (z[0][1], z[0][0])) if got.get(p) != v]
    if not bad:
        return ""
    p, g, v = bad[0]
    return "%s: element (%d,%d) holds %s, expected %s (%d of %d selected elements differ)" % (where, p[0], p[1], describe(g), describe(v), len(bad), len(want))


def describe(v):
    if v is None:
        return "nothing"
    if v < 0:
        a = -v
        return "%d (marker of consumer %d, tile %d)" % (v, a // 1000 - 1, a % 1000 - 1)
    if 100000 <= v < 6000000:
        k = v // 100000 - 1
        r = v - 100000 * (k + 1) - 11
        return "%d (producer value of tile %d element (%d,%d))" % (v, k, r % 100, r // 100)
    if v >= 7000000:
        return "%d (initial collection content)" % v
    return str(v)


def judge(struct, cfg, recs, notes_by_rank):
    """-> '' or the first violation text.  recs: ptgrun.Rec list of all ranks; notes_by_rank: rank -> list of note lines."""
    m, n, nt, P = cfg["m"], cfg["n"], cfg["nt"], cfg["P"]
    cons = struct["cons"]
    # every task exactly once on the rank its placement says
    want = {}
    for k in range(nt):
        want[(0, k)] = want[(1, k)] = cfg["prank"][k] % P
        for c in range(len(cons)):
            want[(10 + c, k)] = want[(20 + c, k)] = cfg["crank"][c][k] % P
    seen = {}
    for r in recs:
        seen.setdefault((r.cls, r.params[0]), []).append(r.rank)
    for key, rk in sorted(want.items()):
        if seen.get(key, []) != [rk]:
            return "task class %d instance %d ran on ranks %s, expected exactly once on rank %d" % (key[0], key[1], seen.get(key, []), rk)
    notes = [ln for r in sorted(notes_by_rank) for ln in notes_by_rank[r]]
    obs, fin = parse_obs(notes)
    full = {(i, j): 0 for j in range(n) for i in range(m)}
    for k in range(nt):
        pv = {p: prod_val(k, *p) for p in full}
        for what in ("PROD", "CHK"):
            o = obs.get((what, -1, k), [])
            if len(o) != 1 or o[0][1] is None:
                return "tile %d: %s logged %d observations" % (k, what, len(o))
        e = _cmp("tile %d: the producer's data read again after all consumers finished" % k, _tile(obs[("CHK", -1, k)][0][1], m, n), pv)
        if e:
            return e
        if k not in fin:
            return "tile %d: no final collection content logged" % k
        e = _cmp("tile %d: the collection tile after parsec_context_wait" % k, _tile(fin[k], m, n), pv)
        if e:
            return e
        for c, x in enumerate(cons):
            loc = is_local(cfg, c, k)
            exp = expected_tile(struct, x, loc, k, cfg)
            tag = "tile %d consumer %d (%s, %s edge, out [%s|%s] in [%s|%s])" % (k, c, "RW" if x["rw"] else "READ", "local" if loc else "remote",
                                                                             x["ot"], x["otr"], x["it"], x["itr"])
            for what in ("IN", "OUT", "LATE"):
                o = obs.get((what, c, k), [])
                if len(o) != 1:
                    return "%s: %s logged %d observations" % (tag, what, len(o))
                if o[0][1] is None:
                    return "%s: the flow holds no data (NULL) at %s" % (tag, what)
            e = _cmp(tag + " on entry", _tile(obs[("IN", c, k)][0][1], m, n), exp)
            if e:
                return e
            after = {p: marker(c, k) for p in full} if x["rw"] else exp
            e = _cmp(tag + " at the end of its body", _tile(obs[("OUT", c, k)][0][1], m, n), after)
            if e:
                return e
            e = _cmp(tag + " when its copy is read again after all consumers finished", _tile(obs[("LATE", c, k)][0][1], m, n), after)
            if e:
                return e
    return ""
