#!/usr/bin/env python3
"""C18 worker: Hypothesis-generated reshape programs (structure -> JDF -> ptgpp -> cc) run on 1..4 ranks, judged from the log."""
import argparse
import hashlib
import itertools
import json
import os
import shutil
import subprocess
import sys

HERE = os.path.dirname(os.path.abspath(__file__))
PTG = os.path.join(HERE, "..", "ptg")
sys.path.insert(0, PTG)
sys.path.insert(0, HERE)
sys.path.insert(0, os.path.join(os.path.dirname(os.path.dirname(HERE)), "lib", "py"))

from hypothesis import HealthCheck, Phase, given, seed, settings, strategies as st  # noqa: E402

import ptgrun  # noqa: E402
import c18gen as G  # noqa: E402
from vf import core  # noqa: E402

SCHEDS = ["lfq", "ap", "gd", "ip", "lhq", "ll", "ltq", "pbq", "rnd", "spq"]


class BuildFailed(Exception):
    pass


def build_structure(struct):
    """-> executable for this structure (cached under .work by the hash of the JDF text and the tree's libparsec/ptgpp)."""
    core.ensure_tree("hooks")
    d, ptgpp = ptgrun.tree_paths()
    inc, defs, libs, san = core.tree_flags("hooks")
    text = G.emit_jdf(struct)
    h = hashlib.sha1(text.encode()).hexdigest()[:16]
    wd = os.path.join(core.WORK, "harness", "hooks", "C18", h)
    out = os.path.join(wd, "c18")
    deps = [os.path.join(HERE, "c18_main.c"), os.path.join(PTG, "vs_support.c"), os.path.join(PTG, "vs_support.h"),
            os.path.join(d, "parsec", "libparsec.so"), ptgpp]
    os.makedirs(wd, exist_ok=True)
    with core._Lock(out + ".lock"):
        if os.path.exists(out) and os.path.getmtime(out) >= max(os.path.getmtime(s) for s in deps):
            return out
        open(os.path.join(wd, "rs.jdf"), "w").write(text)
        p = subprocess.run([ptgpp, "-E", "-i", "rs.jdf", "-o", "rs", "--noline"], cwd=wd, stdout=subprocess.PIPE, stderr=subprocess.STDOUT, text=True, errors="replace")
        if p.returncode != 0 or not os.path.exists(os.path.join(wd, "rs.c")):
            raise BuildFailed("parsec-ptgpp rejects the generated JDF: " + p.stdout[-800:])
        cdefs = [x for x in defs if x != "-DBUILDING_PARSEC"]
        cmd = ["gcc", "-std=gnu11", "-w", "-O0", "rs.c", os.path.join(HERE, "c18_main.c"), ptgrun.support_obj(), "-o", out + ".tmp", "-I" + PTG, "-I."] + cdefs + inc + libs
        p = subprocess.run(cmd, cwd=wd, stdout=subprocess.PIPE, stderr=subprocess.STDOUT, text=True, errors="replace")
        if p.returncode != 0:
            raise BuildFailed("generated C does not compile: " + p.stdout[-800:])
        os.replace(out + ".tmp", out)
    return out


def crash_summary(out):
    """the informative lines of a dying run: assertion text, signal, first runtime frames."""
    keep = []
    for ln in out.split("\n"):
        if "Assertion" in ln or "Signal:" in ln or "Failing at address" in ln or "parsec_fatal" in ln.lower() or "MPI_ERR" in ln:
            keep.append(ln.strip())
        elif "libparsec" in ln and "(" in ln and "+0x" in ln and len([k for k in keep if "libparsec" in k]) < 4:
            keep.append(ln.split("libparsec.so.4", 1)[-1].split("[0x")[0].strip())
    txt = " | ".join(keep) if keep else " | ".join(x for x in out[-500:].split("\n") if x.strip())
    return txt[:600]


def run_case(exe, wd, struct, cfg, tq_ms=4000, tag="c", timeout=300):
    """-> (status, message); status in ok / hang / crash / timeout."""
    cf, lf = os.path.join(wd, tag + ".case"), os.path.join(wd, tag + ".log")
    open(cf, "w").write(" ".join(map(str, G.case_ints(struct, cfg, tq_ms))) + "\n")
    P = cfg["P"]
    for r in range(4):
        for f in ("%s.%d" % (lf, r), "%s.hb.%d" % (lf, r)):
            try:
                os.unlink(f)
            except OSError:
                pass
    env = dict(os.environ)
    env.update(core.MPI_ENV)
    env["PARSEC_MCA_mca_sched"] = cfg.get("sched", "lfq")
    env["OMPI_MCA_pml"] = "ob1"
    env["OMPI_MCA_btl"] = "self,vader"
    if cfg.get("short") is not None:
        env["PARSEC_MCA_runtime_comm_short_limit"] = str(cfg["short"])
    if cfg.get("bcast") is not None:
        env["PARSEC_MCA_runtime_comm_coll_bcast"] = str(cfg["bcast"])
    cmd = [exe, cf, lf]
    if P > 1:
        cmd = ["mpiexec", "--oversubscribe", "-n", str(P)] + cmd
    try:
        p = subprocess.run(cmd, cwd=wd, env=env, stdout=subprocess.PIPE, stderr=subprocess.STDOUT, text=True, errors="replace", timeout=timeout)
    except subprocess.TimeoutExpired:
        subprocess.run(["pkill", "-9", "-f", cf], stdout=subprocess.DEVNULL, stderr=subprocess.DEVNULL)
        return "timeout", ""
    recs, notes, status = [], {}, {}
    for r in range(P):
        s, rs, ns = ptgrun.parse_log("%s.%d" % (lf, r), r)
        status[r] = s
        recs += rs
        notes[r] = ns
    q = [n for r in notes for n in notes[r] if n.startswith("C18-QUIESCENT")]
    if q:
        done = sum(1 for r in recs if not r.again)
        total = cfg["nt"] * (2 + 2 * len(struct["cons"]))
        return "hang", "runtime quiescent with %d of %d tasks executed: %s" % (done, total, q[0][:300])
    if p.returncode != 0 or any(s != "FINISHED" for s in status.values()):
        return "crash", "run died rc=%s: %s" % (p.returncode, crash_summary(p.stdout))
    return "ok", G.judge(struct, cfg, recs, notes)


# ------------------------------------------------------------------ generation
# exclusion switches (each exclusion is counted in a label); set the variable to 1 to generate the excluded cases again
ALLOW_SHORT_MULTI = os.environ.get("C18_ALLOW_SHORT_MULTI_REMOTE", "0") == "1"   # documented unsupported case
ALLOW_MIXED_OUT = os.environ.get("C18_ALLOW_MIXED_OUT_TYPES", "1") == "1"        # finding C18-F1 (corpus/C18/regress/F1_*.json)
ALLOW_FORWARD_RW = os.environ.get("C18_ALLOW_FORWARD_AFTER_RW", "0") == "1"       # finding C18-F3 (corpus/C18/regress/F3_*.json)
ALLOW_PACKED_MULTI = os.environ.get("C18_ALLOW_PACKED_PLUS_SHAPE", "1") == "1"   # finding C18-F2 (corpus/C18/regress/F2_*.json)

FTYPES = [None, "DEFAULT", "FULL"]
ALLT = [None, "DEFAULT", "FULL", "UPPER", "LOWER", "UPPER", "LOWER"]
SWAP = {"UPPER": "LOWER", "LOWER": "UPPER"}


class Stats:
    evaluations = 0
    nontrivial = set()
    labels = {}
    samples = []
    failure = None
    inconclusive = 0
    after_failure = 0
    calls = 0


S = Stats()


def lab(k, n=1):
    S.labels[k] = S.labels.get(k, 0) + n


def draw_struct(d):
    """-> (struct, square): type annotations that respect the equal-packed-size precondition of every edge."""
    nc = d(st.sampled_from([1, 2, 2, 3, 3, 4, 4]))
    square = d(st.booleans())
    struct = dict(dflt_is_dc=d(st.sampled_from([0, 0, 0, 1])), cons=[])
    raw_ot = [d(st.sampled_from(ALLT)) for _ in range(nc)]
    if not ALLOW_MIXED_OUT and len(set(raw_ot)) > 1:
        lab("excl_F1_mixed_output_types_made_uniform")
        raw_ot = [raw_ot[0]] * nc
    # one message received with several datatypes (PACKED reception) needs consumers that share the output type_remote
    common_rk = d(st.sampled_from(["free", "free", "free", "full", "tri"]))
    common_otr = d(st.sampled_from(["DEFAULT", "FULL"] if common_rk == "full" else ["UPPER", "LOWER"]))
    for c in range(nc):
        ot = raw_ot[c]
        if G.SHAPE[ot] == "F":
            it = d(st.sampled_from(FTYPES))
        else:
            it = d(st.sampled_from([None, ot, ot] + ([SWAP[ot], SWAP[ot]] if square else [])))
        rk = common_rk if common_rk != "free" else d(st.sampled_from(["none", "full", "tri", "tri"]))
        if rk == "none":
            otr = itr = None
        elif rk == "full":
            otr, itr = common_otr if common_rk == "full" else d(st.sampled_from(FTYPES)), d(st.sampled_from(FTYPES))
        else:
            otr = common_otr if common_rk == "tri" else d(st.sampled_from(["UPPER", "LOWER"]))
            itr = SWAP[otr] if (square and d(st.integers(0, 2)) == 0) else otr
        struct["cons"].append(dict(rw=d(st.integers(0, 1)), ot=ot, it=it, otr=otr, itr=itr))
    # an RW consumer must own its copy (see legal_placements); give up the write access when no placement on 4 ranks allows it
    while not legal_placements(struct, 4, 0):
        rws = [x for x in struct["cons"] if x["rw"]]
        rws[-1]["rw"] = 0
        lab("rw_made_read_shared_copy")
    return struct, square


_LEGAL = {}


def legal_placements(struct, P, pr):
    """all assignments of the consumers of one tile to ranks (producer on rank pr) in which every RW consumer owns its copy:
    it does not receive the producer's copy itself and no other consumer on its rank has the same share class
    (and, unless C18_ALLOW_PACKED_PLUS_SHAPE=1, no process is in the situation of finding C18-F2)."""
    key = (json.dumps(struct, sort_keys=True), P, pr)
    if key not in _LEGAL:
        cons = struct["cons"]
        out = []
        for pl in itertools.product(range(P), repeat=len(cons)):
            ok = True
            for c, x in enumerate(cons):
                if not x["rw"]:
                    continue
                loc = pl[c] == pr
                if not G.is_fresh(struct, x, loc):
                    ok = False
                for j, y in enumerate(cons):
                    if j != c and pl[j] == pl[c] and G.share_class(struct, y, loc) == G.share_class(struct, x, loc):
                        ok = False
            if ok and (ALLOW_PACKED_MULTI or not G.packed_plus_other_shape(struct, pl, pr)):
                out.append(list(pl))
        _LEGAL[key] = out
    return _LEGAL[key]


def draw_cfg(d, struct, square):
    nc = len(struct["cons"])
    m = d(st.integers(2, 6))
    n = m if square else d(st.integers(2, 6))
    feasible = [P for P in (1, 2, 3, 4) if legal_placements(struct, P, 0)]
    P = d(st.sampled_from(feasible))
    nt = d(st.integers(1, 3))
    prank = [d(st.integers(0, P - 1)) for _ in range(nt)]
    crank = [[0] * nt for _ in range(nc)]
    for k in range(nt):
        pl = [prank[k] if d(st.integers(0, 9)) < 3 else d(st.integers(0, P - 1)) for _ in range(nc)]
        legal = legal_placements(struct, P, prank[k])
        if pl not in legal:
            lab("excl_F2_packed_plus_other_remote_shape_redrawn" if (not ALLOW_PACKED_MULTI and G.packed_plus_other_shape(struct, pl, prank[k]))
                else "placement_redrawn_rw_owns_copy")
            pl = legal[d(st.integers(0, len(legal) - 1))]
        for c in range(nc):
            crank[c][k] = pl[c]
    cfg = dict(m=m, n=n, ld=m + d(st.integers(0, 2)), diag=d(st.sampled_from([1, 1, 1, 0])), nt=nt, P=P, threads=d(st.integers(1, 4)),
               short=d(st.sampled_from([None, 0, 16, 64, 256, 4096])), bcast=d(st.sampled_from([None, 0, 1, 2])), delay_us=d(st.sampled_from([0, 100, 1000])),
               sched=d(st.sampled_from(SCHEDS)), prank=prank, crank=crank)
    return cfg


def classify(struct, cfg):
    """labels + the non-trivial predicate of one executed case."""
    nloc = nrem = 0
    kinds = set()
    differ = False
    for k in range(cfg["nt"]):
        cl = set()
        for c, x in enumerate(struct["cons"]):
            loc = G.is_local(cfg, c, k)
            nloc += loc
            nrem += not loc
            s, t = G.edge_shapes(struct, x, loc)
            kinds.add(("local_" if loc else "remote_") + ("same_copy" if not G.is_fresh(struct, x, loc) else s + "to" + t))
            cl.add(G.edge_class(struct, x, loc) + (loc,))
        differ = differ or len(cl) >= 2
    if any(len(v) >= 2 for k in range(cfg["nt"]) for g in G.remote_groups(struct, G.placement(cfg, k), cfg["prank"][k] % cfg["P"]).values() for v in g.values()):
        lab("packed_reception")
    for kd in kinds:
        lab("edge_" + kd)
    lab("edges_local", nloc)
    lab("edges_remote", nrem)
    lab("mix_local_and_remote" if nloc and nrem else "only_local" if nloc else "only_remote")
    nrw = sum(x["rw"] for x in struct["cons"])
    lab("rw_consumers_%d" % nrw)
    lab("P_%d" % cfg["P"])
    lab("threads_%d" % cfg["threads"])
    lab("consumers_%d" % len(struct["cons"]))
    lab("short_%s" % cfg["short"])
    lab("bcast_%s" % cfg.get("bcast"))
    if cfg["ld"] > cfg["m"]:
        lab("ld_gt_m")
    if cfg["diag"] == 0:
        lab("strict_triangles")
    return differ and nrw >= 1


def execute(struct, cfg, wd):
    """run one case with the watchdog convention: up to 3 tries on hang/crash; -> (status, msg)."""
    multi = any(G.several_remote_shapes(struct, G.placement(cfg, k), cfg["prank"][k] % cfg["P"]) for k in range(cfg["nt"]))
    if multi and cfg["short"] != 0 and not ALLOW_SHORT_MULTI:
        cfg["short"] = 0
        lab("excl_short_limit_forced_0_several_remote_shapes")
    elif multi:
        lab("several_remote_shapes_to_one_rank")
    fwd = any(G.forwarded_after_rw(struct, G.placement(cfg, k), cfg["prank"][k] % cfg["P"]) for k in range(cfg["nt"]))
    if fwd and cfg.get("bcast") != 0 and not ALLOW_FORWARD_RW:
        cfg["bcast"] = 0
        lab("excl_F3_star_broadcast_forced_rw_consumer_on_forwarding_rank")
    if os.environ.get("C18_DRY") == "1":      # generator statistics only
        return "ok", ""
    exe = build_structure(struct)
    tq, tries = 4000, 0
    while True:
        status, msg = run_case(exe, wd, struct, cfg, tq_ms=tq)
        tries += 1
        if (status == "hang" and tries < 3) or (status == "crash" and tries < (1 if S.failure else 3)):
            tq *= 2
            continue
        return status, msg


def make_test(a, wd):
    @seed(a.seed)
    @settings(max_examples=a.cases + 1, database=None, deadline=None, derandomize=False, suppress_health_check=list(HealthCheck),
              report_multiple_bugs=False, phases=[Phase.generate, Phase.shrink])
    @given(st.data())
    def test(data):
        d = data.draw
        struct, square = draw_struct(d)
        cfgs = [draw_cfg(d, struct, square) for _ in range(a.configs)]
        S.calls += 1
        if S.calls == 1 and G.struct_key(struct) == "RD:None/None/None/None":
            return            # Hypothesis always starts with the all-minimal example: the same trivial case in every worker
        if S.failure is not None:
            S.after_failure += 1
            if S.after_failure > a.shrink_budget:     # bounded minimisation: whole-runtime runs are expensive
                raise AssertionError("shrink budget exhausted")
        for cfg in cfgs:
            status, msg = execute(struct, cfg, wd)
            if status == "timeout":
                S.inconclusive += 1
                lab("timeout_inconclusive")
                continue
            S.evaluations += 1
            lab("status_" + status)
            if classify(struct, cfg):
                S.nontrivial.add(hashlib.sha1(json.dumps([struct, cfg], sort_keys=True).encode()).hexdigest())
                if len(S.samples) < 3:
                    S.samples.append(dict(struct=G.struct_key(struct), cfg=cfg))
            if status != "ok" or msg:
                S.failure = dict(msg=msg or status, replay=dict(struct=struct, cfg=cfg))
                raise AssertionError(msg or status)
    return test


def main():
    ap = argparse.ArgumentParser()
    ap.add_argument("--seed", type=int, default=1)
    ap.add_argument("--cases", type=int, default=2)
    ap.add_argument("--configs", type=int, default=3)
    ap.add_argument("--shrink-budget", dest="shrink_budget", type=int, default=12)
    ap.add_argument("--out")
    ap.add_argument("--replay")
    a = ap.parse_args()
    wd = os.path.join(core.WORK, "run", "c18-%d" % os.getpid())
    os.makedirs(wd, exist_ok=True)
    try:
        if a.replay:
            case = json.load(open(a.replay))
            exe = build_structure(case["struct"])
            bad = None
            for i in range(case.get("repeat", 3)):
                tq = case.get("tq_ms", 6000)
                for attempt in range(3):             # a watchdog alarm or a crash must repeat (longer quiescence time) to count
                    status, msg = run_case(exe, wd, case["struct"], case["cfg"], tq_ms=tq)
                    if status not in ("hang", "crash"):
                        break
                    tq *= 2
                if status == "timeout":
                    continue
                if status != "ok" or msg:
                    bad = msg or status
                    break
            print("REPLAY-FAIL " + bad if bad else "REPLAY-PASS")
            sys.exit(1 if bad else 0)
        rc = 0
        try:
            make_test(a, wd)()
        except AssertionError:
            rc = 1
        except BuildFailed as e:
            S.failure = S.failure or dict(msg=str(e), replay=None)
            rc = 1
        except Exception:
            if S.failure is None:
                import traceback
                traceback.print_exc()
                rc = 2
            else:
                rc = 1
        rep = dict(evaluations=S.evaluations, nontrivial=sorted(S.nontrivial), labels=S.labels, samples=S.samples, failure=S.failure, inconclusive=S.inconclusive)
        if a.out:
            json.dump(rep, open(a.out, "w"))
        else:
            rep["nontrivial"] = len(rep["nontrivial"])
            print(json.dumps(rep)[:3000])
        sys.exit(rc)
    finally:
        shutil.rmtree(wd, ignore_errors=True)


if __name__ == "__main__":
    main()
