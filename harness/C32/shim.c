/* C shim for C32: table creation with the resize hints set through the MCA parameters (the way
 * tests/class/hash.c does it), engineered key functions, the caller-side locked idioms, and a
 * read-only view of the table internals (used for labels / non-triviality and for the
 * "no item in an unlinked table" check).  All hash-table code runs inside libparsec.so. */
#include "parsec/parsec_config.h"
#include "parsec/class/parsec_hash_table.h"
#include "parsec/utils/mca_param.h"
#include "parsec/utils/debug.h"
#include "parsec/constants.h"
#include <stdlib.h>
#include <stdio.h>
#include <string.h>

/* replica of the private bucket layout of parsec_hash_table.c; validated at start by shim_selfcheck() */
struct shim_bucket { parsec_atomic_lock_t lock; int32_t cur_len; parsec_hash_table_item_t *first_item; };

typedef struct { int pad0; int id; parsec_hash_table_item_t ht_item; int kid; } shim_item_t;
#define ITEM_OFF ((int64_t)offsetof(shim_item_t, ht_item))
#define KEY_ID(k) ((uint64_t)(k) >> 4)

typedef struct { parsec_hash_table_t ht; int hash_kind; int nb_bits0; } shim_ht_t;

static int mch_idx = -1, mnb_idx = -1;

static int key_equal(parsec_key_t a, parsec_key_t b, void *d) { (void)d; return KEY_ID(a) == KEY_ID(b); }
static char *key_print(char *buf, size_t n, parsec_key_t k, void *d) { (void)d; snprintf(buf, n, "%lu", (unsigned long)KEY_ID(k)); return buf; }
static uint64_t key_hash(parsec_key_t k, void *d)
{
    int kind = *(int *)d; uint64_t id = KEY_ID(k);
    switch (kind) {
    case 0: return id;                               /* identity on the key's equivalence class */
    case 1: return 42;                               /* constant: everything collides, also on hash64 */
    case 2: return id & 1;                           /* low bit only */
    case 3: return id * 0x9E3779B97F4A7C15ULL;       /* spread */
    default: return (id & 3) << 32;                  /* only high bits differ (folded by the rehash) */
    }
}
static parsec_key_fn_t key_fns = { .key_equal = key_equal, .key_print = key_print, .key_hash = key_hash };

int shim_init(void)
{
    parsec_debug_init();
    parsec_mca_param_init();
    if (PARSEC_SUCCESS != parsec_hash_tables_init()) return -1;
    mch_idx = parsec_mca_param_find("parsec", NULL, "hash_table_max_collisions_hint");
    mnb_idx = parsec_mca_param_find("parsec", NULL, "hash_table_max_table_nb_bits");
    if (mch_idx == PARSEC_ERROR || mnb_idx == PARSEC_ERROR) return -1;
    return 0;
}

shim_ht_t *shim_ht_new(int nb_bits, int hint, int maxbits, int hash_kind)
{
    shim_ht_t *s = (shim_ht_t *)calloc(1, sizeof(shim_ht_t));
    s->hash_kind = hash_kind; s->nb_bits0 = nb_bits;
    parsec_mca_param_set_int(mch_idx, hint);
    parsec_mca_param_set_int(mnb_idx, maxbits);
    parsec_hash_table_init(&s->ht, ITEM_OFF, nb_bits, key_fns, &s->hash_kind);
    return s;
}
int shim_ht_hint(shim_ht_t *s) { return s->ht.max_collisions_hint; }
int shim_ht_maxbits(shim_ht_t *s) { return s->ht.max_table_nb_bits; }
void shim_ht_free(shim_ht_t *s) { parsec_hash_table_fini(&s->ht); free(s); }

shim_item_t *shim_item_new(int id) { shim_item_t *it = (shim_item_t *)calloc(1, sizeof(shim_item_t)); it->id = id; it->kid = -1; return it; }
void shim_item_free(shim_item_t *it) { free(it); }
int shim_item_id(shim_item_t *it) { return it->id; }
int shim_item_kid(shim_item_t *it) { return it->kid; }

static parsec_key_t mk(int kid, int salt) { return (parsec_key_t)(((uint64_t)(kid + 1) << 4) | (uint64_t)(salt & 15)); }

void shim_insert(shim_ht_t *s, shim_item_t *it, int kid, int salt)
{
    it->kid = kid; it->ht_item.key = mk(kid, salt);
    parsec_hash_table_insert(&s->ht, &it->ht_item);
}
shim_item_t *shim_find(shim_ht_t *s, int kid, int salt) { return (shim_item_t *)parsec_hash_table_find(&s->ht, mk(kid, salt)); }
shim_item_t *shim_remove(shim_ht_t *s, int kid, int salt) { return (shim_item_t *)parsec_hash_table_remove(&s->ht, mk(kid, salt)); }

/* insert-if-absent, the idiom of termdet.c / parsec.c: returns the existing item, or NULL when `it` was inserted */
shim_item_t *shim_iia(shim_ht_t *s, shim_item_t *it, int kid, int salt, int salt2)
{
    parsec_key_t k = mk(kid, salt);
    parsec_hash_table_lock_bucket(&s->ht, k);
    shim_item_t *found = (shim_item_t *)parsec_hash_table_nolock_find(&s->ht, k);
    if (NULL == found) {
        it->kid = kid; it->ht_item.key = mk(kid, salt2);
        parsec_hash_table_nolock_insert(&s->ht, &it->ht_item);
    }
    parsec_hash_table_unlock_bucket(&s->ht, k);
    return found;
}
/* same with the handle API (datarepo.c, dtd) */
shim_item_t *shim_iia_h(shim_ht_t *s, shim_item_t *it, int kid, int salt, int salt2)
{
    parsec_key_t k = mk(kid, salt); parsec_key_handle_t kh;
    parsec_hash_table_lock_bucket_handle(&s->ht, k, &kh);
    shim_item_t *found = (shim_item_t *)parsec_hash_table_nolock_find_handle(&s->ht, &kh);
    if (NULL == found) {
        it->kid = kid; it->ht_item.key = mk(kid, salt2);
        parsec_hash_table_nolock_insert_handle(&s->ht, &kh, &it->ht_item);
    }
    parsec_hash_table_unlock_bucket_handle(&s->ht, &kh);
    return found;
}
/* locked find-then-remove with the handle API (datarepo.c: entry_used_once) */
shim_item_t *shim_lrm_h(shim_ht_t *s, int kid, int salt)
{
    parsec_key_t k = mk(kid, salt); parsec_key_handle_t kh;
    parsec_hash_table_lock_bucket_handle(&s->ht, k, &kh);
    shim_item_t *found = (shim_item_t *)parsec_hash_table_nolock_find_handle(&s->ht, &kh);
    shim_item_t *rem = NULL;
    if (NULL != found) rem = (shim_item_t *)parsec_hash_table_nolock_remove_handle(&s->ht, &kh);
    parsec_hash_table_unlock_bucket_handle(&s->ht, &kh);
    if (found != rem) return (shim_item_t *)(intptr_t)-1;   /* found under the bucket lock but the remove under the same lock disagrees */
    return rem;
}
/* locked remove without the handle (termdet.c, dtd) */
shim_item_t *shim_lrm(shim_ht_t *s, int kid, int salt)
{
    parsec_key_t k = mk(kid, salt);
    parsec_hash_table_lock_bucket(&s->ht, k);
    shim_item_t *rem = (shim_item_t *)parsec_hash_table_nolock_remove(&s->ht, k);
    parsec_hash_table_unlock_bucket(&s->ht, k);
    return rem;
}

/* called when a walk does not terminate (cyclic chain): the C++ side records the failing case and exits */
void (*shim_on_panic)(const char *msg) = NULL;
struct fa { int *ids; int n, cap; };
static void fa_cb(void *item, void *cb) { struct fa *f = (struct fa *)cb; if (f->n < f->cap) f->ids[f->n] = ((shim_item_t *)item)->id; f->n++;
    if (f->n > f->cap + 100000 && shim_on_panic) shim_on_panic("parsec_hash_table_for_all does not terminate (cyclic bucket chain)"); }
int shim_for_all(shim_ht_t *s, int *ids, int cap) { struct fa f = { ids, 0, cap }; parsec_hash_table_for_all(&s->ht, fa_cb, &f); return f.n; }

/* ---- read-only internals ---- */
int shim_nb_bits(shim_ht_t *s) { return (int)s->ht.rw_hash->nb_bits; }
int shim_resizes(shim_ht_t *s) { return (int)s->ht.rw_hash->nb_bits - s->nb_bits0; }
/* depth (0 = current table) of the table that holds an item with this key id; -1 absent */
int shim_locate(shim_ht_t *s, int kid)
{
    int depth = 0;
    for (parsec_hash_table_head_t *h = s->ht.rw_hash; NULL != h; h = h->next_to_free, depth++) {
        struct shim_bucket *b = (struct shim_bucket *)h->buckets;
        for (size_t i = 0; i < (1ULL << h->nb_bits); i++)
        {   int guard = 0;
            for (parsec_hash_table_item_t *it = b[i].first_item; it; it = it->next_item) {
                if ((int)KEY_ID(it->key) == kid + 1) return depth;
                if (++guard > 100000) { if (shim_on_panic) shim_on_panic("a bucket chain is cyclic"); return -3; }
            }
        }
    }
    return -1;
}
/* total items in all allocated tables; *unreach = items sitting in a table that is not reachable through ->next;
 * *badlen = buckets whose cur_len differs from the chain length */
int shim_count_all(shim_ht_t *s, int *unreach, int *badlen, int *old_tables_with_items)
{
    int total = 0; *unreach = 0; *badlen = 0; *old_tables_with_items = 0;
    for (parsec_hash_table_head_t *h = s->ht.rw_hash; NULL != h; h = h->next_to_free) {
        int reach = 0, here = 0;
        for (parsec_hash_table_head_t *r = s->ht.rw_hash; NULL != r; r = r->next) if (r == h) reach = 1;
        struct shim_bucket *b = (struct shim_bucket *)h->buckets;
        for (size_t i = 0; i < (1ULL << h->nb_bits); i++) {
            int len = 0;
            for (parsec_hash_table_item_t *it = b[i].first_item; it; it = it->next_item) { len++; if (len > 100000) break; }
            if (len != b[i].cur_len) (*badlen)++;
            here += len;
        }
        total += here;
        if (!reach) *unreach += here;
        if (h != s->ht.rw_hash && here) (*old_tables_with_items)++;
    }
    return total;
}
int shim_selfcheck(void)
{
    shim_ht_t *s = shim_ht_new(1, 8, 12, 0);
    if (s->ht.max_collisions_hint != 8 || s->ht.max_table_nb_bits != 12) return 1;
    shim_item_t *a = shim_item_new(1), *b = shim_item_new(2);
    shim_insert(s, a, 5, 0); shim_insert(s, b, 6, 1);
    struct shim_bucket *bk = (struct shim_bucket *)s->ht.rw_hash->buckets;
    int seen = 0, len = 0;
    for (int i = 0; i < 2; i++) { len += bk[i].cur_len; for (parsec_hash_table_item_t *it = bk[i].first_item; it; it = it->next_item) if (it == &a->ht_item || it == &b->ht_item) seen++; }
    int u, bl, o; int tot = shim_count_all(s, &u, &bl, &o);
    int bad = !(seen == 2 && len == 2 && tot == 2 && u == 0 && bl == 0 && shim_locate(s, 5) == 0 && shim_locate(s, 7) == -1);
    if (shim_remove(s, 5, 3) != a || shim_remove(s, 6, 0) != b) bad = 1;
    shim_ht_free(s); shim_item_free(a); shim_item_free(b);
    return bad;
}
