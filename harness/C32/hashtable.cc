// C32 -- The concurrent hash table is a linearizable map across resizes.
//
// case = (table configuration: nb_bits, max_collisions_hint, max_table_nb_bits, key-hash function;
//         sequential prefill; 2..3 thread programs of insert / find / remove / insert-if-absent idioms /
//         locked-remove idioms on a small key domain; schedule bytes), run under dsched.
// oracle = per key, the recorded history (prefill + concurrent ops + quiescent for_all observation) is
//          linearizable w.r.t. a register-like map entry (absent | item id); for_all visits every stored item
//          exactly once; no item sits in a table that is unreachable; after removing everything the table is empty.
// Uniqueness precondition by construction: odd keys are owned by one thread and only that thread inserts them
// (plain insert only when it knows the key is absent), even keys are shared and only inserted through the
// lock_bucket + nolock_find + nolock_insert idiom.
// modes: rc | stress T rounds seed | replay <file>
#include <algorithm>
#include <atomic>
#include <thread>
#include <pthread.h>
#include "vf.hpp"
#include "dsched.hpp"
#include "linearize.hpp"
#include "fair_chooser.hpp"
#include <rapidcheck.h>

extern "C" {
struct shim_ht_s; typedef struct shim_ht_s shim_ht_t; struct shim_item_s; typedef struct shim_item_s shim_item_t;
int shim_init(void); int shim_selfcheck(void);
shim_ht_t *shim_ht_new(int nb_bits, int hint, int maxbits, int hash_kind); void shim_ht_free(shim_ht_t *);
shim_item_t *shim_item_new(int id); void shim_item_free(shim_item_t *); int shim_item_id(shim_item_t *); int shim_item_kid(shim_item_t *);
void shim_insert(shim_ht_t *, shim_item_t *, int kid, int salt);
shim_item_t *shim_find(shim_ht_t *, int kid, int salt); shim_item_t *shim_remove(shim_ht_t *, int kid, int salt);
shim_item_t *shim_iia(shim_ht_t *, shim_item_t *, int kid, int salt, int salt2);
shim_item_t *shim_iia_h(shim_ht_t *, shim_item_t *, int kid, int salt, int salt2);
shim_item_t *shim_lrm_h(shim_ht_t *, int kid, int salt); shim_item_t *shim_lrm(shim_ht_t *, int kid, int salt);
int shim_for_all(shim_ht_t *, int *ids, int cap);
int shim_nb_bits(shim_ht_t *); int shim_resizes(shim_ht_t *); int shim_locate(shim_ht_t *, int kid);
int shim_count_all(shim_ht_t *, int *unreach, int *badlen, int *old_with_items);
extern void (*shim_on_panic)(const char *msg);
}

enum { INSERT = 0, FIND = 1, REMOVE = 2, IIA = 3, IIA_H = 4, LRM_H = 5, LRM = 6, NOPS = 7 };
static const char *opname[] = {"insert", "find", "remove", "iia", "iia_h", "lrm_h", "lrm"};

struct Op { int type, key, salt; };
struct Case {
    int nb_bits = 1, hint = 1, maxbits = 8, hash = 0, nkeys = 4, sparse = 0;
    std::vector<int> prefill;             // key ids inserted sequentially before the threads start (deduplicated at run time)
    std::vector<std::vector<Op>> prog;
    std::vector<uint8_t> sched;
    std::string repr() const {
        std::ostringstream o;
        o << "C32 nb_bits " << nb_bits << " hint " << hint << " maxbits " << maxbits << " hash " << hash << " nkeys " << nkeys
          << " sparse " << sparse << " threads " << prog.size() << "\n";
        o << "prefill"; for (int k : prefill) o << " " << k; o << "\n";
        for (auto &p : prog) { o << "prog"; for (auto &x : p) o << " " << x.type << " " << x.key << " " << x.salt; o << "\n"; }
        o << "sched"; for (uint8_t b : sched) o << " " << (int)b; o << "\n";
        return o.str();
    }
    static Case parse(const std::string &s) {
        Case c; std::istringstream in(s); std::string line;
        while (std::getline(in, line)) {
            std::istringstream ls(line); std::string w; ls >> w;
            if (w == "C32") { std::string k; int v; while (ls >> k >> v) {
                if (k == "nb_bits") c.nb_bits = v; else if (k == "hint") c.hint = v; else if (k == "maxbits") c.maxbits = v;
                else if (k == "hash") c.hash = v; else if (k == "nkeys") c.nkeys = v; else if (k == "sparse") c.sparse = v; } }
            else if (w == "prefill") { int x; while (ls >> x) c.prefill.push_back(x); }
            else if (w == "prog") { std::vector<Op> p; Op x; while (ls >> x.type >> x.key >> x.salt) p.push_back(x); c.prog.push_back(p); }
            else if (w == "sched") { int x; while (ls >> x) c.sched.push_back((uint8_t)x); }
        }
        return c;
    }
};

// history entry, per key.  Model op classes: insert(v) / iia(v)->r / find->r / remove->r
struct HOp { int type, key, val = -1, result = -1, thread = -1; uint64_t inv = 0, resp = 0; };
struct RegModel {
    int cur = -1;
    bool apply(const HOp &o) {
        switch (o.type) {
        case INSERT: if (cur != -1) return false; cur = o.val; return true;
        case IIA: case IIA_H: if (o.result == -1) { if (cur != -1) return false; cur = o.val; return true; } return cur == o.result;
        case FIND: return cur == o.result;
        default: if (cur != o.result) return false; cur = -1; return true;   // all removes
        }
    }
    std::string key() const { return std::string((const char *)&cur, sizeof cur); }
};

static std::string show(const std::vector<HOp> &h) {
    std::ostringstream o;
    for (auto &x : h) { o << " [t" << x.thread << " " << opname[x.type] << "(k" << x.key; if (x.val >= 0) o << ",v" << x.val; o << ")->" << x.result << " @" << x.inv << "-" << x.resp << "]"; }
    return o.str();
}

// checks every per-key projection; init[k] = state before the history; returns "" or the message
static std::string check_keys(const std::vector<HOp> &hist, int nkeys, const std::vector<int> &init, uint64_t *skipped = nullptr) {
    std::vector<std::vector<HOp>> per(nkeys);
    for (auto &h : hist) per[h.key].push_back(h);
    for (int k = 0; k < nkeys; k++) {
        if (per[k].empty()) continue;
        if (per[k].size() > 60) { if (skipped) (*skipped)++; continue; }
        RegModel m; m.cur = init[k];
        if (!lin::linearizable<HOp, RegModel>(per[k], m))
            return "history of key " + std::to_string(k) + " (initially " + std::to_string(init[k]) + ") is not linearizable as a map entry:" + show(per[k]);
    }
    return "";
}

struct RunInfo { int resizes = 0, resizes_conc = 0, old_hits = 0, maxbits_reached = 0; bool overlap = false; uint64_t steps = 0; size_t nops = 0; int final_items = 0; };

static inline bool shared_key(int k) { return (k % 2) == 0; }
static inline int owner_of(int k, int T) { return (k / 2) % T; }

// quiescent structural checks; fills observed[k] = item id stored for key k or -1
static std::string quiescent(shim_ht_t *ht, int nkeys, const std::vector<shim_item_t *> &items, std::vector<int> &observed) {
    std::vector<int> ids(items.size() + 8);
    int n = shim_for_all(ht, ids.data(), (int)ids.size());
    if (n > (int)ids.size()) return "for_all visits " + std::to_string(n) + " items but only " + std::to_string(items.size()) + " exist";
    std::vector<int> seen(items.size(), 0);
    observed.assign(nkeys, -1);
    for (int i = 0; i < n; i++) {
        int id = ids[i];
        if (id < 0 || id >= (int)items.size()) return "for_all visits something that is not an item";
        if (seen[id]++) return "for_all visits item " + std::to_string(id) + " twice";
        int k = shim_item_kid(items[id]);
        if (k < 0 || k >= nkeys) return "for_all visits item " + std::to_string(id) + " that was never inserted";
        if (observed[k] != -1) return "for_all visits two items (" + std::to_string(observed[k]) + ", " + std::to_string(id) + ") with the same key " + std::to_string(k);
        observed[k] = id;
    }
    int unreach, badlen, old; int tot = shim_count_all(ht, &unreach, &badlen, &old);
    if (unreach) return std::to_string(unreach) + " item(s) sit in a table that was unlinked from the chain of old tables";
    if (tot != n) return "tables hold " + std::to_string(tot) + " items but for_all visits " + std::to_string(n);
    return "";
}

static std::string run_case(const Case &c, dsched::Chooser &ch, RunInfo *ri) {
    int T = (int)c.prog.size(), K = c.nkeys;
    shim_ht_t *ht = shim_ht_new(c.nb_bits, c.hint, c.maxbits, c.hash);
    size_t cap = c.prefill.size() + 1; for (auto &p : c.prog) cap += p.size();
    std::vector<shim_item_t *> items; items.reserve(cap);
    auto fresh = [&]() { items.push_back(shim_item_new((int)items.size())); return items.back(); };
    std::vector<HOp> hist; hist.reserve(cap + K + 4);
    std::vector<std::vector<char>> belief(T, std::vector<char>(K, 0));
    std::string err;
    uint64_t stamp = 1;
    std::vector<int> init(K, -1);
    {   // sequential prefill (recorded: it is part of the history)
        std::vector<char> done(K, 0);
        for (int k : c.prefill) {
            if (k < 0 || k >= K || done[k]) continue; done[k] = 1;
            shim_item_t *it = fresh(); HOp h; h.type = INSERT; h.key = k; h.val = shim_item_id(it); h.inv = stamp++;
            shim_insert(ht, it, k, k & 15); h.resp = stamp++;
            hist.push_back(h);
            if (!shared_key(k)) belief[owner_of(k, T)][k] = 1;
        }
    }
    int resizes_before = shim_resizes(ht);
    uint64_t base = stamp + 4;
    std::vector<std::function<void()>> bodies;
    for (int t = 0; t < T; t++) {
        bodies.push_back([&, t]() {
            for (const Op &op0 : c.prog[t]) {
                if (!err.empty()) return;
                int k = op0.key % K, type = op0.type, salt = op0.salt & 15;
                if (shared_key(k)) { if (type == INSERT) type = IIA; }
                else if (owner_of(k, T) == t) { if (type == INSERT && belief[t][k]) type = REMOVE; }
                else { if (type == INSERT || type == IIA || type == IIA_H) type = FIND; }
                HOp h; h.type = type; h.key = k; h.thread = t;
                int loc = (type == INSERT) ? -1 : shim_locate(ht, k);
                shim_item_t *r = nullptr, *it = nullptr;
                if (type == INSERT || type == IIA || type == IIA_H) { it = fresh(); h.val = shim_item_id(it); }
                h.inv = base + dsched::now();
                switch (type) {
                case INSERT: shim_insert(ht, it, k, salt); break;
                case FIND: r = shim_find(ht, k, salt); break;
                case REMOVE: r = shim_remove(ht, k, salt); break;
                case IIA: r = shim_iia(ht, it, k, salt, (salt * 7 + 3) & 15); break;
                case IIA_H: r = shim_iia_h(ht, it, k, salt, (salt * 5 + 1) & 15); break;
                case LRM_H: r = shim_lrm_h(ht, k, salt); break;
                case LRM: r = shim_lrm(ht, k, salt); break;
                }
                h.resp = base + dsched::now() + 1;
                if (r == (shim_item_t *)(intptr_t)-1) { err = "nolock_find_handle found key " + std::to_string(k) + " but nolock_remove_handle under the same bucket lock did not return it"; return; }
                h.result = r ? shim_item_id(r) : -1;
                if (r && shim_item_kid(r) != k) { err = std::string(opname[type]) + "(key " + std::to_string(k) + ") returned an item stored under key " + std::to_string(shim_item_kid(r)); return; }
                if (type != INSERT && loc >= 1 && r) ri->old_hits++;
                if (!shared_key(k) && owner_of(k, T) == t) {
                    if (type == INSERT || type == IIA || type == IIA_H) belief[t][k] = 1;
                    else if (type == FIND) { if (!r) belief[t][k] = 0; }
                    else belief[t][k] = 0;
                }
                hist.push_back(h);
            }
        });
    }
    dsched::Outcome out = dsched::run(bodies, ch, 400000);
    ri->steps = out.steps; ri->nops = hist.size();
    ri->resizes = shim_resizes(ht); ri->resizes_conc = ri->resizes - resizes_before;
    ri->maxbits_reached = shim_nb_bits(ht) + 1 >= c.maxbits;
    for (size_t i = 0; i < hist.size() && !ri->overlap; i++) for (size_t j = i + 1; j < hist.size(); j++)
        if (hist[i].thread != hist[j].thread && hist[i].inv < hist[j].resp && hist[j].inv < hist[i].resp) { ri->overlap = true; break; }
    std::vector<int> observed;
    if (err.empty()) err = quiescent(ht, K, items, observed);
    if (err.empty()) {
        uint64_t late = base + out.steps + 10;
        for (int k = 0; k < K; k++) { HOp h; h.type = FIND; h.key = k; h.thread = -1; h.result = observed[k]; h.inv = late++; h.resp = late++; hist.push_back(h); ri->final_items += observed[k] >= 0; }
        err = check_keys(hist, K, init);
    }
    if (err.empty()) {   // remove everything: results must be the observed items; then nothing may remain anywhere
        for (int k = 0; k < K && err.empty(); k++) {
            shim_item_t *r = (k & 1) ? shim_remove(ht, k, 9) : shim_lrm(ht, k, 11);
            int id = r ? shim_item_id(r) : -1;
            if (id != observed[k]) err = "quiescent remove(key " + std::to_string(k) + ") returned " + std::to_string(id) + " but for_all showed " + std::to_string(observed[k]);
        }
        if (err.empty()) {
            std::vector<int> o2; err = quiescent(ht, K, items, o2);
            if (err.empty()) for (int k = 0; k < K; k++) if (o2[k] != -1) { err = "key " + std::to_string(k) + " still present after its removal"; break; }
            if (err.empty()) { int u, b, o; if (shim_count_all(ht, &u, &b, &o) != 0) err = "tables not empty after removing every key"; }
        }
    }
    if (err.empty()) shim_ht_free(ht);   // fini asserts on non-empty buckets; checked above (on error the table is leaked on purpose)
    for (auto it : items) shim_item_free(it);
    return err;
}

static std::string g_current;
static FairByteChooser *g_ch = nullptr;
static void fatal_hook(const char *what) { if (g_ch && getenv("VF_DEBUG")) fair_chooser_dump_tail(*g_ch, stderr); vf::record_failure(g_current, what); vf::dump(); }

static void labels(const Case &c, const RunInfo &ri) {
    vf::label("threads_" + std::to_string(c.prog.size()));
    vf::label("hash_" + std::to_string(c.hash));
    vf::label("resizes_" + std::to_string(std::min(ri.resizes, 5)) + (ri.resizes >= 5 ? "+" : ""));
    if (ri.resizes_conc >= 1) vf::label("resize_during_concurrent_phase");
    if (ri.old_hits) vf::label("op_hit_item_in_old_table");
    if (ri.overlap) vf::label("overlapping_ops");
    if (ri.maxbits_reached) vf::label("max_table_nb_bits_reached");
}

static int do_replay(const char *path) {
    Case c = Case::parse(vf::slurp(path));
    g_current = c.repr();
    FairByteChooser ch(c.sched.data(), c.sched.size(), c.sparse); g_ch = &ch;
    RunInfo ri; std::string e = run_case(c, ch, &ri);
    if (e.empty()) { printf("REPLAY-PASS resizes=%d old_hits=%d\n", ri.resizes, ri.old_hits); return 0; }
    printf("REPLAY-FAIL %s\n", e.c_str()); return 1;
}


// exhaustive: every program (thread 0: 2 ops, thread 1: 1 op, from 8 (op,key) pairs) on a table that already resized once and will resize
// again on the next colliding insert, x every schedule with at most `pb` preemptions
static int do_exh(int part, int nparts, int pb) {
    static const Op ALPHA[8] = {{INSERT, 3, 1}, {INSERT, 5, 2}, {FIND, 0, 3}, {REMOVE, 0, 4}, {IIA, 2, 5}, {LRM_H, 1, 6}, {FIND, 1, 7}, {IIA_H, 0, 8}};
    uint64_t execs = 0; bool truncated = false;
    for (int code = 0; code < 8 * 8 * 8; code++) {
        if (code % nparts != part) continue;
        Case c; c.nb_bits = 1; c.hint = 1; c.maxbits = 8; c.hash = 1; c.nkeys = 6; c.prefill = {0, 1}; c.prog.resize(2);
        c.prog[0] = {ALPHA[code % 8], ALPHA[(code / 8) % 8]}; c.prog[1] = {ALPHA[(code / 64) % 8]};
        dsched::DfsChooser d(pb);
        bool any_nt = false; uint64_t n0 = 0;
        do {
            d.begin(); RunInfo ri; g_current = c.repr(); std::string e = run_case(c, d, &ri); execs++; n0++;
            any_nt = any_nt || (ri.resizes >= 2 && ri.old_hits >= 1);
            if (!e.empty()) {
                Case f = c; for (size_t k = 0; k < d.depth && k < d.stack.size(); k++) f.sched.push_back((uint8_t)d.stack[k].chosen); f.sparse = -1;
                vf::record_failure(f.repr(), e); vf::R().evaluations += execs; vf::dump(); return 1;
            }
        } while (d.next());
        truncated = truncated || d.truncated;
        vf::note_case(c.repr() + "#schedules " + std::to_string(n0) + "\n", any_nt);
        vf::R().evaluations += n0 - 1; vf::label("schedules_enumerated", n0);
    }
    vf::R().extra["exh_truncated"] = truncated ? "true" : "false";
    vf::dump(); return 0;
}

// ------------------------------------------------------------------ stress (real parallelism)
struct Lcg { uint64_t x; explicit Lcg(uint64_t s) : x(s * 6364136223846793005ULL + 1442695040888963407ULL) {} uint32_t next() { x = x * 6364136223846793005ULL + 1442695040888963407ULL; return (uint32_t)(x >> 33); } };

static int do_stress(int T, int rounds, unsigned seed) {
    const int NSH = 8, K = 2 * std::max(NSH, 2 * T);   // even keys shared (K/2 of them), odd keys owned round-robin
    const int OPS = 12, GROUP = 6;
    Lcg cfg(seed * 977u + T);
    std::atomic<uint64_t> clock{1};
    std::string err; std::string repr = "C32-stress threads " + std::to_string(T) + " rounds " + std::to_string(rounds) + " seed " + std::to_string(seed) + "\n";
    g_current = repr;
    uint64_t total_ops = 0, skipped = 0, total_resizes = 0, groups_2resizes = 0;
    pthread_barrier_t bar; pthread_barrier_init(&bar, nullptr, T + 1);
    shim_ht_t *ht = nullptr;
    std::vector<std::vector<HOp>> th_hist(T);
    std::vector<std::vector<shim_item_t *>> th_items(T);
    std::vector<shim_item_t *> all_items;
    std::vector<std::vector<char>> belief(T, std::vector<char>(K, 0));
    std::atomic<bool> stop{false};
    std::atomic<int> bad_ret{0};
    std::vector<std::thread> th;
    for (int t = 0; t < T; t++) th.emplace_back([&, t]() {
        Lcg r(seed * 7919u + t * 104729u + 13);
        for (;;) {
            pthread_barrier_wait(&bar);           // round start
            if (stop.load()) return;
            auto &H = th_hist[t]; H.clear(); size_t used = 0;
            for (int i = 0; i < OPS; i++) {
                int k = r.next() % K, type = r.next() % NOPS, salt = r.next() & 15;
                if (r.next() % 3 == 0) type = INSERT;
                if (shared_key(k)) { if (type == INSERT) type = IIA; }
                else if (owner_of(k, T) == t) { if (type == INSERT && belief[t][k]) type = REMOVE; }
                else { if (type == INSERT || type == IIA || type == IIA_H) type = FIND; }
                HOp h; h.type = type; h.key = k; h.thread = t;
                shim_item_t *ret = nullptr, *it = nullptr;
                if (type == INSERT || type == IIA || type == IIA_H) { it = th_items[t][used++]; h.val = shim_item_id(it); }
                h.inv = clock.fetch_add(1);
                switch (type) {
                case INSERT: shim_insert(ht, it, k, salt); break;
                case FIND: ret = shim_find(ht, k, salt); break;
                case REMOVE: ret = shim_remove(ht, k, salt); break;
                case IIA: ret = shim_iia(ht, it, k, salt, salt ^ 5); break;
                case IIA_H: ret = shim_iia_h(ht, it, k, salt, salt ^ 9); break;
                case LRM_H: ret = shim_lrm_h(ht, k, salt); break;
                case LRM: ret = shim_lrm(ht, k, salt); break;
                }
                h.resp = clock.fetch_add(1);
                if (ret == (shim_item_t *)(intptr_t)-1) { bad_ret++; ret = nullptr; }
                h.result = ret ? shim_item_id(ret) : -1;
                if (!shared_key(k) && owner_of(k, T) == t) {
                    if (type == INSERT || type == IIA || type == IIA_H) belief[t][k] = 1;
                    else if (type == FIND) { if (!ret) belief[t][k] = 0; }
                    else belief[t][k] = 0;
                }
                H.push_back(h);
            }
            pthread_barrier_wait(&bar);           // round end
        }
    });
    std::vector<int> state(K, -1);
    int nb0 = 0;
    for (int rd = 0; rd < rounds && err.empty(); rd++) {
        if (rd % GROUP == 0) {
            int nb = 1 + cfg.next() % 3, hint = 1 + cfg.next() % 3, mb = 8 + cfg.next() % 7, hk = cfg.next() % 5;
            ht = shim_ht_new(nb, hint, mb, hk); nb0 = nb;
            state.assign(K, -1);
            for (auto &b : belief) std::fill(b.begin(), b.end(), 0);
        }
        // fresh items for this round (an item is used for at most one insertion)
        for (int t = 0; t < T; t++) { th_items[t].clear(); for (int i = 0; i < OPS; i++) { shim_item_t *it = shim_item_new((int)all_items.size()); all_items.push_back(it); th_items[t].push_back(it); } }
        pthread_barrier_wait(&bar);
        pthread_barrier_wait(&bar);
        // quiescent: observe, check per-key linearizability of this round
        std::vector<HOp> hist; for (auto &H : th_hist) hist.insert(hist.end(), H.begin(), H.end());
        total_ops += hist.size();
        std::vector<int> observed;
        err = quiescent(ht, K, all_items, observed);
        if (err.empty() && bad_ret.load()) err = "nolock_find_handle and nolock_remove_handle disagree under one bucket lock";
        if (err.empty()) {
            uint64_t late = clock.fetch_add(2 * K + 2);
            for (int k = 0; k < K; k++) { HOp h; h.type = FIND; h.key = k; h.result = observed[k]; h.inv = late++; h.resp = late++; hist.push_back(h); }
            err = check_keys(hist, K, state, &skipped);
            state = observed;
            for (int k = 1; k < K; k += 2) belief[owner_of(k, T)][k] = observed[k] >= 0;
        }
        if (err.empty() && (rd % GROUP == GROUP - 1 || rd == rounds - 1)) {
            int rs = shim_nb_bits(ht) - nb0; total_resizes += rs; if (rs >= 2) groups_2resizes++;
            for (int k = 0; k < K && err.empty(); k++) {
                shim_item_t *r = shim_remove(ht, k, 1); int id = r ? shim_item_id(r) : -1;
                if (id != state[k]) err = "quiescent remove(key " + std::to_string(k) + ") returned " + std::to_string(id) + ", expected " + std::to_string(state[k]);
            }
            int u, b, o; if (err.empty() && shim_count_all(ht, &u, &b, &o) != 0) err = "tables not empty after removing every key";
            if (err.empty()) { shim_ht_free(ht); ht = nullptr; }
            for (auto it : all_items) shim_item_free(it); all_items.clear();
        }
    }
    stop = true; pthread_barrier_wait(&bar);
    for (auto &t : th) t.join();
    vf::note_case(repr, T >= 2 && groups_2resizes > 0);
    vf::label("stress_ops", total_ops); vf::label("stress_resizes", total_resizes); vf::label("stress_keys_too_long_to_search", skipped);
    vf::label("stress_tables_with_2+_resizes", groups_2resizes);
    if (!err.empty()) { vf::record_failure(repr, err); vf::dump(); return 1; }
    vf::dump();
    return 0;
}

static void panic_hook(const char *msg) { vf::record_failure(g_current, msg); vf::dump(); fprintf(stderr, "C32: %s\n", msg); fflush(nullptr); _exit(1); }

int main(int argc, char **argv) {
    std::string mode = argc > 1 ? argv[1] : "rc";
    dsched::on_fatal() = fatal_hook; shim_on_panic = panic_hook;
    if (shim_init() != 0 || shim_selfcheck() != 0) { fprintf(stderr, "C32: hash table internals do not match the harness's view (bucket layout / MCA parameters)\n"); return 4; }
    if (mode == "replay") {
        std::string txt = vf::slurp(argv[2]);
        if (txt.rfind("C32-stress", 0) == 0) { int T, R; unsigned sd; sscanf(txt.c_str(), "C32-stress threads %d rounds %d seed %u", &T, &R, &sd); int r = 0; for (int k = 0; k < 3 && !r; k++) r = do_stress(T, R, sd); printf(r ? "REPLAY-FAIL stress\n" : "REPLAY-PASS\n"); return r; }
        return do_replay(argv[2]);
    }
    if (mode == "stress") return do_stress(atoi(argv[2]), atoi(argv[3]), (unsigned)atoi(argv[4]));
    if (mode == "exh") return do_exh(atoi(argv[2]), atoi(argv[3]), atoi(argv[4]));
    bool ok = rc::check("hash table histories under owned schedules are linearizable per key", []() {
        Case c;
        int T = *rc::gen::resize(100, rc::gen::inRange(2, 4));
        c.nb_bits = *rc::gen::resize(100, rc::gen::element(1, 1, 1, 2, 2, 3, 4));
        c.hint = *rc::gen::resize(100, rc::gen::element(1, 1, 1, 1, 2, 2, 3, 4));
        c.maxbits = *rc::gen::resize(100, rc::gen::element(6, 7, 8, 10, 12, 16));
        c.hash = *rc::gen::resize(100, rc::gen::element(0, 1, 1, 2, 2, 3, 4));
        c.nkeys = *rc::gen::resize(100, rc::gen::inRange(2, 13));
        c.sparse = *rc::gen::resize(100, rc::gen::element(0, 0, 128, 200, 240));
        int np = *rc::gen::inRange(0, 9);
        c.prefill = *rc::gen::container<std::vector<int>>((size_t)np, rc::gen::resize(100, rc::gen::inRange(0, c.nkeys)));
        c.prog.resize(T);
        for (int t = 0; t < T; t++) {
            int n = *rc::gen::inRange(2, 13);
            for (int i = 0; i < n; i++) {
                Op o;
                o.type = *rc::gen::resize(100, rc::gen::element((int)INSERT, (int)INSERT, (int)INSERT, (int)INSERT, (int)FIND, (int)FIND, (int)FIND, (int)REMOVE, (int)REMOVE,
                                                               (int)IIA, (int)IIA, (int)IIA_H, (int)LRM_H, (int)LRM));
                o.key = *rc::gen::resize(100, rc::gen::inRange(0, c.nkeys));
                o.salt = *rc::gen::resize(100, rc::gen::inRange(0, 16));
                c.prog[t].push_back(o);
            }
        }
        int sl = *rc::gen::inRange(0, 200);
        c.sched = *rc::gen::container<std::vector<uint8_t>>((size_t)sl, rc::gen::resize(100, rc::gen::arbitrary<uint8_t>()));
        g_current = c.repr();
        FairByteChooser ch(c.sched.data(), c.sched.size(), c.sparse);
        RunInfo ri; std::string e = run_case(c, ch, &ri);
        vf::note_case(g_current, ri.resizes >= 2 && ri.old_hits >= 1);
        labels(c, ri);
        if (!e.empty()) { vf::record_failure(g_current, e); RC_FAIL(e); }
    });
    vf::dump();
    return ok ? 0 : 1;
}
