// ByteChooser with a *fair* tail.  dsched::ByteChooser answers 0 once its bytes are used up; when the current
// thread is blocked in a spin loop that means "lowest-numbered runnable thread", and two threads that spin on a lock
// (each failed CAS counts as progress and wakes the other) can then starve the lock holder forever, which dsched
// reports as a step-bound failure although the code under test is live.  Here the tail picks pseudo-randomly
// (deterministic LCG) among the alternatives whenever the current thread cannot continue: fair with probability 1.
#pragma once
#include "dsched.hpp"

struct FairByteChooser : dsched::Chooser {
    const uint8_t *b; size_t n, pos = 0; int sparse; uint64_t rot = 0;
    struct Ev { int k, cur, kind, me; volatile void *addr; }; Ev ring[64]; uint64_t nev = 0;   // last events, for diagnosing step-bound reports
    FairByteChooser(const uint8_t *bytes, size_t len, int sparse_ = 0) : b(bytes), n(len), sparse(sparse_) {}
    int choose(int k, bool cur, int kind, volatile void *addr) override {
        ring[nev++ % 64] = Ev{k, (int)cur, kind, dsched::self(), addr};
        if (pos >= n) {   // tail: keep the current thread while it can run; otherwise a deterministic pseudo-random pick (plain rotation can
            if (cur) return 0;   // fall in step with two threads that spin alternately and never pick the third)
            rot = rot * 6364136223846793005ULL + 1442695040888963407ULL;
            return (int)((rot >> 33) % (uint64_t)k);
        }
        uint8_t v = b[pos++];
        if (sparse < 0) return v < k ? v : 0;
        if (!cur) return v % k;
        if (sparse == 0) return v % k;
        if (v < sparse) return 0;
        return 1 + (v - sparse) % (k - 1);
    }
};
inline void fair_chooser_dump_tail(const FairByteChooser &c, FILE *f) {
    for (uint64_t i = c.nev > 64 ? c.nev - 64 : 0; i < c.nev; i++) {
        const FairByteChooser::Ev &e = c.ring[i % 64];
        fprintf(f, "  ev %llu: thread %d kind %d addr %p alternatives %d current_runnable %d\n", (unsigned long long)i, e.me, e.kind, (void *)e.addr, e.k, e.cur);
    }
}
