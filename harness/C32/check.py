"""C32 -- concurrent hash table: per-key linearizability under owned schedules (dsched) across resizes + stress."""
import os
import subprocess

from vf import core

PROP = "C32"
# smaller ASan quarantine: the cases are tiny, the default 256 MB quarantine only costs page faults (3x wall time)
ASAN = core.SAN_RUN_ENV["ASAN_OPTIONS"] + ":quarantine_size_mb=16"
RULE = ("case = (table config: nb_bits 1..4, max_collisions_hint 1..4 and max_table_nb_bits 6..16 set through the MCA parameters, "
        "key-hash function among identity/constant/low-bit/spread/high-bits with a non-trivial key_equal; sequential prefill; "
        "2..3 thread programs over insert/find/remove/insert-if-absent (lock_bucket+nolock_find+nolock_insert+unlock_bucket, plain and "
        "handle API)/locked removes on 2..12 keys; schedule bytes); one runnable thread at a time, switches at atomic operations and "
        "hooked spin loops; oracle = per-key Wing&Gong linearizability against a register-like map entry, incl. the quiescent for_all "
        "observation, for_all visits each stored item exactly once, no item in an unlinked table, table empty after removing all keys; "
        "non-trivial = at least 2 resizes happened during the history AND a find/remove/insert-if-absent returned an item that was "
        "living in an old (pre-resize) table when the operation was invoked; distinct = distinct (config, programs, schedule) values; "
        "stress = 2..16 free-running threads in barrier-separated rounds, same per-key oracle with global-counter stamps")


def _build():
    return core.build_harness("C32/hashtable", ["harness/C32/hashtable.cc"], tree="san", rapidcheck=True,
                              plain_c_sources=["harness/C32/shim.c"])


def collect(res, wr):
    for f in wr.failures:
        res.violations.append(core.Violation(f["msg"], replay_text=f["replay_text"]))
    for c in wr.crashes:
        if c["rc"] == "timeout":      # a plain timeout is never a violation (rule 5): e.g. a corrupted structure can make un-hooked code spin forever
            res.inconclusive = "worker '%s' exceeded its time limit" % c.get("tag", "")
            continue
        if c["rc"] == 4:
            res.inconclusive = "harness view of the hash-table internals does not match this tree"
            continue
        res.violations.append(core.Violation("harness process died (rc=%s): %s" % (c["rc"], c["log_tail"][-1200:]),
                                             replay_text="# crash of %s\n%s" % (" ".join(c["cmd"]), c["log_tail"][-1500:])))


def run(tier, seed, res):
    b = _build()
    quick = tier == "quick"
    tmo = 900 if quick else 4 * 3600
    res.rule = RULE
    res.assumptions = ["keys are unique at insertion (plain insert only by the key's owner thread when it knows the key is absent; shared keys "
                       "only through the locked find+insert idiom)",
                       "key_hash is a function of the key's equivalence class under key_equal",
                       "for_all only on a quiescent table",
                       "sequential consistency at atomic-operation granularity under dsched; weak-memory effects only via the stress part on x86"]
    n = 16
    pb = 1 if quick else 3
    jobs = [dict(cmd=[b, "exh", str(i), str(n), str(pb)], env={"ASAN_OPTIONS": ASAN}, tag="exh") for i in range(n)]
    wr = core.run_workers(PROP, jobs, timeout=tmo)
    res.absorb(wr, "exhaustive")
    res.coverage["exhaustive"] = not (wr.failures or wr.crashes)
    res.coverage["exhaustive_subspace"] = ("all 512 programs (thread 0: 2 ops, thread 1: 1 op, 8 (op,key) pairs) on a table with 2 buckets, hint 1, constant "
                                           "hash, one resize done and the next one pending, x every schedule with at most %d preemption(s)" % pb)
    collect(res, wr)
    if res.violations:
        return
    per = 1200 if quick else 250000
    jobs = [dict(cmd=[b, "rc"], env={"ASAN_OPTIONS": ASAN, "RC_PARAMS": "seed=%d max_success=%d max_size=100" % (seed * 131 + i, per)}, tag="rc") for i in range(n)]
    wr = core.run_workers(PROP, jobs, timeout=tmo)
    res.absorb(wr, "rc")
    collect(res, wr)
    if res.violations:
        return
    mult = 1 if quick else 100
    jobs = [dict(cmd=[b, "stress", str(t), str(r * mult), str(seed * 17 + t)], env={"ASAN_OPTIONS": ASAN}, tag="stress") for t, r in ((2, 1500), (4, 800), (8, 400), (16, 300))]
    wr = core.run_workers(PROP, jobs, timeout=tmo, max_parallel=1)
    res.absorb(wr, "stress")
    collect(res, wr)
    if res.violations:
        return


def replay(path):
    b = _build()
    env = dict(os.environ)
    env.update(core.SAN_RUN_ENV)
    p = subprocess.run([b, "replay", path], env=env, stdout=subprocess.PIPE, stderr=subprocess.STDOUT, text=True)
    return p.returncode == 0 and "REPLAY-PASS" in p.stdout, p.stdout[-2000:]
