// C27 -- Arenas and memory pools never hand out a block twice.
//
// case = (arena config: elem_size, alignment, max_used / max_cached in elements or unlimited; mempool config: payload size, with/without
//         object class; 1..3 thread programs over arena get_new_copy(count 1..3) / release (own or another thread's block) and
//         thread-mempool allocate / free (owner or foreign thread, both free entry points); schedule bytes).
// threads == 1: exact sequential model after every operation.   threads >= 2: run under dsched, concurrent-safe oracle.
// oracle: every live block carries a harness tag over its whole usable size (verified at release; ASan catches overruns and
//         use-after-free), blocks are aligned as requested, no two live blocks overlap / no block is handed out while live;
//         an allocation is refused iff the limit would be exceeded (concurrently: only if it could have been exceeded by the
//         operations in flight), live+cached never exceeds max_used, the cache never holds more than max_released chunks.
// modes: rc | stress T iters seed | replay <file>
#include <algorithm>
#include <atomic>
#include <mutex>
#include <set>
#include <thread>
#include "vf.hpp"
#include "dsched.hpp"
#include "fair_chooser.hpp"
#include <rapidcheck.h>

extern "C" {
struct parsec_arena_s; typedef struct parsec_arena_s parsec_arena_t; struct parsec_data_copy_s; typedef struct parsec_data_copy_s parsec_data_copy_t;
struct parsec_mempool_s; typedef struct parsec_mempool_s parsec_mempool_t;
int shim_init(int *argc, char ***argv); void shim_fini(void);
parsec_arena_t *shim_arena_new(size_t elem_size, size_t alignment, long max_used_elems, long max_cached_elems, int *rc); void shim_arena_free(parsec_arena_t *);
int shim_arena_used(parsec_arena_t *); int shim_arena_released(parsec_arena_t *); int shim_arena_max_used(parsec_arena_t *); int shim_arena_max_released(parsec_arena_t *);
int shim_arena_cached_len(parsec_arena_t *);
parsec_data_copy_t *shim_arena_get(parsec_arena_t *, size_t count); void *shim_copy_ptr(parsec_data_copy_t *); void *shim_copy_chunk(parsec_data_copy_t *);
int shim_copy_ok(parsec_data_copy_t *, parsec_arena_t *, size_t count); void shim_arena_release(parsec_data_copy_t *);
parsec_mempool_t *shim_mp_new(size_t payload, int with_class, unsigned nthreads); unsigned long shim_mp_free_pool(parsec_mempool_t *);
size_t shim_mp_elt_size(parsec_mempool_t *); size_t shim_mp_payload_off(void);
void *shim_mp_alloc(parsec_mempool_t *, unsigned t); void shim_mp_free(parsec_mempool_t *, void *); void shim_mp_thread_free(parsec_mempool_t *, unsigned t, void *);
int shim_mp_owner(parsec_mempool_t *, void *); unsigned shim_mp_nb_elt(parsec_mempool_t *, unsigned t); int shim_mp_pool_len(parsec_mempool_t *, unsigned t);
size_t shim_mp_alignment(parsec_mempool_t *);
}

// Known finding O6 (arena.c, parsec_arena_release_chunk): `released < max_released` is tested and `released` incremented separately, so two
// concurrent releases can both cache their chunk and exceed the cache limit.  Unless C27_KNOWN_CACHE_RACE=include, concurrent single-element
// releases into an arena with a finite non-zero cache limit are serialised by a harness lock (excluded by construction, counted); replays never exclude.
static bool g_include_cache_race = false;

enum { A_ALLOC = 0, A_RELEASE = 1, A_RELEASE_FOREIGN = 2, M_ALLOC = 3, M_FREE = 4, M_FREE_FOREIGN = 5, NOPS = 6 };
static const char *opname[] = {"arena_alloc", "arena_release", "arena_release_foreign", "mp_alloc", "mp_free", "mp_free_foreign"};
struct Op { int kind, a, b; };
struct Case {
    int elem = 64, align_log2 = 3; long max_used = -1, max_cached = -1; int mp_payload = 16, mp_class = 1, sparse = 0;
    std::vector<std::vector<Op>> prog; std::vector<uint8_t> sched;
    std::string repr() const {
        std::ostringstream o; o << "C27 elem " << elem << " align_log2 " << align_log2 << " max_used " << max_used << " max_cached " << max_cached << " mp_payload " << mp_payload
                                 << " mp_class " << mp_class << " sparse " << sparse << " threads " << prog.size() << "\n";
        for (auto &p : prog) { o << "prog"; for (auto &x : p) o << " " << x.kind << " " << x.a << " " << x.b; o << "\n"; }
        o << "sched"; for (uint8_t b : sched) o << " " << (int)b; o << "\n"; return o.str();
    }
    static Case parse(const std::string &s) {
        Case c; std::istringstream in(s); std::string line;
        while (std::getline(in, line)) {
            std::istringstream ls(line); std::string w; ls >> w;
            if (w == "C27") { std::string k; long v; while (ls >> k >> v) { if (k == "elem") c.elem = (int)v; else if (k == "align_log2") c.align_log2 = (int)v; else if (k == "max_used") c.max_used = v;
                else if (k == "max_cached") c.max_cached = v; else if (k == "mp_payload") c.mp_payload = (int)v; else if (k == "mp_class") c.mp_class = (int)v; else if (k == "sparse") c.sparse = (int)v; } }
            else if (w == "prog") { std::vector<Op> p; Op x; while (ls >> x.kind >> x.a >> x.b) p.push_back(x); c.prog.push_back(p); }
            else if (w == "sched") { int x; while (ls >> x) c.sched.push_back((uint8_t)x); }
        }
        return c;
    }
};
struct Info { bool limit_refusal = false, cache_full_free = false, overlap = false, nontrivial = false, ambiguous = false, recycled = false, mp_foreign = false, mp_reuse = false; int serialized = 0; uint64_t steps = 0; };

struct Block { parsec_data_copy_t *copy; unsigned char *ptr; size_t bytes; int count; unsigned char tag; };
struct Elt { unsigned char *ptr; unsigned char tag; };

static bool tag_ok(const unsigned char *p, size_t n, unsigned char t) { for (size_t i = 0; i < n; i++) if (p[i] != t) return false; return true; }

static std::string run_case(const Case &c, dsched::Chooser &ch, Info *ri) {
    int T = (int)c.prog.size(); bool seq = T == 1; int npools = seq ? 3 : T;
    size_t align = (size_t)1 << c.align_log2; int rc = 0;
    parsec_arena_t *ar = shim_arena_new((size_t)c.elem, align, c.max_used, c.max_cached, &rc);
    if (!ar) return "parsec_arena_construct_ex refused a valid configuration (rc " + std::to_string(rc) + ")";
    const int maxu = shim_arena_max_used(ar), maxr = shim_arena_max_released(ar);
    const bool fin_u = maxu != INT32_MAX, fin_r = maxr != INT32_MAX;
    parsec_mempool_t *mp = shim_mp_new((size_t)c.mp_payload, c.mp_class, (unsigned)npools);
    const size_t poff = shim_mp_payload_off(), esz = shim_mp_elt_size(mp), malign = shim_mp_alignment(mp);
    std::vector<std::vector<Block>> alive(T); std::vector<std::vector<Elt>> mlive(npools);
    std::vector<std::set<unsigned char *>> pooled(npools);      // sequential model of each pool's free list
    std::set<unsigned char *> live_elts;
    std::string err; unsigned serial = 0;
    long live_elems = 0, inflight_alloc = 0, inflight_rel = 0; uint64_t alloc_starts = 0;
    struct Fly { bool on = false; long count = 0, maxpot = 0; }; std::vector<Fly> fly(T);
    bool relock = false;
    std::vector<std::pair<uint64_t, uint64_t>> spans[3];        // arena op intervals per thread (for the overlap label)
    auto boundary = [&]() { long pot = live_elems + inflight_alloc + inflight_rel + shim_arena_cached_len(ar); for (auto &f : fly) if (f.on) f.maxpot = std::max(f.maxpot, pot - f.count); };
    auto quiescent = [&](const char *when) -> bool {
        int cl = shim_arena_cached_len(ar);
        if (fin_r && cl > maxr) { err = std::string(when) + ": the arena caches " + std::to_string(cl) + " released chunks, its limit is " + std::to_string(maxr); return false; }
        if (fin_r && shim_arena_released(ar) != cl) { err = std::string(when) + ": arena->released is " + std::to_string(shim_arena_released(ar)) + " but " + std::to_string(cl) + " chunks are cached"; return false; }
        if (fin_u && maxu != 0 && shim_arena_used(ar) != live_elems + cl) { err = std::string(when) + ": arena->used is " + std::to_string(shim_arena_used(ar)) + " but live+cached elements are " + std::to_string(live_elems + cl); return false; }
        if (fin_u && live_elems + cl > maxu) { err = std::string(when) + ": live+cached elements " + std::to_string(live_elems + cl) + " exceed max_used " + std::to_string(maxu); return false; }
        for (int p = 0; p < npools; p++) if ((long)shim_mp_pool_len(mp, p) + (long)mlive[p].size() != (long)shim_mp_nb_elt(mp, p)) {
            err = std::string(when) + ": thread mempool " + std::to_string(p) + " created " + std::to_string(shim_mp_nb_elt(mp, p)) + " elements but holds " + std::to_string(shim_mp_pool_len(mp, p)) + " free + " + std::to_string(mlive[p].size()) + " live of its own"; return false; }
        return true;
    };
    auto do_arena_alloc = [&](int t, int count) {
        Fly &f = fly[t]; uint64_t my_start = ++alloc_starts; long others_inflight_alloc = inflight_alloc; int cached0 = shim_arena_cached_len(ar); long live0 = live_elems;
        f.on = true; f.count = count; f.maxpot = 0; inflight_alloc += count; boundary();
        uint64_t inv = dsched::now();
        parsec_data_copy_t *cp = shim_arena_get(ar, (size_t)count);
        uint64_t resp = dsched::now() + 1; if (!seq) spans[t].push_back({inv, resp});
        boundary(); inflight_alloc -= count; f.on = false;
        bool alone = others_inflight_alloc == 0 && alloc_starts == my_start;
        if (!cp) {
            if (!fin_u) { err = "allocation of " + std::to_string(count) + " element(s) failed although the arena has no allocation limit"; return; }
            bool justified = f.maxpot + count > maxu;
            if (alone && count == 1 && cached0 > 0 && inflight_rel == 0) justified = false;      // a cached chunk was there for the taking
            if (seq && count > 1 && live0 + count <= maxu && justified) { ri->ambiguous = true; vf::label("refused_only_because_of_cached_chunks_count>1"); }
            if (!justified) { err = "allocation of " + std::to_string(count) + " element(s) refused although live+cached+in-flight elements were at most " + std::to_string(f.maxpot) + " of max_used " + std::to_string(maxu) + " (cached " + std::to_string(cached0) + ")"; return; }
            ri->limit_refusal = true; return;
        }
        int ok = shim_copy_ok(cp, ar, (size_t)count);
        if (ok) { err = "data copy returned by parsec_arena_get_new_copy is inconsistent (code " + std::to_string(ok) + ")"; return; }
        unsigned char *p = (unsigned char *)shim_copy_ptr(cp); size_t bytes = (size_t)c.elem * count;
        if ((uintptr_t)p % align) { err = "block " + std::to_string((uintptr_t)p) + " is not aligned to " + std::to_string(align); return; }
        for (auto &v : alive) for (auto &b : v) if (p < b.ptr + b.bytes && b.ptr < p + bytes) { err = "new block overlaps a block that is still live (handed out twice)"; return; }
        if (seq && count == 1 && cached0 > 0) ri->recycled = true;
        Block b{cp, p, bytes, count, (unsigned char)(++serial * 37 + 11)};
        memset(p, b.tag, bytes);                      // whole usable size; ASan flags any overrun of the underlying allocation
        alive[t].push_back(b); live_elems += count;
        if (fin_u && live_elems + shim_arena_cached_len(ar) > maxu) { err = "after a successful allocation live+cached elements are " + std::to_string(live_elems + shim_arena_cached_len(ar)) + " > max_used " + std::to_string(maxu); return; }
        if (seq && fin_u && f.maxpot + count > maxu && !(count == 1 && cached0 > 0)) { err = "allocation of " + std::to_string(count) + " element(s) succeeded beyond the limit"; return; }
    };
    auto do_arena_release = [&](int t, int from, size_t idx) {
        Block b = alive[from][idx]; alive[from].erase(alive[from].begin() + idx);
        if (!tag_ok(b.ptr, b.bytes, b.tag)) { err = "a live block was overwritten by somebody else (ownership tag damaged)"; return; }
        bool serialize = !seq && !g_include_cache_race && b.count == 1 && fin_r && maxr > 0;
        if (serialize) { while (relock) dsched::spin_point(); relock = true; ri->serialized++; }
        int cached0 = shim_arena_cached_len(ar);
        live_elems -= b.count; inflight_rel += b.count; boundary();
        uint64_t inv = dsched::now();
        shim_arena_release(b.copy);
        uint64_t resp = dsched::now() + 1; if (!seq) spans[t].push_back({inv, resp});
        boundary(); inflight_rel -= b.count;
        if (serialize) relock = false;
        if (seq) {
            int c1 = shim_arena_cached_len(ar);
            if (c1 != cached0 && c1 != cached0 + 1) { err = "a release changed the number of cached chunks from " + std::to_string(cached0) + " to " + std::to_string(c1); return; }
            if (c1 == cached0 + 1 && b.count != 1) { err = "a multi-element chunk was put in the single-element cache"; return; }
            if (c1 == cached0 && b.count == 1 && fin_r && cached0 >= maxr) ri->cache_full_free = true;
            if (c1 == cached0 && b.count == 1 && cached0 < maxr) vf::label("freed_although_cache_had_room");
        }
    };
    auto do_mp_alloc = [&](int p) {
        unsigned n0 = shim_mp_nb_elt(mp, p); bool had = !pooled[p].empty();
        unsigned char *e = (unsigned char *)shim_mp_alloc(mp, (unsigned)p);
        if (!e) { err = "thread mempool allocation returned NULL"; return; }
        if (live_elts.count(e)) { err = "thread mempool handed out an element that is still live"; return; }
        if ((uintptr_t)e % malign) { err = "mempool element not aligned to the LIFO alignment " + std::to_string(malign); return; }
        if (shim_mp_owner(mp, e) != p) { err = "element allocated from thread mempool " + std::to_string(p) + " names mempool " + std::to_string(shim_mp_owner(mp, e)) + " as its owner"; return; }
        if (seq) {
            unsigned n1 = shim_mp_nb_elt(mp, p);
            if (had) { if (!pooled[p].count(e) || n1 != n0) { err = "thread mempool " + std::to_string(p) + " had free elements but allocated a new one (or one of another pool)"; return; } pooled[p].erase(e); ri->mp_reuse = true; }
            else { if (n1 != n0 + 1) { err = "empty thread mempool: nb_elt did not grow by one"; return; } for (auto &s : pooled) if (s.count(e)) { err = "empty thread mempool returned an element that sits in another pool"; return; } }
        }
        Elt x{e, (unsigned char)(++serial * 29 + 5)}; memset(e + poff, x.tag, esz - poff);
        mlive[p].push_back(x); live_elts.insert(e);
    };
    auto do_mp_free = [&](int from, size_t idx, int api, bool foreign) {
        Elt x = mlive[from][idx]; mlive[from].erase(mlive[from].begin() + idx); live_elts.erase(x.ptr);
        if (!tag_ok(x.ptr + poff, esz - poff, x.tag)) { err = "a live mempool element was overwritten by somebody else"; return; }
        if (shim_mp_owner(mp, x.ptr) != from) { err = "owner back-pointer of a mempool element changed while it was live"; return; }
        if (seq) pooled[from].insert(x.ptr);
        if (foreign) ri->mp_foreign = true;
        if (api & 1) shim_mp_thread_free(mp, (unsigned)from, x.ptr); else shim_mp_free(mp, x.ptr);
    };
    std::vector<std::function<void()>> bodies;
    for (int t = 0; t < T; t++) bodies.push_back([&, t]() {
        for (const Op &o0 : c.prog[t]) {
            if (!err.empty()) return;
            int kind = ((o0.kind % NOPS) + NOPS) % NOPS, a = std::abs(o0.a), b = std::abs(o0.b);
            int p = seq ? a % 3 : t;
            switch (kind) {
            case A_ALLOC: { int m = a % 5; do_arena_alloc(t, m < 3 ? 1 : m - 1); break; }
            case A_RELEASE: if (!alive[t].empty()) do_arena_release(t, t, (size_t)b % alive[t].size()); break;
            case A_RELEASE_FOREIGN: { int from = seq ? 0 : (t + 1 + a % (T - 1)) % T; if (!alive[from].empty()) do_arena_release(t, from, (size_t)b % alive[from].size()); break; }
            case M_ALLOC: do_mp_alloc(p); break;
            case M_FREE: if (!mlive[p].empty()) do_mp_free(p, (size_t)b % mlive[p].size(), a / 3, false); break;
            case M_FREE_FOREIGN: { int from = (p + 1 + b % (npools - 1)) % npools; if (!mlive[from].empty()) do_mp_free(from, (size_t)(b / 7) % mlive[from].size(), 0, true); break; }
            }
            if (seq && err.empty()) quiescent(opname[kind]);
        }
    });
    if (seq) bodies[0](); else { dsched::Outcome out = dsched::run(bodies, ch, 400000); ri->steps = out.steps; }
    if (!seq) for (int i = 0; i < T && !ri->overlap; i++) for (int j = i + 1; j < T && !ri->overlap; j++) for (auto &x : spans[i]) for (auto &y : spans[j]) if (x.first < y.second && y.first < x.second) { ri->overlap = true; break; }
    if (err.empty()) quiescent("at quiescence");
    // give everything back sequentially, then the structures must be consistent and destructible
    for (int t = 0; t < T && err.empty(); t++) while (!alive[t].empty() && err.empty()) { bool s0 = seq; (void)s0; Block b = alive[t].back(); alive[t].pop_back(); if (!tag_ok(b.ptr, b.bytes, b.tag)) { err = "a live block was overwritten (final check)"; break; } live_elems -= b.count; shim_arena_release(b.copy); }
    for (int p = 0; p < npools && err.empty(); p++) while (!mlive[p].empty() && err.empty()) { Elt x = mlive[p].back(); mlive[p].pop_back(); if (!tag_ok(x.ptr + poff, esz - poff, x.tag)) { err = "a live mempool element was overwritten (final check)"; break; } shim_mp_free(mp, x.ptr); }
    if (err.empty()) quiescent("after releasing everything");
    unsigned long created = 0; for (int p = 0; p < npools; p++) created += shim_mp_nb_elt(mp, p);
    if (err.empty()) {
        unsigned long u = shim_mp_free_pool(mp);
        if (u != created) err = "parsec_mempool_destruct reports " + std::to_string(u) + " elements, the thread mempools created " + std::to_string(created);
        shim_arena_free(ar);
    }
    ri->nontrivial = ri->limit_refusal || ri->cache_full_free || ri->overlap;
    return err;
}

static std::string g_current;
static void fatal_hook(const char *what) { vf::record_failure(g_current, what); vf::dump(); }

// ------------------------------------------------------------------ stress
static int do_stress(int T, long iters, unsigned seed) {
    std::string e; std::string repr = "C27-stress threads " + std::to_string(T) + " iters " + std::to_string(iters) + " seed " + std::to_string(seed) + "\n";
    uint64_t refusals = 0, total = 0;
    for (int cfg = 0; cfg < 3 && e.empty(); cfg++) {
        size_t elem = cfg == 0 ? 24 : cfg == 1 ? 200 : 1000, align = cfg == 0 ? 8 : cfg == 1 ? 64 : 256; long mu = cfg == 0 ? -1 : cfg == 1 ? 3 * T : T + 2, mc = cfg == 0 ? -1 : cfg == 1 ? 2 : 4; int rc;
        parsec_arena_t *ar = shim_arena_new(elem, align, mu, mc, &rc); parsec_mempool_t *mp = shim_mp_new(40 + cfg * 30, cfg & 1, (unsigned)T);
        size_t poff = shim_mp_payload_off(), esz = shim_mp_elt_size(mp);
        std::atomic<int> bad{0}; std::atomic<long> live{0}; std::atomic<uint64_t> refused{0};
        std::mutex relmu; bool serialize = !g_include_cache_race && mc > 0;
        struct Box { std::mutex m; std::vector<Block> blocks; std::vector<Elt> elts; }; std::vector<Box> box(T);
        std::vector<std::thread> th;
        for (int t = 0; t < T; t++) th.emplace_back([&, t]() {
            uint64_t x = seed * 7919u + t * 104729u + 1 + cfg; std::vector<Block> mine; std::vector<Elt> elts; unsigned serial = t * 1000003u;
            auto rel = [&](Block b) { if (!tag_ok(b.ptr, b.bytes, b.tag)) bad++; live -= b.count; if (serialize && b.count == 1) { std::lock_guard<std::mutex> g(relmu); shim_arena_release(b.copy); } else shim_arena_release(b.copy); };
            for (long i = 0; i < iters; i++) {
                x = x * 6364136223846793005ULL + 1442695040888963407ULL; int op = (x >> 33) % 10, v = (x >> 40) & 0xffff;
                if (op <= 2) { int count = (v % 5) < 3 ? 1 : (v % 5) - 1; parsec_data_copy_t *cp = shim_arena_get(ar, (size_t)count);
                    if (!cp) { refused++; if (mu < 0) bad++; continue; }
                    unsigned char *p = (unsigned char *)shim_copy_ptr(cp); if ((uintptr_t)p % align || shim_copy_ok(cp, ar, (size_t)count)) bad++;
                    Block b{cp, p, elem * count, count, (unsigned char)(++serial * 37 + 11)}; memset(p, b.tag, b.bytes); mine.push_back(b);
                    long l = (live += count); if (mu >= 0 && l > mu) bad++; }
                else if (op <= 4) { if (!mine.empty()) { size_t k = v % mine.size(); Block b = mine[k]; mine.erase(mine.begin() + k); rel(b); } }
                else if (op == 5) { if (!mine.empty()) { Block b = mine.back(); mine.pop_back(); Box &bx = box[(t + 1 + v % std::max(1, T - 1)) % T]; std::lock_guard<std::mutex> g(bx.m); bx.blocks.push_back(b); } }
                else if (op == 6) { std::vector<Block> got; std::vector<Elt> ge; { std::lock_guard<std::mutex> g(box[t].m); got.swap(box[t].blocks); ge.swap(box[t].elts); } for (auto &b : got) rel(b);
                    for (auto &el : ge) { if (!tag_ok(el.ptr + poff, esz - poff, el.tag)) bad++; shim_mp_free(mp, el.ptr); } }
                else if (op == 7) { unsigned char *el = (unsigned char *)shim_mp_alloc(mp, (unsigned)t); if (!el || shim_mp_owner(mp, el) != t) { bad++; continue; } Elt q{el, (unsigned char)(++serial * 29 + 5)}; memset(el + poff, q.tag, esz - poff); elts.push_back(q); }
                else if (op == 8) { if (!elts.empty()) { size_t k = v % elts.size(); Elt q = elts[k]; elts.erase(elts.begin() + k); if (!tag_ok(q.ptr + poff, esz - poff, q.tag)) bad++; if (v & 1) shim_mp_thread_free(mp, (unsigned)t, q.ptr); else shim_mp_free(mp, q.ptr); } }
                else { if (!elts.empty()) { Elt q = elts.back(); elts.pop_back(); Box &bx = box[(t + 1 + v % std::max(1, T - 1)) % T]; std::lock_guard<std::mutex> g(bx.m); bx.elts.push_back(q); } }
            }
            for (auto &b : mine) rel(b);
            for (auto &q : elts) { if (!tag_ok(q.ptr + poff, esz - poff, q.tag)) bad++; shim_mp_free(mp, q.ptr); }
        });
        for (auto &t : th) t.join();
        for (auto &bx : box) { for (auto &b : bx.blocks) { if (!tag_ok(b.ptr, b.bytes, b.tag)) bad++; live -= b.count; shim_arena_release(b.copy); } for (auto &q : bx.elts) shim_mp_free(mp, q.ptr); }
        int cl = shim_arena_cached_len(ar), mr = shim_arena_max_released(ar), mxu = shim_arena_max_used(ar);
        if (bad) e = "ownership / alignment / limit violation observed " + std::to_string(bad.load()) + " time(s) under stress (config " + std::to_string(cfg) + ")";
        else if (live.load() != 0) e = "harness accounting error";
        else if (mr != INT32_MAX && cl > mr) e = "after stress the arena caches " + std::to_string(cl) + " chunks, limit " + std::to_string(mr);
        else if (mr != INT32_MAX && shim_arena_released(ar) != cl) e = "after stress arena->released is " + std::to_string(shim_arena_released(ar)) + " but " + std::to_string(cl) + " chunks are cached";
        else if (mxu != INT32_MAX && mxu != 0 && shim_arena_used(ar) != cl) e = "after stress arena->used is " + std::to_string(shim_arena_used(ar)) + " with nothing live and " + std::to_string(cl) + " cached";
        for (int p = 0; p < T && e.empty(); p++) if (shim_mp_pool_len(mp, p) != (int)shim_mp_nb_elt(mp, p)) e = "after stress thread mempool " + std::to_string(p) + " holds " + std::to_string(shim_mp_pool_len(mp, p)) + " of the " + std::to_string(shim_mp_nb_elt(mp, p)) + " elements it created";
        refusals += refused; total += (uint64_t)iters * T;
        if (e.empty()) { shim_mp_free_pool(mp); shim_arena_free(ar); }
    }
    vf::note_case(repr, T >= 2 && refusals > 0);
    vf::label("stress_ops", total); vf::label("stress_limit_refusals", refusals);
    if (!e.empty()) { vf::record_failure(repr, e); vf::dump(); return 1; }
    vf::dump(); return 0;
}

static int finish(int rc) { vf::dump(); fflush(nullptr); _exit(rc); }   // skip parsec_fini/MPI_Finalize: nothing to flush, and exit handlers of the MPI runtime are slow under ASan

int main(int argc, char **argv) {
    std::string mode = argc > 1 ? argv[1] : "rc";
    dsched::on_fatal() = fatal_hook;
    { const char *e = getenv("C27_KNOWN_CACHE_RACE"); g_include_cache_race = !(e && std::string(e) == "exclude") || mode == "replay"; }   // repaired in /repo (ea095bc): included by default
    if (shim_init(&argc, &argv) != 0) { fprintf(stderr, "parsec_init failed\n"); return 4; }
    if (mode == "replay") {
        std::string txt = vf::slurp(argv[2]);
        if (txt.rfind("C27-stress", 0) == 0) { int T; long it; unsigned sd; sscanf(txt.c_str(), "C27-stress threads %d iters %ld seed %u", &T, &it, &sd); int r = 0; for (int k = 0; k < 3 && !r; k++) r = do_stress(T, it, sd); printf(r ? "REPLAY-FAIL stress\n" : "REPLAY-PASS\n"); fflush(nullptr); _exit(r); }
        Case c = Case::parse(txt); g_current = c.repr(); FairByteChooser ch(c.sched.data(), c.sched.size(), c.sparse); Info ri; std::string e = run_case(c, ch, &ri);
        if (e.empty()) printf("REPLAY-PASS\n"); else printf("REPLAY-FAIL %s\n", e.c_str());
        fflush(nullptr); _exit(e.empty() ? 0 : 1);
    }
    if (mode == "stress") { int r = do_stress(atoi(argv[2]), atol(argv[3]), (unsigned)atoi(argv[4])); fflush(nullptr); _exit(r); }
    int wantT = argc > 2 ? atoi(argv[2]) : 0;     // rc 1 = sequential cases only, rc 2 = concurrent only, rc 0 = mixed
    bool ok = rc::check("arena and thread-mempool histories keep ownership, alignment and limits", [wantT]() {
        Case c; int T = wantT == 1 ? 1 : wantT == 2 ? *rc::gen::resize(100, rc::gen::inRange(2, 4)) : *rc::gen::resize(100, rc::gen::inRange(1, 4));
        c.elem = *rc::gen::resize(100, rc::gen::oneOf(rc::gen::inRange(1, 65), rc::gen::inRange(1, 4097), rc::gen::element(8, 64, 4096, 1, 24)));
        c.align_log2 = *rc::gen::resize(100, rc::gen::inRange(1, 9));
        c.max_used = *rc::gen::resize(100, rc::gen::oneOf(rc::gen::inRange(0L, 9L), rc::gen::just(-1L), rc::gen::inRange(2L, 6L)));
        c.max_cached = *rc::gen::resize(100, rc::gen::oneOf(rc::gen::inRange(0L, 9L), rc::gen::just(-1L), rc::gen::inRange(1L, 4L)));
        c.mp_payload = *rc::gen::resize(100, rc::gen::inRange(0, 201)); c.mp_class = *rc::gen::resize(100, rc::gen::inRange(0, 2));
        c.sparse = *rc::gen::resize(100, rc::gen::element(0, 0, 128, 200, 240));
        c.prog.resize(T);
        for (int t = 0; t < T; t++) { int n = T == 1 ? *rc::gen::inRange(1, 50) : *rc::gen::inRange(1, 12);
            for (int i = 0; i < n; i++) c.prog[t].push_back({*rc::gen::resize(100, rc::gen::element(0, 0, 0, 0, 1, 1, 1, 2, 3, 3, 4, 5)), *rc::gen::resize(100, rc::gen::inRange(0, 1000)), *rc::gen::resize(100, rc::gen::inRange(0, 1000))}); }
        int sl = T == 1 ? 0 : *rc::gen::inRange(0, 160);
        c.sched = *rc::gen::container<std::vector<uint8_t>>((size_t)sl, rc::gen::resize(100, rc::gen::arbitrary<uint8_t>()));
        g_current = c.repr(); FairByteChooser ch(c.sched.data(), c.sched.size(), c.sparse); Info ri; std::string e = run_case(c, ch, &ri);
        vf::note_case(g_current, ri.nontrivial);
        vf::label("threads_" + std::to_string(T));
        if (ri.limit_refusal) vf::label("allocation_refused_at_limit"); if (ri.cache_full_free) vf::label("release_freed_because_cache_full"); if (ri.recycled) vf::label("allocation_served_from_cache");
        if (ri.overlap) vf::label("overlapping_arena_ops"); if (ri.mp_foreign) vf::label("mempool_foreign_free"); if (ri.mp_reuse) vf::label("mempool_reuse");
        if (ri.serialized) vf::label("excluded_known_cache_limit_race_serialized_releases", ri.serialized);
        if (!e.empty()) { vf::record_failure(g_current, e); RC_FAIL(e); }
    });
    return finish(ok ? 0 : 1);
}
