/* C shim for C27: arenas (through the data-copy API the runtime's callers use) and thread mempools
 * (inline allocate/free compiled here with BUILDING_PARSEC so the yield hooks are in this TU). */
#include "parsec/parsec_config.h"
#include "parsec/runtime.h"
#include "parsec/arena.h"
#include "parsec/mempool.h"
#include "parsec/data_internal.h"
#include "parsec/class/lifo.h"
#include "parsec/datatype.h"
#include <mpi.h>
#include <limits.h>
#include <stdlib.h>
#include <string.h>

static parsec_context_t *ctx = NULL;

int shim_init(int *argc, char ***argv)
{
    int prov;
    MPI_Init_thread(argc, argv, MPI_THREAD_MULTIPLE, &prov);
    ctx = parsec_init(1, argc, argv);
    return ctx ? 0 : -1;
}
void shim_fini(void) { if (ctx) parsec_fini(&ctx); MPI_Finalize(); }

/* ------------------------------------------------------------------ arenas */
parsec_arena_t *shim_arena_new(size_t elem_size, size_t alignment, long max_used_elems, long max_cached_elems, int *rc)
{
    parsec_arena_t *a = PARSEC_OBJ_NEW(parsec_arena_t);
    size_t mu = max_used_elems < 0 ? SIZE_MAX : (size_t)max_used_elems * elem_size;
    size_t mc = max_cached_elems < 0 ? SIZE_MAX : (size_t)max_cached_elems * elem_size;
    *rc = parsec_arena_construct_ex(a, elem_size, alignment, mu, mc);
    if (PARSEC_SUCCESS != *rc) { PARSEC_OBJ_RELEASE(a); return NULL; }
    return a;
}
void shim_arena_free(parsec_arena_t *a) { PARSEC_OBJ_RELEASE(a); }
int shim_arena_used(parsec_arena_t *a) { return a->used; }
int shim_arena_released(parsec_arena_t *a) { return a->released; }
int shim_arena_max_used(parsec_arena_t *a) { return a->max_used; }
int shim_arena_max_released(parsec_arena_t *a) { return a->max_released; }
int shim_arena_cached_len(parsec_arena_t *a)
{
    int n = 0; parsec_lifo_t *l = &a->area_lifo;
    for (parsec_list_item_t *it = (parsec_list_item_t *)l->lifo_head.data.item; NULL != it; it = (parsec_list_item_t *)it->list_next) if (++n > 1000000) break;
    return n;
}
parsec_data_copy_t *shim_arena_get(parsec_arena_t *a, size_t count) { return parsec_arena_get_new_copy(a, count, 0, parsec_datatype_int8_t); }
void *shim_copy_ptr(parsec_data_copy_t *c) { return c->device_private; }
void *shim_copy_chunk(parsec_data_copy_t *c) { return c->arena_chunk; }
int shim_copy_ok(parsec_data_copy_t *c, parsec_arena_t *a, size_t count)
{
    struct parsec_arena_chunk_s *ch = c->arena_chunk;
    if (NULL == ch) return 1;
    if (ch->origin != a) return 2;
    if (ch->count != count) return 3;
    if (ch->data != c->device_private) return 4;
    if (!(c->flags & PARSEC_DATA_FLAG_ARENA)) return 5;
    if (NULL == c->original || c->original->span != count * a->elem_size) return 6;
    return 0;
}
/* the user owns the data_t of a device-0 copy obtained from parsec_arena_get_new_copy (see the comment there): release both */
void shim_arena_release(parsec_data_copy_t *c)
{
    parsec_data_t *d = c->original;
    PARSEC_DATA_COPY_RELEASE(c);
    if (NULL != d) PARSEC_OBJ_RELEASE(d);
}

/* ------------------------------------------------------------------ thread mempools */
typedef struct { parsec_list_item_t super; parsec_thread_mempool_t *owner; unsigned char payload[]; } mp_elt_t;
PARSEC_OBJ_CLASS_DECLARATION(mp_elt_t);
static void mp_elt_construct(mp_elt_t *e) { (void)e; }
PARSEC_OBJ_CLASS_INSTANCE(mp_elt_t, parsec_list_item_t, mp_elt_construct, NULL);

parsec_mempool_t *shim_mp_new(size_t payload, int with_class, unsigned nthreads)
{
    parsec_mempool_t *mp = (parsec_mempool_t *)calloc(1, sizeof(parsec_mempool_t));
    parsec_mempool_construct(mp, with_class ? PARSEC_OBJ_CLASS(mp_elt_t) : NULL, sizeof(mp_elt_t) + payload, offsetof(mp_elt_t, owner), nthreads);
    return mp;
}
unsigned long shim_mp_free_pool(parsec_mempool_t *mp) { unsigned long u = (unsigned long)parsec_mempool_destruct(mp); free(mp); return u; }
size_t shim_mp_elt_size(parsec_mempool_t *mp) { return mp->elt_size; }
size_t shim_mp_payload_off(void) { return offsetof(mp_elt_t, payload); }
void *shim_mp_alloc(parsec_mempool_t *mp, unsigned t) { return parsec_thread_mempool_allocate(&mp->thread_mempools[t]); }
void shim_mp_free(parsec_mempool_t *mp, void *elt) { parsec_mempool_free(mp, elt); }
void shim_mp_thread_free(parsec_mempool_t *mp, unsigned t, void *elt) { parsec_thread_mempool_free(&mp->thread_mempools[t], elt); }
int shim_mp_owner(parsec_mempool_t *mp, void *elt)
{
    parsec_thread_mempool_t *o = ((mp_elt_t *)elt)->owner;
    for (unsigned i = 0; i < mp->nb_thread_mempools; i++) if (o == &mp->thread_mempools[i]) return (int)i;
    return -1;
}
unsigned shim_mp_nb_elt(parsec_mempool_t *mp, unsigned t) { return mp->thread_mempools[t].nb_elt; }
int shim_mp_pool_len(parsec_mempool_t *mp, unsigned t)
{
    int n = 0; parsec_lifo_t *l = &mp->thread_mempools[t].mempool;
    for (parsec_list_item_t *it = (parsec_list_item_t *)l->lifo_head.data.item; NULL != it; it = (parsec_list_item_t *)it->list_next) if (++n > 1000000) break;
    return n;
}
size_t shim_mp_alignment(parsec_mempool_t *mp) { return PARSEC_LIFO_ALIGNMENT(&mp->thread_mempools[0].mempool); }
