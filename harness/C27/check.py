"""C27 -- arenas and thread mempools: sequential model-based histories + dsched concurrent histories + stress."""
import os
import subprocess

from vf import core

PROP = "C27"
# smaller ASan quarantine: the cases are tiny, the default 256 MB quarantine only costs page faults (3x wall time)
ASAN = core.SAN_RUN_ENV["ASAN_OPTIONS"] + ":quarantine_size_mb=16"
RULE = ("case = (arena: elem_size 1..4096, alignment 2^1..2^8, max_used / max_cached 0..8 elements or unlimited; mempool: payload 0..200 bytes, with / "
        "without object class; 1..3 thread programs of parsec_arena_get_new_copy(count 1..3) / release of own or another thread's copy and "
        "parsec_thread_mempool_allocate / parsec_mempool_free / parsec_thread_mempool_free by owner or foreign thread; schedule bytes). 1 thread: "
        "exact model after every operation; 2..3 threads: under dsched (switches at atomic operations). oracle = ownership tags over the whole "
        "usable size verified at release (ASan for overruns / use after free), alignment, no overlap with live blocks, chunk/copy fields "
        "consistent, allocation refused iff the limit would be exceeded (concurrently: only if the operations in flight could have exceeded it), "
        "live+cached <= max_used, cached chunks <= max_released, mempool elements name the allocating thread pool as owner and return to it "
        "(per-pool conservation free+live == created). non-trivial = an allocation was refused at the limit, or a release was freed because "
        "the cache was full, or arena operations of two threads overlapped; distinct = distinct case values")


def _build():
    return core.build_harness("C27/arena", ["harness/C27/arena.cc"], tree="san", rapidcheck=True,
                              plain_c_sources=["harness/C27/shim.c"])


def collect(res, wr):
    for f in wr.failures:
        res.violations.append(core.Violation(f["msg"], replay_text=f["replay_text"]))
    for c in wr.crashes:
        if c["rc"] == "timeout":      # a plain timeout is never a violation (rule 5): e.g. a corrupted structure can make un-hooked code spin forever
            res.inconclusive = "worker '%s' exceeded its time limit" % c.get("tag", "")
            continue
        res.violations.append(core.Violation("harness process died (rc=%s): %s" % (c["rc"], c["log_tail"][-1200:]),
                                             replay_text="# crash of %s\n%s" % (" ".join(c["cmd"]), c["log_tail"][-1500:])))


def _known(res, b):
    """known-findings protocol (DESIGN 4.3): replay the minimal case of every `known` entry of this property."""
    for k in core.known_for(PROP):
        rp = k.get("replay")
        if rp and os.path.exists(os.path.join(core.VERIF, rp)):
            ok, _ = replay(os.path.join(core.VERIF, rp))
            if not ok:
                res.known.append(k.get("what", k.get("id", "")))


def run(tier, seed, res):
    b = _build()
    quick = tier == "quick"
    tmo = 900 if quick else 4 * 3600
    res.rule = RULE
    res.assumptions = ["only the owner thread allocates from its thread mempool; any thread may free",
                       "copies are released once, by whoever holds them; the data_t of a device-0 copy is released by the user",
                       "the cache-limit race (C27-F1) is repaired in /repo: concurrent single-element releases are generated without "
                       "serialisation (C27_KNOWN_CACHE_RACE=exclude restores the old exclusion)",
                       "sequential consistency at atomic-operation granularity under dsched"]
    _known(res, b)
    n = 8
    per = 700 if quick else 150000
    jobs = [dict(cmd=[b, "rc", "1"], env={"ASAN_OPTIONS": ASAN, "RC_PARAMS": "seed=%d max_success=%d max_size=100" % (seed * 131 + i, per)}, tag="seq") for i in range(n)]
    jobs += [dict(cmd=[b, "rc", "2"], env={"ASAN_OPTIONS": ASAN, "RC_PARAMS": "seed=%d max_success=%d max_size=100" % (seed * 139 + i, per)}, tag="conc") for i in range(n)]
    wr = core.run_workers(PROP, jobs, timeout=tmo)
    res.absorb(wr, "rc")
    collect(res, wr)
    if res.violations:
        return
    mult = 1 if quick else 150
    jobs = [dict(cmd=[b, "stress", str(t), str(it * mult), str(seed * 17 + t)], env={"ASAN_OPTIONS": ASAN}, tag="stress") for t, it in ((2, 1500), (4, 1200), (8, 800), (16, 500))]
    wr = core.run_workers(PROP, jobs, timeout=tmo, max_parallel=2)
    res.absorb(wr, "stress")
    collect(res, wr)
    if res.violations:
        return


def replay(path):
    b = _build()
    env = dict(os.environ)
    env.update(core.MPI_ENV)
    env.update(core.SAN_RUN_ENV)
    p = subprocess.run([b, "replay", path], env=env, stdout=subprocess.PIPE, stderr=subprocess.STDOUT, text=True)
    return p.returncode == 0 and "REPLAY-PASS" in p.stdout, p.stdout[-2000:]
