"""C23 -- PTG task keys identify task instances uniquely and print the parameter values (engine E5)."""
import os
import sys
sys.path.insert(0, os.path.join(os.path.dirname(os.path.abspath(__file__)), "..", "ptg"))
import engine  # noqa: E402

PROP = "C23"


def prebuild():
    engine.prebuild()


def run(tier, seed, res):
    engine.regressions(PROP, res, ["C23"])
    engine.run(PROP, "c23", tier, seed, res, props=["C23", "C01"])


def replay(path):
    return engine.replay(path, ["C23", "C01"])
