// C37, multi-process part: each rank performs a different generated number of reservations (and registers some of
// them), then all ranks call parsec_taskpool_sync_ids(), then each reserves once more.  Oracle (all-gather): the id
// reserved after the synchronisation is the same on every rank, and on every rank it differs from (is larger than) every
// id that rank handed out before.  Several rounds continue on the same registries.
// case file:  "C37-mpi ranks P" then lines "round k_0 ... k_{P-1}"  (run with mpiexec -n P)
#define OMPI_SKIP_MPICXX 1
#define MPICH_SKIP_MPICXX 1
#include <mpi.h>
#include <algorithm>
#include <set>
#include <map>
#include <cstring>
#include "vf.hpp"

extern "C" {
void *c37_pool_new(void); unsigned c37_pool_id(void *); int c37_reserve(void *); int c37_register(void *);
void c37_unregister(void *); void *c37_lookup(unsigned); void c37_sync(void);
}

int main(int argc, char **argv) {
    MPI_Init(&argc, &argv);
    int rank, P; MPI_Comm_rank(MPI_COMM_WORLD, &rank); MPI_Comm_size(MPI_COMM_WORLD, &P);
    std::string txt = vf::slurp(argv[1]);
    std::vector<std::vector<int>> rounds; int ranks = 0;
    { std::istringstream in(txt); std::string line;
      while (std::getline(in, line)) { std::istringstream ls(line); std::string w; ls >> w;
        if (w == "C37-mpi") { std::string k; ls >> k >> ranks; }
        else if (w == "round") { std::vector<int> r; int x; while (ls >> x) r.push_back(x); rounds.push_back(r); } } }
    std::string err;
    if (ranks != P) err = "harness: case is for " + std::to_string(ranks) + " ranks, started with " + std::to_string(P);
    std::set<unsigned> mine; unsigned mymax = 0; bool differed = false, grew = false;
    std::map<unsigned, void *> reg;      // model of this rank's registry: id -> registered taskpool
    // every id up to the largest one the registry can hold must resolve to the model's entry, or to nothing
    auto sweep = [&](unsigned upto, const char *when, std::string &lerr) {
        for (unsigned id = 1; id <= upto && lerr.empty(); id++) {
            void *got = c37_lookup(id); auto it = reg.find(id); void *want = it == reg.end() ? nullptr : it->second;
            if (got != want) { char b[256]; snprintf(b, sizeof b, "rank %d: %s lookup(%u) returned %p, the model says %p (%s)", rank, when, id, got, want, want ? "registered here" : "not registered on this rank"); lerr = b; }
        }
    };
    // age the heap: a registry array that grows must not rely on fresh zero pages (free()d blocks keep this pattern)
    { std::vector<void *> blocks; for (int i = 0; i < 64; i++) { size_t n = (size_t)16 << (i % 9); void *q = malloc(n); memset(q, 0x5a, n); blocks.push_back(q); }
      for (void *q : blocks) free(q); }
    for (size_t r = 0; r < rounds.size() && err.empty(); r++) {
        int k = rank < (int)rounds[r].size() ? rounds[r][rank] : 0;
        std::string lerr;
        for (int i = 0; i < k; i++) {
            void *p = c37_pool_new(); int id = c37_reserve(p);
            if (id <= 0 || mine.count((unsigned)id)) lerr = "rank " + std::to_string(rank) + ": reserve_id returned " + std::to_string(id) + " which it had handed out before";
            mine.insert((unsigned)id); mymax = std::max(mymax, (unsigned)id);
            if (i % 3 == 0) { c37_register(p); reg[(unsigned)id] = p; if (c37_lookup((unsigned)id) != p) lerr = "rank " + std::to_string(rank) + ": lookup of a registered id fails"; if (i % 2) { c37_unregister(p); reg.erase((unsigned)id); } }
        }
        sweep(mymax, "before sync_ids", lerr);
        c37_sync();
        void *p = c37_pool_new(); int nid = c37_reserve(p);
        sweep((unsigned)std::max(nid, (int)mymax), "after sync_ids", lerr);
        if (mine.count((unsigned)nid)) lerr = "rank " + std::to_string(rank) + ": the id reserved after sync_ids (" + std::to_string(nid) + ") had already been handed out on this rank";
        std::vector<int> all(P), maxs(P), bad(P); int mm = (int)mymax, b = lerr.empty() ? 0 : 1;
        MPI_Allgather(&nid, 1, MPI_INT, all.data(), 1, MPI_INT, MPI_COMM_WORLD);
        MPI_Allgather(&mm, 1, MPI_INT, maxs.data(), 1, MPI_INT, MPI_COMM_WORLD);
        MPI_Allgather(&b, 1, MPI_INT, bad.data(), 1, MPI_INT, MPI_COMM_WORLD);
        std::vector<char> msgs(256 * P, 0); char mymsg[256] = {0}; snprintf(mymsg, sizeof mymsg, "%s", lerr.c_str());
        MPI_Allgather(mymsg, 256, MPI_CHAR, msgs.data(), 256, MPI_CHAR, MPI_COMM_WORLD);
        int gmax = *std::max_element(maxs.begin(), maxs.end());
        if (*std::min_element(maxs.begin(), maxs.end()) != gmax) differed = true;
        if (gmax >= 4) grew = true;
        std::ostringstream o;
        for (int q = 0; q < P; q++) if (all[q] != all[0]) { o << "round " << r << ": after sync_ids the ranks reserve different identifiers:"; for (int x : all) o << " " << x; o << " (largest id before the sync per rank:"; for (int x : maxs) o << " " << x; o << ")"; break; }
        if (o.str().empty() && all[0] <= gmax) { o << "round " << r << ": after sync_ids the next identifier is " << all[0] << " but identifier " << gmax << " had already been handed out on some rank"; }
        if (o.str().empty()) for (int q = 0; q < P; q++) if (bad[q]) { o << "round " << r << ": " << &msgs[256 * q] << " (ids handed out before the sync per rank:"; for (int x : maxs) o << " " << x; o << ")"; break; }
        err = o.str();
        if (err.empty() && !lerr.empty()) err = lerr;
        mine.insert((unsigned)nid); mymax = std::max(mymax, (unsigned)nid);
    }
    if (rank == 0) {
        vf::note_case(txt, differed && grew);
        vf::label("ranks_" + std::to_string(P)); vf::label("sync_rounds", rounds.size());
        if (differed) vf::label("ranks_had_different_histories");
        if (!err.empty()) vf::record_failure(txt, err);
        vf::dump();
    } else if (!err.empty() && err.rfind("rank ", 0) == 0) {
        fprintf(stderr, "%s\n", err.c_str());
    }
    MPI_Finalize();
    return err.empty() ? 0 : 1;
}
