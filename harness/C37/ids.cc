// C37 -- Taskpool identifiers resolve to the registered taskpool (single-process parts).
//
// The registry is process-global static state that only parsec_fini resets, so every case runs in a forked child that
// starts from the pristine registry (array not allocated, no id handed out); the parent generates, counts and shrinks.
//   rc    : sequential histories of reserve_id / register / lookup / unregister / sync_ids on harness taskpool objects
//           against a map model (id -> pool)
//   rcc   : 2..4 threads under dsched, each reserving / registering / looking up / unregistering its own pools, after
//           `pre` sequential reservations (moves the growth boundaries); ids pairwise distinct, lookups consistent with
//           the register/unregister intervals
//   stress: free running threads, distinct ids
#include <algorithm>
#include <atomic>
#include <thread>
#include <set>
#include <sys/mman.h>
#include <sys/wait.h>
#include <unistd.h>
#include "vf.hpp"
#include "dsched.hpp"
#include "fair.hpp"
#include <rapidcheck.h>

extern "C" {
void *c37_pool_new(void); unsigned c37_pool_id(void *); int c37_reserve(void *); int c37_register(void *);
void c37_unregister(void *); void *c37_lookup(unsigned); void c37_sync(void);
}

static bool g_lookup_zero = false;

// ---- run a case in a forked child; results come back through a shared page
struct Shared { int done; int flags[8]; char err[6000]; };
static Shared *g_sh = nullptr;
template <class F> static std::string in_child(F f) {
    if (!g_sh) g_sh = (Shared *)mmap(nullptr, sizeof(Shared), PROT_READ | PROT_WRITE, MAP_SHARED | MAP_ANONYMOUS, -1, 0);
    memset(g_sh, 0, sizeof(Shared));
    fflush(nullptr);
    pid_t p = fork();
    if (p == 0) { std::string e = f(g_sh->flags); snprintf(g_sh->err, sizeof g_sh->err, "%s", e.c_str()); g_sh->done = 1; _exit(0); }
    int st = 0; waitpid(p, &st, 0);
    if (!g_sh->done) {
        if (g_sh->err[0]) return std::string(g_sh->err);
        return "the process running the case died (" + std::string(WIFSIGNALED(st) ? "signal " + std::to_string(WTERMSIG(st)) : "exit " + std::to_string(WEXITSTATUS(st))) + ": assertion or sanitizer report, see the log)";
    }
    return std::string(g_sh->err);
}

// =====================================================================================  sequential
enum { S_RESERVE = 0, S_REGISTER, S_LOOKUP, S_UNREGISTER, S_SYNC, S_NK };
struct Op { int k, a; };
struct SeqCase {
    std::vector<Op> ops;
    std::string repr() const { std::ostringstream o; o << "C37-seq\n"; for (auto &x : ops) o << "op " << x.k << " " << x.a << "\n"; return o.str(); }
    static SeqCase parse(const std::string &s) { SeqCase c; std::istringstream in(s); std::string l; while (std::getline(in, l)) { Op o; if (sscanf(l.c_str(), "op %d %d", &o.k, &o.a) == 2) c.ops.push_back(o); } return c; }
};
enum { F_NT = 0, F_GREW2, F_HOLE, F_REUSED_POOL };

struct SeqState {
    static const int NP = 8;
    std::vector<void *> pool; std::vector<int> pid_; std::vector<bool> registered;
    std::map<unsigned, int> reg;          // id -> pool index
    std::set<unsigned> handed;            // every id ever handed out
    unsigned maxid = 0; int flags[8] = {0};
    SeqState() : pool(NP), pid_(NP, 0), registered(NP, false) { for (auto &p : pool) p = c37_pool_new(); }
    std::string check_lookup(unsigned id) {
        void *r = c37_lookup(id);
        auto it = reg.find(id);
        void *want = it == reg.end() ? nullptr : pool[it->second];
        if (r != want) return "lookup(" + std::to_string(id) + ") returned " + (r ? "a taskpool" : "NULL") + (r && want ? " other than the registered one" : "") + ", the model has " + (want ? "pool " + std::to_string(it->second) + " registered" : (handed.count(id) ? "nothing registered under this (reserved or unregistered) id" : "no such id handed out"));
        return "";
    }
    std::string apply(const Op &o) {
        std::string e;
        int p = o.a % NP;
        switch (o.k) {
        case S_RESERVE: {
            if (registered[p]) { for (int q = 0; q < NP; q++) if (!registered[q]) { p = q; break; } if (registered[p]) break; }   // a registered pool keeps its id
            if (pid_[p]) flags[F_REUSED_POOL] = 1;
            int id = c37_reserve(pool[p]);
            if (id <= 0) e = "reserve_id returned " + std::to_string(id);
            else if (handed.count((unsigned)id)) e = "reserve_id returned " + std::to_string(id) + " which was already handed out";
            else if (c37_pool_id(pool[p]) != (unsigned)id) e = "reserve_id returned " + std::to_string(id) + " but stored " + std::to_string(c37_pool_id(pool[p])) + " in the taskpool";
            handed.insert((unsigned)id); pid_[p] = id; maxid = std::max(maxid, (unsigned)id);
            if (handed.size() > 4) flags[F_GREW2] = 1;
            break;
        }
        case S_REGISTER: {
            int q = -1; for (int j = 0; j < NP; j++) { int x = (p + j) % NP; if (pid_[x] && !registered[x]) { q = x; break; } }
            if (q < 0) break;
            int r = c37_register(pool[q]);
            if (r != pid_[q]) e = "register returned " + std::to_string(r) + " for the taskpool holding id " + std::to_string(pid_[q]);
            reg[(unsigned)pid_[q]] = q; registered[q] = true;
            break;
        }
        case S_UNREGISTER: {
            int q = -1; for (int j = 0; j < NP; j++) { int x = (p + j) % NP; if (registered[x]) { q = x; break; } }
            if (q < 0) break;
            c37_unregister(pool[q]);
            reg.erase((unsigned)pid_[q]); registered[q] = false; pid_[q] = 0;     // the pool needs a new id before it registers again
            break;
        }
        case S_LOOKUP: {
            if (handed.empty()) break;                                          // (the array does not exist yet)
            unsigned id = (o.a & 1) ? (unsigned)o.a % (maxid + 4) : (maxid + 3 > (unsigned)(o.a / 2 % 40) ? maxid + 3 - (unsigned)(o.a / 2 % 40) : 1);
            if (id == 0 && !g_lookup_zero) id = 1;
            e = check_lookup(id);
            if (e.empty() && !reg.count(id) && handed.count(id)) { auto lo = reg.lower_bound(id); if (lo != reg.begin() && lo != reg.end()) flags[F_HOLE] = 1; }
            break;
        }
        case S_SYNC: c37_sync(); break;       // no MPI in this process: must change nothing
        }
        if (e.empty() && !handed.empty()) {
            unsigned from = maxid > 80 ? maxid - 70 : 1;
            for (unsigned id = from; id <= maxid + 3 && e.empty(); id++) e = check_lookup(id);
            for (int q = 0; q < NP && e.empty(); q++) if (pid_[q]) e = check_lookup((unsigned)pid_[q]);
        }
        flags[F_NT] = flags[F_GREW2] && flags[F_HOLE];
        return e;
    }
};

static std::string run_seq(const SeqCase &c, int *flags) {
    SeqState st;
    for (size_t i = 0; i < c.ops.size(); i++) {
        std::string e = st.apply(c.ops[i]);
        memcpy(flags, st.flags, sizeof st.flags);
        if (!e.empty()) return "after op #" + std::to_string(i) + " (kind " + std::to_string(c.ops[i].k) + "): " + e;
    }
    return "";
}

// =====================================================================================  concurrent
enum { C_RESERVE = 0, C_REGISTER, C_LOOKUP, C_UNREGISTER };
struct ConCase {
    int pre = 0, sparse = 0;
    std::vector<std::vector<Op>> prog; std::vector<uint8_t> sched;
    std::string repr() const {
        std::ostringstream o; o << "C37-con pre " << pre << " sparse " << sparse << "\n";
        for (auto &p : prog) { o << "thread"; for (auto &x : p) o << " " << x.k << " " << x.a; o << "\n"; }
        o << "sched"; for (uint8_t b : sched) o << " " << (int)b; o << "\n"; return o.str();
    }
    static ConCase parse(const std::string &s) {
        ConCase c; std::istringstream in(s); std::string line;
        while (std::getline(in, line)) {
            std::istringstream ls(line); std::string w; ls >> w;
            if (w == "C37-con") { std::string k; int v; while (ls >> k >> v) { if (k == "pre") c.pre = v; else if (k == "sparse") c.sparse = v; } }
            else if (w == "thread") { std::vector<Op> p; Op o; while (ls >> o.k >> o.a) p.push_back(o); c.prog.push_back(p); }
            else if (w == "sched") { int x; while (ls >> x) c.sched.push_back((uint8_t)x); }
        }
        return c;
    }
};
struct Life { unsigned id; void *pool; uint64_t reg_inv = ~0ULL, reg_resp = ~0ULL, unreg_inv = ~0ULL, unreg_resp = ~0ULL; };
struct Look { unsigned id; void *res; uint64_t inv, resp; int thread; };
enum { G_NT = 0, G_OVERLAP_RESERVE, G_GROW_DURING, G_LOOK_OVERLAP };

static std::string run_con(const ConCase &c, int *flags) {
    std::vector<unsigned> all_ids;
    for (int i = 0; i < c.pre; i++) { void *p = c37_pool_new(); all_ids.push_back((unsigned)c37_reserve(p)); }
    int T = (int)c.prog.size();
    std::vector<Life> lives; std::vector<Look> looks;
    struct Iv { uint64_t inv, resp; int thread; unsigned id; }; std::vector<Iv> reserves;
    std::vector<std::function<void()>> bodies;
    for (int t = 0; t < T; t++) bodies.push_back([&, t]() {
        void *cur = nullptr; int cur_life = -1; bool is_reg = false;
        for (const Op &o : c.prog[t]) {
            switch (o.k) {
            case C_RESERVE: {
                if (is_reg) break;
                cur = c37_pool_new();
                uint64_t inv = dsched::now(); int id = c37_reserve(cur); uint64_t resp = dsched::now() + 1;
                reserves.push_back({inv, resp, t, (unsigned)id}); all_ids.push_back((unsigned)id); cur_life = -1;
                break;
            }
            case C_REGISTER: {
                if (!cur || is_reg || cur_life >= 0) break;
                Life l; l.id = c37_pool_id(cur); l.pool = cur; l.reg_inv = dsched::now(); c37_register(cur); l.reg_resp = dsched::now() + 1;
                lives.push_back(l); cur_life = (int)lives.size() - 1; is_reg = true;
                break;
            }
            case C_UNREGISTER: {
                if (!is_reg) break;
                uint64_t inv = dsched::now(); lives[cur_life].unreg_inv = inv; c37_unregister(cur); lives[cur_life].unreg_resp = dsched::now() + 1;
                is_reg = false; cur = nullptr;
                break;
            }
            case C_LOOKUP: {
                if (all_ids.empty()) break;
                unsigned id = all_ids[(size_t)o.a % all_ids.size()] + (o.a % 7 == 0 ? 1 : 0);
                Look k; k.id = id; k.thread = t; k.inv = dsched::now(); k.res = c37_lookup(id); k.resp = dsched::now() + 1;
                looks.push_back(k);
                break;
            }
            }
        }
    });
    hx::FairByteChooser ch(c.sched.data(), c.sched.size(), c.sparse);
    dsched::run(bodies, ch, 200000);
    // ids pairwise distinct
    std::vector<unsigned> s = all_ids; std::sort(s.begin(), s.end());
    for (size_t i = 0; i + 1 < s.size(); i++) if (s[i] == s[i + 1]) return "identifier " + std::to_string(s[i]) + " was handed out twice by concurrent reservations";
    for (unsigned id : s) if (id == 0) return "identifier 0 handed out";
    // lookups against the register / unregister intervals of the id
    for (auto &k : looks) {
        const Life *l = nullptr; for (auto &x : lives) if (x.id == k.id) l = &x;
        if (k.res != nullptr) {
            if (!l || l->pool != k.res) return "lookup(" + std::to_string(k.id) + ") returned a taskpool that was never registered under this id";
            if (l->reg_inv >= k.resp) return "lookup(" + std::to_string(k.id) + ") returned the taskpool before it was registered";
            if (l->unreg_resp <= k.inv) return "lookup(" + std::to_string(k.id) + ") returned the taskpool after it was unregistered";
            if (l->reg_resp > k.inv || l->unreg_inv < k.resp) flags[G_LOOK_OVERLAP] = 1;
        } else if (l && l->reg_resp <= k.inv && l->unreg_inv >= k.resp) return "lookup(" + std::to_string(k.id) + ") returned NULL while the taskpool was registered";
    }
    // final state
    for (auto &l : lives) { void *r = c37_lookup(l.id); void *want = l.unreg_resp == ~0ULL ? l.pool : nullptr; if (r != want) return "final lookup(" + std::to_string(l.id) + ") disagrees with the register/unregister history"; }
    for (size_t i = 0; i < reserves.size(); i++) for (size_t j = i + 1; j < reserves.size(); j++)
        if (reserves[i].thread != reserves[j].thread && reserves[i].inv < reserves[j].resp && reserves[j].inv < reserves[i].resp) flags[G_OVERLAP_RESERVE] = 1;
    unsigned lo = c.pre + 1, hi = (unsigned)all_ids.size();
    for (unsigned b = 2; b <= hi; b <<= 1) if (b >= lo) flags[G_GROW_DURING] = 1;     // a power of two (array growth) was crossed by the threads
    flags[G_NT] = flags[G_OVERLAP_RESERVE] && flags[G_GROW_DURING];
    return "";
}

// =====================================================================================  stress (own process per run)
static int do_stress(int T, long iters, unsigned seed, int pre) {
    for (int i = 0; i < pre; i++) c37_reserve(c37_pool_new());
    std::vector<std::vector<unsigned>> ids(T); std::atomic<int> bad{0};
    std::vector<std::thread> th;
    for (int t = 0; t < T; t++) th.emplace_back([&, t]() {
        uint64_t x = seed * 7919u + t * 104729u + 1;
        void *pool = c37_pool_new();
        for (long i = 0; i < iters; i++) {
            x = x * 6364136223846793005ULL + 1442695040888963407ULL;
            int id = c37_reserve(pool); ids[t].push_back((unsigned)id);
            if ((x >> 33) % 4 == 0) {
                c37_register(pool);
                if (c37_lookup((unsigned)id) != pool) bad++;
                c37_unregister(pool);
                if (c37_lookup((unsigned)id) != nullptr) bad++;
            } else if (c37_lookup((unsigned)id) != nullptr) bad++;
        }
    });
    for (auto &t : th) t.join();
    std::vector<unsigned> s; for (auto &v : ids) s.insert(s.end(), v.begin(), v.end());
    std::sort(s.begin(), s.end());
    std::string e;
    for (size_t i = 0; i + 1 < s.size() && e.empty(); i++) if (s[i] == s[i + 1]) e = "identifier " + std::to_string(s[i]) + " handed out twice under real parallelism";
    if (e.empty() && bad) e = std::to_string(bad.load()) + " lookups of an own identifier returned the wrong taskpool";
    std::string repr = "C37-stress threads " + std::to_string(T) + " iters " + std::to_string(iters) + " seed " + std::to_string(seed) + " pre " + std::to_string(pre) + "\n";
    vf::note_case(repr, T >= 2);
    vf::label("stress_reservations", (uint64_t)s.size());
    if (!e.empty()) { vf::record_failure(repr, e); vf::dump(); return 1; }
    vf::dump();
    return 0;
}

static std::string strip_comments(const std::string &s) { std::istringstream in(s); std::string l, o; while (std::getline(in, l)) if (l.empty() || l[0] != '#') o += l + "\n"; return o; }
static int do_replay(const char *path) {
    std::string txt = strip_comments(vf::slurp(path)), e;
    if (txt.rfind("C37-stress", 0) == 0) { int T, pre; long it; unsigned sd; sscanf(txt.c_str(), "C37-stress threads %d iters %ld seed %u pre %d", &T, &it, &sd, &pre); int r = do_stress(T, it, sd, pre); printf(r ? "REPLAY-FAIL stress\n" : "REPLAY-PASS\n"); return r; }
    int f[8] = {0};
    if (txt.rfind("C37-con", 0) == 0) { ConCase c = ConCase::parse(txt); e = run_con(c, f); }
    else { SeqCase c = SeqCase::parse(txt); e = run_seq(c, f); }
    if (e.empty()) { printf("REPLAY-PASS\n"); return 0; }
    printf("REPLAY-FAIL %s\n", e.c_str()); return 1;
}

static std::string g_current;
int main(int argc, char **argv) {
    std::string mode = argc > 1 ? argv[1] : "rc";
    g_lookup_zero = vf::envl("C37_LOOKUP_ZERO", 0) != 0;
    // a deadlock / step bound inside the child: the message reaches the parent through the shared page
    dsched::on_fatal() = [](const char *what) { if (g_sh) snprintf(g_sh->err, sizeof g_sh->err, "%s", what); else printf("REPLAY-FAIL %s\n", what); };
    if (mode == "replay") return do_replay(argv[2]);
    if (mode == "stress") return do_stress(atoi(argv[2]), atol(argv[3]), (unsigned)atoi(argv[4]), atoi(argv[5]));
    bool ok;
    if (mode == "long") {
        // one process = one long history on the persistent registry (no fork: usable under ASan); the replay of a failure
        // is the complete operation log of the process
        static SeqState *st = new SeqState(); static std::vector<Op> log; static bool dead = false;
        ok = rc::check("long history: taskpool registry == map model after every operation", []() {
            RC_ASSERT(!dead);
            int n = *rc::gen::inRange(1, 40);
            auto chunk = *rc::gen::container<std::vector<Op>>((size_t)n, rc::gen::resize(100, rc::gen::apply([](int k, int a) { return Op{k, a}; },
                rc::gen::element((int)S_RESERVE, (int)S_RESERVE, (int)S_REGISTER, (int)S_REGISTER, (int)S_LOOKUP, (int)S_LOOKUP, (int)S_UNREGISTER, (int)S_UNREGISTER, (int)S_SYNC), rc::gen::inRange(0, 400))));
            SeqCase cc; cc.ops = chunk;
            memset(st->flags, 0, sizeof st->flags); st->flags[F_GREW2] = st->handed.size() > 4;
            std::string e;
            for (auto &o : chunk) { log.push_back(o); e = st->apply(o); if (!e.empty()) break; }
            vf::note_case("C37-long offset " + std::to_string(log.size()) + "\n" + cc.repr(), st->flags[F_NT] != 0);
            if (st->flags[F_HOLE]) vf::label("lookup_of_unregistered_id_between_registered");
            if (!e.empty()) { dead = true; SeqCase all; all.ops = log; vf::record_failure(all.repr(), "after op #" + std::to_string(log.size() - 1) + ": " + e); RC_FAIL(e); }
        });
        vf::label("long_history_ops", log.size()); vf::label("long_history_max_id", st->maxid);
    } else if (mode == "rc") {
        ok = rc::check("taskpool registry == map model (id -> pool) after every operation", []() {
            SeqCase c;
            int n = *rc::gen::inRange(1, 70);
            c.ops = *rc::gen::container<std::vector<Op>>((size_t)n, rc::gen::resize(100, rc::gen::apply([](int k, int a) { return Op{k, a}; },
                rc::gen::element((int)S_RESERVE, (int)S_RESERVE, (int)S_RESERVE, (int)S_REGISTER, (int)S_REGISTER, (int)S_LOOKUP, (int)S_LOOKUP, (int)S_UNREGISTER, (int)S_SYNC), rc::gen::inRange(0, 400))));
            std::string r = c.repr();
            std::string e = in_child([&](int *f) { return run_seq(c, f); });
            int *f = g_sh->flags;
            vf::note_case(r, f[F_NT] != 0);
            if (f[F_GREW2]) vf::label("more_than_4_ids"); if (f[F_HOLE]) vf::label("lookup_of_unregistered_id_between_registered"); if (f[F_REUSED_POOL]) vf::label("pool_reserved_again");
            if (!e.empty()) { vf::record_failure(r, e); RC_FAIL(e); }
        });
    } else {
        ok = rc::check("concurrently reserved identifiers are distinct and lookups respect register/unregister", []() {
            ConCase c;
            c.pre = *rc::gen::resize(100, rc::gen::inRange(0, 34));
            c.sparse = *rc::gen::element(0, 0, 128, 200, 240);
            int T = *rc::gen::element(2, 2, 3, 3, 4);
            for (int t = 0; t < T; t++) {
                int n = *rc::gen::inRange(1, 9);
                c.prog.push_back(*rc::gen::container<std::vector<Op>>((size_t)n, rc::gen::resize(100, rc::gen::apply([](int k, int a) { return Op{k, a}; },
                    rc::gen::element((int)C_RESERVE, (int)C_RESERVE, (int)C_RESERVE, (int)C_REGISTER, (int)C_LOOKUP, (int)C_LOOKUP, (int)C_UNREGISTER), rc::gen::inRange(0, 200)))));
            }
            int sl = *rc::gen::inRange(0, 120);
            c.sched = *rc::gen::container<std::vector<uint8_t>>((size_t)sl, rc::gen::resize(100, rc::gen::arbitrary<uint8_t>()));
            std::string r = c.repr();
            std::string e = in_child([&](int *f) { return run_con(c, f); });
            int *f = g_sh->flags;
            vf::note_case(r, f[G_NT] != 0);
            vf::label("threads_" + std::to_string(T));
            if (f[G_OVERLAP_RESERVE]) vf::label("reservations_overlap"); if (f[G_GROW_DURING]) vf::label("array_growth_boundary_crossed"); if (f[G_LOOK_OVERLAP]) vf::label("lookup_overlaps_register_or_unregister");
            if (!e.empty()) { vf::record_failure(r, e); RC_FAIL(e); }
        });
    }
    vf::dump();
    return ok ? 0 : 1;
}
