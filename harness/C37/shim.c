/* C shim for C37: harness taskpool objects of the real class (only the identifier and the registry use them). */
#include "parsec/parsec_config.h"
#include "parsec/runtime.h"
#include "parsec/parsec_internal.h"
#include <stdlib.h>

void *c37_pool_new(void)
{
    parsec_taskpool_t *tp = (parsec_taskpool_t *)calloc(1, sizeof(parsec_taskpool_t));
    PARSEC_OBJ_CONSTRUCT(tp, parsec_taskpool_t);      /* taskpool_id = -1, no termination detector, no context */
    return tp;
}
unsigned c37_pool_id(void *tp) { return ((parsec_taskpool_t *)tp)->taskpool_id; }
int c37_reserve(void *tp) { return parsec_taskpool_reserve_id((parsec_taskpool_t *)tp); }
int c37_register(void *tp) { return parsec_taskpool_register((parsec_taskpool_t *)tp); }
void c37_unregister(void *tp) { parsec_taskpool_unregister((parsec_taskpool_t *)tp); }
void *c37_lookup(unsigned id) { return parsec_taskpool_lookup(id); }
void c37_sync(void) { parsec_taskpool_sync_ids(); }
