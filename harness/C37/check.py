"""C37 -- taskpool identifier registry: model-based sequences (forked, rapidcheck) + dsched concurrency + stress + MPI sync."""
import glob
import os
import subprocess

from hypothesis import given, seed as hseed, settings, strategies as st, HealthCheck

from vf import core

PROP = "C37"
RULE = ("sequential case = up to 70 generated reserve_id / register / lookup(id in 1..max+3) / unregister / sync_ids operations on 8 harness "
        "taskpool objects, run in a forked child that starts from the pristine registry, every id in 1..max+3 looked up after every "
        "operation and compared with the map model id -> pool; concurrent case = (pre sequential reservations, 2..4 thread programs "
        "reserving / registering / looking up / unregistering their own pools, schedule bytes) under dsched in a forked child, "
        "oracle = ids pairwise distinct, lookup results consistent with the register/unregister intervals, final lookups; MPI case = "
        "(2..4 ranks, 1..4 rounds of per-rank reservation counts in 0..40), after each sync_ids the next reserved id is all-gathered: "
        "equal on all ranks and larger than every id handed out before on any rank; non-trivial (sequential) = more than 4 ids (array "
        "grew twice) and a lookup of an unregistered id between two registered ones; (concurrent) = reservations of two threads "
        "overlapped and an array growth boundary was crossed by them; (MPI) = ranks had different histories and some rank had >= 4 "
        "ids; distinct = distinct case texts")


def _build():
    # forked cases (pristine registry per case) need a cheap fork: gcc tree without sanitizers; the same source under ASan
    # runs the long persistent history, the stress part and every replay
    f = core.build_harness("C37/ids", ["harness/C37/ids.cc"], tree="hooks", rapidcheck=True, plain_c_sources=["harness/C37/shim.c"])
    b = core.build_harness("C37/ids_san", ["harness/C37/ids.cc"], tree="san", rapidcheck=True, plain_c_sources=["harness/C37/shim.c"])
    m = core.build_harness("C37/ids_mpi", ["harness/C37/ids_mpi.cc"], tree="hooks", plain_c_sources=["harness/C37/shim.c"])
    return f, b, m


def collect(res, wr):
    for f in wr.failures:
        res.violations.append(core.Violation(f["msg"], replay_text=f["replay_text"]))
    for c in wr.crashes:
        res.violations.append(core.Violation("harness process died (rc=%s): %s" % (c["rc"], c["log_tail"][-1200:]),
                                             replay_text="# crash of %s\n%s" % (" ".join(c["cmd"]), c["log_tail"][-1500:])))


def _mpi_cases(seed, n):
    out = []

    @hseed(seed)
    @settings(database=None, deadline=None, derandomize=False, max_examples=n, suppress_health_check=list(HealthCheck))
    @given(st.integers(2, 4).flatmap(lambda p: st.lists(st.lists(st.integers(0, 40) | st.sampled_from([0, 1, 2, 3, 7, 15, 17, 33, 65, 70, 130]), min_size=p, max_size=p), min_size=1, max_size=4)))
    def gen(rounds):
        out.append(rounds)
    gen()
    return out


def _mpi_text(rounds):
    return "C37-mpi ranks %d\n" % len(rounds[0]) + "".join("round " + " ".join(str(k) for k in r) + "\n" for r in rounds)


def run(tier, seed, res):
    f, b, m = _build()
    quick = tier == "quick"
    res.rule = RULE
    res.assumptions = ["identifiers are >= 1 (lookup(0) is outside the callers' domain: slot 0 of the array is never initialised)",
                       "register only with an identifier obtained from reserve_id for that taskpool; a registered taskpool is unregistered before it reserves again",
                       "the registry is process-global and only parsec_fini resets it: cases either run in a forked child starting from the pristine registry or continue one modelled history per process",
                       "concurrent part: sequential consistency at atomic-operation granularity under dsched"]
    n = 16
    per = 120 if quick else 60000          # forked cases: fork + wait is two scheduling events per case, slow on a loaded machine
    perturb = {"MALLOC_PERTURB_": "90"}     # no ASan in the forked runs: let glibc fill fresh heap memory with a pattern
    jobs = [dict(cmd=[f, "rc"], env=dict(perturb, RC_PARAMS="seed=%d max_success=%d max_size=100" % (seed * 131 + i, per)), tag="rc") for i in range(n)]
    wr = core.run_workers(PROP, jobs, san=False)
    res.absorb(wr, "seq")
    collect(res, wr)
    jobs = [dict(cmd=[b, "long"], env={"RC_PARAMS": "seed=%d max_success=%d max_size=100" % (seed * 139 + i, 1500 if quick else 150000)}, tag="long") for i in range(n)]
    wr = core.run_workers(PROP, jobs)
    res.absorb(wr, "long")
    collect(res, wr)
    per = 60 if quick else 30000
    jobs = [dict(cmd=[f, "rcc"], env=dict(perturb, RC_PARAMS="seed=%d max_success=%d max_size=100" % (seed * 137 + i, per)), tag="rcc") for i in range(n)]
    wr = core.run_workers(PROP, jobs, san=False)
    res.absorb(wr, "con")
    collect(res, wr)
    iters = 20000 if quick else 1000000
    jobs = [dict(cmd=[b, "stress", str(t), str(iters), str(seed * 17 + t), str((seed * 7 + t) % 30)], tag="stress") for t in (2, 4, 8, 16)]
    wr = core.run_workers(PROP, jobs, max_parallel=2)
    res.absorb(wr, "stress")
    collect(res, wr)
    # MPI part
    cases = _mpi_cases(seed, 24 if quick else 400)
    rd = core.run_dir(PROP)
    jobs = []
    for i, rounds in enumerate(cases):
        p = os.path.join(rd, "mpi%04d.case" % i)
        with open(p, "w") as f:
            f.write(_mpi_text(rounds))
        jobs.append(dict(cmd=["mpiexec", "--oversubscribe", "-x", "MALLOC_PERTURB_", "-n", str(len(rounds[0])), m, p], env=perturb, tag="mpi", timeout=300))
    wr = core.run_workers(PROP, jobs, san=False, max_parallel=5)
    res.absorb(wr, "mpi")
    for f in wr.failures:
        res.violations.append(core.Violation(f["msg"], replay_text=f["replay_text"]))
    for c in wr.crashes:
        if c["rc"] == "timeout":
            res.inconclusive = "an MPI case timed out (machine load?)"
            continue
        case = open(c["cmd"][-1]).read() if os.path.exists(c["cmd"][-1]) else ""
        res.violations.append(core.Violation("MPI run died (rc=%s): %s" % (c["rc"], c["log_tail"][-1200:]), replay_text=case + "# crash\n# " + c["log_tail"][-1200:].replace("\n", "\n# ")))
    for f in sorted(glob.glob(os.path.join(core.VERIF, "corpus", PROP, "regress", "*.txt"))):
        ok, msg = replay(f)
        res.coverage.setdefault("regress_replays", {})[os.path.basename(f)] = "pass" if ok else "fail"
        if not ok:
            res.violations.append(core.Violation("regression replay %s fails: %s" % (os.path.basename(f), msg.strip()[-600:]), replay_path=f))


def replay(path):
    f, b, m = _build()
    env = dict(os.environ)
    env.update(core.MPI_ENV)
    txt = "".join(l for l in open(path).read().splitlines(True) if not l.startswith("#"))
    if txt.startswith("C37-mpi"):
        p = int(txt.split()[2])
        env["VF_OUT"] = os.path.join(core.run_dir(PROP), "replay.json")
        for suf in ("", ".fail", ".failmsg"):
            try:
                os.unlink(env["VF_OUT"] + suf)
            except OSError:
                pass
        r = subprocess.run(["mpiexec", "--oversubscribe", "-n", str(p), m, path], env=env, stdout=subprocess.PIPE, stderr=subprocess.STDOUT, text=True, timeout=600)
        msg = open(env["VF_OUT"] + ".failmsg").read() if os.path.exists(env["VF_OUT"] + ".failmsg") else r.stdout[-1500:]
        return r.returncode == 0 and not os.path.exists(env["VF_OUT"] + ".fail"), msg
    env.update(core.SAN_RUN_ENV)
    p = subprocess.run([b, "replay", path], env=env, stdout=subprocess.PIPE, stderr=subprocess.STDOUT, text=True)
    return p.returncode == 0 and "REPLAY-PASS" in p.stdout, p.stdout[-2000:]
