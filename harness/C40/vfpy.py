"""Python twin of lib/cxx/vf.hpp for Hypothesis-driven worker processes (one subprocess per case).

A worker writes $VF_OUT (JSON: evaluations, labels, samples, extra), $VF_OUT.hashes (64-bit FNV-1a of every
non-trivial case), $VF_OUT.fail / .failmsg (last failing case = the shrunk one) -- the contract of core.run_workers.
"""
import json
import os
import struct


def fnv1a(s):
    h = 1469598103934665603
    for c in s.encode("utf-8", "replace"):
        h ^= c
        h = (h * 1099511628211) & 0xFFFFFFFFFFFFFFFF
    return h


class Report:
    def __init__(self):
        self.evaluations = 0
        self.hashes = set()
        self.labels = {}
        self.samples = []
        self.extra = {}
        self.failed = False

    def label(self, name, n=1):
        self.labels[name] = self.labels.get(name, 0) + n

    def note_case(self, text, nontrivial):
        self.evaluations += 1
        if nontrivial:
            self.hashes.add(fnv1a(text))
            if len(self.samples) < 6:
                self.samples.append(text[:1500])

    def record_failure(self, text, msg):
        self.failed = True
        self.label("failures_seen")
        out = os.environ.get("VF_OUT")
        if not out:
            print("FAILURE:", msg)
            return
        with open(out + ".fail", "w") as f:
            f.write(text if text.endswith("\n") else text + "\n")
        with open(out + ".failmsg", "w") as f:
            f.write(msg + "\n")

    def dump(self):
        out = os.environ.get("VF_OUT")
        rep = {"evaluations": self.evaluations, "distinct_nontrivial": len(self.hashes), "labels": self.labels,
               "samples": self.samples, "extra": self.extra}
        if not out:
            print(json.dumps(rep))
            return
        with open(out, "w") as f:
            json.dump(rep, f)
        with open(out + ".hashes", "wb") as f:
            for h in self.hashes:
                f.write(struct.pack("<Q", h))
