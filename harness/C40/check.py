"""C40 -- virtual-process maps: Hypothesis-generated vpmap specs / map files / CPU masks, one vpmap_driver subprocess per case."""
import glob
import json
import os
import shutil
import subprocess
import sys

from vf import core

sys.path.insert(0, os.path.dirname(os.path.abspath(__file__)))
import model   # noqa: E402

PROP = "C40"
TREE = "san"
RULE = ("case = (runtime_vpmap spec: none / flat / hwloc / rr:n:p:c / file:<generated map file with rank fields, thread counts, core "
        "lists, hex masks, start;end;step ranges, other ranks' and blank lines> / malformed mutations (unknown keywords, short or "
        "non-numeric rr, missing files, display without colon, empty, overlong), optional display: prefix; nb_cores argument; taskset "
        "mask of 1..16 CPUs; bind_threads / runtime_singlify_bindings / runtime_num_cores / runtime_allow_pu); oracle = number of "
        "VPs and threads per VP equal the model (flat/hwloc: total = requested cores capped by the available ones), the context "
        "and parsec_vpmap_get_* agree, every OS thread's affinity lies inside the taskset mask, recorded binding cores and candidate "
        "resources in range, exit 0; malformed: flat fallback or a PaRSEC diagnostic exit, never a signal / sanitizer report; "
        "non-trivial = >= 2 VPs or a binding clause, or a malformed spec that reaches the parser, or a flat/hwloc map with >= 2 CPUs "
        "and a non-default core count or binding parameter; distinct = distinct case values")

# defect classes excluded from generation by construction until decided (each has a replay under corpus/C40/regress)
DEFAULT_SKIPS = {}     # rr:, file: and the hwloc thread total were repaired in /repo (C40-F1..F3): nothing is excluded any more


def _build():
    return core.build_harness("C40/vpmap_driver", ["harness/C40/vpmap_driver.c"], tree=TREE, lang="c")


def _build_fuzz():
    return core.build_harness("C40/vpmap_fuzz", ["harness/C40/vpmap_fuzz.cc"], tree=TREE, fuzzer=True)


def _skips():
    return {k: os.environ.get(k, v) for k, v in DEFAULT_SKIPS.items()}


def run(tier, seed, res):
    drv = _build()
    quick = tier == "quick"
    res.rule = RULE
    res.assumptions = ["one PU per core and hwloc logical core index == OS CPU number on this machine; the cores available to the process are the taskset mask",
                       "a thread's binding is observed as its OS affinity (/proc/self/task) after parsec_init and as execution_stream->core_id",
                       "malformed = not one of the documented forms; 'flat...'/'hwloc...' prefixes are what the parser accepts as those keywords",
                       "map-file model: lines '<rank or empty>:<nbthreads>[:binding]'; lines of other ranks and lines without ':' are ignored"]
    sk = _skips()
    res.coverage["excluded_defect_classes"] = sorted(k for k, v in sk.items() if v == "1")
    nw = 16
    per = 6 if quick else 1250
    rd = core.run_dir(PROP)
    jobs = []
    for i in range(nw):
        wd = os.path.join(rd, "wk%02d" % i)
        os.makedirs(wd, exist_ok=True)
        jobs.append(dict(cmd=[sys.executable, os.path.join(core.VERIF, "harness", PROP, "worker.py"), drv, str(seed * 131 + i), str(per), wd],
                         env=sk, tag="hyp", timeout=1500 if quick else None))
    wr = core.run_workers(PROP, jobs)
    res.absorb(wr, "hyp")
    for f in wr.failures:
        res.violations.append(core.Violation(f["msg"], replay_text=f["replay_text"], ext="json"))
    for c in wr.crashes:
        res.inconclusive = "generator worker %s (rc=%s): %s" % (c["tag"], c["rc"], c["log_tail"][-300:])
    _fuzz(tier, seed, res, sk)
    if os.environ.get("C40_NO_REGRESS", "") != "1":      # mutation runs set it: only new violations count there
        for f in sorted(glob.glob(os.path.join(core.VERIF, "corpus", PROP, "regress", "*.json"))):
            ok, msg = replay(f)
            res.coverage.setdefault("regress_replays", {})[os.path.basename(f)] = "pass" if ok else "fail"
            if not ok:
                res.violations.append(core.Violation("regression replay %s: %s" % (os.path.basename(f), msg[-500:]), replay_path=f))


def _fuzz(tier, seed, res, sk):
    """In-process libFuzzer over parsec_vpmap_init / parsec_vpmap_fini (spec strings and map files through a memfd)."""
    fz = _build_fuzz()
    quick = tier == "quick"
    runs = 25000 if quick else 2500000
    nf = 4 if quick else 8
    rd = core.run_dir(PROP)
    rounds = 3     # a malformed map that the runtime rejects through parsec_fatal ends the fuzzing process (exit 250 after the
    # diagnostic): that is a clean rejection, not a crash, so the worker is simply restarted on its corpus directory
    for rnd in range(rounds):
        jobs = []
        for i in range(nf):
            cdir, adir = os.path.join(rd, "fz_corpus%d" % i), os.path.join(rd, "fz_art%d_%d" % (i, rnd))
            os.makedirs(cdir, exist_ok=True)
            os.makedirs(adir, exist_ok=True)
            if rnd == 0:
                for f in glob.glob(os.path.join(core.VERIF, "corpus", PROP, "seed", "*")):
                    shutil.copy(f, cdir)
            jobs.append(dict(cmd=[fz, "-seed=%d" % (seed * 131 + i + 1000 * rnd), "-runs=%d" % (runs // rounds), "-max_len=400", "-len_control=20", "-timeout=60",
                                  "-artifact_prefix=" + adir + "/", "-print_final_stats=0", "-verbosity=0", "-close_fd_mask=0", cdir],
                             env=dict(sk, PARSEC_MCA_debug_verbose="0"), tag="fuzz", timeout=1200 if quick else None, adir=adir))
        wr = core.run_workers(PROP, jobs)
        res.absorb(wr, "fuzz")
        for f in wr.failures:
            res.violations.append(core.Violation("parser fuzzing: " + f["msg"], replay_text=f["replay_text"], ext="fuzz.txt"))
        for c in wr.crashes:
            tail = c["log_tail"]
            if c["rc"] == "timeout" or (("slow-unit" in tail or "timeout" in tail or "out-of-memory" in tail) and "ERROR: AddressSanitizer" not in tail and "runtime error" not in tail):
                res.coverage["fuzz_load_noise"] = res.coverage.get("fuzz_load_noise", 0) + 1
                continue
            sanitizer = "ERROR: AddressSanitizer" in tail or "runtime error" in tail or "Assertion" in tail
            if c["rc"] == 250 and not sanitizer and ("\x1b[1;37;41mx@" in tail or "x@0" in tail):
                # parsec_fatal: diagnostic printed, process ended with status -6: the documented way PaRSEC stops on an unusable map
                res.coverage["fuzz_inputs_rejected_by_parsec_fatal"] = res.coverage.get("fuzz_inputs_rejected_by_parsec_fatal", 0) + 1
                continue
            try:
                full = open(c["log"], errors="replace").read()
            except OSError:
                full = tail
            key = [l for l in full.splitlines() if "Assertion" in l or "ERROR: AddressSanitizer" in l or "runtime error" in l or "ERROR: libFuzzer" in l]
            arts = glob.glob(os.path.join(jobs[c["worker"]]["adir"], "crash-*"))
            data = open(arts[0], "rb").read() if arts else b""
            # The saved input is the reproducible unit: a death that does not reproduce from it alone (3 tries) comes from state
            # accumulated over thousands of in-process iterations (leaked cpusets, allocator limits), not from this input.
            reproduced = False
            if arts:
                env = dict(os.environ); env.update(core.MPI_ENV); env.update(core.SAN_RUN_ENV); env.update(sk); env["PARSEC_MCA_debug_verbose"] = "0"
                for _ in range(3):
                    p = subprocess.run([fz, "-rss_limit_mb=0", arts[0]], env=env, stdout=subprocess.PIPE, stderr=subprocess.STDOUT, text=True, errors="replace")
                    if p.returncode not in (0, 250):
                        reproduced = True
                        key = [l for l in p.stdout.splitlines() if "Assertion" in l or "ERROR: AddressSanitizer" in l or "runtime error" in l] or key
                        break
            if not reproduced:
                res.coverage["fuzz_deaths_not_reproduced_from_saved_input"] = res.coverage.get("fuzz_deaths_not_reproduced_from_saved_input", 0) + 1
                res.coverage.setdefault("fuzz_unreproduced_notes", []).append(("rc=%s " % c["rc"]) + (key[0][:200] if key else "no diagnostic line in the log"))
                continue
            res.violations.append(core.Violation("parser fuzzing: process died (rc=%s): %s" % (c["rc"], (key[0] if key else tail[-500:])[:400]),
                                                 replay_text="# libFuzzer input (byte0 = cores, byte1 = kind, rest = text): %r\n" % data, ext="fuzz.txt"))
        if res.violations:
            break


def replay(path):
    drv = _build()
    case = json.load(open(path))
    d = os.path.join(core.run_dir(PROP), "replay")
    shutil.rmtree(d, ignore_errors=True)
    env = dict(os.environ)
    env.update(core.MPI_ENV)
    env.update(core.SAN_RUN_ENV)
    cpus = sorted(os.sched_getaffinity(0))
    case["mask"] = [c for c in case["mask"] if c in cpus] or cpus[:1]
    err, labels, inconc = model.run_case(case, drv, d, env)
    shutil.rmtree(d, ignore_errors=True)
    if inconc:
        return False, "timeout (inconclusive)"
    return err is None, err or "ok"
