/* C40 driver: one process per case.
 *
 *   vpmap_driver <nb_cores> <spec | @none>
 *
 * MPI_Init, parsec_init(nb_cores, {"--mca", "runtime_vpmap", spec}), print what the runtime built as JSON between the
 * markers C40-BEGIN / C40-END, parsec_fini, MPI_Finalize, print C40-DONE.  Run under `taskset` by check.py; other
 * runtime parameters (bind_threads, singlify_bindings, ...) come through PARSEC_MCA_* environment variables.
 */
#define _GNU_SOURCE
#include "parsec/parsec_config.h"
#include "parsec/runtime.h"
#include "parsec/parsec_internal.h"
#include "parsec/execution_stream.h"
#include "parsec/vpmap.h"
#include "parsec/parsec_hwloc.h"
#include <mpi.h>
#include <sched.h>
#include <dirent.h>
#include <stdio.h>
#include <stdlib.h>
#include <string.h>
#include <unistd.h>

static void print_cpuset_sched(const cpu_set_t *s)
{
    int first = 1;
    printf("[");
    for (int c = 0; c < CPU_SETSIZE; c++) if (CPU_ISSET(c, s)) { printf("%s%d", first ? "" : ",", c); first = 0; }
    printf("]");
}

static void print_bitmap(hwloc_cpuset_t b)
{
    int first = 1, i = -1, n = 0;
    printf("[");
    if (NULL != b && !hwloc_bitmap_isfull(b)) {
        while (-1 != (i = hwloc_bitmap_next(b, i)) && n < 4096) { printf("%s%d", first ? "" : ",", i); first = 0; n++; }
    } else if (NULL != b) printf("\"full\"");
    printf("]");
}

int main(int argc, char **argv)
{
    cpu_set_t start;
    int prov, nb_cores, pargc;
    char *pargv[4];
    parsec_context_t *ctx;

    if (argc < 3) { fprintf(stderr, "usage: vpmap_driver nb_cores spec\n"); return 2; }
    nb_cores = atoi(argv[1]);
    CPU_ZERO(&start);
    sched_getaffinity(0, sizeof start, &start);

    MPI_Init_thread(&argc, &argv, MPI_THREAD_SERIALIZED, &prov);
    if (0 == strcmp(argv[2], "@none")) { pargc = 0; pargv[0] = NULL; }
    else { pargv[0] = (char *)"--mca"; pargv[1] = (char *)"runtime_vpmap"; pargv[2] = argv[2]; pargv[3] = NULL; pargc = 3; }
    char **pv = pargv;
    fflush(stdout);
    ctx = parsec_init(nb_cores, &pargc, &pv);
    if (NULL == ctx) { fprintf(stderr, "parsec_init returned NULL\n"); MPI_Finalize(); return 3; }

    printf("\nC40-BEGIN\n{\"allowed\": ");
    print_cpuset_sched(&start);
    printf(", \"nb_real_cores\": %d, \"nb_vp\": %d, \"ctx_nb_vp\": %d, \"total_threads\": %d, \"query_cores\": %d, \"vps\": [",
           parsec_hwloc_nb_real_cores(), parsec_vpmap_get_nb_vp(), ctx->nb_vp, parsec_vpmap_get_nb_total_threads(),
           parsec_context_query(ctx, PARSEC_CONTEXT_QUERY_CORES));
    for (int v = 0; v < ctx->nb_vp; v++) {
        parsec_vp_t *vp = ctx->virtual_processes[v];
        printf("%s{\"map_threads\": %d, \"ctx_threads\": %d, \"threads\": [", v ? ", " : "", parsec_vpmap_get_vp_threads(v), vp->nb_cores);
        for (int t = 0; t < vp->nb_cores; t++) {
            int ht = -7;
            hwloc_cpuset_t cs = parsec_vpmap_get_vp_thread_affinity(v, t, &ht);
            parsec_execution_stream_t *es = vp->execution_streams[t];
            printf("%s{\"cand\": ", t ? ", " : "");
            print_bitmap(cs);
            printf(", \"nbcores\": %d, \"core_id\": %d, \"th_id\": %d}", parsec_vpmap_get_vp_thread_cores(v, t), es ? es->core_id : -99, es ? es->th_id : -99);
        }
        printf("]}");
    }
    printf("], \"tasks\": [");
    {   /* OS-level affinity of every thread of the process */
        DIR *d = opendir("/proc/self/task");
        struct dirent *e; int first = 1;
        while (d && NULL != (e = readdir(d))) {
            cpu_set_t s; int tid = atoi(e->d_name);
            if (tid <= 0) continue;
            CPU_ZERO(&s);
            if (0 != sched_getaffinity(tid, sizeof s, &s)) continue;
            printf("%s{\"tid\": %d, \"main\": %s, \"cpus\": ", first ? "" : ", ", tid, tid == (int)getpid() ? "true" : "false");
            print_cpuset_sched(&s);
            printf("}");
            first = 0;
        }
        if (d) closedir(d);
    }
    printf("]}\nC40-END\n");
    fflush(stdout);
    parsec_fini(&ctx);
    MPI_Finalize();
    printf("C40-DONE\n");
    return 0;
}
