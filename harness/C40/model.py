"""C40 model: Hypothesis strategy for vpmap specifications / map files / CPU masks, the expected map, and the case runner.

A case (JSON dict = replay format):
  kind       none | flat | hwloc | rr | file | malformed
  spec       the runtime_vpmap string ("{FILE}" is replaced by the path of the generated map file); null for kind none
  file       null or {"state": "ok"|"missing"|"unreadable", "lines": [...]}
  vps        (rr / file) the model's list of thread counts per virtual process
  nb_cores   first argument of parsec_init
  mask       CPUs given to taskset
  mca        {name: value} extra PARSEC_MCA_* settings (bind_threads, runtime_singlify_bindings, runtime_num_cores, runtime_allow_pu)
"""
import json
import os
import re
import subprocess

from hypothesis import strategies as st

RR_RE = re.compile(r"^(display:)?rr:\s*[-+]?\d+:\s*[-+]?\d+:\s*[-+]?\d+")
DIAG_RE = re.compile(r"[A-Za-z]@\d{5}")


def spec_class(case):
    """The input class the parser will dispatch to: 'rr', 'file' (an openable map file), or 'other'."""
    s = case.get("spec") or ""
    if s.startswith("display:"):
        s = s[len("display:"):]
    if RR_RE.match(s):
        return "rr"
    if s.startswith("file:") and case.get("file") and case["file"]["state"] == "ok":
        return "file"
    return "other"


# ------------------------------------------------------------------------------------------------ generation

def _binding(draw, k):
    form = draw(st.sampled_from(["list", "list", "mask", "range", "none"]))
    if form == "list":
        items = []
        for _ in range(draw(st.integers(1, 4))):
            a = draw(st.integers(0, max(0, k - 1)))
            if draw(st.integers(0, 3)) == 0:
                b = draw(st.integers(a, max(a, k - 1)))
                items.append("%d-%d" % (a, b))
            else:
                items.append(str(a))
        return ",".join(items)
    if form == "mask":
        return "0x%x" % draw(st.integers(1, (1 << max(1, k)) - 1))
    if form == "range":
        a = draw(st.integers(0, max(0, k - 1)))
        b = draw(st.integers(a, max(a, k - 1)))
        return "%s;%s;%s" % (draw(st.sampled_from([str(a), ""])), draw(st.sampled_from([str(b), ""])), draw(st.sampled_from(["1", "2", ""])))
    return None


@st.composite
def cases(draw, cpus, skip_rr, skip_file):
    nmask = draw(st.sampled_from([1, 2, 2, 3, 3, 4, 4, 4, 5, 6, 6, 8, 8, 10, 12, 16]))
    nmask = min(nmask, len(cpus))
    mask = sorted(draw(st.permutations(cpus))[:nmask])
    k = len(mask)
    c = {"mask": mask, "nb_cores": draw(st.sampled_from([-1, 0, 1, 2, k, k, max(1, k - 1), k + 1, k + 3])), "file": None, "vps": None}
    mca = {"bind_threads": draw(st.sampled_from(["1", "1", "1", "0"]))}
    sg = draw(st.sampled_from([None, None, "-1", "0", "1"]))
    if sg is not None:
        mca["runtime_singlify_bindings"] = sg
    nc = draw(st.sampled_from([None, None, None, "-1", str(max(1, k // 2)), str(k)]))
    if nc is not None:
        mca["runtime_num_cores"] = nc
    if draw(st.integers(0, 5)) == 0:
        mca["runtime_allow_pu"] = draw(st.sampled_from(["0", "1"]))
    c["mca"] = mca
    kind = draw(st.sampled_from(["none", "flat", "flat", "hwloc", "hwloc", "rr", "rr", "file", "file", "file", "malformed", "malformed", "malformed"]))
    c["excluded"] = None
    if (kind == "rr" and skip_rr) or (kind == "file" and skip_file):
        c["excluded"] = kind                       # counted by the worker; the slot is used for another kind
        kind = draw(st.sampled_from(["flat", "hwloc", "malformed", "malformed"]))
    disp = "display:" if draw(st.integers(0, 3)) == 0 else ""
    c["kind"] = kind
    if kind == "none":
        c["spec"] = None
    elif kind in ("flat", "hwloc"):
        c["spec"] = disp + kind
    elif kind == "rr":
        n, p = draw(st.integers(1, 4)), draw(st.integers(1, 4))
        c["spec"] = "%srr:%d:%d:%d" % (disp, n, p, draw(st.integers(1, k)))
        c["vps"] = [p] * n
    elif kind == "file":
        lines, vps = [], []
        for _ in range(draw(st.integers(1, 5))):
            what = draw(st.sampled_from(["mine", "mine", "all", "other", "blank"]))
            nth = draw(st.integers(1, 4))
            b = _binding(draw, k)
            tail = "%d" % nth + ("" if b is None else ":" + b)
            if what == "mine":
                lines.append("0:" + tail); vps.append(nth)
            elif what == "all":
                lines.append(":" + tail); vps.append(nth)
            elif what == "other":
                lines.append("%d:%s" % (draw(st.integers(1, 5)), tail))
            else:
                lines.append("")
        if not vps:
            lines.append(":1"); vps.append(1)
        c["spec"] = disp + "file:{FILE}"
        c["file"] = {"state": "ok", "lines": lines}
        c["vps"] = vps
    else:
        m = draw(st.sampled_from(["keyword", "keyword", "rr_short", "rr_text", "file_missing", "file_unreadable", "display_nocolon", "empty", "prefix", "long"]))
        word = draw(st.text("abcdefgxyzRF:;,-_0123456789 ", min_size=1, max_size=12)).strip() or "q"
        if m == "keyword":
            s = word if not word.startswith(("flat", "hwloc", "rr:", "file:", "display")) else "z" + word
        elif m == "rr_short":
            s = draw(st.sampled_from(["rr:", "rr:2", "rr:2:2", "rr:2:2:", "rr::2:2", "rr:-", "rr:2:x:4"]))
        elif m == "rr_text":
            s = "rr:" + draw(st.text("abcxyz:;", min_size=1, max_size=8))
            if RR_RE.match(s):
                s = "rr:x" + s[3:]
        elif m == "file_missing":
            s = "file:{FILE}"; c["file"] = {"state": "missing", "lines": []}
        elif m == "file_unreadable":
            s = "file:{FILE}"; c["file"] = {"state": "missing", "lines": [], "dir": True}     # a path below a non-existing directory
        elif m == "display_nocolon":
            s = "display" + draw(st.sampled_from(["", "flat", " flat", "=flat", "hwloc"]))
        elif m == "empty":
            s = ""
        elif m == "prefix":
            s = draw(st.sampled_from(["flat", "hwloc"])) + word.replace(":", "")
        else:
            s = "k" * draw(st.integers(200, 3000))
        c["spec"] = (disp if m not in ("display_nocolon",) else "") + s
        c["malformed"] = m
    return c


# ------------------------------------------------------------------------------------------------ model

def expected(case, k):
    """-> dict(nvp=None|int, threads=None|[..], total=int|None, fallback_ok=bool)."""
    mca = case["mca"]
    maxc = k
    if "runtime_num_cores" in mca and int(mca["runtime_num_cores"]) > 0:
        maxc = int(mca["runtime_num_cores"])
    nb = case["nb_cores"] if case["nb_cores"] > 0 else maxc
    nb = min(nb, maxc)
    kind = case["kind"]
    s = case.get("spec") or ""
    body = s[len("display:"):] if s.startswith("display:") else s
    if kind in ("none", "flat") or (kind == "malformed"):
        # malformed: rejected => the default flat map; "flat..."/"hwloc..." prefixes are accepted as those keywords by the parser
        if kind == "malformed" and body.startswith("hwloc"):
            return dict(nvp=None, total=nb)
        return dict(nvp=1, threads=[nb], total=nb)
    if kind == "hwloc":
        return dict(nvp=None, total=nb)
    return dict(nvp=len(case["vps"]), threads=list(case["vps"]), total=sum(case["vps"]))


def classify(case):
    labels = ["kind_" + case["kind"], "mask_%s" % ("1" if len(case["mask"]) == 1 else "2-4" if len(case["mask"]) <= 4 else "5-16")]
    if case["kind"] == "malformed":
        labels.append("malformed_" + case.get("malformed", "?"))
    if (case.get("spec") or "").startswith("display:"):
        labels.append("display_prefix")
    for kk, v in case["mca"].items():
        if kk != "bind_threads":
            labels.append("mca_%s" % kk)
    labels.append("bind_threads_" + case["mca"]["bind_threads"])
    lines = (case["file"] or {}).get("lines", [])
    nt = (case["vps"] is not None and (len(case["vps"]) >= 2 or any(l.count(":") >= 2 for l in lines))) \
        or (case["kind"] == "malformed" and case.get("malformed") != "empty") \
        or (case["kind"] in ("flat", "hwloc", "none") and len(case["mask"]) >= 2 and case["nb_cores"] != 1 and
            (len(case["mca"]) > 1 or case["nb_cores"] not in (-1, 0)))
    return nt, labels


# ------------------------------------------------------------------------------------------------ execution

def run_case(case, driver, d, base_env, skip_total_check=False, timeout=300):
    """-> (error or None, labels, inconclusive)."""
    os.makedirs(d, exist_ok=True)
    spec = case.get("spec")
    f = case.get("file")
    path = os.path.join(d, "nodir", "vp.map") if (f and f.get("dir")) else os.path.join(d, "vp.map")
    if f and f["state"] == "ok":
        with open(path, "w") as fh:
            fh.write("\n".join(f["lines"]) + "\n")
    if spec is not None:
        spec = spec.replace("{FILE}", path)
    env = dict(base_env)
    for kk in list(env):
        if kk.startswith("PARSEC_MCA_"):
            del env[kk]
    env["PARSEC_MCA_runtime_warn_slow_binding"] = "0"
    for kk, v in case["mca"].items():
        env["PARSEC_MCA_" + kk] = v
    cmd = ["taskset", "-c", ",".join(str(x) for x in case["mask"]), driver, str(case["nb_cores"]), "@none" if spec is None else spec]
    try:
        p = subprocess.run(cmd, env=env, stdout=subprocess.PIPE, stderr=subprocess.PIPE, text=True, errors="replace", timeout=timeout, cwd=d)
    except subprocess.TimeoutExpired:
        return None, [], True
    out, err = p.stdout, p.stderr
    labels = []
    k = len(case["mask"])
    kind = case["kind"]
    if p.returncode < 0 or "ERROR: AddressSanitizer" in err or "runtime error:" in err:
        key = [l for l in err.splitlines() if "Assertion" in l or "ERROR: AddressSanitizer" in l or "runtime error" in l]
        return "spec %r (kind %s): process died with signal %s%s" % (spec, kind, -p.returncode if p.returncode < 0 else "?",
                                                                     (": " + key[0][:300]) if key else ""), labels, False
    if p.returncode != 0:
        if kind == "malformed" and DIAG_RE.search(err):
            labels.append("malformed:rejected_with_diagnostic")
            return None, labels, False
        return "spec %r (kind %s): exit status %d %s" % (spec, kind, p.returncode, err[-300:]), labels, False
    if "C40-BEGIN" not in out or "C40-DONE" not in out:
        return "spec %r: driver finished with status 0 but incomplete output" % (spec,), labels, False
    try:
        o = json.loads(out.split("C40-BEGIN", 1)[1].split("C40-END", 1)[0])
    except Exception as e:
        return "unparsable driver output: %s" % e, labels, False
    if o["nb_real_cores"] != k:
        labels.append("nb_real_cores_differs_from_mask")
        k = o["nb_real_cores"]
    exp = expected(case, k)
    got_threads = [v["map_threads"] for v in o["vps"]]
    what = "spec %r (kind %s, nb_cores=%d, %d CPUs, mca=%s)" % (spec, kind, case["nb_cores"], len(case["mask"]), case["mca"])
    if o["nb_vp"] != o["ctx_nb_vp"] or o["nb_vp"] != len(o["vps"]) or o["nb_vp"] < 1:
        return "%s: nb_vp inconsistent (vpmap %d, context %d)" % (what, o["nb_vp"], o["ctx_nb_vp"]), labels, False
    if any(v["map_threads"] != v["ctx_threads"] or v["map_threads"] < 1 for v in o["vps"]):
        return "%s: thread counts of the map and of the context differ: %s" % (what, [(v["map_threads"], v["ctx_threads"]) for v in o["vps"]]), labels, False
    if exp["nvp"] is not None and o["nb_vp"] != exp["nvp"]:
        return "%s: %d virtual processes, expected %d" % (what, o["nb_vp"], exp["nvp"]), labels, False
    if exp.get("threads") is not None and got_threads != exp["threads"]:
        return "%s: threads per VP %s, expected %s" % (what, got_threads, exp["threads"]), labels, False
    if sum(got_threads) != exp["total"]:
        return "%s: %d threads in total, expected %d" % (what, sum(got_threads), exp["total"]), labels, False
    if o["query_cores"] != sum(got_threads):
        return "%s: parsec_context_query(CORES) = %d but the map has %d threads" % (what, o["query_cores"], sum(got_threads)), labels, False
    if o["total_threads"] != sum(got_threads):
        if skip_total_check and (case.get("spec") or "").replace("display:", "").startswith("hwloc"):
            labels.append("excluded_check_by_flag:hwloc_total_threads")
        else:
            return "%s: parsec_vpmap_get_nb_total_threads() = %d but the VPs have %d threads" % (what, o["total_threads"], sum(got_threads)), labels, False
    allowed = set(o["allowed"])
    if allowed != set(case["mask"]):
        return "%s: harness problem, the process did not start with the taskset mask" % what, labels, False
    for t in o["tasks"]:
        if not set(t["cpus"]) <= allowed:
            return "%s: thread %d is bound to CPUs %s outside the allowed set %s" % (what, t["tid"], t["cpus"], sorted(allowed)), labels, False
    nbound = 0
    for vi, v in enumerate(o["vps"]):
        for ti, t in enumerate(v["threads"]):
            if t["core_id"] != -1 and t["core_id"] not in allowed:
                return "%s: VP %d thread %d records binding core %d, which is not one of the allowed cores %s" % (what, vi, ti, t["core_id"], sorted(allowed)), labels, False
            if t["core_id"] >= 0:
                nbound += 1
            if t["th_id"] != ti:
                return "%s: VP %d slot %d holds thread id %d" % (what, vi, ti, t["th_id"]), labels, False
            if "full" not in t["cand"] and any(x < 0 or x >= max(k, 1) for x in t["cand"]) and exp["total"] <= k:
                return "%s: VP %d thread %d candidate resources %s outside [0,%d)" % (what, vi, ti, t["cand"], k), labels, False
    labels.append("bound_threads_some" if nbound else "bound_threads_none")
    if len({tuple(t["cpus"]) for t in o["tasks"]}) > 1:
        labels.append("os_affinities_differ")
    if kind == "malformed":
        labels.append("malformed:fallback_with_warning" if DIAG_RE.search(err) else "malformed:fallback_silent")
    if (case.get("spec") or "").startswith("display:") and "Virtual Process Map" not in err + out:
        return "%s: display: requested but no map was printed" % what, labels, False
    return None, labels, False
