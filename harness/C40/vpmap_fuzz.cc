// C40 in-process parser fuzzing: parsec_vpmap_init(spec, nb_cores) / parsec_vpmap_fini() are repeatable (fini frees the map
// and resets the VP count; the sticky statics -- display flag, HT count, stale thread total -- do not influence the map),
// so one process can parse millions of generated specifications and map files.  PaRSEC is initialised once (output, hwloc,
// runtime parameters), its own map is dropped, and every input is: byte 0 = requested cores, byte 1 = input kind, rest = text.
//   kind 0: the text is the spec itself          kind 1: the text is a map file, spec = file:/proc/self/fd/<memfd>
// Classes excluded by C40_SKIP_RR=1 / C40_SKIP_FILE=1 are filtered before the call and counted.
// Oracle: no memory error (ASan/UBSan), >= 1 VP, every VP >= 1 thread with a cpuset, flat/rejected specs give 1 VP x nb threads.
#include "vf.hpp"
#include <mpi.h>
#include <regex>
#include <sys/mman.h>
#include <unistd.h>

extern "C" {
#include "parsec/parsec_config.h"
#include "parsec/runtime.h"
#include "parsec/parsec_hwloc.h"
#include "parsec/vpmap.h"
}

static bool skip_rr, skip_file;
static int K = 1;
static uint64_t execs = 0;

extern "C" int LLVMFuzzerInitialize(int *argc, char ***argv) {
    int prov;
    MPI_Init_thread(argc, argv, MPI_THREAD_SERIALIZED, &prov);
    int pc = 0; char *pv0[1] = {nullptr}; char **pv = pv0;
    parsec_context_t *ctx = parsec_init(1, &pc, &pv);
    if (!ctx) { fprintf(stderr, "parsec_init failed\n"); _exit(2); }
    parsec_vpmap_fini();                       // drop the flat map of the (never started) context; it is not consulted again
    K = parsec_hwloc_nb_real_cores();
    skip_rr = vf::envl("C40_SKIP_RR", 0) != 0;
    skip_file = vf::envl("C40_SKIP_FILE", 0) != 0;
    atexit(vf::dump);
    return 0;
}

static void fail(const std::string &repr, const std::string &msg) {
    vf::record_failure(repr, msg); vf::dump();
    fprintf(stderr, "PROPERTY FAILURE: %s\n", msg.c_str());
    __builtin_trap();
}

extern "C" int LLVMFuzzerTestOneInput(const uint8_t *data, size_t size) {
    if (size < 3) return 0;
    int nb = 1 + data[0] % (K > 0 ? K : 1);
    int kind = data[1] & 1;
    std::string text((const char *)data + 2, size - 2);
    text = text.substr(0, text.find('\0'));
    std::string spec = text, body = text;
    if (body.rfind("display:", 0) == 0) body = body.substr(8);
    static const std::regex rr("^rr:\\s*[-+]?[0-9]+:\\s*[-+]?[0-9]+:\\s*[-+]?[0-9]+[^]*");
    std::string repr = "nb=" + std::to_string(nb) + " kind=" + std::to_string(kind) + " text=" + text + "\n";
    int fd = -1;
    if (kind == 1) {
        if (skip_file) { vf::label("excluded_by_flag:spec_kind_file"); return 0; }
        fd = memfd_create("vpmap", 0);
        if (fd < 0 || write(fd, text.data(), text.size()) != (ssize_t)text.size()) { if (fd >= 0) close(fd); return 0; }
        spec = "file:/proc/self/fd/" + std::to_string(fd);
        vf::label("kind_file");
    } else {
        if (std::regex_match(body, rr)) { if (skip_rr) { vf::label("excluded_by_flag:spec_kind_rr"); return 0; } vf::label("kind_rr"); }
        else if (body.rfind("file:", 0) == 0) {
            if (skip_file && access(body.c_str() + 5, R_OK) == 0) { vf::label("excluded_by_flag:spec_kind_file"); return 0; }
            vf::label("kind_file_path");
        } else if (body.rfind("flat", 0) == 0) vf::label("kind_flat");
        else if (body.rfind("hwloc", 0) == 0) vf::label("kind_hwloc");
        else vf::label("kind_rejected");
    }
    std::vector<char> buf(spec.begin(), spec.end()); buf.push_back(0);
    parsec_vpmap_init(buf.data(), nb);
    int nvp = parsec_vpmap_get_nb_vp();
    bool plain = kind == 0 && !std::regex_match(body, rr) && body.rfind("file:", 0) != 0 && body.rfind("hwloc", 0) != 0;
    vf::note_case(repr, kind == 1 || !plain);
    if (nvp < 1) fail(repr, "parsec_vpmap_init left " + std::to_string(nvp) + " virtual processes");
    long total = 0;
    for (int v = 0; v < nvp; v++) {
        int nt = parsec_vpmap_get_vp_threads(v);
        if (nt < 1) fail(repr, "VP " + std::to_string(v) + " has " + std::to_string(nt) + " threads");
        total += nt;
        for (int t = 0; t < nt; t++) { int ht; if (!parsec_vpmap_get_vp_thread_affinity(v, t, &ht)) fail(repr, "thread without a cpuset"); }
    }
    if (plain && (nvp != 1 || total != nb)) fail(repr, "flat / rejected spec gives " + std::to_string(nvp) + " VPs with " + std::to_string(total) + " threads for " + std::to_string(nb) + " cores");
    parsec_vpmap_fini();
    if (fd >= 0) close(fd);
    if (++execs % 20000 == 0) vf::dump();
    return 0;
}
