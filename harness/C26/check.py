"""C26 -- data copy ownership transfers: version model; exhaustive short histories + rapidcheck longer ones."""
import os
import subprocess

from vf import core

PROP = "C26"
ASAN = {"ASAN_OPTIONS": core.SAN_RUN_ENV["ASAN_OPTIONS"] + ":quarantine_size_mb=8"}
RULE = ("case = (2..3 device copies, initial configuration in {collection data: copy 0 OWNED and owner; new arena data: owner 0, "
        "all copies INVALID; fresh data: owner -1}, history of accesses (device, R|W|RW)); each access executed as the "
        "device layer does: start_transfer_ownership, payload copy + version as parsec_device_data_stage_in sets it, "
        "UNDER/COMPLETE_TRANSFER, end_transfer_ownership, task reads/overwrites the payload, reader released; oracle after "
        "every call = version model: at most one OWNED copy and owner_device names it, transfer requested iff the access "
        "reads and the target is not up to date, the source holds the newest version, W/RW makes the target OWNED owner, the "
        "payload read is the newest, readers back to 0, no PaRSEC assert fires; non-trivial = >= 3 accesses on >= 2 devices "
        "with a write followed by a read on another device; distinct = distinct case texts")


def _build():
    return core.build_harness("C26/data", ["harness/C26/data.cc"], tree="san", rapidcheck=True,
                              plain_c_sources=["harness/C26/shim.c"])


def _collect(res, wr):
    for f in wr.failures:
        res.violations.append(core.Violation(f["msg"], replay_text=f["replay_text"]))
    for c in wr.crashes:
        res.violations.append(core.Violation("harness process died (rc=%s): %s" % (c["rc"], c["log_tail"][-1200:]),
                                             replay_text="# crash of %s\n%s" % (" ".join(c["cmd"]), c["log_tail"][-1500:])))


def run(tier, seed, res):
    b = _build()
    quick = tier == "quick"
    res.rule = RULE
    res.assumptions = ["accesses are sequential: one access completes (transfer, body, reader release) before the next starts",
                       "a reading access is generated only when some copy holds data (reads before any write of fresh data are skipped, counted)",
                       "the caller sets versions and data_transfer_status as parsec_device_data_stage_in / complete_push do",
                       "a write access bumps the version to newest + 1",
                       "a read-only access by the owner device whose copy is OWNED takes parsec_device_data_stage_in's 'already in place' "
                       "path (no ownership call; label owner_read_fast_path) unless C26_OWNER_READ_VIA_TRANSFER=1: see "
                       "corpus/C26/regress/owner_read_then_stale_reader.txt"]
    # known findings (known_findings.json is maintained by the framework owner): replay must still fail -> KNOWN-FINDING line
    for f in core.known_for(PROP):
        if f.get("replay"):
            ok, _ = replay(os.path.join(core.VERIF, f["replay"]))
            if not ok:
                res.known.append(f.get("what", f.get("id", "?")))
    env_extra = {}
    if os.environ.get("C26_OWNER_READ_VIA_TRANSFER") == "1":
        env_extra["C26_OWNER_READ_VIA_TRANSFER"] = "1"
    reg = os.path.join(core.VERIF, "corpus", PROP, "regress", "owner_read_then_stale_reader.txt")
    if os.path.exists(reg):
        ok, msg = replay(reg)
        res.coverage["regress_owner_read_then_stale_reader"] = "no longer fails" if ok else "still reproduces: " + msg.strip()[-300:]
    # (1) exhaustive: every history up to length L, split by the first access
    jobs = []
    plan = [(2, 6), (3, 4)] if quick else [(2, 8), (3, 6)]
    for (ndev, L) in plan:
        for init in (1, 2, 3):
            for d in range(ndev):
                for m in (1, 2, 3):
                    jobs.append(dict(cmd=[b, "exh", str(ndev), str(init), str(L), str(d), str(m)], env=dict(ASAN, **env_extra), tag="exh"))
    wr = core.run_workers(PROP, jobs)
    res.absorb(wr, "exhaustive")
    res.coverage["exhaustive"] = not (wr.failures or wr.crashes)
    res.coverage["exhaustive_subspace"] = "every history of (device, R|W|RW) accesses for (devices, max length) in %s from each of the 3 initial configurations" % (plan,)
    _collect(res, wr)
    # (2) rapidcheck: longer histories
    n = 12
    per = 5000 if quick else 420000
    jobs = [dict(cmd=[b, "rc"], env=dict(ASAN, RC_PARAMS="seed=%d max_success=%d max_size=200" % (seed * 131 + i, per), **env_extra), tag="rc")
            for i in range(n)]
    wr = core.run_workers(PROP, jobs)
    res.absorb(wr, "rc")
    _collect(res, wr)
    # (3) the same two parts with the owner's read-only accesses going through the ownership calls; the access at which
    # known finding C26-K1 manifests ends the history (counted), everything before it and every other outcome is checked
    if not env_extra:
        via = {"C26_OWNER_READ_VIA_TRANSFER": "2"}
        jobs = []
        for (ndev, L) in plan:
            for init in (1, 2, 3):
                for d in range(ndev):
                    for m in (1, 2, 3):
                        jobs.append(dict(cmd=[b, "exh", str(ndev), str(init), str(L), str(d), str(m)], env=dict(ASAN, **via), tag="exh_via"))
        wr = core.run_workers(PROP, jobs)
        res.absorb(wr, "exhaustive_owner_read_via_transfer")
        res.coverage["exhaustive_owner_read_via_transfer"] = not (wr.failures or wr.crashes)
        _collect(res, wr)
        jobs = [dict(cmd=[b, "rc"], env=dict(ASAN, RC_PARAMS="seed=%d max_success=%d max_size=200" % (seed * 137 + i, per), **via), tag="rc_via")
                for i in range(n)]
        wr = core.run_workers(PROP, jobs)
        res.absorb(wr, "rc_owner_read_via_transfer")
        _collect(res, wr)


def replay(path):
    b = _build()
    env = dict(os.environ)
    env.update(core.SAN_RUN_ENV)
    p = subprocess.run([b, "replay", path], env=env, stdout=subprocess.PIPE, stderr=subprocess.STDOUT, text=True)
    return p.returncode == 0 and "REPLAY-PASS" in p.stdout, p.stdout[-2000:]
