/* C shim for C26: builds a parsec_data_t with device copies the way parsec_data_init / parsec_data_create /
 * parsec_device_data_reserve_space do, without a running context, and exposes the fields the oracle reads. */
#include "parsec/parsec_config.h"
#include "parsec/parsec_internal.h"
#include "parsec/data_internal.h"
#include "parsec/mca/device/device.h"
#include "parsec/sys/atomic.h"
#include <stdlib.h>

extern uint32_t parsec_nb_devices;
static size_t base_sizeof = 0;
#define MAXDEV 4

/* what parsec_data_init does once the number of devices is known */
void shim_set_devices(int n) {
    if (0 == base_sizeof) {
        base_sizeof = parsec_data_t_class.cls_sizeof;
        parsec_data_t_class.cls_sizeof += sizeof(parsec_data_copy_t *) * MAXDEV;
    }
    parsec_nb_devices = (uint32_t)n;
}

parsec_data_t *shim_data_new(void) { return parsec_data_new(); }
parsec_data_copy_t *shim_copy_new(parsec_data_t *d, int dev, void *payload) {
    parsec_data_copy_t *c = parsec_data_copy_new(d, (uint8_t)dev, PARSEC_DATATYPE_NULL, 0);
    if (NULL != c) c->device_private = payload;
    return c;
}
/* release everything: copies are detached first; parsec_data_destruct must not look devices up (no device modules
 * are registered in this harness), so it runs with parsec_nb_devices == 0 */
void shim_data_free(parsec_data_t *d, int ndev) {
    for (int i = 0; i < ndev; i++) {
        parsec_data_copy_t *c = d->device_copies[i];
        if (NULL == c) continue;
        parsec_data_copy_detach(d, c, (uint8_t)i);
        PARSEC_OBJ_RELEASE(c);
    }
    uint32_t keep = parsec_nb_devices;
    parsec_nb_devices = 0;
    PARSEC_OBJ_RELEASE(d);
    parsec_nb_devices = keep;
}
void shim_lock(parsec_data_t *d) { parsec_atomic_lock(&d->lock); }
void shim_unlock(parsec_data_t *d) { parsec_atomic_unlock(&d->lock); }
int shim_start(parsec_data_t *d, int dev, int mode) { return parsec_data_start_transfer_ownership_to_copy(d, (uint8_t)dev, (uint8_t)mode); }
void shim_end(parsec_data_t *d, int dev, int mode) { parsec_data_end_transfer_ownership_to_copy(d, (uint8_t)dev, (uint8_t)mode); }
int shim_both(parsec_data_t *d, int dev, int mode) { return parsec_data_transfer_ownership_to_copy(d, (uint8_t)dev, (uint8_t)mode); }

int shim_owner(parsec_data_t *d) { return d->owner_device; }
void shim_set_owner(parsec_data_t *d, int o) { d->owner_device = (int8_t)o; }
int shim_nb_copies(parsec_data_t *d) { return d->nb_copies; }
parsec_data_copy_t *shim_copy(parsec_data_t *d, int dev) { return d->device_copies[dev]; }
int shim_coh(parsec_data_copy_t *c) { return c->coherency_state; }
void shim_set_coh(parsec_data_copy_t *c, int s) { c->coherency_state = (parsec_data_coherency_t)s; }
unsigned shim_version(parsec_data_copy_t *c) { return c->version; }
void shim_set_version(parsec_data_copy_t *c, unsigned v) { c->version = v; }
int shim_readers(parsec_data_copy_t *c) { return c->readers; }
void shim_release_reader(parsec_data_copy_t *c) { parsec_atomic_fetch_dec_int32(&c->readers); }
void shim_add_reader(parsec_data_copy_t *c) { parsec_atomic_fetch_inc_int32(&c->readers); }
int shim_status(parsec_data_copy_t *c) { return c->data_transfer_status; }
void shim_set_status(parsec_data_copy_t *c, int s) { c->data_transfer_status = (parsec_data_status_t)s; }
void *shim_payload(parsec_data_copy_t *c) { return c->device_private; }
int shim_copy_device(parsec_data_copy_t *c) { return c->device_index; }

int shim_INVALID(void) { return PARSEC_DATA_COHERENCY_INVALID; }
int shim_OWNED(void) { return PARSEC_DATA_COHERENCY_OWNED; }
int shim_EXCLUSIVE(void) { return PARSEC_DATA_COHERENCY_EXCLUSIVE; }
int shim_SHARED(void) { return PARSEC_DATA_COHERENCY_SHARED; }
int shim_READ(void) { return PARSEC_FLOW_ACCESS_READ; }
int shim_WRITE(void) { return PARSEC_FLOW_ACCESS_WRITE; }
int shim_ST_NOT(void) { return PARSEC_DATA_STATUS_NOT_TRANSFER; }
int shim_ST_UNDER(void) { return PARSEC_DATA_STATUS_UNDER_TRANSFER; }
int shim_ST_COMPLETE(void) { return PARSEC_DATA_STATUS_COMPLETE_TRANSFER; }
