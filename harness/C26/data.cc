// C26 -- Data copy ownership transfers keep one consistent newest version.
//
// A parsec_data_t with 2..3 device copies is built by the harness (shim.c); a case is an initial configuration and a
// history of accesses (device, mode in {R, W, RW}).  Every access is executed the way the device layer does it
// (parsec_device_data_stage_in / complete_push / the CPU hooks):
//     lock; from = parsec_data_start_transfer_ownership_to_copy(data, dev, mode);
//     from >= 0 : copy the payload from copy[from], version = source version (+1 for a write), UNDER_TRANSFER ...
//                 COMPLETE_TRANSFER, parsec_data_end_transfer_ownership_to_copy
//     from == -1: COMPLETE_TRANSFER, parsec_data_end_transfer_ownership_to_copy, a write sets version = newest + 1
//     unlock; the task reads / overwrites the payload; a reading access releases its reader afterwards.
// Model: per copy (has data, version, payload value); newest = highest version among copies with data.
// Oracle after every call: at most one copy OWNED and owner_device names it; from >= 0 iff the access reads and the
// target is not up to date; copy[from] holds the newest version (model and actual); after W/RW owner_device == dev and
// the copy is OWNED; the payload a reading access sees is the newest payload; readers are back to 0 after release.
//
// Case text:  "D <ndev> <init> <owner_read_fast>" then "A <dev> <R|W|RW>" lines.
//   init 1: collection data as parsec_data_create leaves it (copy 0 OWNED, version 0, owner_device 0, others INVALID)
//   init 2: new arena data (owner_device 0, every copy INVALID): nothing to read before the first write
//   init 3: parsec_data_new + parsec_data_copy_new only (owner_device -1, every copy INVALID)
//   owner_read_fast 1: a read-only access by the device whose copy is OWNED does not call the ownership functions
//   (parsec_device_data_stage_in's "data already located in the right place" path: readers++ only).  0: it does.
//   2: it does, and the history stops (counted, label known_C26-K1_reached_history_truncated) at the access where known
//   finding C26-K1 manifests -- a reading access to a stale but not INVALID copy is told "no transfer" while the owner's
//   copy was demoted from OWNED by its own read -- so everything else on such histories is still checked.
#include <algorithm>
#include <functional>
#include <unistd.h>
#include "vf.hpp"
#define CRASHNOTE_NO_ASSERT_HOOK
#include "crashnote.hpp"
#include <rapidcheck.h>

extern "C" {
struct parsec_data_s; struct parsec_data_copy_s;
typedef struct parsec_data_s parsec_data_t; typedef struct parsec_data_copy_s parsec_data_copy_t;
void shim_set_devices(int n);
parsec_data_t *shim_data_new(void);
parsec_data_copy_t *shim_copy_new(parsec_data_t *d, int dev, void *payload);
void shim_data_free(parsec_data_t *d, int ndev);
void shim_lock(parsec_data_t *d); void shim_unlock(parsec_data_t *d);
int shim_start(parsec_data_t *d, int dev, int mode); void shim_end(parsec_data_t *d, int dev, int mode);
int shim_both(parsec_data_t *d, int dev, int mode);
int shim_owner(parsec_data_t *d); void shim_set_owner(parsec_data_t *d, int o); int shim_nb_copies(parsec_data_t *d);
parsec_data_copy_t *shim_copy(parsec_data_t *d, int dev);
int shim_coh(parsec_data_copy_t *c); void shim_set_coh(parsec_data_copy_t *c, int s);
unsigned shim_version(parsec_data_copy_t *c); void shim_set_version(parsec_data_copy_t *c, unsigned v);
int shim_readers(parsec_data_copy_t *c); void shim_release_reader(parsec_data_copy_t *c); void shim_add_reader(parsec_data_copy_t *c);
int shim_status(parsec_data_copy_t *c); void shim_set_status(parsec_data_copy_t *c, int s);
void *shim_payload(parsec_data_copy_t *c);
int shim_INVALID(void); int shim_OWNED(void); int shim_EXCLUSIVE(void); int shim_SHARED(void);
int shim_READ(void); int shim_WRITE(void); int shim_ST_NOT(void); int shim_ST_UNDER(void); int shim_ST_COMPLETE(void);
}

typedef std::vector<long> Words;
struct Acc { int dev; int mode; };       // mode: 1 = R, 2 = W, 3 = RW
struct Case {
    int ndev = 2, init = 1, fast = 1; std::vector<Acc> h;
    std::string repr() const {
        std::ostringstream o; o << "D " << ndev << " " << init << " " << fast << "\n";
        for (auto &a : h) o << "A " << a.dev << " " << (a.mode == 1 ? "R" : a.mode == 2 ? "W" : "RW") << "\n";
        return o.str();
    }
};

static std::string g_current;            // case being executed: an assert inside libparsec is recorded against it
static int g_step = -1;
// PaRSEC's asserts are on in the instrumented tree; a failing one is a finding about the case, not a harness crash
extern "C" void __assert_fail(const char *assertion, const char *file, unsigned int line, const char *function) {
    std::string m = "after " + std::to_string(g_step) + " accesses the next call fired assert(" + std::string(assertion) + ") at " + (strrchr(file, '/') ? strrchr(file, '/') + 1 : file) + ":" + std::to_string(line) + " in " + function;
    vf::record_failure(g_current, m);
    vf::dump();
    fprintf(stderr, "ASSERT: %s\n", m.c_str());
    _exit(1);
}

struct Result { std::string err; bool nontrivial = false; std::map<std::string, int> lab; };

static const char *cohname(int c) { return c == shim_INVALID() ? "INVALID" : c == shim_OWNED() ? "OWNED" : c == shim_SHARED() ? "SHARED" : c == shim_EXCLUSIVE() ? "EXCLUSIVE" : "?"; }

static Result run_case(const Case &c) {
    Result R;
    g_current = c.repr(); g_step = 0; crashnote::set(g_current);
    const int n = c.ndev;
    shim_set_devices(n);
    parsec_data_t *data = shim_data_new();
    long *payload[3]; parsec_data_copy_t *cp[3];
    for (int i = 0; i < n; i++) { payload[i] = (long *)malloc(sizeof(long)); *payload[i] = -1000 - i; cp[i] = shim_copy_new(data, i, payload[i]); }
    // model
    bool has[3] = {false, false, false}; unsigned ver[3] = {0, 0, 0}; long val[3] = {-1, -1, -1}; long next_val = 100;
    if (c.init == 1) { shim_set_coh(cp[0], shim_OWNED()); shim_set_owner(data, 0); has[0] = true; val[0] = next_val++; *payload[0] = val[0]; }
    else if (c.init == 2) shim_set_owner(data, 0);
    auto fail = [&](const std::string &m) { if (R.err.empty()) R.err = "access #" + std::to_string(g_step) + ": " + m; };
    auto state = [&]() { std::string s = "owner_device=" + std::to_string(shim_owner(data)); for (int i = 0; i < n; i++) s += " copy" + std::to_string(i) + "=" + cohname(shim_coh(cp[i])) + "/v" + std::to_string(shim_version(cp[i])); return s; };
    auto one_owner = [&](const char *when) {
        int owned = -1, cnt = 0;
        for (int i = 0; i < n; i++) if (shim_coh(cp[i]) == shim_OWNED()) { owned = i; cnt++; }
        if (cnt > 1) { fail(std::string(when) + ": " + std::to_string(cnt) + " copies are OWNED (" + state() + ")"); return false; }
        if (cnt == 1 && shim_owner(data) != owned) { fail(std::string(when) + ": copy " + std::to_string(owned) + " is OWNED but owner_device = " + std::to_string(shim_owner(data)) + " (" + state() + ")"); return false; }
        return true;
    };
    int ndev_used = 0, wrote_dev = -1; bool w_then_r_other = false; bool used[3] = {false, false, false};
    for (size_t k = 0; k < c.h.size() && R.err.empty(); k++) {
        g_step = (int)k;
        int d = c.h[k].dev, m = c.h[k].mode;
        bool reads = m & 1, writes = m & 2;
        unsigned newest = 0; bool any = false;
        for (int i = 0; i < n; i++) if (has[i]) { if (!any || ver[i] > newest) newest = ver[i]; any = true; }
        if (reads && !any) { if (!writes) { R.lab["read_without_any_data_skipped"]++; continue; } reads = false; m = 2; R.lab["rw_without_any_data_made_w"]++; }
        bool uptodate = has[d] && ver[d] == newest;
        int mode = (reads ? shim_READ() : 0) | (writes ? shim_WRITE() : 0);
        if (!used[d]) { used[d] = true; ndev_used++; }
        long newest_val = -1; for (int i = 0; i < n; i++) if (has[i] && ver[i] == newest) newest_val = val[i];

        if (c.fast == 1 && reads && !writes && shim_owner(data) == d && shim_coh(cp[d]) == shim_OWNED()) {
            // data already in the right place: no ownership call, the task only pins its copy
            R.lab["owner_read_fast_path"]++;
            if (!uptodate) fail("the OWNED copy of the owner device is not the newest version in the model (" + state() + ")");
            shim_add_reader(cp[d]);
            if (*payload[d] != newest_val) fail("owner reads payload " + std::to_string(*payload[d]) + ", newest is " + std::to_string(newest_val));
            shim_release_reader(cp[d]);
            continue;
        }
        bool expect_transfer = reads && !uptodate;
        if (d == 0 && writes && !expect_transfer && (k % 2) == 0) {
            // the CPU hooks (generated PTG code, DTD) use the combined call and then bump the version of their copy
            R.lab["combined_call_dev0"]++;
            int tr = shim_both(data, d, mode);
            if (tr != -1) { fail("parsec_data_transfer_ownership_to_copy requests a transfer from " + std::to_string(tr) + " although the target is up to date or the access does not read (" + state() + ")"); break; }
            shim_set_version(cp[d], any ? newest + 1 : 1);
            if (!one_owner("after transfer_ownership_to_copy")) break;
            if (reads && *payload[d] != newest_val) { fail("access reads payload " + std::to_string(*payload[d]) + " but the newest version holds " + std::to_string(newest_val)); break; }
            val[d] = next_val++; *payload[d] = val[d]; has[d] = true; ver[d] = any ? newest + 1 : 1;
            if (shim_owner(data) != d || shim_coh(cp[d]) != shim_OWNED()) { fail("after a write access through the combined call the target is not the OWNED owner (" + state() + ")"); break; }
            if (reads) { if (shim_readers(cp[d]) != 1) { fail("combined call: readers = " + std::to_string(shim_readers(cp[d])) + ", expected 1"); break; } shim_release_reader(cp[d]); }
            wrote_dev = d;
            continue;
        }
        shim_lock(data);
        int from = shim_start(data, d, mode);
        if (!one_owner("after start_transfer")) { shim_unlock(data); break; }
        if (expect_transfer && from < 0 && c.fast == 2 && shim_coh(cp[d]) != shim_INVALID() && shim_owner(data) >= 0 && shim_owner(data) < n
            && shim_coh(cp[shim_owner(data)]) != shim_OWNED()) {
            R.lab["known_C26-K1_reached_history_truncated"]++; shim_unlock(data); break;
        }
        if (expect_transfer && from < 0) { fail("no transfer requested although copy " + std::to_string(d) + " (v" + std::to_string(shim_version(cp[d])) + ") is not up to date: newest is v" + std::to_string(newest) + " (" + state() + ")"); shim_unlock(data); break; }
        if (!expect_transfer && from >= 0) { fail(std::string("transfer from copy ") + std::to_string(from) + " requested although " + (reads ? "the target is up to date" : "the access does not read") + " (" + state() + ")"); shim_unlock(data); break; }
        if (from >= 0) {
            if (from >= n || from == d || !has[from] || ver[from] != newest) { fail("transfer source " + std::to_string(from) + " does not hold the newest version v" + std::to_string(newest) + " (" + state() + ")"); shim_unlock(data); break; }
            if (shim_coh(cp[from]) == shim_INVALID() || shim_version(cp[from]) != newest) { fail("transfer source copy " + std::to_string(from) + " is " + cohname(shim_coh(cp[from])) + "/v" + std::to_string(shim_version(cp[from])) + ", newest is v" + std::to_string(newest)); shim_unlock(data); break; }
            if (shim_coh(cp[d]) != shim_INVALID()) { fail("destination of a pending transfer is not INVALID"); shim_unlock(data); break; }
            R.lab[from == 0 ? "transfer_from_dev0" : "transfer_from_other"]++;
            *payload[d] = *payload[from];                                       // the stage_in copy
            shim_set_version(cp[d], shim_version(cp[from]) + (writes ? 1 : 0));
            shim_set_status(cp[d], shim_ST_UNDER());
            has[d] = true; ver[d] = ver[from]; val[d] = val[from];
            shim_set_status(cp[d], shim_ST_COMPLETE());                         // complete_push
            shim_end(data, d, mode);
        } else {
            R.lab[reads ? "read_no_transfer" : "write_only"]++;
            shim_set_status(cp[d], shim_ST_COMPLETE());
            shim_end(data, d, mode);
            if (writes) shim_set_version(cp[d], any ? newest + 1 : 1);      // candidate->version + 1
        }
        shim_unlock(data);
        if (!one_owner("after end_transfer")) break;
        if (shim_coh(cp[d]) == shim_INVALID()) { fail("the accessed copy is INVALID after the access completed its transfer (" + state() + ")"); break; }
        // the task body
        if (reads) {
            if (*payload[d] != newest_val) { fail("access reads payload " + std::to_string(*payload[d]) + " but the newest version holds " + std::to_string(newest_val) + " (" + state() + ")"); break; }
            if (wrote_dev >= 0 && wrote_dev != d) w_then_r_other = true;
        }
        if (writes) {
            val[d] = next_val++; *payload[d] = val[d]; has[d] = true; ver[d] = any ? newest + 1 : 1;
            if (shim_owner(data) != d) { fail("after a write access owner_device = " + std::to_string(shim_owner(data)) + ", expected " + std::to_string(d) + " (" + state() + ")"); break; }
            if (shim_coh(cp[d]) != shim_OWNED()) { fail(std::string("after a write access the target copy is ") + cohname(shim_coh(cp[d])) + ", expected OWNED (" + state() + ")"); break; }
            if (shim_version(cp[d]) != ver[d]) { fail("version bookkeeping of the harness diverged"); break; }
            wrote_dev = d;
        }
        // completion: release the reader taken by start_transfer
        if (reads) {
            if (shim_readers(cp[d]) != 1) { fail("a reading access holds " + std::to_string(shim_readers(cp[d])) + " readers on its copy, expected 1"); break; }
            shim_release_reader(cp[d]);
        }
        for (int i = 0; i < n; i++) if (shim_readers(cp[i]) != 0) { fail("copy " + std::to_string(i) + " has " + std::to_string(shim_readers(cp[i])) + " readers after every access completed"); break; }
        if (shim_nb_copies(data) != n) fail("nb_copies changed");
    }
    g_step = (int)c.h.size();
    R.nontrivial = c.h.size() >= 3 && ndev_used >= 2 && w_then_r_other;
    shim_data_free(data, n);
    for (int i = 0; i < n; i++) free(payload[i]);
    return R;
}

static void note(const Case &c, const Result &r) {
    vf::note_case(c.repr(), r.nontrivial);
    for (auto &kv : r.lab) if (kv.second) vf::label(kv.first, (uint64_t)kv.second);
}

static int g_fast = 1;

static Case from_words(const Words &w) {
    Case c; c.fast = g_fast;
    if (w.size() < 2) return c;
    c.ndev = 2 + (int)(w[0] % 2);
    { static const int im[4] = {1, 1, 2, 3}; c.init = im[w[1] % 4]; }
    for (size_t i = 2; i < w.size() && c.h.size() < 40; i++) c.h.push_back({(int)(w[i] % c.ndev), 1 + (int)((w[i] / 4) % 3)});
    return c;
}

static bool parse_case(const std::string &txt, Case *c) {
    std::istringstream in(txt); std::string line; bool have = false;
    while (std::getline(in, line)) {
        if (line.empty() || line[0] == '#') continue;
        std::istringstream ls(line); std::string k; ls >> k;
        if (k == "D") { ls >> c->ndev >> c->init >> c->fast; have = true; }
        else if (k == "A") { Acc a; std::string m; ls >> a.dev >> m; a.mode = m == "R" ? 1 : m == "W" ? 2 : 3; c->h.push_back(a); }
    }
    if (!have || c->ndev < 2 || c->ndev > 3 || c->init < 1 || c->init > 3) return false;
    for (auto &a : c->h) if (a.dev < 0 || a.dev >= c->ndev) return false;
    return true;
}

static uint64_t exh_count = 0;
static bool exh_rec(Case &c, int L, std::string *bad) {
    if (!c.h.empty()) {
        Result r = run_case(c); note(c, r); exh_count++;
        if (!r.err.empty()) { *bad = r.err; vf::record_failure(c.repr(), r.err); return false; }
    }
    if ((int)c.h.size() == L) return true;
    for (int d = 0; d < c.ndev; d++) for (int m = 1; m <= 3; m++) {
        c.h.push_back({d, m});
        if (!exh_rec(c, L, bad)) return false;
        c.h.pop_back();
    }
    return true;
}

int main(int argc, char **argv) {
    std::string mode = argc > 1 ? argv[1] : "rc";
    { const char *e = getenv("C26_OWNER_READ_VIA_TRANSFER"); if (e && *e == '1') g_fast = 0; if (e && *e == '2') g_fast = 2; }
    if (mode == "replay") {
        Case c; if (!parse_case(vf::slurp(argv[2]), &c)) { printf("REPLAY-FAIL unparsable\n"); return 1; }
        Result r = run_case(c);
        if (r.err.empty()) { printf("REPLAY-PASS\n"); return 0; }
        printf("REPLAY-FAIL %s\n", r.err.c_str()); return 1;
    }
    crashnote::install();
    if (mode == "exh") {         // exh ndev init L firstdev firstmode   (the first access fixes the partition)
        Case c; c.ndev = atoi(argv[2]); c.init = atoi(argv[3]); c.fast = g_fast; int L = atoi(argv[4]);
        std::string bad; bool ok;
        if (argc > 6) { c.h.push_back({atoi(argv[5]), atoi(argv[6])}); ok = exh_rec(c, L, &bad); }
        else ok = exh_rec(c, L, &bad);
        vf::R().extra["exhaustive_histories"] = std::to_string(exh_count);
        vf::dump(); return ok ? 0 : 1;
    }
    bool ok = rc::check("ownership transfers == version model after every call", []() {
        const auto len = *rc::gen::inRange<int>(0, 24);
        Words w = *rc::gen::container<Words>((size_t)(2 + len), rc::gen::resize(100, rc::gen::inRange<long>(0, 4096)));
        Case c = from_words(w);
        Result r = run_case(c);
        note(c, r);
        if (!r.err.empty()) { vf::record_failure(c.repr(), r.err); RC_FAIL(r.err); }
    });
    vf::dump();
    return ok ? 0 : 1;
}
