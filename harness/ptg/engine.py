"""Driver side of engine E5: fan ptgworker.py out over processes, merge reports, fill core.Result."""
import json
import os
import subprocess
import sys

from vf import core

HERE = os.path.dirname(os.path.abspath(__file__))
WORKER = os.path.join(HERE, "ptgworker.py")

RULES = {
    "C01": "non-trivial = >= 2 task classes connected by >= 1 edge, >= 8 task instances, and one of {step != 1, dependent range, guarded edge, local-index parameter, CTL gather, startup chunking set}",
    "C02": "non-trivial = >= 2 threads, >= 8 instances, a data edge, and one of {ternary routing, fan-out, RW chain}",
    "C16": "non-trivial = some class returns AGAIN before completing and has successors (>= 4 instances), or startup chunking set with >= 9 instances",
    "C23": "non-trivial = >= 12 instances, a class with >= 2 parameters, and one of {negative bound, step != 1, dependent range}",
    "C05": "non-trivial = >= 2 ranks, >= 6 instances, >= 1 edge",
}


def prebuild():
    core.ensure_tree("hooks")
    sys.path.insert(0, HERE)
    import ptgrun
    ptgrun.support_obj()


def run(prop, profile, tier, seed, res, props=None, workers=16, structures=None, instances=None, extra=()):
    prebuild()
    quick = tier == "quick"
    structures = structures or (5 if quick else 60)
    instances = instances or (10 if quick else 24)
    rd = core.run_dir(prop)
    jobs = []
    for i in range(workers):
        out = os.path.join(rd, "rep%d.json" % i)
        jobs.append(dict(cmd=["python3-vt", WORKER, "--props", ",".join(props or [prop]), "--profile", profile, "--seed", str(seed * 1009 + i),
                              "--structures", str(structures), "--instances", str(instances), "--shrink-budget", "8" if quick else "30",
                              "--out", out] + list(extra), tag="ptg", out=out))
    wr = core.run_workers(prop, jobs, san=False)
    hashes = set()
    labels = {}
    res.samples = []
    inconcl = 0
    for j in jobs:
        if not os.path.exists(j["out"]):
            continue
        rep = json.load(open(j["out"]))
        res.evaluations += rep["evaluations"]
        hashes.update(rep["nontrivial"])
        inconcl += rep.get("inconclusive", 0)
        for k, v in rep["labels"].items():
            labels[k] = labels.get(k, 0) + v
        labels["structures"] = labels.get("structures", 0) + rep.get("structures", 0)
        for s in rep["samples"]:
            if len(res.samples) < 6:
                res.samples.append(s)
        f = rep.get("failure")
        if f:
            if f["prop"] == "GEN":
                res.inconclusive = "generator produced an inconsistent program (machinery bug, not a verdict): " + f["msg"][:300]
                continue
            res.violations.append(core.Violation("[%s] %s" % (f["prop"], f["msg"]), replay_text=json.dumps(f["replay"], indent=1), ext="json"))
    for c in wr.crashes:
        # the worker itself died (python error): machinery problem
        if not os.path.exists(jobs[c["worker"]]["out"]):
            res.inconclusive = "worker %d died: %s" % (c["worker"], c["log_tail"][-400:])
    res.distinct_nontrivial = len(hashes)
    res.coverage["labels"] = labels
    res.coverage["inconclusive_timeouts"] = inconcl
    res.rule = ("case = (abstract PTG program built by construction from edge templates [identity, shift, fan-out, binary tree down/up, "
                "parity ternary routing, transpose, CTL gather, RW chains] over 1-D/2-D rectangular/triangular parameter spaces with "
                "positive/negative/inline-C steps, local-index parameters, derived locals, priorities; dependency back-end; globals; "
                "scheduler; threads; startup MCA parameters), compiled with the tree's parsec-ptgpp and run; oracle = reference "
                "interpreter of the abstract program (independent of ptgpp); " + RULES.get(prop, "") + "; distinct = distinct (program, "
                "globals, configuration) values")
    res.assumptions = ["bodies are test-owned and only log/compute; no two tasks may race on a tile by construction of the generator",
                       "hangs are decided by the in-process watchdog (no progress while the reference says work is missing, 3 tries with doubled window), never by a plain timeout"]


def known_findings(prop, res, replay_props):
    """Replay listed known findings: print KNOWN-FINDING when they still reproduce."""
    for f in core.known_for(prop):
        rp = f.get("replay")
        if not rp:
            continue
        p = subprocess.run(["python3-vt", WORKER, "--props", ",".join(replay_props), "--replay", os.path.join(core.VERIF, rp)],
                           stdout=subprocess.PIPE, stderr=subprocess.STDOUT, text=True,
                           env=dict(os.environ, PTG_INCLUDE_KNOWN="1", PTG_REPLAY_RUNS=str(f.get("tries", 3))))     # the replay of a known finding must not be excluded itself
        if "REPLAY-FAIL" in p.stdout:
            res.known.append("%s: %s" % (f["id"], f["what"]))
        elif f.get("timing_dependent"):
            # a listed finding that needs a particular timing is still announced; whether this run reproduced it is recorded
            res.known.append("%s: %s (timing dependent: not reproduced in %d runs of its replay this time)" % (f["id"], f["what"], f.get("tries", 3)))
            res.coverage.setdefault("known_findings_not_reproduced", []).append(f["id"])
        else:
            res.coverage.setdefault("known_findings_not_reproduced", []).append(f["id"])


def regressions(prop, res, replay_props):
    """Replay the regression corpus (fixed defects and earlier counterexamples): any failure is a violation."""
    import glob
    known = set(os.path.join(core.VERIF, f.get("replay", "")) for f in core.known_for(prop))
    for path in sorted(glob.glob(os.path.join(core.VERIF, "corpus", prop, "regress", "*.json"))):
        if path in known:
            continue
        p = subprocess.run(["python3-vt", WORKER, "--props", ",".join(replay_props), "--replay", path], stdout=subprocess.PIPE, stderr=subprocess.STDOUT, text=True)
        res.coverage["regression_replays"] = res.coverage.get("regression_replays", 0) + 1
        if "REPLAY-FAIL" in p.stdout:
            res.violations.append(core.Violation("regression case fails: " + p.stdout[-500:], replay_path=path))


def replay(path, props):
    p = subprocess.run(["python3-vt", WORKER, "--props", ",".join(props), "--replay", path], stdout=subprocess.PIPE, stderr=subprocess.STDOUT, text=True)
    return "REPLAY-PASS" in p.stdout, p.stdout[-1500:]
