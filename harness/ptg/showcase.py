#!/usr/bin/env python3
"""Print the JDF (bodies elided) and instance of a replay file."""
import json, re, sys, os
sys.path.insert(0, os.path.dirname(os.path.abspath(__file__)))
import ptgworker, ptggen
case = json.load(open(sys.argv[1]))
prog = ptgworker.prog_from_json(case['program'])
print("G", case.get('G'), "cfg", case.get('cfg'), case.get('backend'), "dynamic" if case.get("dynamic") else "")
txt = ptggen.emit_jdf(prog, 'x', {})
txt = re.sub(r"BODY.*?END", "BODY..END", txt[txt.index('T0('):], flags=re.S)
print(re.sub(r"\n\n+", "\n", txt))
