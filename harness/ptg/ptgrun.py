"""Compile abstract PTG programs with the tree's parsec-ptgpp + cc, run them, parse the logs, apply the oracles."""
import hashlib
import os
import re
import shutil
import subprocess
import sys

HERE = os.path.dirname(os.path.abspath(__file__))
sys.path.insert(0, os.path.join(os.path.dirname(os.path.dirname(HERE)), "lib", "py"))
from vf import core  # noqa: E402

import ptggen  # noqa: E402
from ptgstrat import layout_globals  # noqa: E402

TREE = "hooks"


class CompileError(Exception):
    def __init__(self, stage, log):
        Exception.__init__(self, "%s failed" % stage)
        self.stage, self.log = stage, log


def tree_paths():
    d = core.tree_dir(TREE)
    return d, os.path.join(d, "parsec", "interfaces", "ptg", "ptg-compiler", "parsec-ptgpp")


def support_obj():
    """vs_support.o for the tree (rebuilt when the source or libparsec changes)."""
    core.ensure_tree(TREE)
    inc, defs, libs, san = core.tree_flags(TREE)
    out = os.path.join(core.WORK, "harness", TREE, "ptg", "vs_support.o")
    os.makedirs(os.path.dirname(out), exist_ok=True)
    src = os.path.join(HERE, "vs_support.c")
    libso = os.path.join(core.tree_dir(TREE), "parsec", "libparsec.so")
    with core._Lock(out + ".lock"):
        if (not os.path.exists(out)) or os.path.getmtime(out) < max(os.path.getmtime(src), os.path.getmtime(os.path.join(HERE, "vs_support.h")), os.path.getmtime(libso)):
            cmd = ["gcc", "-std=gnu11", "-c", src, "-o", out, "-I" + HERE] + [d for d in defs if d != "-DBUILDING_PARSEC"] + inc
            p = subprocess.run(cmd, stdout=subprocess.PIPE, stderr=subprocess.STDOUT, text=True)
            if p.returncode != 0:
                raise core.BuildError("vs_support.c does not compile against the tree: " + p.stdout[-2000:])
    return out


def compile_program(prog, workdir, name, backend="dynamic-hash-table", dynamic=False, extra_ptgpp=()):
    """-> path of the executable.  Raises CompileError (stage 'ptgpp' or 'cc')."""
    os.makedirs(workdir, exist_ok=True)
    d, ptgpp = tree_paths()
    inc, defs, libs, san = core.tree_flags(TREE)
    jdf = os.path.join(workdir, name + ".jdf")
    with open(jdf, "w") as f:
        f.write(ptggen.emit_jdf(prog, name, {}))
    with open(os.path.join(workdir, name + "_main.c"), "w") as f:
        f.write(ptggen.emit_main(prog, name))
    cmd = [ptgpp, "-E", "-i", name + ".jdf", "-o", name, "-M", backend, "--noline"] + (["-D"] if dynamic else []) + list(extra_ptgpp)
    p = subprocess.run(cmd, cwd=workdir, stdout=subprocess.PIPE, stderr=subprocess.STDOUT, text=True, errors="replace")
    if p.returncode != 0 or not os.path.exists(os.path.join(workdir, name + ".c")):
        raise CompileError("ptgpp", p.stdout[-3000:])
    warn = p.stdout
    exe = os.path.join(workdir, name)
    cdefs = [x for x in defs if x != "-DBUILDING_PARSEC"]
    cmd = ["gcc", "-std=gnu11", "-w", name + ".c", name + "_main.c", support_obj(), "-o", exe, "-I" + HERE, "-I."] + cdefs + inc + libs
    p = subprocess.run(cmd, cwd=workdir, stdout=subprocess.PIPE, stderr=subprocess.STDOUT, text=True, errors="replace")
    if p.returncode != 0:
        raise CompileError("cc", p.stdout[-3000:])
    return exe, warn


class Rec:
    __slots__ = ("cls", "params", "th", "sin", "sout", "again", "ins", "key", "keystr", "rank")


LINE = re.compile(r'^E (\d+) (\d+)((?: -?\d+)*) th (-?\d+) in (-?\d+) out (-?\d+) again (\d+) nin (\d+)((?: \d+:\d+)*)(?: key (\d+) "(.*)")?$')


def parse_log(path, rank):
    recs, notes, status = [], [], None
    if not os.path.exists(path):
        return None, [], []
    for line in open(path, errors="replace"):
        line = line.rstrip("\n")
        if line.startswith("E "):
            m = LINE.match(line)
            if not m:
                notes.append("UNPARSED " + line)
                continue
            r = Rec()
            r.cls = int(m.group(1))
            r.params = tuple(int(x) for x in m.group(3).split())
            r.th, r.sin, r.sout, r.again = int(m.group(4)), int(m.group(5)), int(m.group(6)), int(m.group(7))
            r.ins = [(int(a), int(b)) for a, b in (x.split(":") for x in m.group(9).split())]
            r.key = int(m.group(10)) if m.group(10) else None
            r.keystr = m.group(11)
            r.rank = rank
            recs.append(r)
        elif line.startswith("STATUS "):
            status = line.split()[1]
        else:
            notes.append(line)
    return status, recs, notes


class RunResult:
    def __init__(self):
        self.rc = None
        self.timeout = False
        self.status = {}     # rank -> status string
        self.recs = []
        self.notes = {}      # rank -> list
        self.stderr = ""


def write_instance(path, prog, Gfull, ntd, nte, nthreads, tq_ms, ts, expected, rank_table, erank_table=()):
    vals = [nthreads, tq_ms, ts, ntd, nte, len(prog.globals)] + [Gfull[g] for g in prog.globals]
    vals += [len(expected)] + list(expected)
    vals += [len(rank_table)] + list(rank_table)
    vals += [len(erank_table)] + list(erank_table)
    with open(path, "w") as f:
        f.write(" ".join(str(v) for v in vals) + "\n")


def run_instance(exe, workdir, tag, prog, Gfull, ntd, nte, cfg, expected, rank_table, timeout=60, erank_table=()):
    """cfg: dict(threads, sched, ranks, ts, tq_ms, env extra)."""
    inst = os.path.join(workdir, tag + ".inst")
    logp = os.path.join(workdir, tag + ".log")
    P = cfg.get("ranks", 1)
    write_instance(inst, prog, Gfull, ntd, nte, cfg["threads"], cfg.get("tq_ms", 5000), cfg.get("ts", 4), expected, rank_table, erank_table)
    env = dict(os.environ)
    env.update(core.MPI_ENV)
    env["PARSEC_MCA_mca_sched"] = cfg.get("sched", "lfq")
    for k, v in cfg.get("mca", {}).items():
        env["PARSEC_MCA_" + k] = str(v)
    cmd = [exe, inst, logp]
    if P > 1:
        cmd = ["mpiexec", "--oversubscribe", "-n", str(P)] + cmd
    for r in range(P):
        try:
            os.unlink("%s.%d" % (logp, r))
        except OSError:
            pass
    rr = RunResult()
    try:
        p = subprocess.run(cmd, cwd=workdir, env=env, stdout=subprocess.PIPE, stderr=subprocess.STDOUT, text=True, errors="replace", timeout=timeout)
        rr.rc = p.returncode
        rr.stderr = p.stdout[-2500:]
    except subprocess.TimeoutExpired as e:
        rr.timeout = True
        rr.stderr = (e.stdout or b"")[-1500:].decode(errors="replace") if isinstance(e.stdout, bytes) else str(e.stdout)[-1500:]
        subprocess.run(["pkill", "-9", "-f", inst], stdout=subprocess.DEVNULL, stderr=subprocess.DEVNULL)
    for r in range(P):
        st, recs, notes = parse_log("%s.%d" % (logp, r), r)
        rr.status[r] = st
        rr.recs += recs
        rr.notes[r] = notes
    return rr


def keystr_ok(prog, ci, params, s):
    """printed key names the instance's parameter values: 'Name(v1, v2)' in parameter-list order (or any
    permutation listing exactly the parameter values with the class name -- the statement only says it names them)."""
    m = re.match(r"^\s*([A-Za-z_0-9]+)\s*\((.*)\)\s*$", s or "")
    if not m:
        return False, "unparsable"
    try:
        vals = [int(x) for x in m.group(2).split(",") if x.strip() != ""]
    except ValueError:
        return False, "non-integer"
    if m.group(1) != prog.classes[ci].name:
        return False, "wrong class name"
    if tuple(vals) == tuple(params):
        return True, "param_order"
    if sorted(vals) == sorted(params):
        return True, "other_order"
    return False, "values differ"


def judge(prog, ref, rr, cfg, props):
    """Apply the oracles.  Returns list of (prop, message)."""
    out = []
    P = cfg.get("ranks", 1)
    # group records per instance
    by_inst = {}
    for r in rr.recs:
        by_inst.setdefault((r.cls, r.params), []).append(r)
    # expected instances
    expected = {}
    for ci in range(len(prog.classes)):
        for idx in ref.spaces[ci]:
            expected[(ci, prog.params_of(ci, idx, ref.G))] = idx
    done = {}
    for key, lst in by_inst.items():
        lst.sort(key=lambda r: r.sin)
        d = [r for r in lst if not r.again]
        done[key] = d
    hang = any(s == "QUIESCENT-INCOMPLETE" for s in rr.status.values())
    # ---- C01 exactly once, on the right rank
    msgs01 = []
    for key, idx in expected.items():
        d = done.get(key, [])
        if len(d) == 0:
            msgs01.append("%s%s never ran" % (prog.classes[key[0]].name, key[1]))
        elif len(d) > 1:
            msgs01.append("%s%s ran %d times" % (prog.classes[key[0]].name, key[1], len(d)))
        elif P > 1 and d[0].rank != ref.rank_of(key[0], idx):
            msgs01.append("%s%s ran on rank %d, placement says %d" % (prog.classes[key[0]].name, key[1], d[0].rank, ref.rank_of(key[0], idx)))
    for key in by_inst:
        if key not in expected:
            msgs01.append("%s%s ran but is not in the execution space" % (prog.classes[key[0]].name if key[0] < len(prog.classes) else "?", key[1]))
    if msgs01:
        tag = "C01"
        out.append((tag, ("runtime quiescent with work missing: " if hang else "") + "; ".join(msgs01[:6]) + (" ... (%d problems)" % len(msgs01) if len(msgs01) > 6 else "")))
    if msgs01:
        return out     # later oracles presuppose exactly-once
    # ---- C02 ordering + values
    msgs02, msgs16 = [], []
    for key, idx in expected.items():
        ci = key[0]
        cls = prog.classes[ci]
        myrecs = by_inst[key]
        d = done[key][0]
        for (pc, pidx) in ref.preds_of[(ci, idx)]:
            pk = (pc, prog.params_of(pc, pidx, ref.G))
            pd = done[pk][0]
            if pd.rank != d.rank:
                continue
            for r in myrecs:
                if not (pd.sout < r.sin):
                    msgs02.append("%s%s started (stamp %d) before its predecessor %s%s completed (stamp %d)" % (cls.name, key[1], r.sin, prog.classes[pc].name, pk[1], pd.sout))
                    break
        want = ref.inval[(ci, idx)]
        got = dict(d.ins)
        for fi, fl in enumerate(cls.flows):
            if fl.access in ("RW", "READ"):
                w = want.get(fl.name)
                g = got.get(fi)
                if w is None:
                    continue
                if g != w:
                    msgs02.append("%s%s flow %s holds %s, reference says %s" % (cls.name, key[1], fl.name, g, w))
        # ---- C16
        wantagain = ptggen.ev(cls.again, prog.idx_env(idx, ref.G)) if cls.again else 0
        nag = sum(1 for r in myrecs if r.again)
        if nag != max(0, wantagain):
            msgs16.append("%s%s returned AGAIN %d times but its body ran %d deferred invocations" % (cls.name, key[1], max(0, wantagain), nag))
        if myrecs[-1].again:
            msgs16.append("%s%s: the completing invocation is not the last one" % (cls.name, key[1]))
    # final collection contents
    evals = {}
    for r, notes in rr.notes.items():
        for n in notes:
            if n.startswith("EVAL "):
                _, k, v = n.split()
                evals[int(k)] = int(v)
    if not rr.timeout and all(s == "FINISHED" for s in rr.status.values()):
        for k in range(ref.nte):
            w = ref.E.get(k, ptggen.e_init(k))
            if evals.get(k) != w:
                msgs02.append("collection E(%d) holds %s at the end, sequential execution gives %s" % (k, evals.get(k), w))
    if msgs02:
        out.append(("C02", "; ".join(msgs02[:5]) + (" ... (%d problems)" % len(msgs02) if len(msgs02) > 5 else "")))
    if msgs16:
        out.append(("C16", "; ".join(msgs16[:5])))
    # ---- C23 keys
    msgs23 = []
    seen = {}
    for key, idx in expected.items():
        d = done[key][0]
        if d.key is None:
            continue
        k2 = (key[0], d.key)
        if k2 in seen and seen[k2] != key[1]:
            msgs23.append("%s%s and %s%s share key %d" % (prog.classes[key[0]].name, seen[k2], prog.classes[key[0]].name, key[1], d.key))
        seen[k2] = key[1]
        ok, how = keystr_ok(prog, key[0], key[1], d.keystr)
        if not ok:
            msgs23.append("printed key %r of %s%s: %s" % (d.keystr, prog.classes[key[0]].name, key[1], how))
    if msgs23:
        out.append(("C23", "; ".join(msgs23[:5])))
    return [(p, m) for (p, m) in out if p in props]
