#!/usr/bin/env python3
"""One worker of engine E5: Hypothesis generates abstract PTG programs + instances; each is compiled,
run and judged.  Writes a JSON report (counts, labels, samples, shrunk failure) to --out.

  ptgworker.py --props C01,C02 --profile c01 --seed 7 --structures 10 --instances 12 --out rep.json
  ptgworker.py --replay case.json --props C01
"""
import argparse
import dataclasses
import hashlib
import json
import os
import shutil
import sys
import time

HERE = os.path.dirname(os.path.abspath(__file__))
sys.path.insert(0, HERE)
sys.path.insert(0, os.path.join(os.path.dirname(os.path.dirname(HERE)), "lib", "py"))

from hypothesis import HealthCheck, Phase, given, seed, settings, strategies as st  # noqa: E402

import ptggen  # noqa: E402
import ptgrun  # noqa: E402
from ptgstrat import build_program, layout_globals, sint, pick  # noqa: E402
from vf import core  # noqa: E402

SCHEDS = ["lfq", "ap", "gd", "ip", "lhq", "ll", "llp", "ltq", "pbq", "rnd", "spq"]

PROFILES = {
    "c01": dict(max_classes=4, again=False),
    "c02": dict(max_classes=4, min_classes=2, again=False),
    "c16": dict(max_classes=3, again=True),
    "c23": dict(max_classes=3, again=False),
    "c05": dict(max_classes=4, min_classes=2, again=False, ranks=True),
}


def prog_to_json(prog):
    d = dataclasses.asdict(prog)
    d["features"] = sorted(prog.features)
    d["layout"] = [list(x) for x in prog.layout]
    return d


def prog_from_json(d):
    def tl(x):
        return [tuple(t) if isinstance(t, list) else t for t in x]
    classes = []
    for c in d["classes"]:
        dims = [ptggen.Dim(**dd) for dd in c["dims"]]
        flows = [ptggen.Flow(**ff) for ff in c["flows"]]
        classes.append(ptggen.TaskClass(c["name"], dims, flows, [tuple(x) for x in c["locals"]], c["place"], c["priority"], c["again"]))
    edges = []
    for e in d["edges"]:
        fwd = [(g, tl(t)) for g, t in e["fwd"]]
        bwd = [(g, tl(t)) for g, t in e["bwd"]]
        edges.append(ptggen.Edge(e["src"], e["sflow"], e["dst"], e["dflow"], fwd, bwd, e["multi"], e["ctl"], e["kind"]))
    p = ptggen.Program(d["globals"], classes, edges, d["ntd_ro"], set(d["features"]))
    p.layout = [tuple(x) for x in d["layout"]]
    return p


class Stats:
    def __init__(self):
        self.evaluations = 0
        self.nontrivial = set()
        self.labels = {}
        self.samples = []
        self.failure = None
        self.inconclusive = 0
        self.structures = 0

    def label(self, k, n=1):
        self.labels[k] = self.labels.get(k, 0) + n


STATS = Stats()


def nontrivial(prop, prog, ref, cfg, G):
    ninst = sum(len(s) for s in ref.spaces)
    f = prog.features
    if prop == "C01":
        return len(prog.classes) >= 2 and len(prog.edges) >= 1 and ninst >= 8 and bool(f & {"step", "dependent_range", "guard", "local_index", "ctl_gather"} or cfg.get("mca", {}).get("task_startup_chunk"))
    if prop == "C02":
        return cfg["threads"] >= 2 and ninst >= 8 and bool(f & {"ternary", "fanout", "chain"}) and any(not e.ctl for e in prog.edges)
    if prop == "C16":
        has_again = any(c.again for c in prog.classes)
        return (has_again and len(prog.edges) >= 1 and ninst >= 4) or (cfg.get("mca", {}).get("task_startup_chunk") is not None and ninst >= 9)
    if prop == "C23":
        return ninst >= 12 and any(len(c.dims) >= 2 for c in prog.classes) and bool(f & {"neg_bound", "step", "dependent_range"})
    if prop == "C05":
        return cfg.get("ranks", 1) >= 2 and ninst >= 6 and len(prog.edges) >= 1
    return ninst >= 4


def run_one(exe, workdir, tag, prog, Guser, cfg, props, backend, dynamic=False):
    """-> (violations [(prop,msg)], status str)"""
    Gfull, ntd, nte = layout_globals(prog, Guser)
    P = cfg.get("ranks", 1)
    rank_table = cfg.get("rank_table") or []
    rank_table = [(rank_table[i % len(rank_table)] % P) for i in range(ntd)] if rank_table else []
    ref = ptggen.Reference(prog, Gfull, ntd, nte, rank_table or None)
    if ref.errors:
        return [("GEN", "generator produced an inconsistent program: " + "; ".join(ref.errors[:3]))], "invalid", ref
    try:
        ref.evaluate()
    except ptggen.ExprError as e:
        return [("GEN", "reference evaluation failed: %s" % e)], "invalid", ref
    if ref.errors:
        return [("GEN", "; ".join(ref.errors[:3]))], "invalid", ref
    if not os.environ.get("PTG_INCLUDE_KNOWN"):
        # known finding C01-K2: a task whose only task-input is a ranged (control gather) dependency over an EMPTY range has
        # no predecessor at all, but its class is not given a startup function: counted, never run.  Excluded by construction.
        for e in prog.edges:
            if e.kind == "ctl_gather":
                for idx in ref.spaces[e.dst]:
                    if not ref.preds_of[(e.dst, idx)]:
                        return [], "excluded_known_empty_gather_range", ref
    erank_table = []
    if P > 1:
        dtab, etab = ref.ownership_tables(P)
        if dtab is None:
            return [], "skipped_remote_reference", ref
        rank_table, erank_table = dtab, etab
    expected = [0] * P
    for ci in range(len(prog.classes)):
        for idx in ref.spaces[ci]:
            expected[ref.rank_of(ci, idx)] += 1
    tries = 0
    max_tries = 1 if STATS.failure is not None else 3     # while shrinking a known failure one detection is enough
    tq = cfg.get("tq_ms", 2000)
    last = None
    while True:
        c2 = dict(cfg)
        c2["tq_ms"] = tq
        rr = ptgrun.run_instance(exe, workdir, tag, prog, Gfull, ntd, nte, c2, expected, rank_table, timeout=max(60, 6 * tq // 1000 + 30), erank_table=erank_table)
        tries += 1
        if rr.timeout:
            return [], "timeout", ref
        hang = any(s == "QUIESCENT-INCOMPLETE" for s in rr.status.values())
        crashed = (not hang) and (rr.rc != 0 or any(s != "FINISHED" for s in rr.status.values()))
        if crashed:
            key = [l for l in rr.stderr.splitlines() if any(w in l for w in ("Assertion", "Signal:", "Failing at", "rror", "atal", "abort", "VS-"))]
            last = [(props[0], "program died rc=%s before finishing (statuses %s): %s || %s" % (
                rr.rc, sorted(str(x) for x in rr.status.values()), " | ".join(key[:6])[:700], rr.stderr[-300:].replace("\n", " | ")))]
            if tries >= max_tries:
                return last, "crash", ref
            continue
        if hang and tries < max_tries:
            tq *= 2
            continue
        if dynamic and not hang and P > 1 and sum(expected) > 0 and not rr.recs and not os.environ.get("PTG_INCLUDE_KNOWN"):
            # known finding C05-K1: with ptgpp -D (four-counter termination detection) a multi-rank run sometimes returns from
            # parsec_context_wait on every rank before a single task has run.  This observation -- and only this one: every rank
            # FINISHED, not one task record -- is counted and set aside; any other outcome of a -D run is judged as usual.
            return [], "excluded_known_C05-K1_dynamic_termdet_terminated_before_any_task", ref
        v = ptgrun.judge(prog, ref, rr, cfg, set(props))
        return v, ("hang" if hang else "ok"), ref


def draw_instance(draw, prog, profile, prop):
    G = {"N": draw(sint(0, 9)), "M": draw(sint(0, 4)), "K": draw(sint(0, 3))}
    cfg = {"threads": pick(draw, [1, 2, 2, 3, 4, 4, 8, 16]), "sched": pick(draw, SCHEDS), "ts": 4, "tq_ms": 2000, "mca": {}}
    if draw(sint(0, 2)) == 0:
        cfg["mca"]["task_startup_chunk"] = pick(draw, [1, 2, 3, 7, 64])
    if draw(sint(0, 3)) == 0:
        cfg["mca"]["task_startup_iter"] = pick(draw, [1, 2, 4])
    if draw(sint(0, 3)) == 0:
        cfg["mca"]["runtime_keep_highest_priority_task"] = pick(draw, [0, 1])
    if draw(sint(0, 3)) == 0:
        # several virtual processes: tasks are placed on VP (placement key % nvp), schedulers work per VP
        nvp, tpv = pick(draw, [2, 2, 3]), pick(draw, [1, 2, 4])
        cfg["mca"]["runtime_vpmap"] = "rr:%d:%d:16" % (nvp, tpv)
        cfg["threads"] = nvp * tpv
    if profile.get("ranks"):
        cfg["ranks"] = pick(draw, [2, 2, 3, 4])
        t = pick(draw, [1, 2, 3])
        if "runtime_vpmap" not in cfg["mca"]:
            cfg["threads"] = t
        else:
            cfg["mca"]["runtime_vpmap"] = "rr:2:1:16"      # keep multi-rank runs small: 2 VPs x 1 thread per rank
            cfg["threads"] = 2
        cfg["rank_table"] = draw(st.lists(sint(0, 3), min_size=3, max_size=9))
        cfg["mca"]["runtime_comm_coll_bcast"] = pick(draw, [0, 1, 2])
        cfg["ts"] = pick(draw, [4, 4, 2000])
        if draw(st.booleans()):
            cfg["mca"]["runtime_comm_short_limit"] = pick(draw, [0, 1, 64, 100000])
    return G, cfg


def make_test(args, workroot):
    props = args.props.split(",")
    profile = PROFILES[args.profile]
    budget = {"after_fail": 0}

    @seed(args.seed)
    @settings(max_examples=args.structures, database=None, deadline=None, derandomize=False,
              suppress_health_check=list(HealthCheck), report_multiple_bugs=False,
              phases=[Phase.generate, Phase.shrink])
    @given(st.data())
    def test(data):
        if STATS.failure is not None:
            budget["after_fail"] += 1
            if budget["after_fail"] > args.shrink_budget:
                return          # shrink budget used up: let Hypothesis settle on the best reproduction so far
        prog = build_program(data.draw, profile)
        backend = data.draw(st.sampled_from(["dynamic-hash-table", "index-array"]))
        dynamic = args.dynamic_termdet and data.draw(st.booleans())
        if backend == "index-array" and "local_index" in prog.features and not os.environ.get("PTG_INCLUDE_KNOWN"):
            # known finding C01/K1 (index-array back-end + parameter defined through local indices): excluded by
            # construction so the search continues behind it; the program itself is still run with the hash back-end
            STATS.label("excluded_known_index_array_local_index")
            backend = "dynamic-hash-table"
        name = "p%s" % hashlib.sha1(json.dumps(prog_to_json(prog), sort_keys=True).encode()).hexdigest()[:10]
        wd = os.path.join(workroot, name + ("_ia" if backend == "index-array" else "_ht") + ("_d" if dynamic else ""))
        STATS.structures += 1
        try:
            exe, warn = ptgrun.compile_program(prog, wd, name, backend, dynamic)
        except ptgrun.CompileError as e:
            STATS.label("compile_error_" + e.stage)
            rep = dict(program=prog_to_json(prog), backend=backend, dynamic=dynamic, compile_only=True)
            STATS.failure = dict(prop="C24" if "C24" in props else props[0], msg="valid generated program rejected or miscompiled (%s): %s" % (e.stage, e.log[-700:]), replay=rep)
            raise AssertionError(STATS.failure["msg"])
        try:
            for f in sorted(prog.features):
                STATS.label("feature_" + f)
            STATS.label("backend_" + backend)
            STATS.label("termdet_dynamic_fourcounter" if dynamic else "termdet_local")
            ninst = data.draw(sint(max(1, args.instances // 2), args.instances))
            for k in range(ninst):
                G, cfg = draw_instance(data.draw, prog, profile, props[0])
                v, status, ref = run_one(exe, wd, "i%d" % k, prog, G, cfg, props, backend, dynamic)
                if status.startswith(("excluded", "skipped")):
                    STATS.label(status)       # not executed: neither an evaluation nor a non-trivial case
                    continue
                STATS.evaluations += 1
                STATS.label("status_" + status)
                STATS.label("sched_" + cfg["sched"])
                STATS.label("threads_%d" % cfg["threads"])
                if status == "timeout":
                    STATS.inconclusive += 1
                    continue
                case = dict(program=prog_to_json(prog), backend=backend, dynamic=dynamic, G=G, cfg=cfg)
                fp = hashlib.sha1(json.dumps(case, sort_keys=True).encode()).hexdigest()
                if status != "invalid" and nontrivial(props[0], prog, ref, cfg, G):
                    STATS.nontrivial.add(fp)
                    if len(STATS.samples) < 4:
                        STATS.samples.append(dict(jdf_classes=[c["name"] + "(" + ",".join(d["name"] + "=" + d["lo"] + "..cnt " + d["cnt"] + " step " + str(d["step"]) for d in c["dims"]) + ")" for c in case["program"]["classes"]],
                                                  edges=[e["kind"] for e in case["program"]["edges"]], G=G, cfg=cfg, backend=backend,
                                                  instances=sum(len(s) for s in ref.spaces)))
                if v:
                    prop, msg = v[0]
                    STATS.failure = dict(prop=prop, msg=msg, replay=case)
                    raise AssertionError(msg)
        finally:
            shutil.rmtree(wd, ignore_errors=True)
    return test


def write_report(path):
    rep = dict(evaluations=STATS.evaluations, nontrivial=sorted(STATS.nontrivial), labels=STATS.labels, samples=STATS.samples,
               failure=STATS.failure, inconclusive=STATS.inconclusive, structures=STATS.structures)
    with open(path + ".tmp", "w") as f:
        json.dump(rep, f)
    os.replace(path + ".tmp", path)


def replay(path, props):
    case = json.load(open(path))
    prog = prog_from_json(case["program"])
    wd = os.path.join(core.WORK, "run", "ptg-replay-%d" % os.getpid())
    try:
        try:
            exe, warn = ptgrun.compile_program(prog, wd, "replay", case.get("backend", "dynamic-hash-table"), case.get("dynamic", False))
        except ptgrun.CompileError as e:
            print("REPLAY-FAIL compile (%s): %s" % (e.stage, e.log[-800:]))
            return 1
        if case.get("compile_only"):
            print("REPLAY-PASS")
            return 0
        bad = None
        for k in range(int(os.environ.get("PTG_REPLAY_RUNS", "3"))):     # timing-dependent known findings ask for more runs
            v, status, ref = run_one(exe, wd, "r%d" % k, prog, case["G"], case["cfg"], props, case.get("backend"), case.get("dynamic", False))
            if v:
                bad = v[0]
                break
        if bad:
            print("REPLAY-FAIL %s: %s" % bad)
            return 1
        print("REPLAY-PASS")
        return 0
    finally:
        shutil.rmtree(wd, ignore_errors=True)


def main():
    ap = argparse.ArgumentParser()
    ap.add_argument("--props", default="C01")
    ap.add_argument("--profile", default="c01")
    ap.add_argument("--seed", type=int, default=1)
    ap.add_argument("--structures", type=int, default=8)
    ap.add_argument("--instances", type=int, default=12)
    ap.add_argument("--shrink-budget", type=int, default=30)
    ap.add_argument("--dynamic-termdet", action="store_true")
    ap.add_argument("--out", default=None)
    ap.add_argument("--replay", default=None)
    ap.add_argument("--keep", action="store_true")
    a = ap.parse_args()
    core.ensure_tree("hooks")
    ptgrun.support_obj()
    if a.replay:
        sys.exit(replay(a.replay, a.props.split(",")))
    workroot = os.path.join(core.WORK, "run", "ptg-%d" % os.getpid())
    os.makedirs(workroot, exist_ok=True)
    t = make_test(a, workroot)
    rc = 0
    try:
        t()
    except AssertionError:
        rc = 1
    except Exception as e:  # Hypothesis wraps some failures
        if STATS.failure is None:
            import traceback
            traceback.print_exc()
            rc = 2
        else:
            rc = 1
    finally:
        if not a.keep:
            shutil.rmtree(workroot, ignore_errors=True)
    if a.out:
        write_report(a.out)
    else:
        print(json.dumps(dict(evaluations=STATS.evaluations, nontrivial=len(STATS.nontrivial), labels=STATS.labels, failure=STATS.failure and {k: STATS.failure[k] for k in ("prop", "msg")}), indent=1)[:3000])
    sys.exit(rc)


if __name__ == "__main__":
    main()
