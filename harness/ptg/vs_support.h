/* Runtime support shared by all generated PTG test programs (engine E5). */
#ifndef VS_SUPPORT_H
#define VS_SUPPORT_H
#include <stdint.h>
#include "parsec/runtime.h"
#include "parsec/data_distribution.h"

#ifdef __cplusplus
extern "C" {
#endif

#define VS_MAXP 4
#define VS_MAXIN 6

/* harness data collection: nt tiles of ts int32, placement by tables */
parsec_data_collection_t *vs_dc_create(const char *name, int rank, int world, int nt, int ts,
                                       const int *rank_table, const int *vp_table, int nvp);
int32_t *vs_dc_tile(parsec_data_collection_t *dc, int k);
int      vs_dc_rank(parsec_data_collection_t *dc, int k);
void     vs_dc_free(parsec_data_collection_t *dc);

/* tile <-> value: a tile holding value v is v, v+1, ..., v+ts-1 */
void     vs_tile_set(int32_t *t, int ts, uint32_t v);
uint32_t vs_tile_get(const int32_t *t, int ts);   /* 0xdeadbeef-ish marker if the pattern is broken */

uint32_t vs_H(int cls, int flow, int np, const int *params, int nin, const uint32_t *ins);

/* logging */
void    vs_init(int rank, int expected_local, double quiesce_s, const char *logpath);
int64_t vs_enter(int cls, int np, const int *params, int th_id);
void    vs_in(int64_t slot, int flow, uint32_t value);
void    vs_key(int64_t slot, uint64_t key, const char *keystr);
void    vs_exit(int64_t slot, int again);
/* per-instance AGAIN counter: returns how many times this instance was already invoked */
int     vs_invocations(int cls, int np, const int *params);
void    vs_note(const char *fmt, ...);        /* free-form line into the log (callbacks, API returns) */
int64_t vs_stamp(void);                       /* next value of the global sequence counter */
void    vs_arm(void);                         /* start the quiescence watchdog (call when every rank is initialised) */
void    vs_finish(void);                      /* write the log file */
void    vs_spin(int iters);

#ifdef __cplusplus
}
#endif
#endif
