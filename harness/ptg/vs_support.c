#include "vs_support.h"
#include "parsec/data_internal.h"
#include "parsec/datatype.h"
#include <stdarg.h>
#include <stdio.h>
#include <stdlib.h>
#include <string.h>
#include <pthread.h>
#include <unistd.h>
#include <time.h>

/* ------------------------------------------------------------------ data collection */
typedef struct {
    parsec_data_collection_t super;
    parsec_data_t **data;
    int nt, ts, nvp;
    int32_t *ptr;
    int *rank_table, *vp_table;
} vs_dc_t;

static int vs_key_of(va_list ap) { return va_arg(ap, int); }

static uint32_t vs_rank_of(parsec_data_collection_t *d, ...)
{
    vs_dc_t *m = (vs_dc_t *)d; va_list ap; va_start(ap, d); int k = vs_key_of(ap); va_end(ap);
    if (k < 0 || k >= m->nt) { fprintf(stderr, "VS-FATAL rank_of(%d) outside 0..%d\n", k, m->nt - 1); abort(); }
    return (uint32_t)m->rank_table[k];
}
static uint32_t vs_rank_of_key(parsec_data_collection_t *d, parsec_data_key_t key)
{
    vs_dc_t *m = (vs_dc_t *)d; return (uint32_t)m->rank_table[(int)key];
}
static int32_t vs_vpid_of(parsec_data_collection_t *d, ...)
{
    vs_dc_t *m = (vs_dc_t *)d; va_list ap; va_start(ap, d); int k = vs_key_of(ap); va_end(ap);
    return m->vp_table ? m->vp_table[k] % m->nvp : 0;
}
static int32_t vs_vpid_of_key(parsec_data_collection_t *d, parsec_data_key_t key)
{
    vs_dc_t *m = (vs_dc_t *)d; return m->vp_table ? m->vp_table[(int)key] % m->nvp : 0;
}
static parsec_data_t *vs_data_of_k(vs_dc_t *m, int k)
{
    if (k < 0 || k >= m->nt) { fprintf(stderr, "VS-FATAL data_of(%d) outside 0..%d\n", k, m->nt - 1); abort(); }
    return parsec_data_create(&m->data[k], &m->super, k, &m->ptr[(size_t)k * m->ts], (size_t)m->ts * sizeof(int32_t), 0);
}
static parsec_data_t *vs_data_of(parsec_data_collection_t *d, ...)
{
    va_list ap; va_start(ap, d); int k = vs_key_of(ap); va_end(ap);
    return vs_data_of_k((vs_dc_t *)d, k);
}
static parsec_data_t *vs_data_of_key(parsec_data_collection_t *d, parsec_data_key_t key)
{
    return vs_data_of_k((vs_dc_t *)d, (int)key);
}
static parsec_data_key_t vs_data_key(parsec_data_collection_t *d, ...)
{
    va_list ap; va_start(ap, d); int k = vs_key_of(ap); va_end(ap); (void)d;
    return (parsec_data_key_t)k;
}

parsec_data_collection_t *vs_dc_create(const char *name, int rank, int world, int nt, int ts,
                                       const int *rank_table, const int *vp_table, int nvp)
{
    vs_dc_t *m = (vs_dc_t *)calloc(1, sizeof(vs_dc_t));
    parsec_data_collection_t *d = &m->super;
    parsec_data_collection_init(d, world, rank);
    d->rank_of = vs_rank_of; d->rank_of_key = vs_rank_of_key;
    d->data_of = vs_data_of; d->data_of_key = vs_data_of_key;
    d->vpid_of = vs_vpid_of; d->vpid_of_key = vs_vpid_of_key;
    d->data_key = vs_data_key;
    parsec_type_create_contiguous(ts, parsec_datatype_int32_t, &d->default_dtt);
    m->nt = nt; m->ts = ts; m->nvp = nvp > 0 ? nvp : 1;
    m->data = (parsec_data_t **)calloc(nt > 0 ? nt : 1, sizeof(parsec_data_t *));
    m->ptr = (int32_t *)calloc((size_t)(nt > 0 ? nt : 1) * ts, sizeof(int32_t));
    m->rank_table = (int *)calloc(nt > 0 ? nt : 1, sizeof(int));
    for (int i = 0; i < nt; i++) m->rank_table[i] = rank_table ? rank_table[i] % world : 0;
    if (vp_table) { m->vp_table = (int *)calloc(nt > 0 ? nt : 1, sizeof(int)); memcpy(m->vp_table, vp_table, nt * sizeof(int)); }
    parsec_data_collection_set_key(d, name);
    return d;
}
int32_t *vs_dc_tile(parsec_data_collection_t *dc, int k) { vs_dc_t *m = (vs_dc_t *)dc; return &m->ptr[(size_t)k * m->ts]; }
int vs_dc_rank(parsec_data_collection_t *dc, int k) { return ((vs_dc_t *)dc)->rank_table[k]; }
void vs_dc_free(parsec_data_collection_t *d)
{
    vs_dc_t *m = (vs_dc_t *)d;
    for (int i = 0; i < m->nt; i++) if (m->data[i]) parsec_data_destroy(m->data[i]);
    free(m->data); free(m->ptr); free(m->rank_table); free(m->vp_table);
    parsec_type_free(&d->default_dtt);
    parsec_data_collection_destroy(d);
    free(d);
}

/* ------------------------------------------------------------------ values */
void vs_tile_set(int32_t *t, int ts, uint32_t v) { for (int i = 0; i < ts; i++) t[i] = (int32_t)(v + (uint32_t)i); }
uint32_t vs_tile_get(const int32_t *t, int ts)
{
    uint32_t v = (uint32_t)t[0];
    for (int i = 1; i < ts; i++) if ((uint32_t)t[i] != v + (uint32_t)i) return 0xBADBAD00u + (uint32_t)(i & 0xff);
    return v;
}
uint32_t vs_H(int cls, int flow, int np, const int *params, int nin, const uint32_t *ins)
{
    uint32_t h = 2166136261u;
    h = (h ^ (uint32_t)(cls + 1)) * 16777619u;
    h = (h ^ (uint32_t)(flow + 17)) * 16777619u;
    for (int i = 0; i < np; i++) h = (h ^ (uint32_t)params[i]) * 16777619u;
    for (int i = 0; i < nin; i++) h = (h ^ ins[i]) * 16777619u;
    return h & 0x3fffffffu;
}

/* ------------------------------------------------------------------ log */
typedef struct {
    int cls, np, params[VS_MAXP], th, again, nin;
    int64_t seq_in, seq_out;
    uint32_t ins[VS_MAXIN]; int inflow[VS_MAXIN];
    uint64_t key; char keystr[64]; int has_key;
} vs_rec_t;

#define VS_CAP (1 << 20)
static vs_rec_t *recs;
static int64_t nrec, seqctr, ndone, in_body;
static int vs_rank, vs_expected, vs_armed; static double vs_tq; static char vs_logpath[1024];
static char *notes; static size_t notes_len, notes_cap; static pthread_mutex_t notes_mu = PTHREAD_MUTEX_INITIALIZER;
static pthread_mutex_t inv_mu = PTHREAD_MUTEX_INITIALIZER;
typedef struct { int cls, np, params[VS_MAXP], count; } vs_inv_t;
static vs_inv_t *invs; static int ninv, capinv;

int64_t vs_stamp(void) { return __atomic_fetch_add(&seqctr, 1, __ATOMIC_SEQ_CST); }

static void vs_write_log(const char *status)
{
    FILE *f = fopen(vs_logpath, "w");
    if (!f) return;
    int64_t n = __atomic_load_n(&nrec, __ATOMIC_SEQ_CST);
    if (n > VS_CAP) n = VS_CAP;
    fprintf(f, "STATUS %s rank %d records %lld done %lld expected %d\n", status, vs_rank, (long long)n,
            (long long)__atomic_load_n(&ndone, __ATOMIC_SEQ_CST), vs_expected);
    for (int64_t i = 0; i < n; i++) {
        vs_rec_t *r = &recs[i];
        fprintf(f, "E %d %d", r->cls, r->np);
        for (int j = 0; j < r->np; j++) fprintf(f, " %d", r->params[j]);
        fprintf(f, " th %d in %lld out %lld again %d nin %d", r->th, (long long)r->seq_in, (long long)r->seq_out, r->again, r->nin);
        for (int j = 0; j < r->nin; j++) fprintf(f, " %d:%u", r->inflow[j], r->ins[j]);
        if (r->has_key) fprintf(f, " key %llu \"%s\"", (unsigned long long)r->key, r->keystr);
        fprintf(f, "\n");
    }
    if (notes) fwrite(notes, 1, notes_len, f);
    fclose(f);
}

static void *vs_watchdog(void *arg)
{
    (void)arg;
    int64_t last = -1; double idle = 0;
    for (;;) {
        struct timespec ts = {0, 100 * 1000 * 1000}; nanosleep(&ts, NULL);
        if (!__atomic_load_n(&vs_armed, __ATOMIC_SEQ_CST)) continue;   /* initialisation (MPI_Init, parsec_init) is not "no progress" */
        int64_t cur = __atomic_load_n(&nrec, __ATOMIC_SEQ_CST) + __atomic_load_n(&ndone, __ATOMIC_SEQ_CST);
        if (cur != last || __atomic_load_n(&in_body, __ATOMIC_SEQ_CST) > 0) { last = cur; idle = 0; continue; }
        idle += 0.1;
        if (idle >= vs_tq && vs_expected >= 0 && __atomic_load_n(&ndone, __ATOMIC_SEQ_CST) < vs_expected) {
            vs_write_log("QUIESCENT-INCOMPLETE");
            fprintf(stderr, "VS QUIESCENT-INCOMPLETE rank %d done %lld expected %d\n", vs_rank, (long long)ndone, vs_expected);
            _exit(3);
        }
    }
    return NULL;
}

void vs_init(int rank, int expected_local, double quiesce_s, const char *logpath)
{
    vs_rank = rank; vs_expected = expected_local; vs_tq = quiesce_s;
    snprintf(vs_logpath, sizeof vs_logpath, "%s", logpath);
    recs = (vs_rec_t *)calloc(VS_CAP, sizeof(vs_rec_t));
    if (quiesce_s > 0) { pthread_t t; pthread_create(&t, NULL, vs_watchdog, NULL); pthread_detach(t); }
}

int64_t vs_enter(int cls, int np, const int *params, int th_id)
{
    __atomic_fetch_add(&in_body, 1, __ATOMIC_SEQ_CST);
    int64_t s = __atomic_fetch_add(&nrec, 1, __ATOMIC_SEQ_CST);
    if (s >= VS_CAP) { fprintf(stderr, "VS-FATAL log overflow\n"); vs_write_log("OVERFLOW"); _exit(4); }
    vs_rec_t *r = &recs[s];
    r->cls = cls; r->np = np; for (int i = 0; i < np && i < VS_MAXP; i++) r->params[i] = params[i];
    r->th = th_id; r->seq_out = -1; r->nin = 0; r->again = 0; r->has_key = 0;
    r->seq_in = vs_stamp();
    return s;
}
void vs_in(int64_t slot, int flow, uint32_t value)
{
    vs_rec_t *r = &recs[slot]; if (r->nin < VS_MAXIN) { r->inflow[r->nin] = flow; r->ins[r->nin++] = value; }
}
void vs_key(int64_t slot, uint64_t key, const char *keystr)
{
    vs_rec_t *r = &recs[slot]; r->key = key; r->has_key = 1; snprintf(r->keystr, sizeof r->keystr, "%s", keystr);
}
void vs_exit(int64_t slot, int again)
{
    vs_rec_t *r = &recs[slot]; r->again = again; r->seq_out = vs_stamp();
    if (!again) __atomic_fetch_add(&ndone, 1, __ATOMIC_SEQ_CST);
    __atomic_fetch_sub(&in_body, 1, __ATOMIC_SEQ_CST);
}
int vs_invocations(int cls, int np, const int *params)
{
    int c = 0;
    pthread_mutex_lock(&inv_mu);
    int i;
    for (i = 0; i < ninv; i++) if (invs[i].cls == cls && invs[i].np == np && 0 == memcmp(invs[i].params, params, np * sizeof(int))) break;
    if (i == ninv) {
        if (ninv == capinv) { capinv = capinv ? 2 * capinv : 1024; invs = (vs_inv_t *)realloc(invs, capinv * sizeof(vs_inv_t)); }
        memset(&invs[ninv], 0, sizeof(vs_inv_t)); invs[ninv].cls = cls; invs[ninv].np = np; memcpy(invs[ninv].params, params, np * sizeof(int)); ninv++;
    }
    c = invs[i].count++;
    pthread_mutex_unlock(&inv_mu);
    return c;
}
void vs_note(const char *fmt, ...)
{
    char buf[512]; va_list ap; va_start(ap, fmt); int n = vsnprintf(buf, sizeof buf - 2, fmt, ap); va_end(ap);
    if (n < 0) return; if (n > (int)sizeof buf - 2) n = sizeof buf - 2; buf[n++] = '\n';
    pthread_mutex_lock(&notes_mu);
    if (notes_len + n + 1 > notes_cap) { notes_cap = 2 * (notes_cap + n) + 4096; notes = (char *)realloc(notes, notes_cap); }
    memcpy(notes + notes_len, buf, n); notes_len += n;
    pthread_mutex_unlock(&notes_mu);
}
void vs_arm(void) { __atomic_store_n(&vs_armed, 1, __ATOMIC_SEQ_CST); }
void vs_finish(void) { vs_write_log("FINISHED"); }
void vs_spin(int iters) { volatile int x = 0; for (int i = 0; i < iters; i++) x += i; (void)x; }
