#!/usr/bin/env python3
"""Debug helper: compile a replay case into /tmp/dbg-<pid> and run it once, printing the raw program output."""
import json, sys, os, subprocess
HERE = os.path.dirname(os.path.abspath(__file__))
sys.path.insert(0, HERE)
import ptgworker, ptggen, ptgrun
from ptgstrat import layout_globals
from vf import core
case = json.load(open(sys.argv[1]))
prog = ptgworker.prog_from_json(case['program'])
wd = '/tmp/dbg-%d' % os.getpid()
core.ensure_tree("hooks")
exe, warn = ptgrun.compile_program(prog, wd, 'x', case['backend'], case.get('dynamic', False))
cfg = case['cfg']; P = cfg.get('ranks', 1)
Gfull, ntd, nte = layout_globals(prog, case['G'])
rt = cfg.get('rank_table') or []
rt = [(rt[i % len(rt)] % P) for i in range(ntd)] if rt else []
ref = ptggen.Reference(prog, Gfull, ntd, nte, rt or None); ref.evaluate()
et = []
if P > 1:
    rt, et = ref.ownership_tables(P)
exp = [0] * P
for ci in range(len(prog.classes)):
    for idx in ref.spaces[ci]:
        exp[ref.rank_of(ci, idx)] += 1
rr = ptgrun.run_instance(exe, wd, 'i', prog, Gfull, ntd, nte, cfg, exp, rt, timeout=60, erank_table=et)
print("rc", rr.rc, "status", rr.status, "timeout", rr.timeout)
print(rr.stderr[-int(sys.argv[2]) if len(sys.argv) > 2 else -1500:])
print("workdir", wd)
