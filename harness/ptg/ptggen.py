"""Engine E5: abstract PTG programs -> JDF text + reference semantics.

One abstract program is the source of both the JDF and the expected behaviour, so the
oracle never depends on parsec-ptgpp.  Everything is expressed in *index space*: every
parameter d of a task class takes the values  lo_d + i_d*step_d  for 0 <= i_d < cnt_d,
and an instance is identified by its index tuple.  Dependencies are abstract edges with a
forward map (producer index -> consumer indices) and a backward map (consumer index ->
producer indices) written as small integer expressions; the in/out JDF dependencies of an
edge are both emitted from that single description, and before a program is used the
generator checks by enumeration that forward and backward maps are mutually consistent.

Expression strings use the common subset of C and Python: + - * / % < <= > >= == != && || !
( ) integers and identifiers; every division/modulo is only ever applied to non-negative
operands (checked while evaluating), so C and Python semantics coincide.
"""
import re
from dataclasses import dataclass, field

_TOK = re.compile(r"\s*(\d+|[A-Za-z_][A-Za-z_0-9]*|&&|\|\||<=|>=|==|!=|[-+*/%()<>!?:])")


class ExprError(Exception):
    pass


def _py(expr):
    """C-subset expression -> python source with checked division/modulo."""
    out = []
    pos = 0
    expr = expr.strip()
    while pos < len(expr):
        m = _TOK.match(expr, pos)
        if not m:
            raise ExprError("bad token in %r at %d" % (expr, pos))
        t = m.group(1)
        pos = m.end()
        out.append({"&&": " and ", "||": " or ", "!": " not ", "/": " // ", "%": " % "}.get(t, t))
    return "".join(out)


_cache = {}


def ev(expr, env):
    """Evaluate with C semantics (ints; comparison results 0/1)."""
    if isinstance(expr, int):
        return expr
    code = _cache.get(expr)
    if code is None:
        code = compile(_rewrite_div(expr), "<expr>", "eval")
        _cache[expr] = code
    return int(eval(code, {"__builtins__": {}}, _Env(env)))


class _Env(dict):
    def __init__(self, env):
        super().__init__(env)
        self["_div"] = _div
        self["_mod"] = _mod


def _div(a, b):
    if b == 0:
        raise ExprError("division by zero")
    q = abs(a) // abs(b)
    return q if (a >= 0) == (b > 0) else -q   # C truncation


def _mod(a, b):
    return a - _div(a, b) * b


# A tiny precedence-climbing parser so that / and % get C semantics whatever the operand signs.
def _rewrite_div(expr):
    toks = []
    pos = 0
    expr = expr.strip()
    while pos < len(expr):
        m = _TOK.match(expr, pos)
        if not m:
            raise ExprError("bad token in %r at %d" % (expr, pos))
        toks.append(m.group(1))
        pos = m.end()
    p = _Parser(toks)
    r = p.ternary()
    if p.i != len(toks):
        raise ExprError("trailing tokens in %r" % expr)
    return r


class _Parser:
    PREC = [["||"], ["&&"], ["==", "!="], ["<", "<=", ">", ">="], ["+", "-"], ["*", "/", "%"]]

    def __init__(self, toks):
        self.t = toks
        self.i = 0

    def peek(self):
        return self.t[self.i] if self.i < len(self.t) else None

    def ternary(self):
        c = self.binary(0)
        if self.peek() == "?":
            self.i += 1
            a = self.ternary()
            if self.peek() != ":":
                raise ExprError("expected ':'")
            self.i += 1
            b = self.ternary()
            return "((%s) if (%s) else (%s))" % (a, c, b)
        return c

    def binary(self, lvl):
        if lvl == len(self.PREC):
            return self.unary()
        left = self.binary(lvl + 1)
        while self.peek() in self.PREC[lvl]:
            op = self.t[self.i]
            self.i += 1
            right = self.binary(lvl + 1)
            if op == "/":
                left = "_div(%s,%s)" % (left, right)
            elif op == "%":
                left = "_mod(%s,%s)" % (left, right)
            elif op == "&&":
                left = "(1 if ((%s) and (%s)) else 0)" % (left, right)
            elif op == "||":
                left = "(1 if ((%s) or (%s)) else 0)" % (left, right)
            elif op in ("==", "!=", "<", "<=", ">", ">="):
                left = "(1 if ((%s) %s (%s)) else 0)" % (left, op, right)
            else:
                left = "((%s) %s (%s))" % (left, op, right)
        return left

    def unary(self):
        t = self.peek()
        if t == "-":
            self.i += 1
            return "(-%s)" % self.unary()
        if t == "!":
            self.i += 1
            return "(0 if (%s) else 1)" % self.unary()
        if t == "(":
            self.i += 1
            r = self.ternary()
            if self.peek() != ")":
                raise ExprError("expected ')'")
            self.i += 1
            return "(%s)" % r
        if t is None:
            raise ExprError("unexpected end")
        self.i += 1
        return t


def subst(expr, mapping):
    """Replace identifiers by parenthesised expressions."""
    if isinstance(expr, int):
        return str(expr)

    def rep(m):
        w = m.group(0)
        return "(%s)" % mapping[w] if w in mapping else w
    return re.sub(r"[A-Za-z_][A-Za-z_0-9]*", rep, expr)


def simp(expr):
    """Cosmetic simplification of generated expression text (keeps semantics)."""
    e = expr
    for _ in range(6):
        n = re.sub(r"\(\((\w+)\)\)", r"(\1)", e)
        n = re.sub(r"\((\w+)\)", r"\1", n)
        n = re.sub(r"\b(\w+)-0\)/1\b", r"\1)", n)
        if n == e:
            break
        e = n
    return e


# --------------------------------------------------------------------------- abstract program

@dataclass
class Dim:
    name: str            # parameter name in the JDF
    lo: str              # over globals and earlier parameter NAMES of the same class
    cnt: str             # over globals and earlier index variables i0, i1 (count of values, may be <= 0 -> empty)
    step: int            # non-zero constant
    style: int = 0       # 0: lo..hi[..step]   1: inline-C bounds   2: local-index form [ii = 0 .. cnt-1] lo+ii*step
    cnt_local: str = None   # when set, the count is first stored in a derived local of that name (declared between the parameters)


@dataclass
class Edge:
    src: int             # class index
    sflow: str
    dst: int
    dflow: str
    fwd: list            # list of (guard or None, [target index exprs over i0,i1 + globals]) ; a target index may be a range ("a","b") inclusive
    bwd: list            # list of (guard or None, [source index exprs over j0,j1 (consumer idx) + globals]) ; ranges allowed (CTL gather)
    multi: bool = False  # one producer instance may feed several consumer instances
    ctl: bool = False
    kind: str = ""


@dataclass
class Flow:
    name: str
    access: str          # RW READ WRITE CTL
    default_src: str = None   # "D:<key expr over idx>" | "NEW" | None (every instance is covered by in-edges / CTL)
    sink: str = None     # "E:<key expr over idx>" optional write-back of the flow's final value
    sink_guard: str = None


@dataclass
class TaskClass:
    name: str
    dims: list
    flows: list
    locals: list = field(default_factory=list)      # (name, expr over param names) derived locals usable in deps
    place: str = "0"                                  # key expression over idx (mod NTD applied at emission)
    priority: str = None                              # over param names
    again: str = None                                 # expr over idx vars: how many times the body returns AGAIN first


@dataclass
class Program:
    globals: list        # names of int globals G*
    classes: list
    edges: list
    ntd_ro: int = 4      # size of the read-only region of D used by shared READ defaults
    features: set = field(default_factory=set)

    # ---- index spaces
    def space(self, ci, G):
        """list of index tuples of class ci for global values G (dict)."""
        cls = self.classes[ci]
        out = []

        def rec(d, idx):
            if d == len(cls.dims):
                out.append(tuple(idx))
                return
            env = dict(G)
            for k, v in enumerate(idx):
                env["i%d" % k] = v
            n = ev(cls.dims[d].cnt, env)
            for i in range(max(0, n)):
                rec(d + 1, idx + [i])
        rec(0, [])
        return out

    def params_of(self, ci, idx, G):
        cls = self.classes[ci]
        env = dict(G)
        vals = []
        for d, dim in enumerate(cls.dims):
            v = ev(dim.lo, env) + idx[d] * dim.step
            env[dim.name] = v
            vals.append(v)
        return tuple(vals)

    def idx_env(self, idx, G, prefix="i"):
        env = dict(G)
        for k, v in enumerate(idx):
            env["%s%d" % (prefix, k)] = v
        return env


def expand_targets(tlist, env):
    """[expr | (lo,hi)] -> list of index tuples (cartesian over ranges)."""
    res = [[]]
    for t in tlist:
        if isinstance(t, tuple):
            lo, hi = ev(t[0], env), ev(t[1], env)
            vals = list(range(lo, hi + 1))
        else:
            vals = [ev(t, env)]
        res = [r + [v] for r in res for v in vals]
    return [tuple(r) for r in res]


class Reference:
    """Reference semantics of a program for given globals: instances, predecessors, values."""

    def __init__(self, prog, G, ntd, nte, rank_table=None):
        self.p, self.G = prog, dict(G)
        self.G["NTD"] = ntd
        self.G["NTE"] = nte
        self.ntd, self.nte = ntd, nte
        self.spaces = [prog.space(ci, self.G) for ci in range(len(prog.classes))]
        self.sets = [set(s) for s in self.spaces]
        self.rank_table = rank_table
        self.errors = []
        self._build()

    def _build(self):
        p = self.p
        self.succ = {}      # (ci, idx, flow) -> list of (cj, idx2, flow2)
        self.pred = {}      # (cj, idx2, flow2) -> list of (ci, idx, flow)
        for e in p.edges:
            for idx in self.spaces[e.src]:
                env = p.idx_env(idx, self.G)
                for g, tl in e.fwd:
                    if g is not None and not ev(g, env):
                        continue
                    for t in expand_targets(tl, env):
                        if t not in self.sets[e.dst]:
                            self.errors.append("edge %s: %s%s -> %s%s outside the consumer space" % (e.kind, p.classes[e.src].name, idx, p.classes[e.dst].name, t))
                            continue
                        self.succ.setdefault((e.src, idx, e.sflow), []).append((e.dst, t, e.dflow))
                    break   # first alternative whose guard holds
            for idx in self.spaces[e.dst]:
                env = p.idx_env(idx, self.G, "j")
                for g, sl in e.bwd:
                    if g is not None and not ev(g, env):
                        continue
                    for s in expand_targets(sl, env):
                        if s not in self.sets[e.src]:
                            self.errors.append("edge %s: consumer %s%s names producer %s%s outside its space" % (e.kind, p.classes[e.dst].name, idx, p.classes[e.src].name, s))
                            continue
                        self.pred.setdefault((e.dst, idx, e.dflow), []).append((e.src, s, e.sflow))
                    break
        # mutual consistency
        fw = set()
        for (ci, idx, f), lst in self.succ.items():
            for (cj, t, f2) in lst:
                fw.add((ci, idx, f, cj, t, f2))
        bw = set()
        for (cj, t, f2), lst in self.pred.items():
            for (ci, idx, f) in lst:
                bw.add((ci, idx, f, cj, t, f2))
        if fw != bw:
            d = list(fw ^ bw)[:3]
            self.errors.append("forward/backward edge maps disagree, e.g. %s" % (d,))
        # each data input flow: exactly one source
        for ci, cls in enumerate(p.classes):
            for fl in cls.flows:
                for idx in self.spaces[ci]:
                    n = len(self.pred.get((ci, idx, fl.name), []))
                    if fl.access == "CTL":
                        continue
                    if n > 1:
                        self.errors.append("%s%s flow %s has %d sources" % (cls.name, idx, fl.name, n))
                    if n == 0 and fl.default_src is None:
                        self.errors.append("%s%s flow %s has no source" % (cls.name, idx, fl.name))

    # ---- evaluation
    def evaluate(self):
        """Topological evaluation.  Fills self.inval[(ci,idx)][flow], self.outval, self.E (dict key->value), self.order_preds."""
        p = self.p
        self.inval, self.outval = {}, {}
        self.E = {}
        self.preds_of = {}
        state = {}
        import sys
        sys.setrecursionlimit(100000)

        def cls_index(cls):
            return p.classes.index(cls)

        def run(ci, idx):
            key = (ci, idx)
            st = state.get(key)
            if st == 2:
                return
            if st == 1:
                raise ExprError("cycle through %s%s" % (p.classes[ci].name, idx))
            state[key] = 1
            cls = p.classes[ci]
            ins = {}
            preds = set()
            for fl in cls.flows:
                srcs = self.pred.get((ci, idx, fl.name), [])
                for (cs, si, sf) in srcs:
                    run(cs, si)
                    preds.add((cs, si))
                if fl.access == "CTL":
                    continue
                if srcs:
                    (cs, si, sf) = srcs[0]
                    ins[fl.name] = self.outval[(cs, si)][sf]
                elif fl.default_src and fl.default_src.startswith("D:"):
                    k = ev(fl.default_src[2:], p.idx_env(idx, self.G)) % self.ntd
                    ins[fl.name] = d_init(k)
                elif fl.default_src == "NEW":
                    ins[fl.name] = None
            params = p.params_of(ci, idx, self.G)
            invals = [ins[fl.name] for fl in cls.flows if fl.access in ("RW", "READ") and ins.get(fl.name) is not None]
            outs = {}
            for fi, fl in enumerate(cls.flows):
                if fl.access in ("RW", "WRITE"):
                    outs[fl.name] = vs_H(ci, fi, params, invals)
                elif fl.access == "READ":
                    outs[fl.name] = ins.get(fl.name)
            self.inval[key], self.outval[key], self.preds_of[key] = ins, outs, preds
            for fl in cls.flows:
                if fl.sink and fl.access != "CTL":
                    env = p.idx_env(idx, self.G)
                    if fl.sink_guard is None or ev(fl.sink_guard, env):
                        k = ev(fl.sink[2:], env)
                        if k in self.E:
                            self.errors.append("E(%d) written twice" % k)
                        if not (0 <= k < self.nte):
                            self.errors.append("E key %d outside 0..%d" % (k, self.nte - 1))
                        self.E[k] = outs[fl.name]
            state[key] = 2

        for ci in range(len(p.classes)):
            for idx in self.spaces[ci]:
                run(ci, idx)

    def place_key(self, ci, idx):
        # placement always uses a key of the shared read-only region of D (keys 0..ntd_ro-1)
        return ev(self.p.classes[ci].place, self.p.idx_env(idx, self.G)) % self.p.ntd_ro

    def ownership_tables(self, P):
        """Rank tables for D and E that make every direct collection access of a task local to the task's rank
        (PTG rule: a task may only name collection data of its own rank): unique keys are owned by the rank of the one
        instance that uses them; the shared read-only region is only used for placement and READ defaults, so READ
        defaults on several ranks make the table impossible -> returns None (the caller skips multi-rank for it)."""
        p = self.p
        dtab = [None] * self.ntd
        etab = [0] * self.nte
        for k in range(p.ntd_ro):
            dtab[k] = self.rank_table[k] % P
        for ci, cls in enumerate(p.classes):
            for idx in self.spaces[ci]:
                r = self.rank_of(ci, idx)
                env = p.idx_env(idx, self.G)
                for fl in cls.flows:
                    if fl.access == "CTL":
                        continue
                    if fl.default_src and fl.default_src.startswith("D:") and not self.pred.get((ci, idx, fl.name)):
                        k = ev(fl.default_src[2:], env) % self.ntd
                        if k < p.ntd_ro:
                            if dtab[k] != r:
                                return None, None
                        else:
                            dtab[k] = r
                    if fl.sink and (fl.sink_guard is None or ev(fl.sink_guard, env)):
                        etab[ev(fl.sink[2:], env)] = r
        return [0 if v is None else v for v in dtab], etab

    def rank_of(self, ci, idx):
        if not self.rank_table:
            return 0
        return self.rank_table[self.place_key(ci, idx)]


def d_init(k):
    return 1000 + 7 * k


def e_init(k):
    return 500000 + 3 * k


def vs_H(cls, flow, params, ins):
    h = 2166136261
    M = 0xffffffff
    h = ((h ^ ((cls + 1) & M)) * 16777619) & M
    h = ((h ^ ((flow + 17) & M)) * 16777619) & M
    for p in params:
        h = ((h ^ (p & M)) * 16777619) & M
    for v in ins:
        h = ((h ^ (v & M)) * 16777619) & M
    return h & 0x3fffffff


# --------------------------------------------------------------------------- JDF emission

def idx_as_params(cls):
    """mapping index variable -> expression over the class's parameter names: i_d = (k_d - lo_d)/step_d"""
    m = {}
    for d, dim in enumerate(cls.dims):
        if dim.step == 1:
            e = "%s-(%s)" % (dim.name, dim.lo) if dim.lo != "0" else dim.name
        elif dim.step == -1:
            e = "(%s)-%s" % (dim.lo, dim.name)
        elif dim.step > 0:
            e = "(%s-(%s))/%d" % (dim.name, dim.lo, dim.step)
        else:
            e = "((%s)-%s)/%d" % (dim.lo, dim.name, -dim.step)
        m["i%d" % d] = e
    return m


def target_args(dst_cls, tidx_exprs):
    """JDF argument expressions (or ranges) for an instance of dst_cls given index expressions (over source-side variables)."""
    args = []
    names = {}
    for d, dim in enumerate(dst_cls.dims):
        lo = subst(dim.lo, names)
        t = tidx_exprs[d]
        if isinstance(t, tuple):
            a = "(%s)+(%s)*%d" % (lo, t[0], dim.step)
            b = "(%s)+(%s)*%d" % (lo, t[1], dim.step)
            if dim.step == 1:
                args.append("%s .. %s" % (a, b))
            else:
                args.append("%s .. %s .. %d" % (a, b, dim.step))
            names[dim.name] = a   # later dims depending on a ranged one are not generated
        else:
            a = "(%s)+(%s)*%d" % (lo, t, dim.step)
            args.append(a)
            names[dim.name] = a
    return args


def emit_jdf(prog, name, opts):
    """Return the JDF text.  opts: dict(inline_c=bool ...)"""
    L = []
    L.append('extern "C" %{')
    L.append('#include "vs_support.h"')
    L.append('#include "parsec/data_internal.h"')
    L.append("%}")
    L.append("")
    L.append('D   [type = "parsec_data_collection_t*"]')
    L.append('E   [type = "parsec_data_collection_t*"]')
    L.append("TS  [type = int]")
    L.append("NTD [type = int]")
    L.append("NTE [type = int]")
    for g in prog.globals:
        L.append("%s  [type = int]" % g)
    L.append("")
    for ci, cls in enumerate(prog.classes):
        i2p = idx_as_params(cls)
        L.append("%s(%s)" % (cls.name, ", ".join(d.name for d in cls.dims)))
        L.append("")
        for d, dim in enumerate(cls.dims):
            cnt = subst(dim.cnt, i2p)
            if dim.cnt_local:
                # a derived local declared before the range that uses it (its value must survive the suspension /
                # resumption of the chunked startup enumeration)
                L.append("%s = %s" % (dim.cnt_local, simp(cnt)))
                cnt = dim.cnt_local
            hi = "(%s)+((%s)-1)*%d" % (dim.lo, cnt, dim.step)
            if dim.style == 2:
                L.append("%s = [ ii%d = 0 .. (%s)-1 ] (%s)+ii%d*%d" % (dim.name, d, cnt, dim.lo, d, dim.step))
            elif dim.style == 1:
                s = "%s = %%{ return %s; %%} .. %%{ return %s; %%}" % (dim.name, dim.lo, hi)
                if dim.step != 1:
                    s += " .. %%{ return %d; %%}" % dim.step
                L.append(s)
            else:
                s = "%s = %s .. %s" % (dim.name, dim.lo, hi)
                if dim.step != 1:
                    s += " .. %d" % dim.step
                L.append(s)
        for (ln, le) in cls.locals:
            L.append("%s = %s" % (ln, le))
        L.append("")
        L.append(": D( ((%s) %% %d + %d) %% %d )" % (subst(cls.place, i2p), prog.ntd_ro, prog.ntd_ro, prog.ntd_ro))
        L.append("")
        for fi, fl in enumerate(cls.flows):
            lines = []
            # inputs
            ins = [e for e in prog.edges if e.dst == ci and e.dflow == fl.name]
            j2p = {k.replace("i", "j"): v for k, v in i2p.items()}
            covered_guards = []
            for e in ins:
                for g, sl in e.bwd:
                    sargs = []
                    for s in sl:
                        if isinstance(s, tuple):
                            sargs.append((subst(s[0], j2p), subst(s[1], j2p)))
                        else:
                            sargs.append(subst(s, j2p))
                    args = target_args(prog.classes[e.src], sargs)
                    dep = "%s %s(%s)" % (e.sflow, prog.classes[e.src].name, ", ".join(args))
                    gtxt = subst(g, j2p) if g is not None else None
                    lines.append(("<-", gtxt, dep))
                    covered_guards.append(gtxt)
            if fl.access != "CTL" and fl.default_src is not None:
                if fl.default_src == "NEW":
                    dep = "NEW"
                else:
                    dep = "D( ((%s) %% NTD + NTD) %% NTD )" % subst(fl.default_src[2:], i2p)
                if any(g is None for g in covered_guards):
                    pass    # fully covered by an unguarded in-edge
                elif covered_guards:
                    neg = " && ".join("!(%s)" % g for g in covered_guards)
                    lines.append(("<-", neg, dep))
                else:
                    lines.append(("<-", None, dep))
            # outputs
            outs = [e for e in prog.edges if e.src == ci and e.sflow == fl.name]
            for e in outs:
                alts = []
                for g, tl in e.fwd:
                    targs = []
                    for t in tl:
                        if isinstance(t, tuple):
                            targs.append((subst(t[0], i2p), subst(t[1], i2p)))
                        else:
                            targs.append(subst(t, i2p))
                    args = target_args(prog.classes[e.dst], targs)
                    alts.append((subst(g, i2p) if g is not None else None, "%s %s(%s)" % (e.dflow, prog.classes[e.dst].name, ", ".join(args))))
                if len(alts) == 2 and alts[0][0] is not None and alts[1][0] is not None and e.kind.startswith("ternary"):
                    lines.append(("->", alts[0][0], alts[0][1] + " : " + alts[1][1]))
                else:
                    for g, dep in alts:
                        lines.append(("->", g, dep))
            if fl.sink and fl.access != "CTL":
                dep = "E( %s )" % subst(fl.sink[2:], i2p)
                lines.append(("->", subst(fl.sink_guard, i2p) if fl.sink_guard else None, dep))
            first = True
            for (arrow, g, dep) in lines:
                head = "%-5s %s " % (fl.access, fl.name) if first else " " * (7 + len(fl.name))
                first = False
                if g is not None:
                    L.append("%s%s (%s) ? %s" % (head, arrow, simp(g), simp(dep)))
                else:
                    L.append("%s%s %s" % (head, arrow, simp(dep)))
            if not lines:
                # a flow without any dependency is not valid JDF: the generator never produces one
                raise ExprError("flow %s of %s has no dependency" % (fl.name, cls.name))
            L.append("")
        if cls.priority:
            L.append("; %s" % cls.priority)
            L.append("")
        L.append("BODY")
        L.append("{")
        np_ = len(cls.dims)
        L.append("    int vs_p[%d] = { %s };" % (max(1, np_), ", ".join(d.name for d in cls.dims)))
        L.append("    int64_t vs_s = vs_enter(%d, %d, vs_p, es->th_id);" % (ci, np_))
        L.append("    uint32_t vs_i[8]; int vs_n = 0;")
        for fi, fl in enumerate(cls.flows):
            if fl.access in ("RW", "READ"):
                L.append("    if( NULL != %s ) { vs_i[vs_n] = vs_tile_get((int32_t*)%s, TS); vs_in(vs_s, %d, vs_i[vs_n]); vs_n++; }" % (fl.name, fl.name, fi))
        L.append("    { char vs_ks[64]; parsec_key_t vs_k = this_task->task_class->make_key(this_task->taskpool, (const parsec_assignment_t*)&this_task->locals);")
        L.append("      this_task->task_class->key_functions->key_print(vs_ks, 64, vs_k, (void*)this_task->taskpool); vs_key(vs_s, (uint64_t)vs_k, vs_ks); }")
        if cls.again:
            L.append("    { int vs_want = %s; if( vs_invocations(%d, %d, vs_p) < vs_want ) { vs_exit(vs_s, 1); return PARSEC_HOOK_RETURN_AGAIN; } }" % (subst(cls.again, i2p), ci, np_))
        for fi, fl in enumerate(cls.flows):
            if fl.access in ("RW", "WRITE"):
                L.append("    vs_tile_set((int32_t*)%s, TS, vs_H(%d, %d, %d, vs_p, vs_n, vs_i));" % (fl.name, ci, fi, np_))
        L.append("    vs_exit(vs_s, 0);")
        L.append("}")
        L.append("END")
        L.append("")
    return "\n".join(L) + "\n"


MAIN_TEMPLATE = r'''
#include "parsec/runtime.h"
#include "parsec/arena.h"
#include "parsec/data_internal.h"
#include "vs_support.h"
#include "@NAME@.h"
#include <mpi.h>
#include <stdio.h>
#include <stdlib.h>
#include <string.h>

/* instance file: ints: nthreads expected_local(-1: per rank list follows) tq_ms TS NTD NTE nglobals G... ntable rank_table... */
int main(int argc, char **argv)
{
    int provided, rank, world;
    MPI_Init_thread(&argc, &argv, MPI_THREAD_SERIALIZED, &provided);
    MPI_Comm_size(MPI_COMM_WORLD, &world);
    MPI_Comm_rank(MPI_COMM_WORLD, &rank);
    if( argc < 3 ) { fprintf(stderr, "usage: prog instance-file log-prefix [-- parsec args]\n"); return 2; }
    FILE *f = fopen(argv[1], "r");
    if( !f ) { perror(argv[1]); return 2; }
    int V[4096], nv = 0;
    while( nv < 4096 && 1 == fscanf(f, "%d", &V[nv]) ) nv++;
    fclose(f);
    int p = 0;
    int nthreads = V[p++], tq_ms = V[p++], TS = V[p++], NTD = V[p++], NTE = V[p++];
    int ng = V[p++]; int *G = &V[p]; p += ng;
    int nexp = V[p++]; int *expected = &V[p]; p += nexp;
    int ntab = V[p++]; int *rank_table = &V[p]; p += ntab;
    int netab = (p < nv) ? V[p++] : 0; int *erank_table = &V[p]; p += netab;
    char logpath[1024]; snprintf(logpath, sizeof logpath, "%s.%d", argv[2], rank);
    int pargc = 0; char **pargv = NULL;
    for( int i = 3; i < argc; i++ ) if( 0 == strcmp(argv[i], "--") ) { pargc = argc - i; pargv = argv + i; break; }
    vs_init(rank, rank < nexp ? expected[rank] : 0, tq_ms / 1000.0, logpath);
    parsec_context_t *parsec = parsec_init(nthreads, &pargc, &pargv);
    if( NULL == parsec ) { fprintf(stderr, "parsec_init failed\n"); return 2; }
    /* several virtual processes (runtime_vpmap=rr:...): tasks are spread over them through vpid_of of the placement collection */
    extern int parsec_vpmap_get_nb_vp(void);
    int nvp = parsec_vpmap_get_nb_vp(); if( nvp < 1 ) nvp = 1;
    int *vp_table = (int*)malloc((NTD > 0 ? NTD : 1) * sizeof(int));
    for( int k = 0; k < NTD; k++ ) vp_table[k] = k % nvp;
    vs_note("NVP %d", nvp);
    parsec_data_collection_t *D = vs_dc_create("D", rank, world, NTD, TS, ntab ? rank_table : NULL, vp_table, nvp);
    parsec_data_collection_t *E = vs_dc_create("E", rank, world, NTE, TS, netab ? erank_table : NULL, NULL, 1);
    for( int k = 0; k < NTD; k++ ) vs_tile_set(vs_dc_tile(D, k), TS, (uint32_t)(1000 + 7 * k));
    for( int k = 0; k < NTE; k++ ) vs_tile_set(vs_dc_tile(E, k), TS, (uint32_t)(500000 + 3 * k));
    parsec_@NAME@_taskpool_t *tp = parsec_@NAME@_new(D, E, TS, NTD, NTE@GARGS@);
    {
        parsec_datatype_t block; ptrdiff_t lb, extent;
        parsec_type_create_contiguous(TS, parsec_datatype_int32_t, &block);
        parsec_type_extent(block, &lb, &extent);
        parsec_arena_datatype_set_type(&tp->arenas_datatypes[PARSEC_@NAME@_DEFAULT_ADT_IDX], extent, PARSEC_ARENA_ALIGNMENT_SSE, block);
    }
    int rc = parsec_context_add_taskpool(parsec, (parsec_taskpool_t*)tp);
    if( rc != 0 ) { fprintf(stderr, "add_taskpool rc=%d\n", rc); return 2; }
    MPI_Barrier(MPI_COMM_WORLD);      /* every rank is initialised: from here on "no progress" means something */
    vs_arm();
    rc = parsec_context_start(parsec);
    if( rc != 0 ) { fprintf(stderr, "context_start rc=%d\n", rc); return 2; }
    rc = parsec_context_wait(parsec);
    vs_note("WAITED rc %d stamp %lld", rc, (long long)vs_stamp());
    for( int k = 0; k < NTE; k++ ) if( (int)E->rank_of(E, k) == rank ) vs_note("EVAL %d %u", k, vs_tile_get(vs_dc_tile(E, k), TS));
    for( int k = 0; k < NTD; k++ ) if( (int)D->rank_of(D, k) == rank ) vs_note("DVAL %d %u", k, vs_tile_get(vs_dc_tile(D, k), TS));
    vs_finish();
    parsec_taskpool_free((parsec_taskpool_t*)tp);
    parsec_fini(&parsec);
    MPI_Finalize();
    return 0;
}
'''


def emit_main(prog, name):
    gargs = "".join(", G[%d]" % i for i in range(len(prog.globals)))
    return MAIN_TEMPLATE.replace("@NAME@", name).replace("@GARGS@", gargs)
