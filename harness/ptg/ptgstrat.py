"""Hypothesis strategies building abstract PTG programs (ptggen.Program) by construction.

draw-based: `build_program(draw, profile)` where draw is Hypothesis' draw function.
Profiles bias the generator towards what a property needs (C01 spaces, C02 data edges, C16 AGAIN,
C23 key spaces, C05 remote edges).
"""
import os

from hypothesis import strategies as st

from ptggen import Dim, Edge, Flow, Program, TaskClass, subst

PARAM_NAMES = ["k", "m", "n", "p"]

CNT0 = ["N", "N+1", "2*(N)", "2*(M+1)", "(N+1)/2", "4", "N+K", "M+2"]
LO0 = ["0", "0", "1", "K", "0-2", "N", "0-K"]
STEPS = [1, 1, 1, 1, 2, 3, -1, -2]


def sint(a, b):
    return st.integers(min_value=a, max_value=b)


def pick(draw, xs):
    return draw(st.sampled_from(xs))


def cnt1_choices(cnt0):
    return ["M", "M+1", "3", "i0+1", "(%s)-i0" % cnt0, "2"]


def new_dims(draw, profile, ndims, cnt0=None, cnt1=None, used_names=()):
    """Fresh parameter definitions realising given count expressions (index structure fixed by the caller)."""
    allow_neg = profile.get("neg_steps", True)
    steps = [s for s in STEPS if allow_neg or s > 0]
    names = [n for n in PARAM_NAMES]
    dims = []
    c0 = cnt0 if cnt0 is not None else pick(draw, CNT0)
    d0 = Dim(names[0], pick(draw, LO0), c0, pick(draw, steps), pick(draw, [0, 0, 1, 2]))
    dims.append(d0)
    if ndims == 2:
        c1 = cnt1 if cnt1 is not None else pick(draw, cnt1_choices(c0))
        lo1 = pick(draw, ["0", "0", "1", names[0], "%s+1" % names[0], "K"])
        d1 = Dim(names[1], lo1, c1, pick(draw, steps), pick(draw, [0, 0, 1, 2]))
        if draw(sint(0, 2)) == 0:
            d1.cnt_local = "q1"      # count of the second parameter goes through a derived local declared between the two
        dims.append(d1)
    return dims


def idx_vars(n, p="i"):
    return ["%s%d" % (p, d) for d in range(n)]


class Builder:
    def __init__(self, draw, profile):
        self.draw, self.profile = draw, profile
        self.prog = Program(globals=["N", "M", "K"], classes=[], edges=[])
        self.layout = []      # (global name base, global name width, class idx, kind 'E'|'D')
        self.consumers = {}   # (class idx, flow) -> "RW" | "READ" (kind of consumers attached so far)

    # ---- layout globals: unique key regions in D (RW default sources) and E (sinks)
    def region(self, kind, ci):
        n = len(self.layout)
        b, w = "%sB%d" % (kind, n), "%sW%d" % (kind, n)
        self.prog.globals += [b, w]
        self.layout.append((b, w, ci, kind))
        nd = len(self.prog.classes[ci].dims) if ci < len(self.prog.classes) else None
        return b, w

    def key_expr(self, kind, ci, ndims):
        b, w = self.region(kind, ci)
        if ndims == 1:
            return "%s+i0" % b
        return "%s+i0*%s+i1" % (b, w)

    def add_class(self, dims, flows):
        draw = self.draw
        ci = len(self.prog.classes)
        name = "T%d" % ci
        nd = len(dims)
        place = "%d*i0+%d" % (draw(sint(0, 3)), draw(sint(0, 5))) if nd == 1 else "%d*i0+%d*i1+%d" % (draw(sint(0, 3)), draw(sint(0, 3)), draw(sint(0, 5)))
        if self.profile.get("ranks"):
            # multi-rank programs: often reuse the placement of an earlier class of the same shape, so that several outputs of
            # one task go to the SAME set of remote ranks and some successors are local to their producer
            same = [c.place for c in self.prog.classes if len(c.dims) == nd]
            if same and draw(st.booleans()):
                place = pick(draw, same)
        cls = TaskClass(name, dims, flows, place=place)
        if draw(st.booleans()):
            cls.priority = pick(draw, [dims[0].name, "0-%s" % dims[0].name, "N-%s" % dims[0].name, "%s*2+1" % dims[-1].name, "%{ return " + dims[0].name + "; %}"])
        if self.profile.get("again", False) and draw(sint(0, 2)) > 0:
            cls.again = pick(draw, ["i0%3", "(i0+1)%2", "2", "1"] if nd == 1 else ["(i0+i1)%3", "i1%2", "1", "(i0*i1)%3"])
        if self.profile.get("locals", True) and draw(sint(0, 3)) == 0:
            cls.locals.append(("lv%d" % ci, "%s+1" % dims[0].name))
        self.prog.classes.append(cls)
        return ci

    def default_flow(self, name, ci_future, ndims, access=None):
        """A data flow fed from the collection D (unique key if RW, shared read-only region if READ) or NEW (WRITE)."""
        draw = self.draw
        acc = access or pick(draw, ["RW", "RW", "READ", "WRITE"])
        fl = Flow(name, acc)
        if acc == "RW":
            fl.default_src = "D:" + self.key_expr("D", ci_future, ndims)
        elif acc == "READ" and not self.profile.get("ranks"):
            fl.default_src = "D:(%d*i0+%d)%%%d" % (draw(sint(1, 3)), draw(sint(0, 3)), self.prog.ntd_ro)
        elif acc == "READ":
            fl.default_src = "D:" + self.key_expr("D", ci_future, ndims)
        else:
            fl.default_src = "NEW"
        return fl

    def maybe_sink(self, ci, fl):
        if fl.access == "CTL":
            return
        if self.draw(sint(0, 2)) > 0:
            cg = getattr(self, "chain_guard", {}).get((ci, fl.name))
            if cg is not None and self.draw(st.booleans()):
                # only the last element of an RW chain writes back (the usual PTG idiom): no successor can race with the copy
                fl.sink = "E:" + self.key_expr("E", ci, len(self.prog.classes[ci].dims))
                fl.sink_guard = "!(%s)" % cg
                self.prog.features.add("sink")
                self.prog.features.add("guarded_sink")
                return
            if self.consumers.get((ci, fl.name)) == "RW" and not os.environ.get("PTG_INCLUDE_KNOWN"):
                # known finding C02-K1: the write-back to a collection is an asynchronous memcpy that races with a local
                # RW successor modifying the same copy in place; excluded by construction (counted through the feature label)
                self.prog.features.add("excluded_known_sink_plus_rw_successor")
                return
            fl.sink = "E:" + self.key_expr("E", ci, len(self.prog.classes[ci].dims))
            self.prog.features.add("sink")

    def exportable(self, ci, want_rw):
        """flows of class ci that may get one more consumer of the wanted kind."""
        res = []
        for fl in self.prog.classes[ci].flows:
            if fl.access == "CTL":
                continue
            have = self.consumers.get((ci, fl.name))
            if have == "RW":
                continue
            if want_rw and fl.access not in ("RW", "WRITE"):
                continue        # a READ flow's copy may be shared: never hand it to a consumer that writes
            if want_rw and have is not None:
                continue
            res.append(fl)
        return res

    def cnt_of(self, ci, d, var="i"):
        e = self.prog.classes[ci].dims[d].cnt
        return e if var == "i" else subst(e, {"i0": "j0", "i1": "j1"})


def build_program(draw, profile):
    b = Builder(draw, profile)
    prog = b.prog
    nclasses = draw(sint(profile.get("min_classes", 1), profile.get("max_classes", 4)))
    # ---- class 0
    nd0 = draw(sint(1, 2))
    dims0 = new_dims(draw, profile, nd0)
    fl0 = [b.default_flow("A", 0, nd0)]
    if draw(sint(0, 3)) == 0:
        fl0.append(b.default_flow("B", 0, nd0, access="READ"))
    b.add_class(dims0, fl0)
    # ---- further classes through templates
    guard = 0
    while len(prog.classes) < nclasses and guard < 12:
        guard += 1
        s = draw(sint(max(0, len(prog.classes) - 2), len(prog.classes) - 1))
        scls = prog.classes[s]
        nds = len(scls.dims)
        c0 = scls.dims[0].cnt
        rect = nds == 2 and "i0" not in scls.dims[1].cnt
        options = ["IDENT", "SHIFT"]
        if nds == 1:
            options += ["FANOUT", "FANOUT", "TREE_DOWN", "PARITY"]
            if c0.startswith("2*("):
                options += ["TREE_UP", "TREE_UP"]
        if nds == 2:
            options += ["GATHER_CTL", "GATHER_CTL"]
            if rect:
                options += ["TRANSPOSE"]
        kind = pick(draw, options)
        multi = kind in ("FANOUT", "TREE_DOWN")
        want_rw = (not multi) and kind not in ("GATHER_CTL",) and draw(st.booleans())
        if kind != "GATHER_CTL":
            cands = b.exportable(s, want_rw)
            if not cands and want_rw:
                want_rw = False
                cands = b.exportable(s, False)
            if not cands:
                continue
            sfl = pick(draw, cands)
        ci = len(prog.classes)
        acc = "RW" if want_rw else "READ"
        if kind == "IDENT":
            dims = new_dims(draw, profile, nds, cnt0=c0, cnt1=scls.dims[1].cnt if nds == 2 else None)
            flows = [Flow("A", acc)]
            b.add_class(dims, flows)
            iv, jv = idx_vars(nds), idx_vars(nds, "j")
            prog.edges.append(Edge(s, sfl.name, ci, "A", [(None, iv)], [(None, jv)], kind="ident"))
        elif kind == "SHIFT":
            c = draw(sint(1, 3))
            if nds == 2 and not rect:
                continue
            newc0 = pick(draw, [c0, "N+1", "N", "M+3"])
            dims = new_dims(draw, profile, nds, cnt0=newc0, cnt1=scls.dims[1].cnt if nds == 2 else None)
            fl = Flow("A", acc)
            # instances not covered by the shifted producer read from D
            if acc == "RW" or profile.get("ranks"):
                fl.default_src = "D:" + b.key_expr("D", ci, nds)
            else:
                fl.default_src = "D:(i0+%d)%%%d" % (draw(sint(0, 3)), prog.ntd_ro)
            b.add_class(dims, [fl])
            tail = ["i1"] if nds == 2 else []
            tailj = ["j1"] if nds == 2 else []
            prog.edges.append(Edge(s, sfl.name, ci, "A",
                                   [("i0+%d < %s" % (c, newc0), ["i0+%d" % c] + tail)],
                                   [("j0 >= %d && j0-%d < %s" % (c, c, c0), ["j0-%d" % c] + tailj)], kind="shift"))
            prog.features.add("guard")
        elif kind == "FANOUT":
            c1 = pick(draw, cnt1_choices(c0))
            dims = new_dims(draw, profile, 2, cnt0=c0, cnt1=c1)
            b.add_class(dims, [Flow("A", "READ")])
            prog.edges.append(Edge(s, sfl.name, ci, "A", [(None, ["i0", ("0", "(%s)-1" % c1)])], [(None, ["j0"])], multi=True, kind="fanout"))
            prog.features.add("fanout")
            if "i0" in c1:
                prog.features.add("dependent_range")
        elif kind == "TREE_DOWN":
            dims = new_dims(draw, profile, 1, cnt0="2*(%s)" % c0)
            b.add_class(dims, [Flow("A", "READ")])
            prog.edges.append(Edge(s, sfl.name, ci, "A", [(None, [("2*i0", "2*i0+1")])], [(None, ["j0/2"])], multi=True, kind="tree_down"))
            prog.features.add("fanout")
        elif kind == "TREE_UP":
            inner = c0[3:-1]
            dims = new_dims(draw, profile, 1, cnt0=inner)
            b.add_class(dims, [Flow("A", acc), Flow("B", "READ")])
            prog.edges.append(Edge(s, sfl.name, ci, "A", [("i0%2 == 0", ["i0/2"])], [(None, ["2*j0"])], kind="ternary_a"))
            prog.edges.append(Edge(s, sfl.name, ci, "B", [("i0%2 == 1", ["i0/2"])], [(None, ["2*j0+1"])], kind="ternary_b"))
            prog.features.add("ternary")
        elif kind == "PARITY":
            d1 = new_dims(draw, profile, 1, cnt0="((%s)+1)/2" % c0)
            b.add_class(d1, [Flow("A", acc)])
            d2 = new_dims(draw, profile, 1, cnt0="(%s)/2" % c0)
            b.add_class(d2, [Flow("A", acc)])
            prog.edges.append(Edge(s, sfl.name, ci, "A", [("i0%2 == 0", ["i0/2"])], [(None, ["2*j0"])], kind="ternary_a"))
            prog.edges.append(Edge(s, sfl.name, ci + 1, "A", [("i0%2 == 1", ["i0/2"])], [(None, ["2*j0+1"])], kind="ternary_b"))
            prog.features.add("ternary")
        elif kind == "TRANSPOSE":
            dims = new_dims(draw, profile, 2, cnt0=scls.dims[1].cnt, cnt1=c0)
            b.add_class(dims, [Flow("A", acc)])
            prog.edges.append(Edge(s, sfl.name, ci, "A", [(None, ["i1", "i0"])], [(None, ["j1", "j0"])], kind="transpose"))
        elif kind == "GATHER_CTL":
            c1 = scls.dims[1].cnt
            dims = new_dims(draw, profile, 1, cnt0=c0)
            ctlname = "X%d" % len(prog.edges)
            scls.flows.append(Flow(ctlname, "CTL"))
            flows = [b.default_flow("A", ci, 1), Flow("Y", "CTL")]
            b.add_class(dims, flows)
            prog.edges.append(Edge(s, ctlname, ci, "Y", [(None, ["i0"])], [(None, ["j0", ("0", "(%s)-1" % subst(c1, {"i0": "j0"}))])], ctl=True, kind="ctl_gather"))
            prog.features.add("ctl_gather")
            if draw(st.booleans()):
                # a second control output of the same producers gathered into the SAME control flow: the consumer's flow has two
                # unconditional ranged input dependencies (its dependency count is the sum of both gathers)
                ctl2 = "X%d" % len(prog.edges)
                scls.flows.append(Flow(ctl2, "CTL"))
                prog.edges.append(Edge(s, ctl2, ci, "Y", [(None, ["i0"])], [(None, ["j0", ("0", "(%s)-1" % subst(c1, {"i0": "j0"}))])], ctl=True, kind="ctl_gather"))
                prog.features.add("ctl_double_gather")
            continue
        if kind != "GATHER_CTL":
            b.consumers[(s, sfl.name)] = "RW" if want_rw else "READ"
    # ---- optional chains (self edges) and extra flows
    for ci, cls in enumerate(prog.classes):
        nd = len(cls.dims)
        if draw(sint(0, 2)) == 0:
            d = draw(sint(0, nd - 1))
            fl = Flow("C", "RW")
            fl.default_src = "D:" + b.key_expr("D", ci, nd)
            cls.flows.append(fl)
            iv, jv = idx_vars(nd), idx_vars(nd, "j")
            up = list(iv)
            up[d] = "i%d+1" % d
            dn = list(jv)
            dn[d] = "j%d-1" % d
            if d == 0 and nd == 2:
                g_f = "i0+1 < %s && i1 < %s" % (cls.dims[0].cnt, subst(cls.dims[1].cnt, {"i0": "i0+1"}))
                g_b = "j0 >= 1 && j1 < %s" % subst(cls.dims[1].cnt, {"i0": "j0-1"})
            else:
                g_f = "i%d+1 < %s" % (d, cls.dims[d].cnt)
                g_b = "j%d >= 1" % d
            prog.edges.append(Edge(ci, "C", ci, "C", [(g_f, up)], [(g_b, dn)], kind="chain"))
            b.consumers[(ci, "C")] = "RW"
            if not hasattr(b, "chain_guard"):
                b.chain_guard = {}
            b.chain_guard[(ci, "C")] = g_f
            prog.features.add("chain")
    # ---- sinks
    for ci, cls in enumerate(prog.classes):
        for fl in cls.flows:
            b.maybe_sink(ci, fl)
    # feature flags from the dims
    for cls in prog.classes:
        for d in cls.dims:
            if d.step != 1:
                prog.features.add("step")
            if d.step < 0:
                prog.features.add("neg_step")
            if d.style == 1:
                prog.features.add("inline_c")
            if d.style == 2:
                prog.features.add("local_index")
            if d.lo in PARAM_NAMES or d.lo.startswith(tuple(n + "+" for n in PARAM_NAMES)) or "i0" in d.cnt:
                prog.features.add("dependent_range")
            if d.lo.startswith("0-"):
                prog.features.add("neg_bound")
            if d.cnt_local:
                prog.features.add("range_through_derived_local")
        if cls.again:
            prog.features.add("again")
    prog.layout = b.layout
    return prog


def layout_globals(prog, G):
    """Compute the layout globals (unique key regions) for user globals G; returns (full G, NTD, NTE)."""
    full = dict(G)
    offs = {"D": prog.ntd_ro, "E": 0}
    # widths need the spaces: first pass with zeros
    for (bn, wn, ci, kind) in prog.layout:
        full[bn] = 0
        full[wn] = 1
    for (bn, wn, ci, kind) in prog.layout:
        sp = prog.space(ci, full)
        nd = len(prog.classes[ci].dims)
        w = 1
        n0 = 0
        if sp:
            n0 = max(i[0] for i in sp) + 1
            if nd == 2:
                w = max(i[1] for i in sp) + 1
        full[bn] = offs[kind]
        full[wn] = w
        offs[kind] += n0 * w if nd == 2 else n0
    return full, max(offs["D"], 1), max(offs["E"], 1)
