"""C02 -- PTG execution respects dependencies and delivers the named data (engine E5)."""
import os
import sys
sys.path.insert(0, os.path.join(os.path.dirname(os.path.abspath(__file__)), "..", "ptg"))
import engine  # noqa: E402

PROP = "C02"


def prebuild():
    engine.prebuild()


def run(tier, seed, res):
    engine.known_findings(PROP, res, ["C01", "C02"])
    engine.regressions(PROP, res, ["C01", "C02"])
    engine.run(PROP, "c02", tier, seed, res, props=["C02", "C01"])


def replay(path):
    return engine.replay(path, ["C01", "C02"])
