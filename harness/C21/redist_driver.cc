// C21 -- parsec_redistribute copies exactly the requested window.  MPI driver executing a batch of generated cases.
// Case file:
//   hdr <P> <threads>
//   R <sdist> <tdist> <M> <N> <MB> <NB> <MR> <NR> <MBR> <NBR> <sr> <sc> <iY> <jY> <iT> <jT> <Ps> <kps> <kqs> <Pt> <kpt> <kqt> <uploS> <uploT>
//      dist 0 = 2D block cyclic (grid rows Px, supertiles kp x kq), 1 = symmetric block cyclic (sbc.c; uplo 0 lower, 1 upper)
// Oracle (the definition): source element (i,j) = f(i,j), target = g(i,j); afterwards every locally stored target
// element (i,j) (padding of partial tiles included) is f(i-iT+iY, j-jT+jY) inside the window and g(i,j) outside.
#include "mpidrv.hpp"
extern "C" {
#include "parsec/data_dist/matrix/matrix.h"
#include "parsec/data_dist/matrix/two_dim_rectangle_cyclic.h"
#include "parsec/data_dist/matrix/sbc.h"
#include "parsec/data_internal.h"
}
using drv::fmt;

struct Case { int sd, td, M, N, MB, NB, MR, NR, MBR, NBR, sr, sc, iY, jY, iT, jT, Ps, kps, kqs, Pt, kpt, kqt, us, ut; std::string text; };
static std::vector<Case> cases;
static std::string header;
static int hdrP, hdrT;

static inline double f(long i, long j) { return (double)(1 + i * 1024 + j); }
static inline double g(long i, long j) { return -(double)(1 + i * 1024 + j) - 0.5; }

struct Mat {
    parsec_matrix_block_cyclic_t bc; parsec_matrix_sbc_t sbc; parsec_tiled_matrix_t *d = nullptr; void **mat = nullptr; int dist = 0, uplo = 0;
};
static int sbc_r(int nodes) { for (int r = 2; r < 64; r++) if (nodes == r * (r - 1) / 2 || (r % 2 == 0 && nodes == r * r / 2)) return r; return -1; }

static bool mk(Mat &m, int dist, int mb, int nb, int lm, int ln, int Prow, int kp, int kq, int uplo, const char *name) {
    m.dist = dist; m.uplo = uplo;
    if (dist == 0) {
        parsec_matrix_block_cyclic_init(&m.bc, PARSEC_MATRIX_DOUBLE, PARSEC_MATRIX_TILE, drv::me, mb, nb, lm, ln, 0, 0, lm, ln, Prow, drv::np / Prow, kp, kq, 0, 0);
        m.d = &m.bc.super; m.mat = &m.bc.mat;
    } else {
        int r = sbc_r(drv::np);
        if (r < 0 || PARSEC_SUCCESS != parsec_matrix_sbc_init(&m.sbc, PARSEC_MATRIX_DOUBLE, drv::me, mb, nb, lm, ln, 0, 0, lm, ln, drv::np, r, uplo ? PARSEC_MATRIX_UPPER : PARSEC_MATRIX_LOWER)) return false;
        m.d = &m.sbc.super; m.mat = &m.sbc.mat;
    }
    size_t bytes = (size_t)m.d->nb_local_tiles * (size_t)m.d->bsiz * sizeof(double);
    *m.mat = bytes ? parsec_data_allocate(bytes) : nullptr;
    parsec_data_collection_set_key(&m.d->super, name);
    return true;
}
static void rm(Mat &m) { if (!m.d) return; parsec_tiled_matrix_destroy(m.d); if (*m.mat) parsec_data_free(*m.mat); *m.mat = nullptr; m.d = nullptr; }
static bool stored(const Mat &m, int tm, int tn) { return m.dist == 0 || (m.uplo ? tm <= tn : tm >= tn); }

template <class F> static void each_local_tile(Mat &m, F fn) {
    parsec_data_collection_t *dc = &m.d->super;
    for (int tn = 0; tn < m.d->lnt; tn++) for (int tm = 0; tm < m.d->lmt; tm++) {
        if (!stored(m, tm, tn) || (int)dc->rank_of(dc, tm, tn) != drv::me) continue;
        parsec_data_t *dt = dc->data_of(dc, tm, tn);
        double *p = (double *)PARSEC_DATA_COPY_GET_PTR(parsec_data_get_copy(dt, 0));
        fn(tm, tn, p);
    }
}

static bool load(const char *path) {
    std::ifstream fi(path); std::string line;
    while (std::getline(fi, line)) {
        if (line.empty() || line[0] == '#') continue;
        std::istringstream ls(line); std::string w; ls >> w;
        if (w == "hdr") { ls >> hdrP >> hdrT; header = line + "\n"; }
        else if (w == "R") {
            Case c; ls >> c.sd >> c.td >> c.M >> c.N >> c.MB >> c.NB >> c.MR >> c.NR >> c.MBR >> c.NBR >> c.sr >> c.sc >> c.iY >> c.jY >> c.iT >> c.jT
                       >> c.Ps >> c.kps >> c.kqs >> c.Pt >> c.kpt >> c.kqt >> c.us >> c.ut;
            if (ls.fail()) return false;
            c.text = line + "\n"; cases.push_back(c);
        }
    }
    return !header.empty();
}
static bool fits_uplo(int mb, int nb, int sr, int sc, int di, int dj, int upper) {
    int ms = di / mb, me_ = (di + sr - 1) / mb, ns = dj / nb, ne = (dj + sc - 1) / nb;
    return upper ? ns >= me_ : ms >= ne;
}
static bool valid(const Case &c) {
    if (c.M < 1 || c.N < 1 || c.MR < 1 || c.NR < 1 || c.MB < 1 || c.NB < 1 || c.MBR < 1 || c.NBR < 1 || c.sr < 1 || c.sc < 1) return false;
    if (c.iY < 0 || c.jY < 0 || c.iT < 0 || c.jT < 0) return false;
    if (c.iY + c.sr > c.M || c.jY + c.sc > c.N || c.iT + c.sr > c.MR || c.jT + c.sc > c.NR) return false;
    if (c.sd == 0 && (c.Ps < 1 || drv::np % c.Ps || c.kps < 1 || c.kqs < 1)) return false;
    if (c.td == 0 && (c.Pt < 1 || drv::np % c.Pt || c.kpt < 1 || c.kqt < 1)) return false;
    if ((c.sd == 1 || c.td == 1) && sbc_r(drv::np) < 0) return false;
    if (c.sd == 1 && !fits_uplo(c.MB, c.NB, c.sr, c.sc, c.iY, c.jY, c.us)) return false;
    if (c.td == 1 && !fits_uplo(c.MBR, c.NBR, c.sr, c.sc, c.iT, c.jT, c.ut)) return false;
    return true;
}

int main(int argc, char **argv) {
    if (argc < 2 || !load(argv[1])) { fprintf(stderr, "usage: redist_driver <casefile>\n"); return 2; }
    int prov; MPI_Init_thread(&argc, &argv, MPI_THREAD_SERIALIZED, &prov);
    int pargc = 0; char **pargv = nullptr;
    parsec_context_t *parsec = parsec_init(hdrT, &pargc, &pargv);
    if (!parsec) MPI_Abort(MPI_COMM_WORLD, 2);
    drv::init(parsec);
    if (drv::np != hdrP) { if (!drv::me) fprintf(stderr, "case file wants %d ranks\n", hdrP); MPI_Abort(MPI_COMM_WORLD, 2); }
    // warm-up outside the watchdog: the first start wakes the communication thread, which enables the engine
    // (a dozen MPI_Comm_dup collectives) -- seconds on a loaded machine, and not what a case is about
    parsec_context_start(parsec); parsec_context_wait(parsec); MPI_Barrier(drv::hc);
    int failed = 0;
    for (size_t ci = 0; ci < cases.size() && !failed; ci++) {
        const Case &c = cases[ci];
        if (!valid(c)) { if (!drv::me) vf::label("invalid_case_skipped"); continue; }
        drv::begin_case((int)ci, header + c.text);
        std::vector<std::string> errs;
        Mat Y, T;
        if (!mk(Y, c.sd, c.MB, c.NB, c.M, c.N, c.Ps, c.kps, c.kqs, c.us, "dcY") || !mk(T, c.td, c.MBR, c.NBR, c.MR, c.NR, c.Pt, c.kpt, c.kqt, c.ut, "dcT")) {
            errs.push_back("descriptor initialisation refused");
        } else {
            each_local_tile(Y, [&](int tm, int tn, double *p) { for (int j = 0; j < c.NB; j++) for (int i = 0; i < c.MB; i++) p[(size_t)j * c.MB + i] = f((long)tm * c.MB + i, (long)tn * c.NB + j); });
            each_local_tile(T, [&](int tm, int tn, double *p) { for (int j = 0; j < c.NBR; j++) for (int i = 0; i < c.MBR; i++) p[(size_t)j * c.MBR + i] = g((long)tm * c.MBR + i, (long)tn * c.NBR + j); });
            MPI_Barrier(drv::hc);
            int rc;
            { drv::Call call("parsec_redistribute"); rc = parsec_redistribute(parsec, Y.d, T.d, c.sr, c.sc, c.iY, c.jY, c.iT, c.jT); }
            if (rc != PARSEC_SUCCESS) errs.push_back(fmt("parsec_redistribute refused an in-domain request (rc=%d)", rc));
            long bad = 0;
            each_local_tile(T, [&](int tm, int tn, double *p) {
                for (int j = 0; j < c.NBR; j++) for (int i = 0; i < c.MBR; i++) {
                    long gi = (long)tm * c.MBR + i, gj = (long)tn * c.NBR + j;
                    bool in = gi >= c.iT && gi < c.iT + c.sr && gj >= c.jT && gj < c.jT + c.sc;
                    double want = in ? f(gi - c.iT + c.iY, gj - c.jT + c.jY) : g(gi, gj), got = p[(size_t)j * c.MBR + i];
                    if (got != want) {
                        if (!bad) errs.push_back(fmt("target(%ld,%ld) [tile %d,%d] = %.1f, expected %.1f (%s the window)", gi, gj, tm, tn, got, want, in ? "inside" : "outside"));
                        bad++;
                    }
                }
            });
            if (bad) errs.push_back(fmt("%ld wrong target elements on this rank", bad));
        }
        rm(T); rm(Y);
        std::string all;
        int nf = drv::merge(errs, all);
        if (!drv::me) {
            bool resh = c.MB == c.MBR && c.NB == c.NBR && c.iY % c.MB == 0 && c.jY % c.NB == 0 && c.iT % c.MBR == 0 && c.jT % c.NBR == 0;
            bool unaligned = (c.iY % c.MB || c.jY % c.NB || c.iT % c.MBR || c.jT % c.NBR || (c.iY + c.sr) % c.MB || (c.iT + c.sr) % c.MBR || (c.jY + c.sc) % c.NB || (c.jT + c.sc) % c.NBR);
            bool tilediff = c.MB != c.MBR || c.NB != c.NBR;
            bool distdiff = c.sd != c.td || (c.sd == 0 && (c.Ps != c.Pt || c.kps != c.kpt || c.kqs != c.kqt)) || (c.sd == 1 && c.us != c.ut);
            vf::label(resh ? "path:reshuffle" : "path:general");
            vf::label(fmt("dist:%s->%s", c.sd ? "sbc" : "2dbc", c.td ? "sbc" : "2dbc"));
            if (unaligned) vf::label("window_not_tile_aligned"); if (tilediff) vf::label("tile_sizes_differ"); if (distdiff) vf::label("distributions_differ");
            if (c.sr == 1 || c.sc == 1) vf::label("window_1_wide"); if (c.sr == c.M && c.sc == c.N && c.M == c.MR && c.N == c.NR) vf::label("whole_matrix");
            if (c.M % c.MB || c.N % c.NB || c.MR % c.MBR || c.NR % c.NBR) vf::label("partial_edge_tiles");
            int spanY = (c.iY + c.sr - 1) / c.MB - c.iY / c.MB + 1, spanT = (c.iT + c.sr - 1) / c.MBR - c.iT / c.MBR + 1;
            if (spanY >= 3 && spanT >= 3) vf::label("window_spans_ge3_tile_rows_both");
            vf::label(fmt("P=%d,threads=%d", drv::np, hdrT));
            vf::note_case(header + c.text, (unaligned && tilediff) || (drv::np >= 2 && distdiff));
            if (nf) { vf::record_failure(header + c.text, all.substr(0, 1500)); failed = 1; }
        }
        MPI_Bcast(&failed, 1, MPI_INT, 0, drv::hc);
    }
    if (!drv::me) vf::dump();
    MPI_Barrier(drv::hc);
    drv::fini(parsec);
    { drv::Call call("parsec_fini"); parsec_fini(&parsec); }
    MPI_Finalize();
    return failed && !drv::me ? 1 : 0;
}
