"""C21 -- parsec_redistribute copies exactly the requested window (element-wise definition as oracle).

Hypothesis generates cases (matrix / tile sizes, window, displacements, 2DBC grids with supertiles or SBC with uplo);
cases are grouped by (ranks, threads) and every group is one mpiexec run of harness/C21/redist_driver.cc.
"""
import os

from hypothesis import strategies as st

from vf import core
import mpibatch as mb

PROP = "C21"
RULE = ("case = (source MxN tiles MBxNB, target MRxNR tiles MBRxNBR, window sr x sc, displacements in source and target, "
        "distribution of each side: 2D block-cyclic grid PxQ with supertiles, or symmetric block cyclic lower/upper), run on "
        "P ranks x T threads; oracle: source = f(i,j), target = g(i,j); after parsec_redistribute every stored target element "
        "(padding of partial tiles included) equals f(i-iT+iY, j-jT+jY) inside the window and g(i,j) outside; non-trivial = "
        "(window not tile-aligned on some side AND tile sizes differ) OR (P >= 2 AND the two distributions differ); "
        "distinct = distinct case lines")
ASSUME = ["element type double, tile storage (as the repository's redistribute tests)",
          "window inside both matrices (lm x ln, not the padded tile grid)",
          "SBC side: the window only touches stored tiles (redistribute_region_is_stored), uplo chosen accordingly; SBC needs "
          "P = r(r-1)/2 or r*r/2 (r even), i.e. P in {1,2,3} here",
          "one virtual process; supertile sizes 1..3"]


def _build():
    return core.build_harness("C21/redist_driver", ["harness/C21/redist_driver.cc"], tree="hooks",
                              extra_cflags=["-DOMPI_SKIP_MPICXX", "-DMPICH_SKIP_MPICXX"])


def _fits(mb, nb, sr, sc, di, dj, upper):
    ms, me, ns, ne = di // mb, (di + sr - 1) // mb, dj // nb, (dj + sc - 1) // nb
    return ns >= me if upper else ms >= ne


def _fit_sbc(mb, nb, M, N, sr, sc, di, dj, first):
    """uplo and (possibly moved) displacement so that the window only touches stored tiles; None if impossible."""
    for up in (first, 1 - first):
        if _fits(mb, nb, sr, sc, di, dj, up):
            return up, di, dj
    for up in (first, 1 - first):
        if up == 0:
            d2 = mb * ((dj + sc - 1) // nb)
            if d2 + sr <= M:
                return 0, d2, dj
        else:
            d2 = nb * ((di + sr - 1) // mb)
            if d2 + sc <= N:
                return 1, di, d2
    return None


@st.composite
def case(draw, P):
    sbc_ok = P in (1, 2, 3)
    dims = st.integers(1, 40)
    tiles = st.integers(1, 8)
    M, N, MR, NR = draw(dims), draw(dims), draw(dims), draw(dims)
    MB, NB = draw(tiles), draw(tiles)
    same = draw(st.integers(0, 2)) == 0
    MBR, NBR = (MB, NB) if same else (draw(tiles), draw(tiles))
    sr = draw(st.integers(1, min(M, MR)))
    sc = draw(st.integers(1, min(N, NR)))
    iY, jY = draw(st.integers(0, M - sr)), draw(st.integers(0, N - sc))
    iT, jT = draw(st.integers(0, MR - sr)), draw(st.integers(0, NR - sc))
    mode = draw(st.integers(0, 2 if same else 5))
    if mode <= (1 if same else 0):          # tile-aligned displacements (reshuffle path when `same`)
        iY, jY, iT, jT = iY - iY % MB, jY - jY % NB, iT - iT % MBR, jT - jT % NBR
        if mode == 1 or draw(st.integers(0, 3)) == 0:
            # boundary of the "tile-aligned" decision: exactly one displacement is aligned to the OTHER tile dimension
            # (or one element off a tile start), the three others stay aligned
            which = draw(st.integers(0, 3))
            other = [NB, MB, NBR, MBR][which]
            hi = [M - sr, N - sc, MR - sr, NR - sc][which]
            cands = sorted(set([x for x in range(0, hi + 1, other)] + [x for x in ([iY, jY, iT, jT][which] + 1, [iY, jY, iT, jT][which] - 1) if 0 <= x <= hi]))
            v = draw(st.sampled_from(cands))
            iY, jY, iT, jT = [v if q == which else x for q, x in enumerate((iY, jY, iT, jT))]
    sd = draw(st.integers(0, 2)) == 0 and sbc_ok
    td = draw(st.integers(0, 2)) == 0 and sbc_ok
    divs = [d for d in range(1, P + 1) if P % d == 0]
    Ps, Pt = draw(st.sampled_from(divs)), draw(st.sampled_from(divs))
    k = st.integers(1, 3)
    kps, kqs, kpt, kqt = draw(k), draw(k), draw(k), draw(k)
    us = ut = 0
    pref_s, pref_t = draw(st.integers(0, 1)), draw(st.integers(0, 1))
    for _ in range(2):
        redo = False
        if sd:
            r = _fit_sbc(MB, NB, M, N, sr, sc, iY, jY, pref_s)
            if r is None:
                sr = sc = 1
                redo = True
            else:
                us, iY, jY = r
        if td:
            r = _fit_sbc(MBR, NBR, MR, NR, sr, sc, iT, jT, pref_t)
            if r is None:
                sr = sc = 1
                redo = True
            else:
                ut, iT, jT = r
        if not redo:
            break
    return "R %d %d %d %d %d %d %d %d %d %d %d %d %d %d %d %d %d %d %d %d %d %d %d %d\n" % (
        int(sd), int(td), M, N, MB, NB, MR, NR, MBR, NBR, sr, sc, iY, jY, iT, jT, Ps, kps, kqs, Pt, kpt, kqt, us, ut)


def _P_of(text):
    for l in text.splitlines():
        if l.startswith("hdr "):
            return int(l.split()[1])
    raise ValueError("no hdr line")


def run(tier, seed, res):
    b = _build()
    quick = tier == "quick"
    res.rule = RULE
    res.assumptions = ASSUME
    groups = [(1, 2), (2, 1), (2, 3), (3, 2), (4, 1), (4, 2), (2, 4), (3, 1)] if quick else \
        [(P, T) for P in (1, 2, 3, 4) for T in (1, 2, 3, 4)] * 2
    per = 150 if quick else 1200
    batches = []
    for i, (P, T) in enumerate(groups):
        cases = mb.generate(case(P), per, seed * 1000 + i)
        batches.append(mb.Batch(P, "hdr %d %d\n" % (P, T), cases, tag="P%dT%d" % (P, T)))
    bg = mb.in_background(_regress, b, res)
    mb.run_batches(PROP, b, batches, res, "cases", timeout=300 if quick else 1800, max_parallel=4,
                   tq_ms=5000 if quick else 20000)
    bg.join()
    floor = 200 if quick else 8000
    if not res.violations and res.distinct_nontrivial < floor:
        res.inconclusive = "only %d non-trivial cases executed (floor %d)" % (res.distinct_nontrivial, floor)


def _regress(b, res):
    d = os.path.join(core.VERIF, "corpus", PROP, "regress")
    known = {f.get("id"): f for f in core.known_for(PROP)}
    for name in sorted(os.listdir(d)) if os.path.isdir(d) else []:
        text = open(os.path.join(d, name)).read()
        expect_fail = "# EXPECT: violation" in text
        stt, msg = mb.run_solo(PROP, b, _P_of(text), text)
        lab = res.coverage.setdefault("labels", {})
        lab["regress:%s:%s" % (name, stt)] = 1
        if expect_fail:
            fid = ([l.split(":", 1)[1].strip() for l in text.splitlines() if l.startswith("# FINDING:")] or [name])[0]
            if stt in ("fail", "crash", "hang"):
                if fid in known:
                    res.known.append("%s reproduced by corpus/%s/regress/%s" % (fid, PROP, name))
                else:
                    res.coverage.setdefault("open_findings_reproduced", []).append("%s (corpus/%s/regress/%s): %s" % (fid, PROP, name, msg[:200]))
        elif stt != "pass":
            res.violations.append(core.Violation("regression case %s: %s %s" % (name, stt, msg), replay_path=os.path.join(d, name)))


def replay(path):
    b = _build()
    text = open(path).read()
    last = ("pass", "")
    for _ in range(3):
        stt, msg = mb.run_solo(PROP, b, _P_of(text), text)
        if stt in ("fail", "crash"):
            return False, "%s: %s" % (stt, msg)
        if stt == "hang":
            last = (stt, msg)
            continue
        if stt == "timeout":
            return True, "inconclusive: timeout"
        return True, "pass"
    return False, "quiescent-incomplete in 3 of 3 replays: " + last[1]
