// Shared bits of the whole-runtime MPI drivers (C21, C22; identical copy in both directories):
// batch position file, verdict merging on rank 0, and the DESIGN-4.1 watchdog.  The watchdog's progress counter is
// fed by a PINS EXEC_BEGIN callback on every execution stream (one tick per executed task) plus the driver's own
// ticks; "something is missing" = the runtime call the driver is inside of has not returned.
#pragma once
#include <mpi.h>
#include <pthread.h>
#include <unistd.h>
#include <time.h>
#include <stdarg.h>
#include <functional>
extern "C" {
#include "parsec.h"
#include "parsec/execution_stream.h"
#include "parsec/parsec_internal.h"
#include "parsec/mca/pins/pins.h"
}
#include "vf.hpp"

namespace drv {

static volatile long tick;
static volatile int in_call;              // 1 while inside a runtime call that must return
static const char *volatile what = "";    // name of that call
static int me, np, cur_idx = -1;
static MPI_Comm hc;
static std::string cur_repr;              // stand-alone case file of the running case (header + case)
static std::function<std::string()> detail;   // optional: what exactly is missing (called from the watchdog thread)

static inline std::string fmt(const char *f, ...) { char b[700]; va_list ap; va_start(ap, f); vsnprintf(b, sizeof b, f, ap); va_end(ap); return b; }
static inline double now_s() { struct timespec t; clock_gettime(CLOCK_MONOTONIC, &t); return t.tv_sec + 1e-9 * t.tv_nsec; }

static void *watchdog(void *) {
    double tq = vf::envl("VF_TQ_MS", 5000) / 1000.0;
    long last = -1; double tl = now_s();
    for (;;) {
        usleep(50000);
        if (!in_call) { last = -1; tl = now_s(); continue; }
        long t = tick;
        if (t != last) { last = t; tl = now_s(); continue; }
        if (now_s() - tl < tq) continue;
        std::string d = detail ? detail() : std::string();
        const char *p = vf::outpath();
        if (p) {
            FILE *f = fopen((std::string(p) + ".hang").c_str(), "w");
            if (f) {
                fprintf(f, "%d\nrank %d: %s has not returned and no task was executed for %.1fs (%ld ticks so far)%s\n%s", cur_idx, me, what, tq, t, d.c_str(), cur_repr.c_str());
                fclose(f);
            }
        }
        fprintf(stderr, "WATCHDOG rank %d case %d: quiescent-incomplete in %s%s\n", me, cur_idx, what, d.c_str());
        _exit(3);
    }
    return nullptr;
}

static parsec_pins_next_callback_t *pins_slots;
static void exec_begin_cb(struct parsec_execution_stream_s *es, struct parsec_task_s *task, struct parsec_pins_next_callback_s *d) {
    (void)es; (void)task; (void)d;
    __sync_fetch_and_add(&tick, 1);
}

static void init(parsec_context_t *ctx) {
    MPI_Comm_dup(MPI_COMM_WORLD, &hc);
    MPI_Comm_rank(hc, &me); MPI_Comm_size(hc, &np);
    int n = 0;
    for (int v = 0; v < ctx->nb_vp; v++) n += ctx->virtual_processes[v]->nb_cores;
    pins_slots = (parsec_pins_next_callback_t *)calloc(n, sizeof(parsec_pins_next_callback_t));
    int k = 0;
    for (int v = 0; v < ctx->nb_vp; v++)
        for (int c = 0; c < ctx->virtual_processes[v]->nb_cores; c++)
            parsec_pins_register_callback(ctx->virtual_processes[v]->execution_streams[c], EXEC_BEGIN, exec_begin_cb, &pins_slots[k++]);
    pthread_t wd; pthread_create(&wd, nullptr, watchdog, nullptr);
}

static void fini(parsec_context_t *ctx) {      // parsec_fini asserts that no PINS callback is left registered
    for (int v = 0; v < ctx->nb_vp; v++)
        for (int c = 0; c < ctx->virtual_processes[v]->nb_cores; c++) {
            parsec_pins_next_callback_t *d = nullptr;
            parsec_pins_unregister_callback(ctx->virtual_processes[v]->execution_streams[c], EXEC_BEGIN, exec_begin_cb, &d);
        }
}

struct Call {       // RAII marker: inside a runtime call that must return
    Call(const char *w) { what = w; tick++; in_call = 1; }
    ~Call() { in_call = 0; }
};

static void begin_case(int idx, const std::string &repr) {
    cur_idx = idx; cur_repr = repr;
    if (!me && vf::outpath()) { FILE *f = fopen((std::string(vf::outpath()) + ".pos").c_str(), "w"); if (f) { fprintf(f, "%d\n", idx); fclose(f); } }
}

// Collective: number of ranks that failed; rank 0 gets all messages concatenated.
static int merge(const std::vector<std::string> &errs, std::string &all) {
    int loc = errs.empty() ? 0 : 1, glob = 0;
    MPI_Allreduce(&loc, &glob, 1, MPI_INT, MPI_SUM, hc);
    char mine[800]; mine[0] = 0;
    if (loc) { std::string s = fmt("rank %d: ", me); for (size_t i = 0; i < errs.size() && i < 5; i++) s += errs[i] + "; "; snprintf(mine, sizeof mine, "%s", s.c_str()); }
    std::vector<char> buf(me ? 1 : 800 * np);
    MPI_Gather(mine, 800, MPI_CHAR, buf.data(), 800, MPI_CHAR, 0, hc);
    all.clear();
    if (!me) for (int r = 0; r < np; r++) if (buf[800 * r]) all += std::string(&buf[800 * r]) + " ";
    return glob;
}

} // namespace drv
