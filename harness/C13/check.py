"""C13 -- collective activations: simulation of np ranks around the real remote_dep.c propagation logic (engine E8 + hook H4).

Known finding O2 (see corpus/C13/regress/): handled per C13_O2_MODE
  violation (default until triaged): generation excludes matching cases by construction (counted), and the minimal replay is
                                     re-run and reported as a VIOLATION while it still fails;
  known    : same exclusion, the replay is reported as KNOWN-FINDING (also selected by a `known` entry in known_findings.json);
  search   : no exclusion -- the search has to find it by itself (used to show that the generator reaches it).
"""
import glob
import os
import subprocess

from vf import core

PROP = "C13"
TOPO = {0: "star", 1: "chain", 2: "binomial"}
RULE = ("case = (topology, np ranks, root, 1..3 outputs each with the list of destination ranks its successors live on -- order, "
        "duplicates, optional local successor on the root --, output indices, delivery order words); the real "
        "parsec_remote_dep_activate runs on the root, hook H4 captures each send, each captured activation is delivered by running the "
        "receiver-side steps and the real parsec_remote_dep_propagate on the peer; oracle = every destination of every output gets "
        "that output exactly once from a sender that holds it (payload predicate of remote_dep_mpi_pack_dep), nobody else gets "
        "anything, nobody gets two activations; non-trivial = two outputs with different but overlapping destination sets on a "
        "chain/binomial topology, or two outputs forwarded through a relay (non-root sender); distinct = distinct case values (hash)")


def _build():
    return core.build_harness("C13/bcast", ["harness/C13/bcast.cc"], tree="san", rapidcheck=True)


def o2_mode():
    m = os.environ.get("C13_O2_MODE", "")
    if m in ("violation", "known", "search"):
        return m
    if any(f.get("id") == "O2" or "O2" in str(f.get("what", "")) for f in core.known_for(PROP)):
        return "known"
    # O2 was repaired in /repo (known_findings.json: C13-F1, status fixed): nothing is excluded any more, the search
    # covers the formerly failing families and the minimal replays are part of the regression corpus.
    return "search"


SUPP = os.path.join(core.VERIF, "harness", PROP, "ubsan.supp")
UBSAN = {"UBSAN_OPTIONS": core.SAN_RUN_ENV["UBSAN_OPTIONS"] + ":suppressions=" + SUPP}


def collect(res, wr):
    for f in wr.failures:
        res.violations.append(core.Violation(f["msg"], replay_text=f["replay_text"]))
    for c in wr.crashes:
        res.violations.append(core.Violation("harness process died (rc=%s): %s" % (c["rc"], c["log_tail"][-1200:]),
                                             replay_text="# crash of %s\n%s" % (" ".join(c["cmd"]), c["log_tail"][-1500:])))


def _replay(b, path):
    env = dict(os.environ)
    env.update(core.MPI_ENV)
    env.update(core.SAN_RUN_ENV)
    env.update(UBSAN)
    p = subprocess.run([b, "replay", path], env=env, stdout=subprocess.PIPE, stderr=subprocess.STDOUT, text=True)
    out = p.stdout
    line = [l for l in out.splitlines() if l.startswith("REPLAY-")]
    known = "is_known_O2=1" in out
    return p.returncode == 0 and "REPLAY-PASS" in out, (line[-1] if line else out[-1500:]), known


def run(tier, seed, res):
    b = _build()
    quick = tier == "quick"
    mode = o2_mode()
    excl = "0" if mode == "search" else "1"
    res.rule = RULE
    res.assumptions = ["outputs are modelled as control flows on the wire; which outputs a message carries for its peer is read with the "
                       "predicate of remote_dep_mpi_pack_dep (sender's outgoing_mask bit AND peer in rank_bits), C05 guards that reading with real MPI runs",
                       "one dependency per output, dep_index == dep_datatype_index, PTG taskpool (DTD always uses the star predicate)",
                       "receiver-side steps of remote_dep_mpi.c (get_datatypes / release_incoming bracket) are re-enacted by the harness "
                       "around the real remote_dep_mpi_retrieve_datatype and parsec_remote_dep_propagate",
                       "cases matching the known finding O2 are excluded by construction (mode=%s)" % mode]
    res.coverage["o2_mode"] = mode
    res.coverage["ubsan_suppressed"] = ["shift-base in remote_dep_bcast_binomial_child (remote_dep.c:351, 1<<31), unrelated to the property"]
    # (1) exhaustive: all roots x all families of destination sets for np <= 5 (thorough: <= 6), three topologies
    nphi = 5 if quick else 6
    jobs = []
    for topo in (0, 1, 2):
        for lo, hi, parts in ((2, 4, 1), (5, 5, 4)) + (() if quick else ((6, 6, 24),)):
            for p in range(parts):
                jobs.append(dict(cmd=[b, "exh", str(topo), str(lo), str(hi), excl, str(p), str(parts)], env=dict(UBSAN), tag="exh-" + TOPO[topo]))
    wr = core.run_workers(PROP, jobs)
    res.absorb(wr, "exhaustive")
    res.coverage["exhaustive"] = not (wr.failures or wr.crashes)
    res.coverage["exhaustive_subspace"] = ("star/chain/binomial x np 2..%d x every root x every family of non-empty destination sets for 1..3 "
                                           "outputs x (root has a local successor or not), FIFO delivery%s" %
                                           (nphi, "" if mode == "search" else "; families matching is_known_O2 are skipped and counted (label known_O2_excluded)"))
    collect(res, wr)
    # (2) rapidcheck: np up to 6 (thorough 8), generated lists / indices / delivery order
    npmax = 6 if quick else 8
    per = 1500 if quick else 100000
    jobs = []
    for topo in (0, 1, 2):
        for i in range(5 if quick else 16):
            jobs.append(dict(cmd=[b, "rc", str(topo), str(npmax), excl],
                             env=dict(UBSAN, RC_PARAMS="seed=%d max_success=%d max_size=100" % (seed * 131 + topo * 17 + i, per)),
                             tag="rc-" + TOPO[topo]))
    wr = core.run_workers(PROP, jobs)
    res.absorb(wr, "rc")
    collect(res, wr)
    # (3) regression corpus (minimal replays of findings)
    for path in sorted(glob.glob(os.path.join(core.VERIF, "corpus", PROP, "regress", "*.txt"))):
        ok, msg, known = _replay(b, path)
        res.coverage.setdefault("regress_replayed", 0)
        res.coverage["regress_replayed"] += 1
        if ok:
            continue
        if known and mode == "known":
            res.known.append("O2 relay does not hold the output it has to forward: %s (%s)" % (os.path.basename(path), msg[:200]))
        else:
            res.violations.append(core.Violation("%s: %s" % (os.path.basename(path), msg), replay_path=path))


def replay(path):
    ok, msg, _ = _replay(_build(), path)
    return ok, msg
