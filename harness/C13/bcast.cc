// C13 -- Collective activations reach each destination exactly once.
//
// Engine E8: np simulated ranks in one process around the REAL propagation logic of
// parsec/remote_dep.c.  One parsec_context_t (parsec_init, never started) whose my_rank / nb_nodes
// are set to the simulated rank before each call; a harness task class with 1..3 outputs whose
// iterate_successors reports the generated destination lists; the root's parsec_remote_deps_t is
// filled as parsec_release_dep_fct does and handed to the real parsec_remote_dep_activate; hook H4
// (PARSEC_VERIF_EV_REMOTE_DEP_SEND) captures every send instead of queueing it; each captured send
// is delivered (in generated order) by re-creating the receiver side steps of remote_dep_mpi.c
// (real remote_dep_mpi_retrieve_datatype through iterate_successors, the bracket of
// remote_dep_release_incoming, the real parsec_remote_dep_propagate), until no send is left.
// The payload that a message carries for its peer is decided with the predicate of
// remote_dep_mpi_pack_dep: bit k of the sender's outgoing_mask AND peer listed in rank_bits[k].
//
// Topology (star/chain/binomial) is a process-global chosen at parsec_init from the MCA parameter
// runtime_comm_coll_bcast: one process per topology.
#include <set>
#include <algorithm>
#include "vf.hpp"
#include <rapidcheck.h>
#include <mpi.h>

extern "C" {
#include "parsec/parsec_config.h"
#include "parsec/runtime.h"
#include "parsec/parsec_internal.h"
#include "parsec/execution_stream.h"
#include "parsec/mca/termdet/termdet.h"
#include "parsec/parsec_comm_engine.h"
#include "parsec/remote_dep.h"
#include "parsec/sys/verif_hooks.h"
parsec_ontask_iterate_t remote_dep_mpi_retrieve_datatype(parsec_execution_stream_t *eu, const parsec_task_t *newcontext,
                                                         const parsec_task_t *oldcontext, const parsec_dep_t *dep,
                                                         parsec_dep_data_description_t *out_data, int src_rank, int dst_rank,
                                                         int dst_vpid, data_repo_t *successor_repo, parsec_key_t successor_repo_key,
                                                         void *param);
}

static const char *TOPO_NAME[3] = {"star", "chain", "binomial"};

struct Case {
    int topo = 1, np = 2, root = 0;
    std::vector<int> dt;                    // datatype (= dep) index of each output, strictly increasing, < MAX_PARAM_COUNT
    std::vector<std::vector<int>> out;      // per output: destination ranks as iterate_successors reports them (order, duplicates, may contain the root)
    std::vector<long> sched;

    std::set<int> dset(int k) const { std::set<int> s; for (int r : out[k]) if (r != root) s.insert(r); return s; }
    std::string repr() const {
        std::ostringstream o;
        o << "C13 topo " << TOPO_NAME[topo] << " np " << np << " root " << root << " nout " << out.size() << "\ndt";
        for (int d : dt) o << " " << d;
        o << "\n";
        for (auto &l : out) { o << "out"; for (int r : l) o << " " << r; o << "\n"; }
        o << "sched"; for (long s : sched) o << " " << s; o << "\n";
        return o.str();
    }
    static bool parse(const std::string &txt, Case *c) {
        std::istringstream in(txt); std::string line; bool head = false;
        while (std::getline(in, line)) {
            if (line.empty() || line[0] == '#') continue;
            std::istringstream ls(line); std::string w; ls >> w;
            if (w == "C13") {
                std::string k;
                while (ls >> k) {
                    if (k == "topo") { std::string t; ls >> t; c->topo = t == "star" ? 0 : t == "chain" ? 1 : t == "binomial" ? 2 : -1; }
                    else if (k == "np") ls >> c->np; else if (k == "root") ls >> c->root; else { int x; ls >> x; }
                }
                head = true;
            } else if (w == "dt") { int v; while (ls >> v) c->dt.push_back(v); }
            else if (w == "out") { std::vector<int> l; int v; while (ls >> v) l.push_back(v); c->out.push_back(l); }
            else if (w == "sched") { long v; while (ls >> v) c->sched.push_back(v); }
        }
        if (c->dt.empty()) for (size_t k = 0; k < c->out.size(); k++) c->dt.push_back((int)k);
        if (!head || c->topo < 0 || c->np < 2 || c->np > 64 || c->root < 0 || c->root >= c->np || c->out.empty() || c->out.size() > 8 || c->dt.size() != c->out.size()) return false;
        for (size_t k = 0; k < c->dt.size(); k++) if (c->dt[k] < 0 || c->dt[k] >= MAX_PARAM_COUNT || (k && c->dt[k] <= c->dt[k - 1])) return false;
        for (auto &l : c->out) for (int r : l) if (r < 0 || r >= c->np) return false;
        return true;
    }
};

// ---------------------------------------------------------------------------------------------
// Known finding O2, as a predicate over the case value (never over the failure).
//
// Documented scheme of parsec_remote_dep_activate: the outputs are walked in increasing index; a rank
// takes its place (idx = 1, 2, ...) in the tree of the FIRST output whose destination set contains it
// (ranks ordered by (rank - root) mod np) and is skipped ("already forwarded") in all later outputs.
// Its parent in that tree is idx-1 (chain), idx without its leftmost 1 bit (binomial), the root (star).
// The case matches when some output k has a destination d whose parent p is neither the root nor a
// destination of k: p relays the activation of d but does not hold output k, so nobody sends k to d.
static bool is_known_O2(const Case &c, int *wk = nullptr, int *wd = nullptr, int *wp = nullptr) {
    if (c.topo == 0) return false;
    std::vector<int> first(c.np, -1), idx(c.np, 0), parent(c.np, -1);
    for (size_t k = 0; k < c.out.size(); k++) {
        std::set<int> D = c.dset((int)k);
        std::vector<int> members;                      // by relative rank
        for (int rel = 1; rel < c.np; rel++) { int r = (rel + c.root) % c.np; if (D.count(r) && first[r] < 0) members.push_back(r); }
        for (size_t i = 0; i < members.size(); i++) {
            int r = members[i], id = (int)i + 1, pid;
            first[r] = (int)k; idx[r] = id;
            if (c.topo == 1) pid = id - 1;
            else { int m = 1; while ((m << 1) <= id) m <<= 1; pid = id ^ m; }
            parent[r] = pid == 0 ? c.root : members[pid - 1];
        }
    }
    for (size_t k = 0; k < c.out.size(); k++) {
        std::set<int> D = c.dset((int)k);
        for (int d : D) if (parent[d] != c.root && !D.count(parent[d])) { if (wk) { *wk = (int)k; *wd = d; *wp = parent[d]; } return true; }
    }
    return false;
}
// Exclusion by construction: give every such relay the output it has to relay (closure; terminates because
// only ranks already placed in an earlier output are added, which does not move anybody in the trees).
static int repair_O2(Case &c) {
    int n = 0, k, d, p;
    while (is_known_O2(c, &k, &d, &p)) { c.out[k].push_back(p); n++; if (n > 4096) break; }
    return n;
}

// ---------------------------------------------------------------------------------------------
// the simulated runtime around remote_dep.c

struct Send { int from, to; parsec_remote_deps_t *deps; };

static parsec_context_t *CTX = nullptr;
static parsec_execution_stream_t *ES = nullptr;
static parsec_taskpool_t *TP = nullptr;
static const Case *CUR = nullptr;
static int g_me = -1;
static std::vector<Send> g_sends;
static long g_flying = 0, g_out_start = 0, g_in_start = 0, g_in_end = 0;

static parsec_task_class_t TC, STC;
static parsec_flow_t FLOW[8], SFLOW;
static parsec_dep_t DEP[8];

static int hook(int ev, void *a, void *b) {
    if (ev != PARSEC_VERIF_EV_REMOTE_DEP_SEND) return 0;
    g_sends.push_back({g_me, (int)(intptr_t)a, (parsec_remote_deps_t *)b});
    return 1;   // H4: do not queue the real command
}

// termination-detection stub of the harness taskpool (counts only)
static void td_monitor(parsec_taskpool_t *, parsec_termdet_termination_detected_function_t) {}
static void td_unmonitor(parsec_taskpool_t *) {}
static parsec_termdet_taskpool_state_t td_state(parsec_taskpool_t *) { return PARSEC_TERM_TP_BUSY; }
static int td_ready(parsec_taskpool_t *) { return PARSEC_SUCCESS; }
static int td_load(parsec_taskpool_t *, int) { return 1; }
static int td_actions(parsec_taskpool_t *, int v) { g_flying += v; return (int)g_flying; }
static int td_out_start(parsec_taskpool_t *, int, parsec_remote_deps_t *) { g_out_start++; return 1; }
static int td_out_pack(parsec_taskpool_t *, int, char *, int *, int) { return PARSEC_SUCCESS; }
static int td_in_start(parsec_taskpool_t *, int, char *, int *, int, const parsec_remote_deps_t *) { g_in_start++; return PARSEC_SUCCESS; }
static int td_in_end(parsec_taskpool_t *, const parsec_remote_deps_t *) { g_in_end++; return PARSEC_SUCCESS; }
static parsec_termdet_base_module_t TDM = {td_monitor, td_unmonitor, td_state, td_ready, td_load, td_actions, td_load, td_actions, 0,
                                           td_out_start, td_out_pack, td_in_start, td_in_end, NULL};

// successors of the harness task: output k -> the generated destination list
static void h_iterate_successors(parsec_execution_stream_t *es, const parsec_task_t *this_task, uint32_t action_mask,
                                 parsec_ontask_function_t *ontask, void *ontask_arg) {
    const Case &c = *CUR;
    for (size_t k = 0; k < c.out.size(); k++) {
        if (!(action_mask & (1U << DEP[k].dep_index))) continue;
        for (int dst : c.out[k]) {
            parsec_task_t nc; memset(&nc, 0, sizeof nc);
            nc.taskpool = this_task->taskpool; nc.task_class = &STC; nc.priority = 0; nc.locals[0].value = dst;
            parsec_dep_data_description_t data; memset(&data, 0, sizeof data);
            parsec_set_CTL_dep(&data);
            data.remote.dst_datatype = PARSEC_DATATYPE_NULL;
            if (PARSEC_ITERATE_STOP == ontask(es, &nc, this_task, &DEP[k], &data, c.root, dst, 0, NULL, 0, ontask_arg)) return;
        }
    }
}
// receiver side: the successor's input is a control flow (no payload memory needed)
static int h_get_datatype(parsec_execution_stream_t *, const parsec_task_t *, const parsec_task_t *, uint32_t *, parsec_dep_data_description_t *data) {
    parsec_set_CTL_dep(data);
    data->remote.dst_datatype = PARSEC_DATATYPE_NULL; data->remote.dst_count = 0;
    return PARSEC_HOOK_RETURN_DONE;
}
// what parsec_release_dep_fct does for a remote successor (DISTRIBUTED block of parsec.c)
struct FillArg { parsec_remote_deps_t *deps; };
static parsec_ontask_iterate_t h_root_fill(parsec_execution_stream_t *, const parsec_task_t *newcontext, const parsec_task_t *,
                                           const parsec_dep_t *dep, parsec_dep_data_description_t *data, int src_rank, int dst_rank,
                                           int, data_repo_t *, parsec_key_t, void *param) {
    FillArg *arg = (FillArg *)param;
    if (dst_rank == src_rank) return PARSEC_ITERATE_CONTINUE;
    uint32_t pos, bit, mask;
    remote_dep_rank_to_bit(dst_rank, &pos, &bit, src_rank);
    mask = 1U << bit;
    PARSEC_ALLOCATE_REMOTE_DEPS_IF_NULL(arg->deps, NULL, MAX_PARAM_COUNT);
    struct remote_dep_output_param_s *output = &arg->deps->output[dep->dep_datatype_index];
    arg->deps->root = src_rank;
    arg->deps->outgoing_mask |= (1U << dep->dep_datatype_index);
    if (!(output->rank_bits[pos] & mask)) {
        output->rank_bits[pos] |= mask;
        output->deps_mask |= (1U << dep->dep_index);
        if (0 == output->count_bits) output->data = *data;
        output->count_bits++;
        if (newcontext->priority > output->priority) {
            output->priority = newcontext->priority;
            if (newcontext->priority > arg->deps->max_priority) arg->deps->max_priority = newcontext->priority;
        }
    }
    return PARSEC_ITERATE_CONTINUE;
}

static void as_rank(int r, int np) {
    g_me = r; CTX->my_rank = r; CTX->nb_nodes = np;
    parsec_remote_dep_reconfigure(CTX);     // remote_dep_fw_mask_sizeof, as the comm thread does when it starts
}

static int g_alloc_np = -1;
static void world(int np) {
    if (g_alloc_np != np) { remote_deps_allocation_fini(); remote_deps_allocation_init(np, MAX_PARAM_COUNT); g_alloc_np = np; }
}

static void setup_once(int topo, int *argc, char ***argv) {
    char v[8]; snprintf(v, sizeof v, "%d", topo);
    setenv("PARSEC_MCA_runtime_comm_coll_bcast", v, 1);
    int prov; MPI_Init_thread(argc, argv, MPI_THREAD_SERIALIZED, &prov);
    CTX = parsec_init(1, argc, argv);
    if (!CTX) { fprintf(stderr, "parsec_init failed\n"); exit(2); }
    ES = CTX->virtual_processes[0]->execution_streams[0];
    parsec_verif_event_fn = hook;
    TP = PARSEC_OBJ_NEW(parsec_taskpool_t);
    TP->taskpool_type = PARSEC_TASKPOOL_TYPE_PTG; TP->context = CTX; TP->tdm.module = &TDM;
    TP->nb_task_classes = 1;
    static const parsec_task_class_t *classes[2] = {&TC, NULL};
    TP->task_classes_array = classes;
    parsec_taskpool_reserve_id(TP); parsec_taskpool_register(TP);
    memset(&TC, 0, sizeof TC); memset(&STC, 0, sizeof STC); memset(&SFLOW, 0, sizeof SFLOW);
    TC.name = "T"; TC.task_class_id = 0; TC.nb_locals = 1; TC.iterate_successors = h_iterate_successors;
    STC.name = "S"; STC.task_class_id = 1; STC.nb_locals = 1; STC.nb_flows = 1; STC.get_datatype = h_get_datatype;
    SFLOW.name = (char *)"X"; SFLOW.flow_index = 0; SFLOW.flow_flags = PARSEC_FLOW_ACCESS_NONE; STC.in[0] = &SFLOW;
}

static void shape_task_class(const Case &c) {
    memset(FLOW, 0, sizeof FLOW); memset(DEP, 0, sizeof DEP);
    for (int i = 0; i < MAX_PARAM_COUNT; i++) TC.out[i] = NULL;
    TC.nb_flows = (uint8_t)c.out.size();
    for (size_t k = 0; k < c.out.size(); k++) {
        FLOW[k].name = (char *)"F"; FLOW[k].flow_index = (uint8_t)k; FLOW[k].flow_flags = PARSEC_FLOW_ACCESS_NONE;
        FLOW[k].flow_datatype_mask = 1U << c.dt[k];
        FLOW[k].dep_out[0] = &DEP[k];
        DEP[k].task_class_id = 1; DEP[k].dep_index = (uint8_t)c.dt[k]; DEP[k].dep_datatype_index = (uint8_t)c.dt[k];
        DEP[k].flow = &SFLOW; DEP[k].belongs_to = &FLOW[k];
        TC.out[k] = &FLOW[k];
    }
}

struct Info { bool nontrivial = false; int relays = 0, sends = 0, maxdepth = 0; bool overlap = false, differ = false; };

static bool carries(const parsec_remote_deps_t *d, int k, int peer) {     // predicate of remote_dep_mpi_pack_dep
    uint32_t bank, bit; remote_dep_rank_to_bit(peer, &bank, &bit, d->root);
    return (d->outgoing_mask & (1U << k)) && (d->output[k].rank_bits[bank] & (1U << bit));
}

static std::string run_case(const Case &c, Info *info) {
    CUR = &c;
    const int np = c.np, nout = (int)c.out.size();
    world(np); shape_task_class(c);
    g_sends.clear(); g_flying = 0; g_out_start = g_in_start = g_in_end = 0;
    std::vector<std::set<int>> D(nout);
    std::set<int> uni;
    for (int k = 0; k < nout; k++) { D[k] = c.dset(k); uni.insert(D[k].begin(), D[k].end()); }
    std::vector<std::vector<int>> got(np, std::vector<int>(nout, 0));
    std::vector<int> activations(np, 0), from(np, -1), depth(np, 0);
    std::string err;
    parsec_task_t task; memset(&task, 0, sizeof task);
    task.taskpool = TP; task.task_class = &TC; task.locals[0].value = 7;

    // ---- the root: release_deps = iterate_successors(release_dep_fct) then parsec_remote_dep_activate
    as_rank(c.root, np);
    FillArg fa{NULL};
    uint32_t all_deps = 0; for (int k = 0; k < nout; k++) all_deps |= 1U << c.dt[k];
    h_iterate_successors(ES, &task, all_deps | PARSEC_ACTION_RELEASE_REMOTE_DEPS, h_root_fill, &fa);
    if (fa.deps) parsec_remote_dep_activate(ES, &task, fa.deps, fa.deps->outgoing_mask);
    else if (!uni.empty()) err = "harness: no remote deps built although remote destinations exist";

    size_t step = 0;
    while (!g_sends.empty() && err.empty()) {
        size_t pick = 0;
        if (!c.sched.empty()) { long s = c.sched[step % c.sched.size()]; pick = (size_t)((s < 0 ? -s : s) % (long)g_sends.size()); }
        step++;
        if (step > (size_t)np * 8 + 16) { err = "propagation does not stop (more than " + std::to_string(np * 8 + 16) + " activations)"; break; }
        Send s = g_sends[pick]; g_sends.erase(g_sends.begin() + pick);
        info->sends++;
        if (s.from != c.root) info->relays++;
        if (s.to < 0 || s.to >= np) { err = "activation sent to rank " + std::to_string(s.to) + " outside 0.." + std::to_string(np - 1); break; }
        if (s.to == c.root) { err = "the root rank " + std::to_string(c.root) + " receives an activation of its own task (from rank " + std::to_string(s.from) + ")"; break; }
        if (!uni.count(s.to)) { err = "rank " + std::to_string(s.to) + " is no destination of any output but receives an activation (from rank " + std::to_string(s.from) + ")"; break; }
        if (++activations[s.to] > 1) { err = "rank " + std::to_string(s.to) + " receives two activations of the same task (from ranks " + std::to_string(from[s.to]) + " and " + std::to_string(s.from) + ")"; break; }
        from[s.to] = s.from; depth[s.to] = depth[s.from] + 1; info->maxdepth = std::max(info->maxdepth, depth[s.to]);
        for (int k = 0; k < nout; k++) if (carries(s.deps, c.dt[k], s.to)) {
            got[s.to][k]++;
            if (!D[k].count(s.to)) { err = "rank " + std::to_string(s.to) + " is sent output " + std::to_string(k) + " which it does not consume"; break; }
        }
        if (!err.empty()) break;
        // ---- receiver: remote_dep_mpi_save_activate_cb / remote_dep_get_datatypes (PTG branch)
        as_rank(s.to, np);
        parsec_remote_deps_t *rd = remote_deps_allocate(&parsec_remote_dep_context.freelist);
        rd->msg = s.deps->msg; rd->from = s.from; rd->eager_msg = NULL;
        rd->taskpool = parsec_taskpool_lookup(rd->msg.taskpool_id);
        if (rd->taskpool != TP || rd->msg.task_class_id != 0) { err = "activation message names another taskpool / task class"; break; }
        uint32_t want = 0;
        for (int k = 0; k < nout; k++) if (D[k].count(s.to) && (rd->msg.output_mask & (1U << c.dt[k]))) want |= 1U << c.dt[k];
        for (int kk = 0; rd->msg.output_mask >> kk; kk++) {
            if (!(rd->msg.output_mask & (1UL << kk))) continue;
            uint32_t local_mask = 0;
            for (int i = 0; NULL != TC.out[i]; i++) {
                if (!(TC.out[i]->flow_datatype_mask & (1U << kk))) continue;
                for (int j = 0; NULL != TC.out[i]->dep_out[j]; j++)
                    if (kk == TC.out[i]->dep_out[j]->dep_datatype_index) local_mask |= 1U << TC.out[i]->dep_out[j]->dep_index;
                if (local_mask) break;
            }
            rd->output[kk].data.remote.src_datatype = rd->output[kk].data.remote.dst_datatype = PARSEC_DATATYPE_NULL;
            rd->output[kk].data.remote.src_count = rd->output[kk].data.remote.dst_count = 0;
            h_iterate_successors(ES, &task, local_mask, remote_dep_mpi_retrieve_datatype, rd);
        }
        rd->outgoing_mask = rd->incoming_mask;
        if (rd->incoming_mask != want) { err = "harness: receiver-side incoming mask " + std::to_string(rd->incoming_mask) + " differs from the generated sets " + std::to_string(want); break; }
        // every output this rank consumes must be named in the activation it gets (there is only this one)
        for (int k = 0; k < nout && err.empty(); k++)
            if (D[k].count(s.to) && !(rd->msg.output_mask & (1UL << c.dt[k])))
                err = "the only activation rank " + std::to_string(s.to) + " gets does not name output " + std::to_string(k);
        if (!err.empty()) break;
        // ---- remote_dep_mpi_recv_activate: control flows complete at once; remote_dep_release_incoming bracket
        TP->tdm.module->incoming_message_start(TP, rd->from, NULL, NULL, 0, rd);
        rd->incoming_mask = 0;
        remote_dep_inc_flying_messages(TP);
        (void)parsec_atomic_fetch_inc_int32(&rd->pending_ack);
        TP->tdm.module->incoming_message_end(TP, rd);
        rd->outgoing_mask = 0;
        parsec_remote_dep_propagate(ES, &task, rd);
        remote_dep_complete_and_cleanup(&rd, 1);
        // ---- sender side: this activation has left (what the send path does once the message is out)
        as_rank(s.from, np);
        remote_dep_complete_and_cleanup(&s.deps, 1);
    }
    // ---- oracle at quiescence
    if (err.empty()) {
        for (int k = 0; k < nout && err.empty(); k++) for (int d : D[k]) {
            if (got[d][k] == 1) continue;
            if (got[d][k] == 0)
                err = "rank " + std::to_string(d) + " consumes output " + std::to_string(k) + " but never receives it from a process that holds it (" +
                      (activations[d] ? "its only activation comes from rank " + std::to_string(from[d]) + " which does not hold output " + std::to_string(k)
                                      : std::string("it receives no activation at all")) + "; topology " + TOPO_NAME[c.topo] + ")";
            else err = "rank " + std::to_string(d) + " receives output " + std::to_string(k) + " " + std::to_string(got[d][k]) + " times";
            break;
        }
        if (err.empty() && g_flying != 0) err = "pending runtime actions not balanced after the collective (" + std::to_string(g_flying) + ")";
        if (err.empty() && (g_in_start != g_in_end || g_out_start != (long)info->sends)) err = "harness: termination-detection brackets unbalanced";
    }
    // shape of the case
    for (int a = 0; a < nout; a++) for (int b = a + 1; b < nout; b++) {
        if (D[a] != D[b]) info->differ = true;
        for (int r : D[a]) if (D[b].count(r)) info->overlap = true;
    }
    bool diff_overlap = false;
    for (int a = 0; a < nout; a++) for (int b = a + 1; b < nout; b++) if (D[a] != D[b]) for (int r : D[a]) if (D[b].count(r)) diff_overlap = true;
    // two outputs with different but overlapping destination sets on a collective topology (the shape that broke O2:
    // since the repair such tasks fall back to the star predicate, so they have no relay any more), or two outputs that
    // share their destination set and are forwarded through a relay
    info->nontrivial = (diff_overlap && c.topo != 0) || (nout >= 2 && info->relays > 0);
    g_sends.clear();
    return err;
}

static void labels(const Case &c, const Info &i) {
    vf::label(std::string("np_") + std::to_string(c.np));
    vf::label(std::string("nout_") + std::to_string(c.out.size()));
    vf::label(c.root == 0 ? "root_0" : "root_nonzero");
    if (i.relays) vf::label("has_relay");
    if (i.overlap && i.differ) vf::label("sets_differ_and_overlap");
    vf::label(std::string("depth_") + (i.maxdepth >= 4 ? "4plus" : std::to_string(i.maxdepth)));
    bool rootlocal = false; for (auto &l : c.out) for (int r : l) if (r == c.root) rootlocal = true;
    if (rootlocal) vf::label("root_has_local_successor");
    bool sparse_dt = false; for (size_t k = 0; k < c.dt.size(); k++) if (c.dt[k] != (int)k) sparse_dt = true;
    if (sparse_dt) vf::label("noncontiguous_output_indices");
}

// exhaustive: all roots x all families of non-empty destination sets for 1..3 outputs (x root-local successor or not)
static int do_exh(int topo, int nplo, int nphi, bool exclude, int part, int nparts) {
    uint64_t n = 0, excluded = 0, idx = 0;
    for (int np = nplo; np <= nphi; np++)
    for (int root = 0; root < np; root++) for (int nout = 1; nout <= 3; nout++) {
        int others = np - 1, nsub = (1 << others) - 1;
        long fam = 1; for (int k = 0; k < nout; k++) fam *= nsub;
        for (long f = 0; f < fam; f++) for (int rl = 0; rl < 2; rl++) {
            if ((idx++) % nparts != (uint64_t)part) continue;
            Case c; c.topo = topo; c.np = np; c.root = root;
            long x = f;
            for (int k = 0; k < nout; k++) {
                int sub = (int)(x % nsub) + 1; x /= nsub;
                std::vector<int> l;
                if (rl) l.push_back(root);
                for (int b = 0; b < others; b++) if (sub & (1 << b)) l.push_back((root + 1 + b) % np);
                c.out.push_back(l); c.dt.push_back(k);
            }
            if (exclude && is_known_O2(c)) { excluded++; continue; }
            Info i; std::string e = run_case(c, &i);
            vf::note_case(c.repr(), i.nontrivial); labels(c, i); n++;
            if (!e.empty()) { vf::record_failure(c.repr(), e); vf::label("known_O2_excluded", excluded); vf::dump(); return 1; }
        }
    }
    vf::label("known_O2_excluded", excluded);
    vf::R().extra["exhaustive_families"] = std::to_string(n);
    vf::dump();
    return 0;
}

template <typename T> static rc::Gen<T> R(T lo, T hi) { return rc::gen::resize(100, rc::gen::inRange<T>(lo, hi)); }

int main(int argc, char **argv) {
    std::string mode = argc > 1 ? argv[1] : "rc";
    if (mode == "replay") {
        Case c;
        if (!Case::parse(vf::slurp(argv[2]), &c)) { printf("REPLAY-FAIL cannot parse %s\n", argv[2]); return 2; }
        setup_once(c.topo, &argc, &argv);
        Info i; std::string e = run_case(c, &i);
        int k = -1, d = -1, p = -1; bool known = is_known_O2(c, &k, &d, &p);
        printf("is_known_O2=%d%s\n", known ? 1 : 0, known ? (" (output " + std::to_string(k) + ", destination " + std::to_string(d) + ", relay " + std::to_string(p) + ")").c_str() : "");
        if (e.empty()) { printf("REPLAY-PASS\n"); return 0; }
        printf("REPLAY-FAIL %s\n", e.c_str()); return 1;
    }
    int topo = argc > 2 ? atoi(argv[2]) : 1;
    setup_once(topo, &argc, &argv);
    if (mode == "exh") return do_exh(topo, atoi(argv[3]), atoi(argv[4]), atoi(argv[5]) != 0, atoi(argv[6]), atoi(argv[7]));
    int npmax = argc > 3 ? atoi(argv[3]) : 6;
    bool exclude = argc > 4 ? atoi(argv[4]) != 0 : true;
    bool ok = rc::check("every destination receives every output it consumes exactly once, from a holder", [=]() {
        Case c; c.topo = topo;
        c.np = *R(2, npmax + 1);
        c.root = *R(0, c.np);
        int nout = *R(1, 4);
        int sparse = *R(0, 4);
        int next = 0;
        for (int k = 0; k < nout; k++) {
            if (sparse == 0) next += *R(0, 5);
            c.dt.push_back(next++);
            int style = *R(0, 6);
            std::vector<int> l;
            int cnt = style == 0 ? 1 : *R(1, c.np + 2);
            for (int j = 0; j < cnt; j++) {
                int r = *R(0, c.np);
                if (r == c.root && style < 4) r = (r + 1) % c.np;       // styles 4,5 may give the root a local successor
                l.push_back(r);
            }
            if (l.empty() || (l.size() == 1 && l[0] == c.root)) l.push_back((c.root + 1) % c.np);
            c.out.push_back(l);
        }
        int sl = *R(0, 9);
        c.sched = *rc::gen::container<std::vector<long>>((size_t)sl, R<long>(0, 1 << 16));
        if (is_known_O2(c)) {
            vf::label("known_O2_generated");
            if (exclude) { repair_O2(c); vf::label("known_O2_excluded"); }
        }
        Info i; std::string e = run_case(c, &i);
        vf::note_case(c.repr(), i.nontrivial); labels(c, i);
        if (!e.empty()) { vf::record_failure(c.repr(), e); RC_FAIL(e); }
    });
    vf::dump();
    return ok ? 0 : 1;
}
