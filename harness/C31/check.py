"""C31 -- lists / dequeues / fifos / item rings: model-based sequences + exhaustive small sorted inputs + dsched linearizability + stress."""
import os
import subprocess

from vf import core

PROP = "C31"
# smaller ASan quarantine: the cases are tiny, the default 256 MB quarantine only costs page faults (3x wall time)
ASAN = core.SAN_RUN_ENV["ASAN_OPTIONS"] + ":quarantine_size_mb=16"
RULE = ("seq case = operation sequence (<= 60 ops: push/pop front/back incl. try/nolock/dequeue/fifo wrappers, chain front/back, unchain, "
        "add_before/after, remove, contains, is_empty, iterator macros, push_sorted, chain_sorted, sort, ring push/merge/chop/push_sorted, "
        "ring->list) over 48 items with priorities from {-3..3, INT_MIN(+1), INT_MAX(-1)} or {0,1,2}; oracle = vector model compared after "
        "every operation walking next links forward and prev links backward; push_sorted/chain_sorted: exact stable position (before the "
        "first strictly smaller element); sort: permutation and monotone (either direction, labelled); ring_push_sorted: documented "
        "position, returned head, ring ordered. non-trivial = a sorted insertion landed next to an existing equal priority, or a sort of "
        ">= 5 elements with ties. conc case = (2..3 thread programs of the locked operations, schedule bytes) under dsched; oracle = "
        "Wing&Gong linearizability against a deque / sorted-list model incl. final drain + conservation; non-trivial = operations of two "
        "threads overlapped (sorted flavour: and a sorted insertion had a tie). distinct = distinct case values")


def _build():
    return core.build_harness("C31/lists", ["harness/C31/lists.cc"], tree="san", rapidcheck=True,
                              plain_c_sources=["harness/C31/shim.c"])


def collect(res, wr):
    for f in wr.failures:
        res.violations.append(core.Violation(f["msg"], replay_text=f["replay_text"]))
    for c in wr.crashes:
        if c["rc"] == "timeout":      # a plain timeout is never a violation (rule 5): e.g. a corrupted structure can make un-hooked code spin forever
            res.inconclusive = "worker '%s' exceeded its time limit" % c.get("tag", "")
            continue
        res.violations.append(core.Violation("harness process died (rc=%s): %s" % (c["rc"], c["log_tail"][-1200:]),
                                             replay_text="# crash of %s\n%s" % (" ".join(c["cmd"]), c["log_tail"][-1500:])))


def run(tier, seed, res):
    b = _build()
    quick = tier == "quick"
    tmo = 900 if quick else 4 * 3600
    res.rule = RULE
    res.assumptions = ["push_sorted / chain_sorted / ring_push_sorted are only applied to lists / rings that are sorted (non-increasing priority)",
                       "nolock variants only without concurrency; positions passed to add_before/after/remove belong to the list",
                       "sort direction is not specified: both accepted",
                       "sequential consistency at atomic-operation granularity under dsched"]
    n = 16
    jobs = [dict(cmd=[b, "exhs"], env={"ASAN_OPTIONS": ASAN}, tag="exhs")]
    pb, no = ("2", "5") if quick else ("1000000", "8")
    jobs += [dict(cmd=[b, "exhc", str(i), str(n - 1), "0", pb, no], env={"ASAN_OPTIONS": ASAN}, tag="exhc") for i in range(n - 1)]
    if not quick:
        jobs += [dict(cmd=[b, "exhc", str(i), str(n), "1", "3", "8"], env={"ASAN_OPTIONS": ASAN}, tag="exhc1") for i in range(n)]
    wr = core.run_workers(PROP, jobs, timeout=tmo)
    res.absorb(wr, "exhaustive")
    res.coverage["exhaustive"] = not (wr.failures or wr.crashes)
    res.coverage["exhaustive_subspace"] = ("sort of every priority vector over {0,1,2} up to length 7; push_sorted / chain_sorted / ring_push_sorted of every "
                                           "sorted base (len<=4) x every chain (len<=3) over {0,1,2}; every program of 2 threads x 2 locked ops "
                                           "(%s op kinds) x every schedule with at most %s preemptions" % (no, pb if quick else "any number of"))
    collect(res, wr)
    if res.violations:
        return
    per = 600 if quick else 250000
    jobs = [dict(cmd=[b, "seq"], env={"ASAN_OPTIONS": ASAN, "RC_PARAMS": "seed=%d max_success=%d max_size=100" % (seed * 131 + i, per)}, tag="seq") for i in range(n)]
    wr = core.run_workers(PROP, jobs, timeout=tmo)
    res.absorb(wr, "seq")
    collect(res, wr)
    if res.violations:
        return
    per = 500 if quick else 150000
    jobs = [dict(cmd=[b, "conc"], env={"ASAN_OPTIONS": ASAN, "RC_PARAMS": "seed=%d max_success=%d max_size=100" % (seed * 137 + i, per)}, tag="conc") for i in range(n)]
    wr = core.run_workers(PROP, jobs, timeout=tmo)
    res.absorb(wr, "conc")
    collect(res, wr)
    if res.violations:
        return
    iters = 50000 if quick else 10000000
    jobs = [dict(cmd=[b, "stress", str(t), str(iters), str(seed * 17 + t)], env={"ASAN_OPTIONS": ASAN}, tag="stress") for t in (2, 4, 8, 16)]
    wr = core.run_workers(PROP, jobs, timeout=tmo, max_parallel=1)
    res.absorb(wr, "stress")
    collect(res, wr)
    if res.violations:
        return


def replay(path):
    b = _build()
    env = dict(os.environ)
    env.update(core.SAN_RUN_ENV)
    p = subprocess.run([b, "replay", path], env=env, stdout=subprocess.PIPE, stderr=subprocess.STDOUT, text=True)
    return p.returncode == 0 and "REPLAY-PASS" in p.stdout, p.stdout[-2000:]
