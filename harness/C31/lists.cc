// C31 -- Lists and dequeues keep their contents and order.
//
// seq  : stateful op sequences on parsec_list_t / parsec_dequeue_t / parsec_fifo_t and raw item rings, checked
//        against a vector model after every operation, walking next links forward and prev links backward.
// exhs : complete enumeration of small sort / push_sorted / chain_sorted / ring_push_sorted inputs.
// conc : 2..3 thread programs of the *locked* operations under dsched; Wing&Gong linearizability against a
//        deque model (sorted flavour: sorted-insertion model) + conservation.
// exhc : every program of 2 threads x 2 locked ops x every schedule.
// stress: free-running threads, conservation (+ sortedness at quiescence for the sorted flavour).
#include <algorithm>
#include <atomic>
#include <climits>
#include <thread>
#include "vf.hpp"
#include "dsched.hpp"
#include "linearize.hpp"
#include "fair_chooser.hpp"
#include <rapidcheck.h>

extern "C" {
struct parsec_list_t; struct parsec_list_item_s; typedef struct parsec_list_item_s it_t;
parsec_list_t *shim_list_new(int kind); void shim_list_free(parsec_list_t *);
it_t *shim_item_new(int id); void shim_item_free(it_t *); int shim_item_id(it_t *); int shim_item_prio(it_t *); void shim_item_set_prio(it_t *, int);
it_t *shim_ghost(parsec_list_t *); int shim_higher(it_t *, it_t *); int shim_lower(it_t *, it_t *);
void shim_push_front(parsec_list_t *, int v, it_t *); void shim_push_back(parsec_list_t *, int v, it_t *);
it_t *shim_pop_front(parsec_list_t *, int v); it_t *shim_pop_back(parsec_list_t *, int v);
void shim_chain_front(parsec_list_t *, int v, it_t *ring); void shim_chain_back(parsec_list_t *, int v, it_t *ring);
it_t *shim_unchain(parsec_list_t *, int v);
void shim_add_before(parsec_list_t *, it_t *pos, it_t *n); void shim_add_after(parsec_list_t *, int v, it_t *pos, it_t *n);
it_t *shim_remove(parsec_list_t *, it_t *); int shim_contains(parsec_list_t *, it_t *); int shim_is_empty(parsec_list_t *, int v);
void shim_push_sorted(parsec_list_t *, int v, it_t *); void shim_chain_sorted(parsec_list_t *, int v, it_t *ring); void shim_sort(parsec_list_t *, int v);
it_t *shim_ring_make(it_t **its, int n); it_t *shim_ring_push(it_t *ring, it_t *); it_t *shim_ring_push_sorted(it_t *ring, it_t *);
it_t *shim_ring_merge(it_t *, it_t *); it_t *shim_ring_chop(it_t *);
int shim_walk(parsec_list_t *, int backward, int *ids, int cap); int shim_ring_walk(it_t *ring, int backward, int *ids, int cap);
int shim_iterate(parsec_list_t *, int v, int cap, int *first, int *last);
}

// ============================================================================ sequential part
enum { S_PUSH_FRONT, S_PUSH_BACK, S_POP_FRONT, S_POP_BACK, S_CHAIN_FRONT, S_CHAIN_BACK, S_UNCHAIN, S_ADD_BEFORE, S_ADD_AFTER,
       S_REMOVE, S_CONTAINS, S_IS_EMPTY, S_PUSH_SORTED, S_CHAIN_SORTED, S_SORT, S_RING_PUSH_SORTED, S_RING_TO_LIST, S_ITERATE,
       S_RING_PUSH, S_RING_MERGE, S_RING_CHOP, S_NOPS };
static const char *sname[] = {"push_front", "push_back", "pop_front", "pop_back", "chain_front", "chain_back", "unchain", "add_before", "add_after",
                              "remove", "contains", "is_empty", "push_sorted", "chain_sorted", "sort", "ring_push_sorted", "ring_to_list", "iterate",
                              "ring_push", "ring_merge", "ring_chop"};
static const int PAL[16] = {0, 1, 2, 3, -1, -2, -3, 0, 1, 1, 2, INT_MAX, INT_MIN, INT_MAX - 1, INT_MIN + 1, 0};

struct SOp { int op, a, b, p; };
struct SCase {
    int kind = 0, ties = 0;   // ties: 1 = priorities only from {0,1,2}
    std::vector<SOp> ops;
    std::string repr() const {
        std::ostringstream o; o << "C31-seq kind " << kind << " ties " << ties << "\nops";
        for (auto &x : ops) o << " " << x.op << " " << x.a << " " << x.b << " " << x.p; o << "\n"; return o.str();
    }
    static SCase parse(const std::string &s) {
        SCase c; std::istringstream in(s); std::string line;
        while (std::getline(in, line)) {
            std::istringstream ls(line); std::string w; ls >> w;
            if (w == "C31-seq") { std::string k; int v; while (ls >> k >> v) { if (k == "kind") c.kind = v; else if (k == "ties") c.ties = v; } }
            else if (w == "ops") { SOp x; while (ls >> x.op >> x.a >> x.b >> x.p) c.ops.push_back(x); }
        }
        return c;
    }
};
struct SInfo { bool nontrivial = false; int sorted_ins_with_equal = 0, sort_ties = 0, sort_asc = 0, sort_desc = 0, sort_flat = 0, ring_sorted_ins = 0, max_len = 0; };

static const int NITEMS = 48, MAXLEN = 40;
// Known finding (list.h:880, pivot expression of parsec_list_nolock_push_sorted): signed overflow (UB) when the head and the tail of the list
// both have priority INT_MAX.  Unless C31_KNOWN_PIVOT_OVERFLOW=include, that input is excluded by construction (and counted); replays never exclude.
static bool g_include_pivot_overflow = false;

struct SeqRunner {
    parsec_list_t *l; std::vector<it_t *> items; std::vector<int> L, R, fr; it_t *ring = nullptr; std::vector<int> prio;
    std::string err; SInfo *si;
    int P(int id) const { return prio[id]; }
    bool sorted_desc(const std::vector<int> &v) const { for (size_t i = 1; i < v.size(); i++) if (P(v[i - 1]) < P(v[i])) return false; return true; }
    size_t sorted_pos(const std::vector<int> &v, int x) const { size_t i = 0; while (i < v.size() && !(P(v[i]) < P(x))) i++; return i; }   // before the first strictly smaller
    int take_free(int a) { if (fr.empty()) return -1; size_t i = (size_t)a % fr.size(); int id = fr[i]; fr.erase(fr.begin() + i); return id; }
    void give_free(int id) { fr.insert(std::lower_bound(fr.begin(), fr.end(), id), id); }
    void setp(int id, int p, int ties) { prio[id] = ties ? (p % 3) : PAL[p & 15]; shim_item_set_prio(items[id], prio[id]); }
    std::string vec(const std::vector<int> &v) const { std::ostringstream o; o << "["; for (int x : v) o << x << ":" << P(x) << " "; o << "]"; return o.str(); }
    bool verify(const char *after) {
        std::vector<int> ids(NITEMS + 2);
        for (int back = 0; back < 2; back++) {
            int n = shim_walk(l, back, ids.data(), NITEMS);
            std::vector<int> got(ids.begin(), ids.begin() + std::max(0, std::min(n, NITEMS)));
            if (back) std::reverse(got.begin(), got.end());
            if (n < 0 || n > NITEMS || got != L) {
                err = std::string("after ") + after + ": list walked " + (back ? "backward (prev links)" : "forward (next links)") + " is " + (n > NITEMS ? "cyclic/too long" : vec(got)) + ", model " + vec(L);
                return false;
            }
            n = shim_ring_walk(ring, back, ids.data(), NITEMS);
            got.assign(ids.begin(), ids.begin() + std::max(0, std::min(n, NITEMS)));
            if (back && !got.empty()) std::reverse(got.begin() + 1, got.end());   // backward from the head: head, last, ..., second
            if (n < 0 || n > NITEMS || got != R) {
                err = std::string("after ") + after + ": ring walked " + (back ? "backward" : "forward") + " is " + (n > NITEMS ? "cyclic/too long" : vec(got)) + ", model " + vec(R);
                return false;
            }
        }
        si->max_len = std::max(si->max_len, (int)L.size());
        return true;
    }
    it_t *make_ring(const std::vector<int> &ids) { std::vector<it_t *> v; for (int id : ids) v.push_back(items[id]); return shim_ring_make(v.data(), (int)v.size()); }
    // stable sorted insertion of x into the (sorted) model list
    void model_sorted_insert(std::vector<int> &v, int x) {
        size_t pos = sorted_pos(v, x);
        if (pos > 0 && P(v[pos - 1]) == P(x)) si->sorted_ins_with_equal++;
        v.insert(v.begin() + pos, x);
    }
    std::string run(const SCase &c) {
        l = shim_list_new(c.kind);
        for (int i = 0; i < NITEMS; i++) { items.push_back(shim_item_new(i)); fr.push_back(i); }
        prio.assign(NITEMS, 0);
        for (const SOp &o0 : c.ops) {
            SOp o = o0; o.op = ((o.op % S_NOPS) + S_NOPS) % S_NOPS; o.a = std::abs(o.a); o.b = std::abs(o.b); o.p = std::abs(o.p);
            int op = o.op;
            bool full = (int)(L.size() + R.size()) >= MAXLEN || fr.empty();
            // precondition-driven conversions (keeps every generated / shrunk sequence valid)
            if ((op == S_PUSH_SORTED || op == S_CHAIN_SORTED) && !sorted_desc(L)) op = S_PUSH_BACK;
            if (op == S_RING_PUSH_SORTED && !sorted_desc(R)) op = S_RING_PUSH;
            if (full && (op == S_PUSH_FRONT || op == S_PUSH_BACK || op == S_CHAIN_FRONT || op == S_CHAIN_BACK || op == S_ADD_BEFORE || op == S_ADD_AFTER ||
                         op == S_PUSH_SORTED || op == S_CHAIN_SORTED || op == S_RING_PUSH_SORTED || op == S_RING_PUSH || op == S_RING_MERGE)) op = (o.a & 1) ? S_POP_FRONT : S_UNCHAIN;
            if (op == S_PUSH_SORTED && !g_include_pivot_overflow && !L.empty() && P(L.front()) == INT_MAX && P(L.back()) == INT_MAX) { op = S_ITERATE; vf::label("excluded_known_push_sorted_pivot_overflow"); }
            if (op == S_REMOVE && L.empty()) op = S_IS_EMPTY;
            if ((op == S_RING_CHOP || op == S_RING_TO_LIST) && R.empty()) op = S_ITERATE;
            vf::label(std::string("op_") + sname[op]);
            switch (op) {
            case S_PUSH_FRONT: { int id = take_free(o.a); setp(id, o.p, c.ties); shim_push_front(l, o.b, items[id]); L.insert(L.begin(), id); break; }
            case S_PUSH_BACK: { int id = take_free(o.a); setp(id, o.p, c.ties); shim_push_back(l, o.b, items[id]); L.push_back(id); break; }
            case S_POP_FRONT: case S_POP_BACK: {
                it_t *r = op == S_POP_FRONT ? shim_pop_front(l, o.b) : shim_pop_back(l, o.b);
                int exp = L.empty() ? -1 : (op == S_POP_FRONT ? L.front() : L.back());
                int got = r ? shim_item_id(r) : -1;
                if (got != exp) { err = std::string(sname[op]) + " (variant " + std::to_string(o.b) + ") returned " + std::to_string(got) + ", model expects " + std::to_string(exp) + " from " + vec(L); break; }
                if (exp >= 0) { if (op == S_POP_FRONT) L.erase(L.begin()); else L.pop_back(); give_free(exp); }
                break; }
            case S_CHAIN_FRONT: case S_CHAIN_BACK: case S_CHAIN_SORTED: case S_RING_MERGE: {
                int k = 1 + o.b % 5; std::vector<int> ids;
                for (int i = 0; i < k && !fr.empty() && (int)(L.size() + R.size() + ids.size()) < MAXLEN; i++) { int id = take_free(o.a + i * 7); setp(id, o.p + i * (1 + o.a % 5), c.ties); ids.push_back(id); }
                if (ids.empty()) break;
                it_t *rg = make_ring(ids);
                if (op == S_CHAIN_FRONT) { shim_chain_front(l, o.b / 5, rg); L.insert(L.begin(), ids.begin(), ids.end()); }
                else if (op == S_CHAIN_BACK) { shim_chain_back(l, o.b / 5, rg); L.insert(L.end(), ids.begin(), ids.end()); }
                else if (op == S_CHAIN_SORTED) { shim_chain_sorted(l, o.b / 5, rg); for (int id : ids) model_sorted_insert(L, id); }
                else { if (R.empty()) { ring = rg; R = ids; } else { it_t *res = shim_ring_merge(ring, rg); if (res != ring) { err = "ring_merge does not return its first ring"; break; } R.insert(R.end(), ids.begin(), ids.end()); } }
                break; }
            case S_UNCHAIN: {
                it_t *r = shim_unchain(l, o.b);
                if (L.empty()) { if (r) err = "unchain of an empty list returned an item"; break; }
                if (!r || shim_item_id(r) != L.front()) { err = "unchain returned " + std::string(r ? std::to_string(shim_item_id(r)) : "NULL") + ", expected the first element " + std::to_string(L.front()); break; }
                std::vector<int> ids(NITEMS + 2);
                for (int back = 0; back < 2 && err.empty(); back++) {
                    int n = shim_ring_walk(r, back, ids.data(), NITEMS);
                    std::vector<int> got(ids.begin(), ids.begin() + std::max(0, std::min(n, NITEMS)));
                    if (back && !got.empty()) std::reverse(got.begin() + 1, got.end());
                    if (got != L) err = std::string("unchain: ring walked ") + (back ? "backward" : "forward") + " is " + vec(got) + ", list was " + vec(L);
                }
                for (int id : L) give_free(id);
                L.clear();
                break; }
            case S_ADD_BEFORE: case S_ADD_AFTER: {
                int id = take_free(o.a); setp(id, o.p, c.ties);
                size_t pi = (size_t)o.b % (L.size() + 1);          // pi == size: the ghost element
                it_t *pos = pi < L.size() ? items[L[pi]] : shim_ghost(l);
                if (op == S_ADD_BEFORE) { shim_add_before(l, pos, items[id]); L.insert(L.begin() + pi, id); }       // before ghost = push back
                else { shim_add_after(l, o.b / 64, pos, items[id]); if (pi < L.size()) L.insert(L.begin() + pi + 1, id); else L.insert(L.begin(), id); }  // after ghost = push front
                break; }
            case S_REMOVE: {
                size_t i = (size_t)o.b % L.size(); it_t *r = shim_remove(l, items[L[i]]);
                it_t *exp = i ? items[L[i - 1]] : shim_ghost(l);
                if (r != exp) { err = "remove did not return the predecessor of the removed item"; break; }
                give_free(L[i]); L.erase(L.begin() + i); break; }
            case S_CONTAINS: {
                int id = o.a % NITEMS; bool in = std::find(L.begin(), L.end(), id) != L.end();
                if ((shim_contains(l, items[id]) != 0) != in) err = "contains(item " + std::to_string(id) + ") is wrong; list " + vec(L);
                break; }
            case S_IS_EMPTY: if ((shim_is_empty(l, o.b) != 0) != L.empty()) err = "is_empty (variant " + std::to_string(o.b) + ") is wrong; list " + vec(L); break;
            case S_PUSH_SORTED: { int id = take_free(o.a); setp(id, o.p, c.ties); shim_push_sorted(l, o.b, items[id]); model_sorted_insert(L, id); break; }
            case S_SORT: {
                std::vector<int> before = L; shim_sort(l, o.b);
                std::vector<int> ids(NITEMS + 2); int n = shim_walk(l, 0, ids.data(), NITEMS);
                if (n < 0 || n > NITEMS) { err = "list is cyclic/broken after sort of " + vec(before); break; }
                std::vector<int> got(ids.begin(), ids.begin() + n), a = got, b = before;
                std::sort(a.begin(), a.end()); std::sort(b.begin(), b.end());
                if (a != b) { err = "sort result " + vec(got) + " is not a permutation of " + vec(before); break; }
                bool asc = true, desc = true; for (size_t i = 1; i < got.size(); i++) { if (P(got[i - 1]) > P(got[i])) asc = false; if (P(got[i - 1]) < P(got[i])) desc = false; }
                if (!asc && !desc) { err = "sort result " + vec(got) + " is not ordered by priority (input " + vec(before) + ")"; break; }
                if (asc && desc) { si->sort_flat++; vf::label("sort_all_equal_or_short"); } else if (asc) { si->sort_asc++; vf::label("sort_result_ascending"); } else { si->sort_desc++; vf::label("sort_result_descending"); }
                bool ties = false; { std::vector<int> ps; for (int id : got) ps.push_back(P(id)); std::sort(ps.begin(), ps.end()); ties = std::adjacent_find(ps.begin(), ps.end()) != ps.end(); }
                if (got.size() >= 5 && ties) si->sort_ties++;
                L = got;      // either direction is allowed: adopt the observed (verified) order; prev links are verified below
                break; }
            case S_RING_PUSH_SORTED: {
                int id = take_free(o.a); setp(id, o.p, c.ties);
                std::vector<int> old = R;
                it_t *res = shim_ring_push_sorted(ring, items[id]);
                // the statement only promises an ordered ring: read the result back from the returned head and check that it is the old ring
                // with the new item inserted somewhere, non-increasing from the returned head, prev links consistent (verify() below)
                std::vector<int> ids(NITEMS + 2); int n = res ? shim_ring_walk(res, 0, ids.data(), NITEMS) : -1;
                if (n < 0 || n > NITEMS) { err = "ring broken after ring_push_sorted into " + vec(old); break; }
                std::vector<int> got(ids.begin(), ids.begin() + n), without;
                for (int x : got) if (x != id) without.push_back(x);
                ring = res; R = got;
                if ((int)got.size() != (int)old.size() + 1 || without != old) { err = "ring_push_sorted(" + std::to_string(id) + ":" + std::to_string(P(id)) + ") turned ring " + vec(old) + " into " + vec(got) + " (old elements reordered, lost or duplicated)"; break; }
                if (!sorted_desc(got)) { err = "ring not in non-increasing priority order from the returned head after ring_push_sorted(" + std::to_string(id) + ":" + std::to_string(P(id)) + ") into " + vec(old) + ": " + vec(got); break; }
                size_t pos = std::find(got.begin(), got.end(), id) - got.begin();
                bool eq_before = pos > 0 && P(got[pos - 1]) == P(id), eq_after = pos + 1 < got.size() && P(got[pos + 1]) == P(id);
                if (eq_before || eq_after) { si->ring_sorted_ins++; vf::label(eq_before ? "ring_sorted_insert_after_an_equal" : "ring_sorted_insert_before_equals"); }
                break; }
            case S_RING_PUSH: { int id = take_free(o.a); setp(id, o.p, c.ties); ring = shim_ring_push(ring, items[id]); R.push_back(id); break; }
            case S_RING_CHOP: {
                it_t *rest = shim_ring_chop(ring);
                if (R.size() == 1) { if (rest) { err = "ring_chop of a singleton did not return NULL"; break; } }
                else if (rest != items[R[1]]) { err = "ring_chop did not return the next element"; break; }
                give_free(R[0]); R.erase(R.begin()); ring = rest; break; }
            case S_RING_TO_LIST: {
                std::vector<int> ids = R; it_t *rg = ring; ring = nullptr; R.clear();
                if (sorted_desc(L) && (o.b & 1)) { shim_chain_sorted(l, o.b / 2, rg); for (int id : ids) model_sorted_insert(L, id); }
                else { shim_chain_back(l, o.b / 2, rg); L.insert(L.end(), ids.begin(), ids.end()); }
                break; }
            case S_ITERATE: {
                int f, la; int n = shim_iterate(l, o.b, NITEMS + 1, &f, &la);
                if (n != (int)L.size() || f != (L.empty() ? -1 : L.front()) || la != (L.empty() ? -1 : L.back()))
                    err = "iterator macro variant " + std::to_string(o.b % 4) + " sees " + std::to_string(n) + " items first " + std::to_string(f) + " last " + std::to_string(la) + "; model " + vec(L);
                break; }
            }
            if (!err.empty()) break;
            if (!verify(sname[op])) break;
        }
        si->nontrivial = si->sorted_ins_with_equal > 0 || si->sort_ties > 0;
        // leave everything unlinked before freeing (the list destructor wants an empty list)
        if (err.empty()) { while (shim_pop_front(l, 2)) {} shim_list_free(l); }
        for (auto it : items) shim_item_free(it);
        return err;
    }
};

static std::string run_seq(const SCase &c, SInfo *si) { SeqRunner r; r.si = si; return r.run(c); }

// complete enumeration of small sorted-operation inputs
static int do_exhs() {
    uint64_t n = 0;
    auto run1 = [&](const SCase &c, bool nt) -> bool {
        SInfo si; std::string e = run_seq(c, &si); vf::note_case(c.repr(), nt || si.nontrivial); n++;
        if (!e.empty()) { vf::record_failure(c.repr(), e); vf::dump(); return false; }
        return true;
    };
    // (a) sort: every priority vector over {0,1,2} of length 0..7, both API variants
    for (int len = 0; len <= 7; len++) { int tot = 1; for (int i = 0; i < len; i++) tot *= 3;
        for (int code = 0; code < tot; code++) for (int v = 0; v < 2; v++) {
            SCase c; c.ties = 1; int x = code;
            for (int i = 0; i < len; i++) { c.ops.push_back({S_PUSH_BACK, 0, 1, x % 3}); x /= 3; }
            c.ops.push_back({S_SORT, 0, v, 0});
            if (!run1(c, false)) return 1;
        } }
    // (b) push_sorted / chain_sorted / ring_push_sorted: every sorted base of length 0..4 over {0,1,2} x every chain of length 1..3 over {0,1,2}
    for (int bl = 0; bl <= 4; bl++) { int bt = 1; for (int i = 0; i < bl; i++) bt *= 3;
        for (int bc = 0; bc < bt; bc++) {
            std::vector<int> base; int x = bc; for (int i = 0; i < bl; i++) { base.push_back(x % 3); x /= 3; }
            bool sorted = true; for (int i = 1; i < bl; i++) if (base[i - 1] < base[i]) sorted = false;
            if (!sorted) continue;
            for (int cl = 1; cl <= 3; cl++) { int ct = 1; for (int i = 0; i < cl; i++) ct *= 3;
                for (int cc = 0; cc < ct; cc++) for (int v = 0; v < 2; v++) {
                    std::vector<int> ch; int y = cc; for (int i = 0; i < cl; i++) { ch.push_back(y % 3); y /= 3; }
                    {   // chain_sorted: the chain's priorities are o.p + i*(1 + o.a%5) mod 3 -> build it through ring ops instead: ring_push (unsorted ring) then ring_to_list with chain_sorted
                        SCase c; c.ties = 1; for (int p : base) c.ops.push_back({S_PUSH_BACK, 0, 1, p});
                        for (int p : ch) c.ops.push_back({S_RING_PUSH, 0, 0, p});
                        c.ops.push_back({S_RING_TO_LIST, 0, 1 + 2 * v, 0});
                        if (!run1(c, false)) return 1;
                    }
                    if (cl == 1) {
                        SCase c; c.ties = 1; for (int p : base) c.ops.push_back({S_PUSH_BACK, 0, 1, p});
                        c.ops.push_back({S_PUSH_SORTED, 0, v, ch[0]});
                        if (!run1(c, false)) return 1;
                        SCase d; d.ties = 1; for (int p : base) d.ops.push_back({S_RING_PUSH, 0, 0, p});
                        d.ops.push_back({S_RING_PUSH_SORTED, 0, 0, ch[0]});
                        if (v == 0 && !run1(d, false)) return 1;
                    }
                } }
        } }
    vf::label("exhaustive_small_sorted_inputs", n);
    vf::dump();
    return 0;
}

// ============================================================================ concurrent part
enum { C_PUSH_FRONT, C_PUSH_BACK, C_POP_FRONT, C_POP_BACK, C_TRY_POP_FRONT, C_TRY_POP_BACK, C_CHAIN_BACK, C_UNCHAIN, C_CHAIN_FRONT, C_IS_EMPTY,
       C_PUSH_SORTED, C_CHAIN_SORTED, C_NOPS };
static const char *cname[] = {"push_front", "push_back", "pop_front", "pop_back", "try_pop_front", "try_pop_back", "chain_back", "unchain", "chain_front", "is_empty",
                              "push_sorted", "chain_sorted"};
struct COp { int op, v; };
struct CCase {
    int flavour = 0, ninit = 0, hand = 2, sparse = 0, kind = 0;   // flavour 1 = sorted (push_sorted / chain_sorted / pops only)
    std::vector<int> prio;                       // priority of each item
    std::vector<std::vector<COp>> prog; std::vector<uint8_t> sched;
    std::string repr() const {
        std::ostringstream o; o << "C31-conc flavour " << flavour << " ninit " << ninit << " hand " << hand << " sparse " << sparse << " kind " << kind << " threads " << prog.size() << "\n";
        o << "prio"; for (int p : prio) o << " " << p; o << "\n";
        for (auto &p : prog) { o << "prog"; for (auto &x : p) o << " " << x.op << " " << x.v; o << "\n"; }
        o << "sched"; for (uint8_t b : sched) o << " " << (int)b; o << "\n"; return o.str();
    }
    static CCase parse(const std::string &s) {
        CCase c; std::istringstream in(s); std::string line;
        while (std::getline(in, line)) {
            std::istringstream ls(line); std::string w; ls >> w;
            if (w == "C31-conc") { std::string k; int v; while (ls >> k >> v) { if (k == "flavour") c.flavour = v; else if (k == "ninit") c.ninit = v; else if (k == "hand") c.hand = v; else if (k == "sparse") c.sparse = v; else if (k == "kind") c.kind = v; } }
            else if (w == "prio") { int x; while (ls >> x) c.prio.push_back(x); }
            else if (w == "prog") { std::vector<COp> p; COp x; while (ls >> x.op >> x.v) p.push_back(x); c.prog.push_back(p); }
            else if (w == "sched") { int x; while (ls >> x) c.sched.push_back((uint8_t)x); }
        }
        return c;
    }
};
struct HOp { int type; std::vector<int> items; int result = -1; std::vector<int> rlist; bool may_fail = false; int thread = -1; uint64_t inv = 0, resp = 0; };
static const std::vector<int> *g_prio = nullptr;
struct DqModel {
    std::vector<int> q;   // front first
    static int P(int id) { return (*g_prio)[id]; }
    void sins(int x) { size_t i = 0; while (i < q.size() && !(P(q[i]) < P(x))) i++; q.insert(q.begin() + i, x); }
    bool pop(bool front, const HOp &o, bool is_try) {
        if (o.result < 0) return q.empty() || (is_try && o.may_fail);
        if (q.empty() || (front ? q.front() : q.back()) != o.result) return false;
        if (front) q.erase(q.begin()); else q.pop_back(); return true;
    }
    bool apply(const HOp &o) {
        switch (o.type) {
        case C_PUSH_FRONT: q.insert(q.begin(), o.items[0]); return true;
        case C_PUSH_BACK: q.push_back(o.items[0]); return true;
        case C_CHAIN_FRONT: q.insert(q.begin(), o.items.begin(), o.items.end()); return true;
        case C_CHAIN_BACK: q.insert(q.end(), o.items.begin(), o.items.end()); return true;
        case C_POP_FRONT: return pop(true, o, false);
        case C_POP_BACK: return pop(false, o, false);
        case C_TRY_POP_FRONT: return pop(true, o, true);
        case C_TRY_POP_BACK: return pop(false, o, true);
        case C_UNCHAIN: if (o.rlist != q) return false; q.clear(); return true;
        case C_IS_EMPTY: return (o.result != 0) == q.empty();
        case C_PUSH_SORTED: sins(o.items[0]); return true;
        case C_CHAIN_SORTED: for (int x : o.items) sins(x); return true;
        }
        return false;
    }
    std::string key() const { return std::string((const char *)q.data(), q.size() * sizeof(int)); }
};
struct CInfo { bool overlap = false, nontrivial = false, sorted_tie = false; uint64_t steps = 0; size_t hist = 0; };

static const int LOCKED_PUSH_FRONT[] = {0, 2}, LOCKED_PUSH_BACK[] = {0, 2, 4}, LOCKED_POP_FRONT[] = {0, 3, 6}, TRY_POP_FRONT_V[] = {1, 4, 7},
                 LOCKED_POP_BACK[] = {0, 3}, TRY_POP_BACK_V[] = {1, 4}, LOCKED_CHAIN_FRONT[] = {0, 2}, LOCKED_CHAIN_BACK[] = {0, 2, 4}, LOCKED_EMPTY[] = {0, 2, 4};

static std::string run_conc(const CCase &c, dsched::Chooser &ch, CInfo *ci) {
    int T = (int)c.prog.size(); int nitems = c.ninit + T * c.hand;
    parsec_list_t *l = shim_list_new(c.kind);
    std::vector<it_t *> items(nitems); std::vector<int> prio(nitems, 0);
    for (int i = 0; i < nitems; i++) { items[i] = shim_item_new(i); prio[i] = i < (int)c.prio.size() ? c.prio[i] : 0; shim_item_set_prio(items[i], prio[i]); }
    g_prio = &prio;
    std::vector<HOp> hist; DqModel init;
    for (int i = 0; i < c.ninit; i++) { if (c.flavour) { shim_push_sorted(l, 0, items[i]); init.sins(i); } else { shim_push_back(l, 0, items[i]); init.q.push_back(i); } }
    std::vector<std::vector<int>> hands(T);
    for (int t = 0; t < T; t++) for (int k = 0; k < c.hand; k++) hands[t].push_back(c.ninit + t * c.hand + k);
    std::string err;
    std::vector<std::function<void()>> bodies;
    for (int t = 0; t < T; t++) bodies.push_back([&, t]() {
        auto &hand = hands[t];
        for (const COp &o0 : c.prog[t]) {
            if (!err.empty()) return;
            int op = ((o0.op % C_NOPS) + C_NOPS) % C_NOPS, v = std::abs(o0.v);
            if (c.flavour) {   // sorted flavour: only operations that keep the list sorted
                if (op == C_PUSH_FRONT || op == C_PUSH_BACK) op = C_PUSH_SORTED;
                if (op == C_CHAIN_FRONT || op == C_CHAIN_BACK) op = C_CHAIN_SORTED;
            } else { if (op == C_PUSH_SORTED) op = C_PUSH_BACK; if (op == C_CHAIN_SORTED) op = C_CHAIN_BACK; }
            HOp h; h.type = op; h.thread = t;
            auto take = [&](int k) { std::vector<it_t *> r; for (int i = 0; i < k; i++) { int it = hand.back(); hand.pop_back(); h.items.push_back(it); r.push_back(items[it]); } return r; };
            it_t *r = nullptr; bool is_pop = false;
            switch (op) {
            case C_PUSH_FRONT: case C_PUSH_BACK: case C_PUSH_SORTED: {
                if (hand.empty()) continue; auto its = take(1);
                h.inv = dsched::now();
                if (op == C_PUSH_FRONT) shim_push_front(l, LOCKED_PUSH_FRONT[v % 2], its[0]); else if (op == C_PUSH_BACK) shim_push_back(l, LOCKED_PUSH_BACK[v % 3], its[0]); else shim_push_sorted(l, 0, its[0]);
                h.resp = dsched::now() + 1; break; }
            case C_CHAIN_FRONT: case C_CHAIN_BACK: case C_CHAIN_SORTED: {
                int k = 2 + v % 2; if ((int)hand.size() < k) continue; auto its = take(k); it_t *rg = shim_ring_make(its.data(), k);
                h.inv = dsched::now();
                if (op == C_CHAIN_FRONT) shim_chain_front(l, LOCKED_CHAIN_FRONT[(v / 2) % 2], rg); else if (op == C_CHAIN_BACK) shim_chain_back(l, LOCKED_CHAIN_BACK[(v / 2) % 3], rg); else shim_chain_sorted(l, 0, rg);
                h.resp = dsched::now() + 1; break; }
            case C_POP_FRONT: h.inv = dsched::now(); r = shim_pop_front(l, LOCKED_POP_FRONT[v % 3]); h.resp = dsched::now() + 1; is_pop = true; break;
            case C_TRY_POP_FRONT: h.inv = dsched::now(); r = shim_pop_front(l, TRY_POP_FRONT_V[v % 3]); h.resp = dsched::now() + 1; is_pop = true; break;
            case C_POP_BACK: h.inv = dsched::now(); r = shim_pop_back(l, LOCKED_POP_BACK[v % 2]); h.resp = dsched::now() + 1; is_pop = true; break;
            case C_TRY_POP_BACK: h.inv = dsched::now(); r = shim_pop_back(l, TRY_POP_BACK_V[v % 2]); h.resp = dsched::now() + 1; is_pop = true; break;
            case C_IS_EMPTY: h.inv = dsched::now(); h.result = shim_is_empty(l, LOCKED_EMPTY[v % 3]); h.resp = dsched::now() + 1; break;
            case C_UNCHAIN: {
                h.inv = dsched::now(); r = shim_unchain(l, 0); h.resp = dsched::now() + 1;
                if (r) { std::vector<int> ids(nitems + 2); int n = shim_ring_walk(r, 0, ids.data(), nitems);
                    if (n < 0 || n > nitems) { err = "unchain returned a broken ring"; return; }
                    std::vector<int> back(nitems + 2); int m = shim_ring_walk(r, 1, back.data(), nitems);
                    h.rlist.assign(ids.begin(), ids.begin() + n);
                    std::vector<int> b2(back.begin(), back.begin() + std::max(0, std::min(m, nitems))); if (!b2.empty()) std::reverse(b2.begin() + 1, b2.end());
                    if (b2 != h.rlist) { err = "unchain returned a ring whose prev links disagree with its next links"; return; }
                    for (int id : h.rlist) hand.push_back(id); }
                break; }
            }
            if (is_pop) { h.result = r ? shim_item_id(r) : -1; if (r) hand.push_back(h.result); }
            hist.push_back(h);
        }
    });
    dsched::Outcome out = dsched::run(bodies, ch, 200000);
    ci->steps = out.steps;
    // quiescent structure check (forward / backward agree), then sequential drain as part of the history
    std::vector<int> f(nitems + 2), b(nitems + 2);
    int nf = shim_walk(l, 0, f.data(), nitems), nb = shim_walk(l, 1, b.data(), nitems);
    if (err.empty() && (nf < 0 || nf > nitems || nb != nf)) err = "list links broken at quiescence (forward walk " + std::to_string(nf) + " items, backward " + std::to_string(nb) + ")";
    if (err.empty()) { std::vector<int> bb(b.begin(), b.begin() + nb); std::reverse(bb.begin(), bb.end()); if (bb != std::vector<int>(f.begin(), f.begin() + nf)) err = "prev links disagree with next links at quiescence"; }
    if (err.empty() && c.flavour) for (int i = 1; i < nf; i++) if (prio[f[i - 1]] < prio[f[i]]) { err = "sorted list is not in non-increasing priority order at quiescence"; break; }
    uint64_t stamp = out.steps + 10; std::vector<int> drained;
    for (int guard = 0; err.empty() && guard <= nitems + 1; guard++) {
        HOp h; h.type = C_POP_FRONT; h.thread = -1; h.inv = stamp++; it_t *r = shim_pop_front(l, 0); h.resp = stamp++; h.result = r ? shim_item_id(r) : -1; hist.push_back(h);
        if (!r) break; drained.push_back(h.result);
        if ((int)drained.size() > nitems) { err = "drain returns more items than exist"; break; }
    }
    if (err.empty()) {
        std::vector<int> where(nitems, 0);
        for (auto &hd : hands) for (int it : hd) where[it]++;
        for (int it : drained) where[it]++;
        for (int i = 0; i < nitems; i++) if (where[i] != 1) { err = "item " + std::to_string(i) + (where[i] == 0 ? " was lost" : " is in two places"); break; }
    }
    for (size_t i = 0; i < hist.size(); i++) for (size_t j = 0; j < hist.size(); j++) {
        if (i == j || hist[i].thread == hist[j].thread) continue;
        if (!(hist[i].inv < hist[j].resp && hist[j].inv < hist[i].resp)) continue;
        ci->overlap = true;
        if (hist[i].type == C_TRY_POP_FRONT || hist[i].type == C_TRY_POP_BACK) hist[i].may_fail = true;
    }
    if (c.flavour) { for (auto &h : hist) if (h.type == C_PUSH_SORTED || h.type == C_CHAIN_SORTED) for (int x : h.items) for (int y = 0; y < nitems; y++) if (y != x && prio[y] == prio[x]) ci->sorted_tie = true; }
    ci->hist = hist.size();
    ci->nontrivial = ci->overlap && (!c.flavour || ci->sorted_tie);
    if (err.empty() && hist.size() <= 40) {
        if (!lin::linearizable<HOp, DqModel>(hist, init)) {
            std::ostringstream o; o << "history is not linearizable as a " << (c.flavour ? "priority-sorted list" : "deque") << ":";
            for (auto &h : hist) { o << " [t" << h.thread << " " << cname[h.type] << "("; for (int x : h.items) o << x << ":" << prio[x] << ","; o << ")->"; if (h.type == C_UNCHAIN) { o << "{"; for (int x : h.rlist) o << x << ","; o << "}"; } else o << h.result; o << " @" << h.inv << "-" << h.resp << "]"; }
            err = o.str();
        }
    }
    if (err.empty()) shim_list_free(l);
    for (auto it : items) shim_item_free(it);
    return err;
}

static std::string g_current;
static void fatal_hook(const char *what) { vf::record_failure(g_current, what); vf::dump(); }

// every program of 2 threads x 2 ops (8 core locked ops), every schedule
static int do_exhc(int part, int nparts, int flavour, int pb, int NO) {
    static const int OPMAP[8] = {C_PUSH_FRONT, C_PUSH_BACK, C_POP_FRONT, C_POP_BACK, C_TRY_POP_FRONT, C_UNCHAIN, C_TRY_POP_BACK, C_CHAIN_BACK};
    int total = NO * NO * NO * NO; uint64_t execs = 0; bool truncated = false;
    for (int code = 0; code < total; code++) {
        if (code % nparts != part) continue;
        CCase c; c.flavour = flavour; c.ninit = 2; c.hand = 3; c.prog.resize(2); c.prio = {1, 0, 1, 0, 1, 1, 0, 1};
        int x = code; for (int t = 0; t < 2; t++) for (int i = 0; i < 2; i++) { c.prog[t].push_back({OPMAP[x % NO], (x / NO) % 3}); x /= NO; }
        dsched::DfsChooser d(pb);
        bool any_nt = false; uint64_t n0 = 0;
        do {
            d.begin(); CInfo ci; g_current = c.repr(); std::string e = run_conc(c, d, &ci); execs++; n0++; any_nt = any_nt || ci.nontrivial;
            if (!e.empty()) {
                CCase f = c; for (size_t k = 0; k < d.depth && k < d.stack.size(); k++) f.sched.push_back((uint8_t)d.stack[k].chosen); f.sparse = -1;
                vf::record_failure(f.repr(), e); vf::R().evaluations += execs; vf::dump(); return 1;
            }
        } while (d.next());
        truncated = truncated || d.truncated;
        vf::note_case(c.repr() + "#schedules " + std::to_string(n0) + "\n", any_nt);
        vf::R().evaluations += n0 - 1; vf::label("schedules_enumerated", n0);
    }
    vf::R().extra["exh_truncated"] = truncated ? "true" : "false";
    vf::dump(); return 0;
}

static int do_stress(int T, long iters, unsigned seed) {
    std::string e; std::string repr = "C31-stress threads " + std::to_string(T) + " iters " + std::to_string(iters) + " seed " + std::to_string(seed) + "\n";
    for (int flavour = 0; flavour < 2 && e.empty(); flavour++) {
        parsec_list_t *l = shim_list_new(flavour);
        int per = 8, nitems = T * per; std::vector<it_t *> items(nitems);
        for (int i = 0; i < nitems; i++) { items[i] = shim_item_new(i); shim_item_set_prio(items[i], (int)((i * 2654435761u) >> 29) - 3); }
        std::vector<std::vector<int>> hands(T);
        for (int t = 0; t < T; t++) for (int k = 0; k < per; k++) hands[t].push_back(t * per + k);
        std::atomic<int> bad{0}; std::vector<std::atomic<int>> owner(nitems); for (auto &o : owner) o = 1;
        std::vector<std::thread> th;
        for (int t = 0; t < T; t++) th.emplace_back([&, t]() {
            uint64_t x = seed * 7919u + t * 104729u + 1 + flavour; auto &hand = hands[t];
            for (long i = 0; i < iters; i++) {
                x = x * 6364136223846793005ULL + 1442695040888963407ULL; int op = (x >> 33) % 10, v = (x >> 40) & 0xff;
                if (op <= 1 && !hand.empty()) { int it = hand.back(); hand.pop_back(); if (owner[it].exchange(0) != 1) bad++;
                    if (flavour) shim_push_sorted(l, 0, items[it]); else if (op == 0) shim_push_front(l, LOCKED_PUSH_FRONT[v % 2], items[it]); else shim_push_back(l, LOCKED_PUSH_BACK[v % 3], items[it]); }
                else if ((op == 2 || op == 3) && hand.size() >= 3) { it_t *r[3]; for (int j = 0; j < 3; j++) { int it = hand.back(); hand.pop_back(); if (owner[it].exchange(0) != 1) bad++; r[j] = items[it]; }
                    it_t *rg = shim_ring_make(r, 3); if (flavour) shim_chain_sorted(l, 0, rg); else if (op == 2) shim_chain_front(l, 0, rg); else shim_chain_back(l, LOCKED_CHAIN_BACK[v % 3], rg); }
                else if (op >= 4 && op <= 7) { it_t *r = op == 4 ? shim_pop_front(l, LOCKED_POP_FRONT[v % 3]) : op == 5 ? shim_pop_back(l, LOCKED_POP_BACK[v % 2]) : op == 6 ? shim_pop_front(l, TRY_POP_FRONT_V[v % 3]) : shim_pop_back(l, TRY_POP_BACK_V[v % 2]);
                    if (r) { int it = shim_item_id(r); if (owner[it].exchange(1) != 0) bad++; hand.push_back(it); } }
                else if (op == 8 && !flavour && (v & 3) == 0) { it_t *r = shim_unchain(l, 0); if (r) { std::vector<int> ids(nitems + 2); int n = shim_ring_walk(r, 0, ids.data(), nitems); if (n < 0 || n > nitems) { bad++; n = 0; } for (int q = 0; q < n; q++) { if (owner[ids[q]].exchange(1) != 0) bad++; hand.push_back(ids[q]); } } }
                else if (op == 9) (void)shim_is_empty(l, LOCKED_EMPTY[v % 3]);
            }
        });
        for (auto &t : th) t.join();
        std::vector<int> f(nitems + 2), b(nitems + 2); int nf = shim_walk(l, 0, f.data(), nitems), nb = shim_walk(l, 1, b.data(), nitems);
        if (nf < 0 || nf > nitems || nf != nb) e = "list links broken after stress";
        if (e.empty() && flavour) for (int i = 1; i < nf; i++) if (shim_item_prio(items[f[i - 1]]) < shim_item_prio(items[f[i]])) { e = "sorted list out of order after concurrent push_sorted/chain_sorted/pop"; break; }
        std::vector<int> where(nitems, 0); for (auto &h : hands) for (int it : h) where[it]++;
        int guard = 0; while (it_t *r = shim_pop_front(l, 0)) { where[shim_item_id(r)]++; if (++guard > nitems) break; }
        if (e.empty() && bad) e = "an item was handed to two owners at once (" + std::to_string(bad.load()) + " times)";
        for (int i = 0; i < nitems && e.empty(); i++) if (where[i] != 1) e = "item " + std::to_string(i) + (where[i] ? " duplicated" : " lost") + " after stress";
        if (e.empty()) shim_list_free(l);
        for (auto it : items) shim_item_free(it);
        vf::label("stress_ops", (uint64_t)iters * T);
    }
    vf::note_case(repr, T >= 2);
    if (!e.empty()) { vf::record_failure(repr, e); vf::dump(); return 1; }
    vf::dump(); return 0;
}

static SCase gen_seq() {
    SCase c; c.kind = *rc::gen::resize(100, rc::gen::inRange(0, 3)); c.ties = *rc::gen::resize(100, rc::gen::element(0, 1, 1));
    int mode = *rc::gen::resize(100, rc::gen::element(0, 1, 1, 2));
    static const std::vector<int> sorted_ops = {S_PUSH_SORTED, S_PUSH_SORTED, S_PUSH_SORTED, S_CHAIN_SORTED, S_CHAIN_SORTED, S_POP_FRONT, S_POP_BACK, S_REMOVE, S_RING_PUSH_SORTED, S_RING_PUSH_SORTED,
                                                S_RING_TO_LIST, S_ITERATE, S_CONTAINS, S_RING_CHOP};
    static const std::vector<int> mixed_ops = {S_PUSH_FRONT, S_PUSH_BACK, S_PUSH_BACK, S_CHAIN_BACK, S_CHAIN_FRONT, S_SORT, S_SORT, S_POP_FRONT, S_POP_BACK, S_ADD_BEFORE, S_ADD_AFTER, S_REMOVE, S_RING_PUSH, S_RING_MERGE,
                                               S_RING_TO_LIST, S_UNCHAIN, S_IS_EMPTY, S_ITERATE};
    int n = *rc::gen::inRange(1, 60);
    for (int i = 0; i < n; i++) {
        SOp o;
        if (mode == 1) o.op = *rc::gen::resize(100, rc::gen::elementOf(sorted_ops));
        else if (mode == 2) o.op = *rc::gen::resize(100, rc::gen::elementOf(mixed_ops));
        else o.op = *rc::gen::resize(100, rc::gen::inRange(0, (int)S_NOPS));
        o.a = *rc::gen::resize(100, rc::gen::inRange(0, 1000)); o.b = *rc::gen::resize(100, rc::gen::inRange(0, 1000)); o.p = *rc::gen::resize(100, rc::gen::inRange(0, 16));
        c.ops.push_back(o);
    }
    return c;
}

int main(int argc, char **argv) {
    std::string mode = argc > 1 ? argv[1] : "seq";
    dsched::on_fatal() = fatal_hook;
    { const char *e = getenv("C31_KNOWN_PIVOT_OVERFLOW"); g_include_pivot_overflow = !(e && std::string(e) == "exclude") || mode == "replay"; }   // repaired in /repo (bf42d8f): included by default
    if (mode == "replay") {
        std::string txt = vf::slurp(argv[2]);
        if (txt.rfind("C31-stress", 0) == 0) { int T; long it; unsigned sd; sscanf(txt.c_str(), "C31-stress threads %d iters %ld seed %u", &T, &it, &sd); int r = 0; for (int k = 0; k < 3 && !r; k++) r = do_stress(T, it, sd); printf(r ? "REPLAY-FAIL stress\n" : "REPLAY-PASS\n"); return r; }
        std::string e;
        if (txt.rfind("C31-seq", 0) == 0) { SCase c = SCase::parse(txt); SInfo si; e = run_seq(c, &si); }
        else { CCase c = CCase::parse(txt); g_current = c.repr(); FairByteChooser ch(c.sched.data(), c.sched.size(), c.sparse); CInfo ci; e = run_conc(c, ch, &ci); }
        if (e.empty()) { printf("REPLAY-PASS\n"); return 0; }
        printf("REPLAY-FAIL %s\n", e.c_str()); return 1;
    }
    if (mode == "exhs") return do_exhs();
    if (mode == "exhc") return do_exhc(atoi(argv[2]), atoi(argv[3]), atoi(argv[4]), argc > 5 ? atoi(argv[5]) : 2, argc > 6 ? atoi(argv[6]) : 6);
    if (mode == "stress") return do_stress(atoi(argv[2]), atol(argv[3]), (unsigned)atoi(argv[4]));
    bool ok;
    if (mode == "seq") {
        ok = rc::check("list / dequeue / fifo / ring operation sequences match the vector model", []() {
            SCase c = gen_seq(); std::string r = c.repr(); SInfo si; std::string e = run_seq(c, &si);
            vf::note_case(r, si.nontrivial);
            if (si.sorted_ins_with_equal) vf::label("sorted_insert_next_to_equal_priority");
            if (si.sort_ties) vf::label("sort_5+_with_ties");
            if (si.ring_sorted_ins) vf::label("ring_sorted_insert_next_to_equal");
            vf::label(std::string("maxlen_") + (si.max_len >= 20 ? "20+" : si.max_len >= 8 ? "8-19" : "0-7"));
            if (!e.empty()) { vf::record_failure(r, e); RC_FAIL(e); }
        });
    } else {
        ok = rc::check("locked list operations under owned schedules are linearizable", []() {
            CCase c; int T = *rc::gen::resize(100, rc::gen::inRange(2, 4));
            c.flavour = *rc::gen::resize(100, rc::gen::element(0, 0, 1)); c.ninit = *rc::gen::resize(100, rc::gen::inRange(0, 4)); c.hand = *rc::gen::resize(100, rc::gen::inRange(1, 4));
            c.sparse = *rc::gen::resize(100, rc::gen::element(0, 0, 128, 200, 240)); c.kind = *rc::gen::resize(100, rc::gen::inRange(0, 3));
            int nitems = c.ninit + T * c.hand;
            c.prio = *rc::gen::container<std::vector<int>>((size_t)nitems, rc::gen::resize(100, rc::gen::element(0, 1, 1, 2, -1, INT_MAX, INT_MIN)));
            c.prog.resize(T);
            for (int t = 0; t < T; t++) { int n = *rc::gen::inRange(1, 7); for (int i = 0; i < n; i++) c.prog[t].push_back({*rc::gen::resize(100, rc::gen::inRange(0, (int)C_NOPS)), *rc::gen::resize(100, rc::gen::inRange(0, 36))}); }
            int sl = *rc::gen::inRange(0, 120);
            c.sched = *rc::gen::container<std::vector<uint8_t>>((size_t)sl, rc::gen::resize(100, rc::gen::arbitrary<uint8_t>()));
            if (c.flavour && !g_include_pivot_overflow) for (int &p : c.prio) if (p == INT_MAX) { p = INT_MAX - 1; vf::label("excluded_known_push_sorted_pivot_overflow"); }
            g_current = c.repr(); FairByteChooser ch(c.sched.data(), c.sched.size(), c.sparse); CInfo ci; std::string e = run_conc(c, ch, &ci);
            vf::note_case(g_current, ci.nontrivial);
            vf::label(std::string("conc_threads_") + std::to_string(T)); vf::label(c.flavour ? "conc_sorted_flavour" : "conc_deque_flavour");
            if (ci.overlap) vf::label("conc_overlapping_ops"); if (ci.sorted_tie) vf::label("conc_sorted_insert_with_tie");
            if (!e.empty()) { vf::record_failure(g_current, e); RC_FAIL(e); }
        });
    }
    vf::dump();
    return ok ? 0 : 1;
}
