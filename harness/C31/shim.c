/* C shim for C31: out-of-line access to the inline list / dequeue / fifo / ring code
 * (compiled with BUILDING_PARSEC, so the yield hooks of the atomic lock are in this TU). */
#include "parsec/parsec_config.h"
#include "parsec/class/list.h"
#include "parsec/class/dequeue.h"
#include "parsec/class/fifo.h"
#include <stdlib.h>
#include <stddef.h>

typedef struct { parsec_list_item_t super; int id; int prio; } li_t;
#define OFF offsetof(li_t, prio)
typedef parsec_list_item_t it_t;

parsec_list_t *shim_list_new(int kind)
{
    switch (kind % 3) {
    case 1: return (parsec_list_t *)PARSEC_OBJ_NEW(parsec_dequeue_t);
    case 2: return (parsec_list_t *)PARSEC_OBJ_NEW(parsec_fifo_t);
    default: return PARSEC_OBJ_NEW(parsec_list_t);
    }
}
void shim_list_free(parsec_list_t *l) { PARSEC_OBJ_RELEASE(l); }
it_t *shim_item_new(int id) { li_t *x = (li_t *)calloc(1, sizeof(li_t)); PARSEC_OBJ_CONSTRUCT(&x->super, parsec_list_item_t); x->id = id; x->prio = 0; return &x->super; }
void shim_item_free(it_t *it) { PARSEC_OBJ_DESTRUCT(it); free(it); }
int shim_item_id(it_t *it) { return ((li_t *)it)->id; }
int shim_item_prio(it_t *it) { return ((li_t *)it)->prio; }
void shim_item_set_prio(it_t *it, int p) { ((li_t *)it)->prio = p; }
it_t *shim_ghost(parsec_list_t *l) { return &l->ghost_element; }
int shim_higher(it_t *a, it_t *b) { return A_HIGHER_PRIORITY_THAN_B(a, b, OFF); }
int shim_lower(it_t *a, it_t *b) { return A_LOWER_PRIORITY_THAN_B(a, b, OFF); }

/* ---- pushes / pops: variant selects the API flavour ---- */
void shim_push_front(parsec_list_t *l, int v, it_t *it)
{
    switch (v % 4) {
    case 0: parsec_list_push_front(l, it); break;
    case 1: parsec_list_nolock_push_front(l, it); break;
    case 2: parsec_dequeue_push_front((parsec_dequeue_t *)l, it); break;
    default: parsec_dequeue_nolock_push_front((parsec_dequeue_t *)l, it); break;
    }
}
void shim_push_back(parsec_list_t *l, int v, it_t *it)
{
    switch (v % 6) {
    case 0: parsec_list_push_back(l, it); break;
    case 1: parsec_list_nolock_push_back(l, it); break;
    case 2: parsec_dequeue_push_back((parsec_dequeue_t *)l, it); break;
    case 3: parsec_dequeue_nolock_push_back((parsec_dequeue_t *)l, it); break;
    case 4: parsec_fifo_push((parsec_fifo_t *)l, it); break;
    default: parsec_fifo_nolock_push((parsec_fifo_t *)l, it); break;
    }
}
/* v: 0 locked, 1 try, 2 nolock, 3 dequeue locked, 4 dequeue try, 5 dequeue nolock, 6 fifo pop, 7 fifo try_pop, 8 fifo nolock pop */
it_t *shim_pop_front(parsec_list_t *l, int v)
{
    switch (v % 9) {
    case 0: return parsec_list_pop_front(l);
    case 1: return parsec_list_try_pop_front(l);
    case 2: return parsec_list_nolock_pop_front(l);
    case 3: return parsec_dequeue_pop_front((parsec_dequeue_t *)l);
    case 4: return parsec_dequeue_try_pop_front((parsec_dequeue_t *)l);
    case 5: return parsec_dequeue_nolock_pop_front((parsec_dequeue_t *)l);
    case 6: return parsec_fifo_pop((parsec_fifo_t *)l);
    case 7: return parsec_fifo_try_pop((parsec_fifo_t *)l);
    default: return parsec_fifo_nolock_pop((parsec_fifo_t *)l);
    }
}
it_t *shim_pop_back(parsec_list_t *l, int v)
{
    switch (v % 6) {
    case 0: return parsec_list_pop_back(l);
    case 1: return parsec_list_try_pop_back(l);
    case 2: return parsec_list_nolock_pop_back(l);
    case 3: return parsec_dequeue_pop_back((parsec_dequeue_t *)l);
    case 4: return parsec_dequeue_try_pop_back((parsec_dequeue_t *)l);
    default: return parsec_dequeue_nolock_pop_back((parsec_dequeue_t *)l);
    }
}
void shim_chain_front(parsec_list_t *l, int v, it_t *ring)
{
    switch (v % 4) {
    case 0: parsec_list_chain_front(l, ring); break;
    case 1: parsec_list_nolock_chain_front(l, ring); break;
    case 2: parsec_dequeue_chain_front((parsec_dequeue_t *)l, ring); break;
    default: parsec_dequeue_nolock_chain_front((parsec_dequeue_t *)l, ring); break;
    }
}
void shim_chain_back(parsec_list_t *l, int v, it_t *ring)
{
    switch (v % 6) {
    case 0: parsec_list_chain_back(l, ring); break;
    case 1: parsec_list_nolock_chain_back(l, ring); break;
    case 2: parsec_dequeue_chain_back((parsec_dequeue_t *)l, ring); break;
    case 3: parsec_dequeue_nolock_chain_back((parsec_dequeue_t *)l, ring); break;
    case 4: parsec_fifo_chain((parsec_fifo_t *)l, ring); break;
    default: parsec_fifo_nolock_chain((parsec_fifo_t *)l, ring); break;
    }
}
it_t *shim_unchain(parsec_list_t *l, int v) { return (v & 1) ? parsec_list_nolock_unchain(l) : parsec_list_unchain(l); }
void shim_add_before(parsec_list_t *l, it_t *pos, it_t *n) { parsec_list_nolock_add_before(l, pos, n); }
void shim_add_after(parsec_list_t *l, int v, it_t *pos, it_t *n) { if (v & 1) parsec_list_add_after(l, pos, n); else parsec_list_nolock_add_after(l, pos, n); }
it_t *shim_remove(parsec_list_t *l, it_t *it) { return parsec_list_nolock_remove(l, it); }
int shim_contains(parsec_list_t *l, it_t *it) { return parsec_list_nolock_contains(l, it); }
int shim_is_empty(parsec_list_t *l, int v)
{
    switch (v % 6) {
    case 0: return parsec_list_is_empty(l);
    case 1: return parsec_list_nolock_is_empty(l);
    case 2: return parsec_dequeue_is_empty((parsec_dequeue_t *)l);
    case 3: return parsec_dequeue_nolock_is_empty((parsec_dequeue_t *)l);
    case 4: return parsec_fifo_is_empty((parsec_fifo_t *)l);
    default: return parsec_fifo_nolock_is_empty((parsec_fifo_t *)l);
    }
}
void shim_push_sorted(parsec_list_t *l, int v, it_t *it) { if (v & 1) parsec_list_nolock_push_sorted(l, it, OFF); else parsec_list_push_sorted(l, it, OFF); }
void shim_chain_sorted(parsec_list_t *l, int v, it_t *ring) { if (v & 1) parsec_list_nolock_chain_sorted(l, ring, OFF); else parsec_list_chain_sorted(l, ring, OFF); }
void shim_sort(parsec_list_t *l, int v) { if (v & 1) parsec_list_nolock_sort(l, OFF); else parsec_list_sort(l, OFF); }

/* ---- rings ---- */
it_t *shim_ring_make(it_t **its, int n)
{
    if (n <= 0) return NULL;
    it_t *ring = parsec_list_item_singleton(its[0]);
    for (int i = 1; i < n; i++) { parsec_list_item_singleton(its[i]); parsec_list_item_ring_push(ring, its[i]); }
    return ring;
}
it_t *shim_ring_push(it_t *ring, it_t *it) { if (NULL == ring) return parsec_list_item_singleton(it); return parsec_list_item_ring_push(ring, it); }
it_t *shim_ring_push_sorted(it_t *ring, it_t *it) { return parsec_list_item_ring_push_sorted(ring, it, OFF); }
it_t *shim_ring_merge(it_t *r1, it_t *r2) { return parsec_list_item_ring_merge(r1, r2); }
it_t *shim_ring_chop(it_t *it) { return parsec_list_item_ring_chop(it); }

/* ---- bounded walks (robust against corrupted links: never loop more than cap+1 times) ---- */
int shim_walk(parsec_list_t *l, int backward, int *ids, int cap)
{
    int n = 0; it_t *g = &l->ghost_element;
    for (it_t *p = (it_t *)(backward ? g->list_prev : g->list_next); p != g; p = (it_t *)(backward ? p->list_prev : p->list_next)) {
        if (NULL == p) return -1;
        if (n >= cap) return cap + 1;
        ids[n++] = ((li_t *)p)->id;
    }
    return n;
}
int shim_ring_walk(it_t *ring, int backward, int *ids, int cap)
{
    if (NULL == ring) return 0;
    int n = 0; it_t *p = ring;
    do {
        if (NULL == p) return -1;
        if (n >= cap) return cap + 1;
        ids[n++] = ((li_t *)p)->id;
        p = (it_t *)(backward ? p->list_prev : p->list_next);
    } while (p != ring);
    return n;
}
/* the public iterator macros: count items and report first / last ids (bounded by cap through break) */
int shim_iterate(parsec_list_t *l, int v, int cap, int *first, int *last)
{
    int n = 0; *first = -1; *last = -1;
    if (v % 4 == 0) {
        PARSEC_LIST_ITERATOR(l, it, { if (n >= cap) break; if (0 == n) *first = ((li_t *)it)->id; *last = ((li_t *)it)->id; n++; });
    } else if (v % 4 == 1) {
        PARSEC_LIST_NOLOCK_ITERATOR(l, it, { if (n >= cap) break; if (0 == n) *first = ((li_t *)it)->id; *last = ((li_t *)it)->id; n++; });
    } else if (v % 4 == 2) {
        PARSEC_LIST_NOLOCK_REV_ITERATOR(l, it, { if (n >= cap) break; if (0 == n) *last = ((li_t *)it)->id; *first = ((li_t *)it)->id; n++; });
    } else {
        for (it_t *it = PARSEC_LIST_ITERATOR_FIRST(l); it != PARSEC_LIST_ITERATOR_END(l) && n < cap; it = PARSEC_LIST_ITERATOR_NEXT(it)) { if (0 == n) *first = ((li_t *)it)->id; n++; }
        int m = 0;
        for (it_t *it = PARSEC_LIST_ITERATOR_LAST(l); it != PARSEC_LIST_ITERATOR_BEGIN(l) && m < cap; it = PARSEC_LIST_ITERATOR_PREV(it)) { if (0 == m) *last = ((li_t *)it)->id; m++; }
        if (m != n) return -2;
    }
    return n;
}
