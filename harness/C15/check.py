"""C15 -- composed taskpools run strictly one after another (Hypothesis-generated compositions, stamp-interval oracle)."""
import glob
import json
import os
import subprocess

from vf import core

PROP = "C15"
HERE = os.path.dirname(os.path.abspath(__file__))
WORKER = os.path.join(HERE, "c15worker.py")


def prebuild():
    core.ensure_tree("hooks")
    subprocess.run(["python3-vt", "-c", "import sys; sys.path.insert(0, %r); import c15worker; c15worker.build_driver()" % HERE], check=False)


def run(tier, seed, res):
    prebuild()
    quick = tier == "quick"
    for path in sorted(glob.glob(os.path.join(core.VERIF, "corpus", PROP, "regress", "*.json"))):
        ok, msg = replay(path)
        res.coverage["regression_replays"] = res.coverage.get("regression_replays", 0) + 1
        if not ok:
            res.violations.append(core.Violation("regression case fails: " + msg[-400:], replay_path=path))
    rd = core.run_dir(PROP)
    n = 16
    cases = 25 if quick else 700
    jobs = []
    for i in range(n):
        out = os.path.join(rd, "rep%d.json" % i)
        jobs.append(dict(cmd=["python3-vt", WORKER, "--seed", str(seed * 811 + i), "--cases", str(cases), "--out", out], tag="c15", out=out))
    wr = core.run_workers(PROP, jobs, san=False)
    hashes, labels = set(), {}
    for j in jobs:
        if not os.path.exists(j["out"]):
            continue
        rep = json.load(open(j["out"]))
        res.evaluations += rep["evaluations"]
        hashes.update(rep["nontrivial"])
        for k, v in rep["labels"].items():
            labels[k] = labels.get(k, 0) + v
        for s in rep["samples"]:
            if len(res.samples) < 5:
                res.samples.append(s)
        f = rep.get("failure")
        if f:
            res.violations.append(core.Violation(f["msg"], replay_text=json.dumps(f["replay"]), ext="json"))
        res.coverage["inconclusive_timeouts"] = res.coverage.get("inconclusive_timeouts", 0) + rep.get("inconclusive", 0)
    for c in wr.crashes:
        if not os.path.exists(jobs[c["worker"]]["out"]):
            res.inconclusive = "worker %d died: %s" % (c["worker"], c["log_tail"][-400:])
    res.distinct_nontrivial = len(hashes)
    res.coverage["labels"] = labels
    res.rule = ("case = (1..20 taskpools of 0..40 tasks each, independent or chained, with generated body durations; a random binary tree of "
                "parsec_compose calls whose leaves are the pools in order (left folds, right-nested compounds, mixtures); threads; scheduler); "
                "oracle from global sequence stamps: each pool's tasks run exactly once, the last completion stamp of a pool precedes the first "
                "start stamp of every later non-empty pool, the compound's completion callback runs exactly once after the last task and before "
                "parsec_context_wait returns; non-trivial = >= 3 pools, >= 2 of them with >= 10 tasks, >= 2 threads; distinct = distinct cases")
    res.assumptions = ["single process; the pools come from one parameterised JDF compiled with the tree's parsec-ptgpp",
                       "hangs are decided by the in-process watchdog (3 tries), plain timeouts are inconclusive"]


def replay(path):
    p = subprocess.run(["python3-vt", WORKER, "--replay", path], stdout=subprocess.PIPE, stderr=subprocess.STDOUT, text=True)
    return "REPLAY-PASS" in p.stdout, p.stdout[-1200:]
