#!/usr/bin/env python3
"""C15 worker: Hypothesis-generated compositions of taskpools, run by the c15 driver, judged from the log."""
import argparse
import hashlib
import json
import os
import shutil
import subprocess
import sys

HERE = os.path.dirname(os.path.abspath(__file__))
PTG = os.path.join(HERE, "..", "ptg")
sys.path.insert(0, PTG)
sys.path.insert(0, os.path.join(os.path.dirname(os.path.dirname(HERE)), "lib", "py"))

from hypothesis import HealthCheck, Phase, given, seed, settings, strategies as st  # noqa: E402

import ptgrun  # noqa: E402
from vf import core  # noqa: E402

SCHEDS = ["lfq", "ap", "gd", "ip", "lhq", "ll", "llp", "ltq", "pbq", "rnd", "spq"]


def build_driver():
    """Compile pool.jdf + c15_main.c against the hooks tree (rebuilt when libparsec or the sources change)."""
    core.ensure_tree("hooks")
    d, ptgpp = ptgrun.tree_paths()
    inc, defs, libs, san = core.tree_flags("hooks")
    out = os.path.join(core.WORK, "harness", "hooks", "C15", "c15")
    os.makedirs(os.path.dirname(out), exist_ok=True)
    srcs = [os.path.join(HERE, "pool.jdf"), os.path.join(HERE, "c15_main.c"), os.path.join(PTG, "vs_support.c"), os.path.join(PTG, "vs_support.h"),
            os.path.join(d, "parsec", "libparsec.so"), ptgpp]
    with core._Lock(out + ".lock"):
        if os.path.exists(out) and os.path.getmtime(out) >= max(os.path.getmtime(s) for s in srcs):
            return out
        wd = os.path.dirname(out)
        shutil.copy(os.path.join(HERE, "pool.jdf"), wd)
        p = subprocess.run([ptgpp, "-E", "-i", "pool.jdf", "-o", "pool", "--noline"], cwd=wd, stdout=subprocess.PIPE, stderr=subprocess.STDOUT, text=True)
        if p.returncode != 0:
            raise core.BuildError("pool.jdf does not compile with the tree's parsec-ptgpp: " + p.stdout[-1500:])
        cdefs = [x for x in defs if x != "-DBUILDING_PARSEC"]
        cmd = ["gcc", "-std=gnu11", "-w", "pool.c", os.path.join(HERE, "c15_main.c"), ptgrun.support_obj(), "-o", out + ".tmp", "-I" + PTG, "-I."] + cdefs + inc + libs
        p = subprocess.run(cmd, cwd=wd, stdout=subprocess.PIPE, stderr=subprocess.STDOUT, text=True)
        if p.returncode != 0:
            raise core.BuildError("C15 driver does not compile: " + p.stdout[-1500:])
        os.replace(out + ".tmp", out)
    return out


def tree_strategy(n):
    """postfix op list of a random binary tree whose leaves are 0..n-1 in order."""
    @st.composite
    def go(draw, lo, hi):
        if hi - lo == 1:
            return [lo]
        k = draw(st.integers(lo + 1, hi - 1))
        return draw(go(lo, k)) + draw(go(k, hi)) + [-1]
    return go(0, n)


def run_case(exe, wd, case, tag="c"):
    cf, lf = os.path.join(wd, tag + ".case"), os.path.join(wd, tag + ".log")
    vals = [case["threads"], case.get("tq_ms", 3000), len(case["pools"])]
    for (n, ch, sp) in case["pools"]:
        vals += [n, ch, sp]
    vals += [len(case["ops"])] + case["ops"]
    open(cf, "w").write(" ".join(map(str, vals)) + "\n")
    try:
        os.unlink(lf + ".0")
    except OSError:
        pass
    env = dict(os.environ)
    env.update(core.MPI_ENV)
    env["PARSEC_MCA_mca_sched"] = case["sched"]
    try:
        p = subprocess.run([exe, cf, lf], cwd=wd, env=env, stdout=subprocess.PIPE, stderr=subprocess.STDOUT, text=True, errors="replace", timeout=90)
    except subprocess.TimeoutExpired:
        return "timeout", ""
    st_, recs, notes = ptgrun.parse_log(lf + ".0", 0)
    if st_ == "QUIESCENT-INCOMPLETE":
        done = sum(1 for r in recs if not r.again)
        return "hang", "runtime quiescent with %d of %d tasks executed" % (done, sum(x[0] for x in case["pools"]))
    if p.returncode != 0 or st_ != "FINISHED":
        return "crash", "driver died rc=%s: %s" % (p.returncode, p.stdout[-500:].replace("\n", " | "))
    return "ok", judge(case, recs, notes)


def judge(case, recs, notes):
    pools = case["pools"]
    by = {}
    for r in recs:
        by.setdefault(r.cls, []).append(r)
    for q, (n, ch, sp) in enumerate(pools):
        got = sorted(r.params[0] for r in by.get(q, []))
        if got != list(range(n)):
            return "pool %d: executed instances %s, expected 0..%d each exactly once" % (q, got[:12], n - 1)
    for q in by:
        if q >= len(pools):
            return "tasks of an unknown pool %d ran" % q
    nonempty = [q for q in range(len(pools)) if pools[q][0] > 0]
    for a, b in zip(nonempty, nonempty[1:]):
        last_a = max(r.sout for r in by[a])
        first_b = min(r.sin for r in by[b])
        if not last_a < first_b:
            return "a task of pool %d started (stamp %d) before the last task of the earlier pool %d completed (stamp %d)" % (b, first_b, a, last_a)
    comp = [int(n.split()[2]) for n in notes if n.startswith("COMPLETE ")]
    waited = [int(n.split()[4]) for n in notes if n.startswith("WAITED ")]
    if len(comp) != 1:
        return "the compound's completion callback ran %d times" % len(comp)
    if recs and comp[0] < max(r.sout for r in recs):
        return "the compound completed (stamp %d) before its last task (stamp %d)" % (comp[0], max(r.sout for r in recs))
    if not waited or waited[0] < comp[0]:
        return "parsec_context_wait returned before the compound's completion callback"
    for q, (n, ch, sp) in enumerate(pools):
        if ch and n > 1:
            rs = sorted(by[q], key=lambda r: r.params[0])
            for x, y in zip(rs, rs[1:]):
                if not x.sout < y.sin:
                    return "chained pool %d: T(%d) started before T(%d) completed" % (q, y.params[0], x.params[0])
    return ""


class Stats:
    evaluations = 0
    nontrivial = set()
    labels = {}
    samples = []
    failure = None
    inconclusive = 0


S = Stats()


def lab(k, n=1):
    S.labels[k] = S.labels.get(k, 0) + n


def make_test(a, exe, wd):
    @seed(a.seed)
    @settings(max_examples=a.cases, database=None, deadline=None, suppress_health_check=list(HealthCheck), report_multiple_bugs=False,
              phases=[Phase.generate, Phase.shrink])
    @given(st.data())
    def test(data):
        d = data.draw
        npools = d(st.sampled_from([1, 2, 2, 3, 3, 4, 5, 7, 10, 15, 16, 17, 20, 33]))
        pools = [[d(st.sampled_from([0, 0, 1, 2, 3, 5, 10, 17, 40])), d(st.integers(0, 1)), d(st.sampled_from([0, 0, 50, 400]))] for _ in range(npools)]
        if d(st.integers(0, 2)) == 0:
            # pure left fold compose(compose(compose(p0, p1), p2), ...): every pool after the second is APPENDED to the same
            # compound object (the other shapes mostly build nested two-element compounds), which is what grows its array
            ops = [0]
            for q in range(1, npools):
                ops += [q, -1]
        else:
            ops = d(tree_strategy(npools))
        case = dict(pools=pools, ops=ops, threads=d(st.sampled_from([1, 2, 3, 4, 8, 16])), sched=d(st.sampled_from(SCHEDS)), tq_ms=3000)
        tries = 0
        while True:
            status, msg = run_case(exe, wd, case)
            tries += 1
            if status in ("hang", "crash") and tries < (1 if S.failure else 3):
                case["tq_ms"] *= 2
                continue
            break
        case["tq_ms"] = 3000
        if status == "timeout":
            S.inconclusive += 1
            lab("timeout")
            return
        S.evaluations += 1
        lab("status_" + status)
        lab("threads_%d" % case["threads"])
        lab("npools_%s" % ("1" if npools == 1 else "2-3" if npools <= 3 else "4-15" if npools <= 15 else "16-20"))
        lab("nested_right" if ops and any(ops[i] >= 0 and i > 0 and ops[i - 1] == -1 for i in range(len(ops))) else "left_fold")
        big = sum(1 for p in pools if p[0] >= 10)
        if npools >= 3 and big >= 2 and case["threads"] >= 2:
            S.nontrivial.add(hashlib.sha1(json.dumps(case, sort_keys=True).encode()).hexdigest())
            if len(S.samples) < 4:
                S.samples.append(case)
        if any(p[0] == 0 for p in pools):
            lab("has_empty_pool")
        if status != "ok" or msg:
            S.failure = dict(msg=msg or status, replay=case)
            raise AssertionError(msg)
    return test


def main():
    ap = argparse.ArgumentParser()
    ap.add_argument("--seed", type=int, default=1)
    ap.add_argument("--cases", type=int, default=30)
    ap.add_argument("--out")
    ap.add_argument("--replay")
    a = ap.parse_args()
    exe = build_driver()
    wd = os.path.join(core.WORK, "run", "c15-%d" % os.getpid())
    os.makedirs(wd, exist_ok=True)
    try:
        if a.replay:
            case = json.load(open(a.replay))
            bad = None
            for _ in range(3):
                status, msg = run_case(exe, wd, case)
                if status in ("hang", "crash") or msg:
                    bad = msg or status
                    break
            print("REPLAY-FAIL " + bad if bad else "REPLAY-PASS")
            sys.exit(1 if bad else 0)
        rc = 0
        try:
            make_test(a, exe, wd)()
        except AssertionError:
            rc = 1
        except Exception:
            if S.failure is None:
                import traceback
                traceback.print_exc()
                rc = 2
            else:
                rc = 1
        rep = dict(evaluations=S.evaluations, nontrivial=sorted(S.nontrivial), labels=S.labels, samples=S.samples, failure=S.failure, inconclusive=S.inconclusive)
        if a.out:
            json.dump(rep, open(a.out, "w"))
        else:
            rep["nontrivial"] = len(rep["nontrivial"])
            print(json.dumps(rep)[:2000])
        sys.exit(rc)
    finally:
        shutil.rmtree(wd, ignore_errors=True)


if __name__ == "__main__":
    main()
