/* C15 driver: builds pools from pool.jdf, composes them as the case says, runs, logs.
 * case file (ints): nthreads tq_ms npools {N chain spin}*npools nops {op}*nops   (op >= 0: push pool op; op == -1: compose the two on top)
 */
#include "parsec/runtime.h"
#include "vs_support.h"
#include "pool.h"
#include <mpi.h>
#include <stdio.h>
#include <stdlib.h>
#include <string.h>

static int complete_cb(parsec_taskpool_t *tp, void *data)
{
    (void)tp; (void)data;
    vs_note("COMPLETE stamp %lld", (long long)vs_stamp());
    return 0;
}

int main(int argc, char **argv)
{
    int provided;
    MPI_Init_thread(&argc, &argv, MPI_THREAD_SERIALIZED, &provided);
    if( argc < 3 ) { fprintf(stderr, "usage: c15 case log\n"); return 2; }
    FILE *f = fopen(argv[1], "r"); if( !f ) { perror(argv[1]); return 2; }
    int V[4096], nv = 0; while( nv < 4096 && 1 == fscanf(f, "%d", &V[nv]) ) nv++; fclose(f);
    int p = 0, nthreads = V[p++], tq_ms = V[p++], npools = V[p++];
    int *spec = &V[p]; p += 3 * npools;
    int nops = V[p++]; int *ops = &V[p];
    int expected = 0; for( int i = 0; i < npools; i++ ) expected += spec[3*i];
    char logpath[1024]; snprintf(logpath, sizeof logpath, "%s.0", argv[2]);
    vs_init(0, expected, tq_ms / 1000.0, logpath);
    int pargc = 0; char **pargv = NULL;
    parsec_context_t *parsec = parsec_init(nthreads, &pargc, &pargv);
    parsec_data_collection_t *D = vs_dc_create("D", 0, 1, 1, 4, NULL, NULL, 1);
    parsec_taskpool_t *stack[64]; int sp = 0;
    parsec_taskpool_t *all[256]; int nall = 0;
    for( int i = 0; i < nops; i++ ) {
        if( ops[i] >= 0 ) {
            int q = ops[i];
            parsec_taskpool_t *tp = (parsec_taskpool_t*)parsec_pool_new(D, q, spec[3*q], spec[3*q+1], spec[3*q+2]);
            stack[sp++] = tp; all[nall++] = tp;
        } else {
            parsec_taskpool_t *b = stack[--sp], *a = stack[--sp];
            parsec_taskpool_t *c = parsec_compose(a, b);
            if( c != a && c != b ) all[nall++] = c;     /* a new compound object */
            stack[sp++] = c;
        }
    }
    parsec_taskpool_t *top = stack[0];
    parsec_taskpool_set_complete_callback(top, complete_cb, NULL);
    int rc = parsec_context_add_taskpool(parsec, top);
    if( rc != 0 ) { fprintf(stderr, "add_taskpool rc=%d\n", rc); return 2; }
    vs_arm();
    rc = parsec_context_start(parsec);
    rc = parsec_context_wait(parsec);
    vs_note("WAITED rc %d stamp %lld", rc, (long long)vs_stamp());
    vs_finish();
    for( int i = 0; i < nall; i++ ) parsec_taskpool_free(all[i]);
    vs_dc_free(D);
    parsec_fini(&parsec);
    MPI_Finalize();
    return 0;
}
