"""C16 -- deferred (AGAIN) tasks are re-run, never lost or duplicated; startup chunking (engine E5)."""
import os
import sys
sys.path.insert(0, os.path.join(os.path.dirname(os.path.abspath(__file__)), "..", "ptg"))
import engine  # noqa: E402

PROP = "C16"


def prebuild():
    engine.prebuild()


def run(tier, seed, res):
    engine.regressions(PROP, res, ["C01", "C02", "C16"])
    engine.run(PROP, "c16", tier, seed, res, props=["C16", "C01", "C02"])


def replay(path):
    return engine.replay(path, ["C01", "C02", "C16"])
