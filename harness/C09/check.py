"""C09 -- priority schedulers (ap, ip, spq) honour priorities: single-stream model-based sequences + exhaustive small space."""
import os
import subprocess

from vf import core

PROP = "C09"
MODULES = ["ap", "ip", "spq"]
RULE = ("one process per module: parsec_init(1, --mca mca_sched X), context never started, the main thread is the stream. case = sequence "
        "(<= 64 ops) of module.schedule(ring of 1..16 tasks in non-increasing priority, priorities -5..5 / INT_MIN / INT_MAX, distance 0..4; ip: "
        "distance 0 only) and module.select, decoded from generated words. oracle at every select and in the final drain: ap = stable max-queue "
        "(highest priority, ties in scheduling/ring order, exact task identity); spq = lexicographic (smallest distance, highest priority, earliest) "
        "and reported distance = scheduled distance; ip = returned priority is the minimum pending one (tie order free); NULL iff nothing pending. "
        "non-trivial = some select had to decide a tie between equal-priority tasks of different schedule calls (spq: additionally two distances "
        "pending at once); distinct = distinct sequence texts. exhaustive part = all sequences up to length 5 (spq 4; thorough: 6 / 5) over {select, schedule "
        "[0],[1],[1,0],[1,1],[0,0]} x distance {0} (spq {0,1})")


def _build():
    return core.build_harness("C09/prio", ["harness/C09/prio.cc"], tree="san", rapidcheck=True,
                              plain_c_sources=["harness/C08/sched_shim.c"])


def _collect(res, wr):
    for f in wr.failures:
        res.violations.append(core.Violation("[%s] %s" % (f["tag"], f["msg"]), replay_text=f["replay_text"]))
    for c in wr.crashes:
        if c["rc"] == "timeout":
            res.inconclusive = "a %s process hit the wall-clock cap; not a verdict" % c["tag"]
            continue
        if "file too short" in c["log_tail"] or "cannot open shared object" in c["log_tail"]:
            res.inconclusive = "libparsec.so was being relinked by a concurrent build while a worker started"
            continue
        res.violations.append(core.Violation("[%s] harness process died (rc=%s): %s" % (c["tag"], c["rc"], c["log_tail"][-1200:]),
                                             replay_text="# crash of %s\n%s" % (" ".join(c["cmd"]), c["log_tail"][-1500:])))


def run(tier, seed, res):
    b = _build()
    quick = tier == "quick"
    res.rule = RULE
    res.assumptions = ["no concurrent activity: one stream, one thread", "rings are in non-increasing priority order (parsec_list_item_ring_push_sorted)",
                       "ip is only driven with distance 0 (with distance > 0 it appends unsorted by design, outside the statement)",
                       "HIGHER_IS_BETTER priority order of this build"]
    jobs = []
    for m in MODULES:
        L = 4 if m == "spq" else 5
        parts = 4
        for p in range(parts):
            jobs.append(dict(cmd=[b, "exh", m, str(L if quick else L + 1), str(p), str(parts)], tag="exh:" + m, timeout=3600))
    wr = core.run_workers(PROP, jobs)
    res.absorb(wr, "exhaustive")
    res.coverage["exhaustive"] = not (wr.failures or wr.crashes)
    res.coverage["exhaustive_subspace"] = ("per module every op sequence of length <= %s over {select, schedule [0],[1],[1,0],[1,1],[0,0]} "
                                           "x distance {0} (spq: {0,1}, length <= %s)" % ((5, 4) if quick else (6, 5)))
    _collect(res, wr)
    nproc = 4
    per = 1500 if quick else 500000
    jobs = []
    for i, m in enumerate(MODULES):
        for k in range(nproc):
            jobs.append(dict(cmd=[b, "rc", m], env={"RC_PARAMS": "seed=%d max_success=%d max_size=100" % (seed * 131 + i * 17 + k, per)},
                             tag="rc:" + m, timeout=7200))
    wr = core.run_workers(PROP, jobs)
    res.absorb(wr, "rc")
    _collect(res, wr)


def replay(path):
    b = _build()
    env = dict(os.environ)
    env.update(core.MPI_ENV)
    env.update(core.SAN_RUN_ENV)
    env.pop("VF_OUT", None)
    p = subprocess.run([b, "replay", path], env=env, stdout=subprocess.PIPE, stderr=subprocess.STDOUT, text=True, errors="replace")
    msg = [l for l in p.stdout.splitlines() if l.startswith("REPLAY-")]
    return p.returncode == 0 and "REPLAY-PASS" in p.stdout, ("\n".join(msg) or p.stdout[-1500:])[:2000]
