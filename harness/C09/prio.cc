// C09 -- Priority schedulers honour task priorities (ap, ip, spq; single stream, no concurrency).
//
// One process = one module: parsec_init(1, --mca mca_sched <mod>), context never started; the main thread is the stream and
// calls the installed module's schedule/select directly.  case = sequence of schedule(ring, distance) / select, decoded
// from generated words; oracle = priority-queue model (see Model below) compared at every select, plus a final drain.
// modes: rc <mod> | exh <mod> <maxlen> | replay <file>
#include <algorithm>
#include <climits>
#include <unistd.h>
#include <unordered_map>
#include "vf.hpp"
#include <rapidcheck.h>

extern "C" {
int ss_init(int, const char *); const char *ss_sched_name(void); int ss_nb_streams(int);
void *ss_es(int, int); void ss_bind_thread(void *);
void *ss_task_new(int); void ss_task_set(void *, int, int, int); int ss_task_stamp_ok(void *);
void *ss_make_ring(void **, int); int ss_schedule(void *, void *, int); void *ss_select(void *, int *); int ss_fini(void);
}

static const int POOL = 2048;
static std::vector<void *> g_task;
static std::unordered_map<void *, int> g_index;   // lookup only
static std::string g_mod;
static void *g_es;

struct Op { bool select = true; int dist = 0; std::vector<int> prio; };   // prio in ring order, non-increasing
struct Case {
    std::string mod; std::vector<Op> ops;
    std::string repr() const {
        std::ostringstream o; o << "C09 mod " << mod << "\n";
        for (auto &op : ops) { if (op.select) o << "G\n"; else { o << "S " << op.dist; for (int p : op.prio) o << " " << p; o << "\n"; } }
        return o.str();
    }
    static Case parse(const std::string &s) {
        Case c; std::istringstream in(s); std::string line;
        while (std::getline(in, line)) {
            std::istringstream ls(line); std::string w; ls >> w;
            if (w == "C09") { std::string k; ls >> k >> c.mod; }
            else if (w == "G") c.ops.emplace_back();
            else if (w == "S") { Op op; op.select = false; ls >> op.dist; long p; while (ls >> p) op.prio.push_back((int)p); if (!op.prio.empty()) c.ops.push_back(op); }
        }
        return c;
    }
};

// words -> case.  Priorities -5..5 with many ties, plus INT_MIN / INT_MAX; rings of 1..16; distance 0..4 (ip: 0 only, with a
// larger distance ip appends unsorted on purpose, which the statement does not cover).
static Case decode(const std::string &mod, const std::vector<int> &w)
{
    Case c; c.mod = mod; size_t i = 0;
    auto prio = [](int x) { int k = x % 13; return k == 11 ? INT_MIN : k == 12 ? INT_MAX : k - 5; };
    while (i < w.size() && c.ops.size() < 64) {
        int x = w[i++];
        if (x % 5 < 2) { c.ops.emplace_back(); continue; }
        Op op; op.select = false;
        int lc = (x / 5) % 8; int len = lc < 4 ? 1 + (x / 40) % 2 : lc < 7 ? 1 + (x / 40) % 5 : 1 + (x / 40) % 16;
        int dc = (x / 640) % 4; op.dist = (mod == "ip") ? 0 : (dc < 2 ? 0 : 1 + (x / 2560) % 4);
        for (int k = 0; k < len && i < w.size(); k++) op.prio.push_back(prio(w[i++]));
        if (op.prio.empty()) break;
        std::stable_sort(op.prio.begin(), op.prio.end(), [](int a, int b) { return a > b; });
        c.ops.push_back(op);
    }
    return c;
}

struct Pending { int id, prio, dist, call; };

struct RunInfo { bool tie_decided = false, two_dist = false, nontrivial = false; int selects = 0, scheduled = 0, nulls = 0, extremes = 0; };

// the model's choice among the pending tasks, or -1 when the module may return any task of a set (ip ties): then `allowed` holds the priority
static int model_pick(const std::string &mod, const std::vector<Pending> &pend, RunInfo *ri, int *want_prio, int *want_dist)
{
    if (pend.empty()) return -2;
    size_t best = 0;
    for (size_t i = 1; i < pend.size(); i++) {
        const Pending &a = pend[i], &b = pend[best];
        bool better;
        if (mod == "ip") better = a.prio < b.prio;
        else if (mod == "spq") better = a.dist != b.dist ? a.dist < b.dist : a.prio > b.prio;   // earlier id wins ties: ids grow in scheduling (and ring) order
        else better = a.prio > b.prio;
        if (better) best = i;
    }
    *want_prio = pend[best].prio; *want_dist = pend[best].dist;
    for (auto &p : pend) {
        if (p.id != pend[best].id && p.prio == pend[best].prio && (mod != "spq" || p.dist == pend[best].dist) && p.call != pend[best].call) ri->tie_decided = true;
        if (p.dist != pend[best].dist) ri->two_dist = true;
    }
    return mod == "ip" ? -1 : pend[best].id;
}

static std::string run_case(const Case &c, RunInfo *ri)
{
    std::vector<Pending> pend; int next_id = 0, call = 0; std::string err;
    auto do_select = [&](const char *phase) -> bool {   // returns false when the scheduler reported empty
        int want_prio = 0, want_dist = 0, d = 0;
        int want = model_pick(c.mod, pend, ri, &want_prio, &want_dist);
        void *r = ss_select(g_es, &d);
        ri->selects++;
        if (!r) {
            ri->nulls++;
            if (want != -2) err = std::string(phase) + ": select returned NULL while " + std::to_string(pend.size()) + " tasks are pending";
            return false;
        }
        auto it = g_index.find(r);
        if (it == g_index.end() || !ss_task_stamp_ok(r)) { err = std::string(phase) + ": select returned a pointer that is not a harness task"; return false; }
        int id = it->second;
        auto pit = std::find_if(pend.begin(), pend.end(), [&](const Pending &p) { return p.id == id; });
        if (pit == pend.end()) { err = std::string(phase) + ": select returned task " + std::to_string(id) + " which is not pending (returned twice or never scheduled)"; return false; }
        if (c.mod == "ip") {
            if (pit->prio != want_prio) err = std::string(phase) + ": ip returned priority " + std::to_string(pit->prio) + " while a task with lower priority " + std::to_string(want_prio) + " is pending";
        } else if (id != want) {
            std::ostringstream o; o << phase << ": " << c.mod << " returned task " << id << " (prio " << pit->prio << ", distance " << pit->dist << ", schedule call " << pit->call
                                    << ") but the model expects task " << want << " (prio " << want_prio << ", distance " << want_dist << ")";
            err = o.str();
        } else if (c.mod == "spq" && d != pit->dist) {
            err = std::string(phase) + ": spq reported distance " + std::to_string(d) + " for a task scheduled with distance " + std::to_string(pit->dist);
        }
        pend.erase(pit);
        return true;
    };
    for (auto &op : c.ops) {
        if (!err.empty()) break;
        if (op.select) { do_select("select"); continue; }
        if (next_id + (int)op.prio.size() > POOL) break;
        std::vector<void *> ptr;
        for (int p : op.prio) {
            ss_task_set(g_task[next_id], p, 0, 0); ptr.push_back(g_task[next_id]);
            pend.push_back({next_id, p, c.mod == "spq" ? op.dist : 0, call});
            if (p == INT_MIN || p == INT_MAX) ri->extremes++;
            next_id++;
        }
        ri->scheduled += (int)ptr.size(); call++;
        ss_schedule(g_es, ss_make_ring(ptr.data(), (int)ptr.size()), op.dist);
    }
    // drain (also part of the comparison); on error just empty the scheduler for the next case
    if (err.empty()) { int guard = 0; while (err.empty() && do_select("drain") && ++guard < 2 * POOL) {} }
    if (!err.empty()) { int d, guard = 0; while (ss_select(g_es, &d) && ++guard < 4 * POOL) {} }
    ri->nontrivial = ri->tie_decided && (c.mod != "spq" || ri->two_dist);
    return err;
}

static void setup(const std::string &mod)
{
    int rc = ss_init(1, mod.c_str());
    if (rc != 0 || mod != ss_sched_name() || ss_nb_streams(0) != 1) { fprintf(stderr, "C09: cannot bring up module %s with one stream\n", mod.c_str()); _exit(4); }
    g_mod = mod; g_es = ss_es(0, 0); ss_bind_thread(g_es);
    g_task.resize(POOL);
    for (int i = 0; i < POOL; i++) { g_task[i] = ss_task_new(i); g_index[g_task[i]] = i; }
}

static int finish(int rc) { fflush(nullptr); if (rc == 0) ss_fini(); _exit(rc); }

// exhaustive: every sequence of length <= maxlen over a small alphabet
static int do_exh(int maxlen, int part, int nparts)
{
    std::vector<Op> alpha;
    { Op g; alpha.push_back(g); }
    std::vector<std::vector<int>> rings = { {0}, {1}, {1, 0}, {1, 1}, {0, 0} };
    for (int d = 0; d < (g_mod == "spq" ? 2 : 1); d++) for (auto &r : rings) { Op s; s.select = false; s.dist = d; s.prio = r; alpha.push_back(s); }
    const int A = (int)alpha.size();
    uint64_t total = 0;
    std::vector<int> idx;
    for (int len = 1; len <= maxlen; len++) {
        idx.assign(len, 0);
        for (;;) {
            if ((int)(idx[0] % nparts) == part || len == 0) {
                Case c; c.mod = g_mod; for (int k : idx) c.ops.push_back(alpha[k]);
                RunInfo ri; std::string e = run_case(c, &ri);
                total++;
                std::string rp = c.repr();
                vf::note_case(rp, ri.nontrivial);
                if (!e.empty()) { vf::record_failure(rp, e); vf::dump(); return 1; }
            }
            int k = len - 1; while (k >= 0 && ++idx[k] == A) idx[k--] = 0;
            if (k < 0) break;
        }
    }
    vf::label("exh_sequences", total);
    vf::dump();
    return 0;
}

int main(int argc, char **argv)
{
    std::string mode = argc > 1 ? argv[1] : "";
    if (mode == "replay") {
        Case c = Case::parse(vf::slurp(argv[2]));
        setup(c.mod);
        RunInfo ri; std::string e = run_case(c, &ri);
        if (e.empty()) { printf("REPLAY-PASS\n"); finish(0); }
        printf("REPLAY-FAIL %s\n", e.c_str()); finish(1);
    }
    if (argc < 3) { fprintf(stderr, "usage: prio rc|exh <module> ...\n"); return 2; }
    setup(argv[2]);
    if (mode == "exh") finish(do_exh(atoi(argv[3]), argc > 4 ? atoi(argv[4]) : 0, argc > 5 ? atoi(argv[5]) : 1));
    bool ok = rc::check("selection order follows the priority-queue model (" + g_mod + ")", []() {
        int nw = *rc::gen::resize(100, rc::gen::inRange(1, 160));
        std::vector<int> w = *rc::gen::container<std::vector<int>>((size_t)nw, rc::gen::resize(100, rc::gen::inRange(0, 1 << 20)));
        Case c = decode(g_mod, w);
        RunInfo ri; std::string e = run_case(c, &ri);
        std::string rp = c.repr();
        vf::note_case(rp, ri.nontrivial);
        if (ri.tie_decided) vf::label("tie_between_schedule_calls_decided");
        if (ri.two_dist) vf::label("two_distances_pending");
        if (ri.extremes) vf::label("int_min_or_max_priority");
        if (ri.nulls > 1) vf::label("select_on_empty_inside_sequence");
        vf::label("selects", ri.selects); vf::label("tasks_scheduled", ri.scheduled);
        if (!e.empty()) { vf::record_failure(rp, e); RC_FAIL(e); }
    });
    vf::dump();
    finish(ok ? 0 : 1);
}
