// C20 -- Block-cyclic data distributions are consistent.
//
// A case is a parameter set of one distribution type.  The descriptor is built once per
// rank r in 0..P*Q-1 (constructors take myrank explicitly; no communication), storage is
// allocated by the harness the way callers do (the size the collection registers with
// devices), and for every tile of the (sub)matrix the oracle checks:
//   * rank_of is the same in every rank's view and < P*Q              (exactly one owner)
//   * on the owner: data_of non-NULL, a distinct parsec_data_t per tile, its CPU pointer
//     inside the rank's storage, tile memory pairwise disjoint, #tiles <= nb_local_tiles
//   * key round trips: rank_of_key / data_of_key / vpid_of_key of data_key(m,n) agree with
//     the coordinate versions, key_to_string names the global tile, data_of_key(d->key)==d
//   * vpid_of in [0, nb_vp)
// Drivers: rc (rapidcheck), exh (complete enumeration of a small box), replay.
// Replay file: one line of key=value tokens (see Case::repr).
#include "vf.hpp"
#include <rapidcheck.h>
#include <mpi.h>
#include <algorithm>
#include <set>
#include <unistd.h>
#include <fcntl.h>
#include <sys/mman.h>

extern "C" {
#include "parsec/parsec_config.h"
#include "parsec/runtime.h"
#include "parsec/data.h"
#include "parsec/data_distribution.h"
#include "parsec/vpmap.h"
#include "parsec/data_dist/matrix/matrix.h"
#include "parsec/data_dist/matrix/two_dim_rectangle_cyclic.h"
#include "parsec/data_dist/matrix/sym_two_dim_rectangle_cyclic.h"
#include "parsec/data_dist/matrix/two_dim_rectangle_cyclic_band.h"
#include "parsec/data_dist/matrix/sym_two_dim_rectangle_cyclic_band.h"
#include "parsec/data_dist/matrix/two_dim_tabular.h"
#include "parsec/data_dist/matrix/vector_two_dim_cyclic.h"
unsigned long long c20_data_key(parsec_data_t *d);
void *c20_data_ptr(parsec_data_t *d);
void *c20_data_dc(parsec_data_t *d);
}

enum { T_BC, T_KVIEW, T_SYM, T_BAND, T_SYMBAND, T_TAB, T_VEC, T_NTYPES };
static const char *type_name[] = {"bc", "kview", "sym", "band", "symband", "tabular", "vector"};

// defect classes that can be excluded by construction (env C20_SKIP_<NAME>=1), see check.py
static bool skip_vec_rowcol = false;    // vector ROW / COL distributions on grids larger than 1x1 (owner and storage disagree)
static bool skip_kcyclic_dkey = false;  // data->key of k-cyclic tiles (key built from reduced coordinates)
static bool skip_kview_assert = false;
static bool skip_vec_offset = false;    // vector with a tile offset: the owner assertion in data_of/vpid_of applies the offset twice (debug builds)
static bool skip_vec_diag = false;      // vector DIAG on grids where Q does not divide P (endless loop in the constructor)  // k-cyclic views whose data_of trips the owner assertion of the origin (debug builds)

struct Case {
    int type = T_BC, lapack = 0, elt = 1;
    int mb = 1, nb = 1, lm = 1, ln = 1, i = 0, j = 0, m = 1, n = 1;
    int P = 1, Q = 1, kp = 1, kq = 1, ip = 0, jq = 0;
    int uplo = 0;             // sym/symband: 0 lower 1 upper; vector: 0 row 1 col 2 diag
    int bs = 1, bP = 1, bkp = 1, bkq = 1;
    int tabmode = 0;          // 0 explicit table, 1 set_random_table(tabseed)
    unsigned tabseed = 0;
    std::vector<int> tab;     // rank per tile (column major over lmt x lnt), tabmode 0
    std::vector<int> tabvp;   // vpid per tile

    std::string repr() const {
        std::ostringstream o;
        o << "type=" << type_name[type] << " lapack=" << lapack << " elt=" << elt << " mb=" << mb << " nb=" << nb << " lm=" << lm << " ln=" << ln
          << " i=" << i << " j=" << j << " m=" << m << " n=" << n << " P=" << P << " Q=" << Q << " kp=" << kp << " kq=" << kq
          << " ip=" << ip << " jq=" << jq << " uplo=" << uplo << " bs=" << bs << " bP=" << bP << " bkp=" << bkp << " bkq=" << bkq
          << " tabmode=" << tabmode << " tabseed=" << tabseed << " tab=";
        for (size_t k = 0; k < tab.size(); k++) o << (k ? "," : "") << tab[k];
        o << " tabvp=";
        for (size_t k = 0; k < tabvp.size(); k++) o << (k ? "," : "") << tabvp[k];
        o << "\n";
        return o.str();
    }
};

static std::vector<int> parse_list(const std::string &s) {
    std::vector<int> v; std::istringstream in(s); std::string t;
    while (std::getline(in, t, ',')) if (!t.empty()) v.push_back(atoi(t.c_str()));
    return v;
}

static bool parse_case(const std::string &txt, Case *c) {
    std::istringstream in(txt); std::string line, tok; bool any = false;
    while (std::getline(in, line)) {
        if (line.empty() || line[0] == '#') continue;
        std::istringstream ls(line);
        while (ls >> tok) {
            size_t eq = tok.find('='); if (eq == std::string::npos) continue;
            std::string k = tok.substr(0, eq), v = tok.substr(eq + 1); any = true;
            if (k == "type") { c->type = -1; for (int t = 0; t < T_NTYPES; t++) if (v == type_name[t]) c->type = t; if (c->type < 0) return false; }
#define F(name) else if (k == #name) c->name = atoi(v.c_str());
            F(lapack) F(elt) F(mb) F(nb) F(lm) F(ln) F(i) F(j) F(m) F(n) F(P) F(Q) F(kp) F(kq) F(ip) F(jq) F(uplo) F(bs) F(bP) F(bkp) F(bkq) F(tabmode)
#undef F
            else if (k == "tabseed") c->tabseed = (unsigned)strtoul(v.c_str(), NULL, 10);
            else if (k == "tab") c->tab = parse_list(v);
            else if (k == "tabvp") c->tabvp = parse_list(v);
        }
    }
    return any && c->mb >= 1 && c->nb >= 1 && c->P >= 1 && c->Q >= 1 && c->lm >= 1 && c->ln >= 1;
}

static parsec_matrix_type_t mtype_of(int elt) { return elt == 0 ? PARSEC_MATRIX_BYTE : elt == 1 ? PARSEC_MATRIX_INTEGER : PARSEC_MATRIX_DOUBLE; }

struct Region { char *base; size_t bytes; };

struct View {
    parsec_data_collection_t *dc = nullptr;
    parsec_tiled_matrix_t *tm = nullptr;
    std::vector<Region> regions;
    std::vector<void *> mallocs;
    long capacity = 0;
    bool lapack = false;
    // owned descriptors
    parsec_matrix_block_cyclic_t *bc = nullptr, *kv = nullptr;
    parsec_matrix_sym_block_cyclic_t *sym = nullptr;
    parsec_matrix_block_cyclic_band_t *band = nullptr;
    parsec_matrix_sym_block_cyclic_band_t *sband = nullptr;
    parsec_matrix_tabular_t *tab = nullptr;
    parsec_vector_two_dim_cyclic_t *vec = nullptr;

    void *storage(size_t bytes) {
        char *p = (char *)malloc(bytes ? bytes : 1);
        mallocs.push_back(p);
        regions.push_back({p, bytes});
        return p;
    }
    void destroy() {
        if (bc) { parsec_tiled_matrix_destroy(&bc->super); free(bc); }
        if (kv) free(kv);                       // shares data_map / datatype with its origin
        if (sym) { parsec_tiled_matrix_destroy(&sym->super); free(sym); }
        if (band) {
            parsec_tiled_matrix_destroy(&band->band.super); parsec_tiled_matrix_destroy(&band->off_band.super);
            parsec_tiled_matrix_destroy(&band->super); free(band);
        }
        if (sband) {
            parsec_tiled_matrix_destroy(&sband->band.super); parsec_tiled_matrix_destroy(&sband->off_band.super);
            parsec_tiled_matrix_destroy(&sband->super); free(sband);
        }
        if (tab) { parsec_matrix_tabular_destroy(tab); free(tab); }
        if (vec) { parsec_tiled_matrix_destroy(&vec->super); free(vec); }
        for (void *p : mallocs) free(p);
    }
};

static size_t bc_bytes(parsec_matrix_block_cyclic_t *b) {      // what twoDBC_memory_register registers
    if (b->super.nb_local_tiles == 0) return 0;
    return (size_t)b->super.llm * (size_t)b->super.lln * (size_t)parsec_datadist_getsizeoftype(b->super.mtype);
}
static size_t sym_bytes(parsec_matrix_sym_block_cyclic_t *s) {
    return (size_t)s->super.nb_local_tiles * s->super.bsiz * (size_t)parsec_datadist_getsizeoftype(s->super.mtype);
}

static void build_view(const Case &c, int r, View &v) {
    parsec_matrix_type_t mt = mtype_of(c.elt);
    const int nodes = c.P * c.Q;
    switch (c.type) {
    case T_BC: {
        v.bc = (parsec_matrix_block_cyclic_t *)calloc(1, sizeof *v.bc);
        parsec_matrix_block_cyclic_init(v.bc, mt, c.lapack ? PARSEC_MATRIX_LAPACK : PARSEC_MATRIX_TILE, r, c.mb, c.nb, c.lm, c.ln,
                                        c.i, c.j, c.m, c.n, c.P, c.Q, c.kp, c.kq, c.ip, c.jq);
        v.bc->mat = v.storage(bc_bytes(v.bc));
        v.dc = &v.bc->super.super; v.tm = &v.bc->super; v.capacity = v.bc->super.nb_local_tiles; v.lapack = c.lapack;
        break;
    }
    case T_KVIEW: {
        v.bc = (parsec_matrix_block_cyclic_t *)calloc(1, sizeof *v.bc);
        v.kv = (parsec_matrix_block_cyclic_t *)calloc(1, sizeof *v.kv);
        parsec_matrix_block_cyclic_init(v.bc, mt, PARSEC_MATRIX_TILE, r, c.mb, c.nb, c.lm, c.ln, c.i, c.j, c.m, c.n, c.P, c.Q, 1, 1, c.ip, c.jq);
        v.bc->mat = v.storage(bc_bytes(v.bc));
        parsec_matrix_block_cyclic_kview(v.kv, v.bc, c.kp, c.kq);
        v.dc = &v.kv->super.super; v.tm = &v.kv->super; v.capacity = v.bc->super.nb_local_tiles;
        break;
    }
    case T_SYM: {
        v.sym = (parsec_matrix_sym_block_cyclic_t *)calloc(1, sizeof *v.sym);
        parsec_matrix_sym_block_cyclic_init(v.sym, mt, r, c.mb, c.nb, c.lm, c.ln, c.i, c.j, c.m, c.n, c.P, c.Q,
                                            c.uplo ? PARSEC_MATRIX_UPPER : PARSEC_MATRIX_LOWER);
        v.sym->mat = v.storage(sym_bytes(v.sym));
        v.dc = &v.sym->super.super; v.tm = &v.sym->super; v.capacity = v.sym->super.nb_local_tiles;
        break;
    }
    case T_BAND: {
        v.band = (parsec_matrix_block_cyclic_band_t *)calloc(1, sizeof *v.band);
        parsec_matrix_block_cyclic_init(&v.band->off_band, mt, PARSEC_MATRIX_TILE, r, c.mb, c.nb, c.lm, c.ln, 0, 0, c.lm, c.ln,
                                        c.P, c.Q, c.kp, c.kq, 0, 0);
        const int brows = c.mb * (2 * c.bs - 1);
        parsec_matrix_block_cyclic_init(&v.band->band, mt, PARSEC_MATRIX_TILE, r, c.mb, c.nb, brows, c.ln, 0, 0, brows, c.ln,
                                        c.bP, nodes / c.bP, c.bkp, c.bkq, 0, 0);
        parsec_matrix_block_cyclic_band_init(v.band, nodes, r, c.bs);
        v.band->off_band.mat = v.storage(bc_bytes(&v.band->off_band));
        v.band->band.mat = v.storage(bc_bytes(&v.band->band));
        v.dc = &v.band->super.super; v.tm = &v.band->super;
        v.capacity = v.band->off_band.super.nb_local_tiles + v.band->band.super.nb_local_tiles;
        break;
    }
    case T_SYMBAND: {
        v.sband = (parsec_matrix_sym_block_cyclic_band_t *)calloc(1, sizeof *v.sband);
        parsec_matrix_sym_block_cyclic_init(&v.sband->off_band, mt, r, c.mb, c.nb, c.lm, c.ln, 0, 0, c.lm, c.ln, c.P, c.Q,
                                            c.uplo ? PARSEC_MATRIX_UPPER : PARSEC_MATRIX_LOWER);
        const int brows = c.mb * c.bs;
        parsec_matrix_block_cyclic_init(&v.sband->band, mt, PARSEC_MATRIX_TILE, r, c.mb, c.nb, brows, c.ln, 0, 0, brows, c.ln,
                                        c.bP, nodes / c.bP, c.bkp, c.bkq, 0, 0);
        parsec_matrix_sym_block_cyclic_band_init(v.sband, nodes, r, c.bs);
        v.sband->off_band.mat = v.storage(sym_bytes(&v.sband->off_band));
        v.sband->band.mat = v.storage(bc_bytes(&v.sband->band));
        v.dc = &v.sband->super.super; v.tm = &v.sband->super;
        v.capacity = v.sband->off_band.super.nb_local_tiles + v.sband->band.super.nb_local_tiles;
        break;
    }
    case T_TAB: {
        v.tab = (parsec_matrix_tabular_t *)calloc(1, sizeof *v.tab);
        parsec_matrix_tabular_init(v.tab, mt, nodes, r, c.mb, c.nb, c.lm, c.ln, c.i, c.j, c.m, c.n, NULL);
        if (c.tabmode == 1) {
            parsec_matrix_tabular_set_random_table(v.tab, c.tabseed);
        } else {
            int nt = v.tab->super.lmt * v.tab->super.lnt;
            parsec_two_dim_td_table_t *t = (parsec_two_dim_td_table_t *)calloc(1, sizeof(parsec_two_dim_td_table_t) + (size_t)nt * sizeof(parsec_two_dim_td_table_elem_t));
            t->nbelem = nt;
            for (int k = 0; k < nt; k++) { t->elems[k].rank = (uint32_t)c.tab[k % c.tab.size()]; t->elems[k].vpid = c.tabvp[k % c.tabvp.size()]; }
            parsec_matrix_tabular_set_table(v.tab, t);
        }
        size_t tb = v.tab->super.bsiz * (size_t)parsec_datadist_getsizeoftype(v.tab->super.mtype);
        for (int k = 0; k < v.tab->tiles_table->nbelem; k++)
            if (v.tab->tiles_table->elems[k].data) v.regions.push_back({(char *)v.tab->tiles_table->elems[k].data, tb});
        v.dc = &v.tab->super.super; v.tm = &v.tab->super; v.capacity = v.tab->super.nb_local_tiles;
        break;
    }
    case T_VEC: {
        v.vec = (parsec_vector_two_dim_cyclic_t *)calloc(1, sizeof *v.vec);
        parsec_vector_two_dim_cyclic_init(v.vec, mt, c.uplo == 0 ? PARSEC_VECTOR_DISTRIB_ROW : c.uplo == 1 ? PARSEC_VECTOR_DISTRIB_COL : PARSEC_VECTOR_DISTRIB_DIAG,
                                          r, c.mb, c.lm, c.i, c.m, c.P, c.Q);
        v.vec->mat = v.storage((size_t)v.vec->super.nb_local_tiles * c.mb * (size_t)parsec_datadist_getsizeoftype(v.vec->super.mtype));
        v.dc = &v.vec->super.super; v.tm = &v.vec->super; v.capacity = v.vec->super.nb_local_tiles;
        break;
    }
    }
}

struct Stats { bool multi_owner = false; int ntiles = 0; int nowners = 0; };

struct TileRec { int m, n; parsec_data_t *d; char *ptr; };

static std::string tn(int m, int n) { return "(" + std::to_string(m) + "," + std::to_string(n) + ")"; }

// The precondition guard: is this value inside what the constructors / accessors document or assert?
static bool in_domain(const Case &c) {
    if (c.P * c.Q > 64 || c.i < 0 || c.j < 0 || c.m < 1 || c.n < 1 || c.i + c.m > c.lm) return false;
    if (c.type != T_VEC && c.j + c.n > c.ln) return false;
    if (c.kp < 1 || c.kq < 1 || c.ip < 0 || c.ip >= c.P || c.jq < 0 || c.jq >= c.Q) return false;
    if (c.type == T_SYM || c.type == T_SYMBAND || c.type == T_BAND) {
        // symmetric / band collections describe a square matrix with square tiles, used from (0,0) (asserts in the accessors)
        if (c.mb != c.nb || c.lm != c.ln || c.i || c.j || c.m != c.n) return false;
    }
    if (c.type == T_BAND || c.type == T_SYMBAND) { if (c.m != c.lm || c.bs < 1 || c.bP < 1 || (c.P * c.Q) % c.bP) return false; }
    if (c.type == T_TAB && c.tabmode == 0) {
        if (c.tab.empty() || c.tabvp.empty()) return false;
        for (int x : c.tab) if (x < 0 || x >= c.P * c.Q) return false;
    }
    return true;
}

static std::string run_case(const Case &c, Stats *st) {
    const int nodes = c.P * c.Q;
    const int nbvp = parsec_vpmap_get_nb_vp();
    std::vector<View> V((size_t)nodes);
    for (int r = 0; r < nodes; r++) build_view(c, r, V[(size_t)r]);
    std::string err;
    auto fail = [&](const std::string &m) { if (err.empty()) err = m; };
    parsec_tiled_matrix_t *t0 = V[0].tm;
    const int mt = t0->mt, nt = (c.type == T_VEC) ? 1 : t0->nt;
    const bool symm = (c.type == T_SYM || c.type == T_SYMBAND);
    const bool has_keys = (V[0].dc->rank_of_key != NULL);
    const int gi = c.i / c.mb, gj = (c.type == T_VEC) ? 0 : c.j / c.nb;
    std::vector<std::vector<TileRec>> local((size_t)nodes);
    std::set<uint32_t> owners;
    for (int n = 0; n < nt && err.empty(); n++) for (int m = 0; m < mt && err.empty(); m++) {
        if (symm && ((c.uplo == 0 && m < n) || (c.uplo == 1 && m > n))) continue;
        st->ntiles++;
        uint32_t owner = (c.type == T_VEC) ? V[0].dc->rank_of(V[0].dc, m) : V[0].dc->rank_of(V[0].dc, m, n);
        if (owner >= (uint32_t)nodes) { fail("rank_of" + tn(m, n) + " = " + std::to_string(owner) + " is not a rank of the " + std::to_string(c.P) + "x" + std::to_string(c.Q) + " grid"); break; }
        for (int r = 1; r < nodes; r++) {
            uint32_t o = (c.type == T_VEC) ? V[r].dc->rank_of(V[r].dc, m) : V[r].dc->rank_of(V[r].dc, m, n);
            if (o != owner) { fail("rank_of" + tn(m, n) + " is " + std::to_string(owner) + " in rank 0's view but " + std::to_string(o) + " in rank " + std::to_string(r) + "'s view"); break; }
        }
        if (!err.empty()) break;
        owners.insert(owner);
        View &v = V[owner];
        // bound check before the library writes data_map[position]: a tile beyond the declared local capacity is a violation
        if ((long)local[owner].size() >= v.capacity) {
            fail("rank " + std::to_string(owner) + " owns more tiles of the submatrix (" + std::to_string(local[owner].size() + 1) + "+) than its nb_local_tiles = " + std::to_string(v.capacity) + " (tile " + tn(m, n) + ")");
            break;
        }
        parsec_data_t *d = (c.type == T_VEC) ? v.dc->data_of(v.dc, m) : v.dc->data_of(v.dc, m, n);
        if (!d) { fail("data_of" + tn(m, n) + " is NULL on its owner " + std::to_string(owner)); break; }
        char *ptr = (char *)c20_data_ptr(d);
        local[owner].push_back({m, n, d, ptr});
        int32_t vp = (c.type == T_VEC) ? v.dc->vpid_of(v.dc, m) : v.dc->vpid_of(v.dc, m, n);
        if (vp < 0 || vp >= nbvp) { fail("vpid_of" + tn(m, n) + " = " + std::to_string(vp) + " outside [0," + std::to_string(nbvp) + ") on rank " + std::to_string(owner)); break; }
        if (has_keys) {
            parsec_data_key_t k = v.dc->data_key(v.dc, m, n);
            for (int r = 0; r < nodes; r++) {
                uint32_t o = V[r].dc->rank_of_key(V[r].dc, k);
                if (o != owner) { fail("rank_of_key(data_key" + tn(m, n) + "=" + std::to_string(k) + ") = " + std::to_string(o) + " in rank " + std::to_string(r) + "'s view, rank_of = " + std::to_string(owner)); break; }
            }
            if (!err.empty()) break;
            parsec_data_t *dk = v.dc->data_of_key(v.dc, k);
            if (dk != d) { fail("data_of_key(data_key" + tn(m, n) + ") returns another data than data_of" + tn(m, n)); break; }
            int32_t vk = v.dc->vpid_of_key(v.dc, k);
            if (vk != vp) { fail("vpid_of_key(data_key" + tn(m, n) + ") = " + std::to_string(vk) + " != vpid_of = " + std::to_string(vp)); break; }
            char buf[64]; buf[0] = 0;
            v.dc->key_to_string(v.dc, k, buf, sizeof buf);
            std::string want = "(" + std::to_string(m + gi) + ", " + std::to_string(n + gj) + ")";
            if (want != buf) { fail("key_to_string(data_key" + tn(m, n) + ") = \"" + std::string(buf) + "\", expected \"" + want + "\" (global tile coordinates)"); break; }
            // the key stored in the data is the key of the tile (a k-cyclic view returns the origin's data: not compared)
            if (c.type == T_BC || c.type == T_SYM || c.type == T_TAB) {
                bool kcyc = (c.type == T_BC && (c.kp > 1 || c.kq > 1));
                unsigned long long dkey = c20_data_key(d);
                if (kcyc && skip_kcyclic_dkey) vf::label("excluded_check_by_flag:kcyclic_datakey");
                else if (dkey != (unsigned long long)k) { fail("data_of" + tn(m, n) + "->key = " + std::to_string(dkey) + " but data_key" + tn(m, n) + " = " + std::to_string(k)); break; }
            }
        } else {
            vf::label("no_key_functions");
            char buf[64]; buf[0] = 0;
            v.dc->key_to_string(v.dc, (parsec_data_key_t)c20_data_key(d), buf, sizeof buf);
            std::string want = "(" + std::to_string(m + gi) + ")";
            if (want != buf) { fail("key_to_string(data_of(" + std::to_string(m) + ")->key) = \"" + std::string(buf) + "\", expected \"" + want + "\""); break; }
        }
    }
    // per-rank storage checks
    for (int r = 0; r < nodes && err.empty(); r++) {
        View &v = V[(size_t)r];
        auto &L = local[(size_t)r];
        std::set<parsec_data_t *> ds;
        for (auto &t : L) if (!ds.insert(t.d).second) { fail("rank " + std::to_string(r) + ": data_of returns the same parsec_data_t for two tiles (second: " + tn(t.m, t.n) + ")"); break; }
        if (!err.empty()) break;
        const size_t es = (size_t)parsec_datadist_getsizeoftype(v.tm->mtype);
        if (v.lapack) {
            // column-major local array llm x lln: tiles are rectangles
            const long llm = v.tm->llm, lln = v.tm->lln;
            std::vector<char> occ((size_t)(llm * lln), 0);
            for (auto &t : L) {
                long off = (t.ptr - v.regions[0].base);
                if (t.ptr < v.regions[0].base || off % (long)es || (size_t)off >= v.regions[0].bytes) { fail("rank " + std::to_string(r) + ": tile " + tn(t.m, t.n) + " points outside the local array"); break; }
                off /= (long)es;
                long row = off % llm, col = off / llm;
                long rows = std::min<long>(c.mb, c.lm - (long)(t.m + gi) * c.mb), cols = std::min<long>(c.nb, c.ln - (long)(t.n + gj) * c.nb);
                if (row + rows > llm || col + cols > lln) { fail("rank " + std::to_string(r) + ": tile " + tn(t.m, t.n) + " (" + std::to_string(rows) + "x" + std::to_string(cols) + " at " + std::to_string(row) + "," + std::to_string(col) + ") leaves the local " + std::to_string(llm) + "x" + std::to_string(lln) + " array"); break; }
                for (long cc = col; cc < col + cols && err.empty(); cc++) for (long rr = row; rr < row + rows; rr++) {
                    if (occ[(size_t)(cc * llm + rr)]) { fail("rank " + std::to_string(r) + ": tile " + tn(t.m, t.n) + " overlaps another local tile"); break; }
                    occ[(size_t)(cc * llm + rr)] = 1;
                }
                if (!err.empty()) break;
            }
        } else {
            const size_t tb = v.tm->bsiz * es;
            std::vector<std::pair<char *, const TileRec *>> ps;
            for (auto &t : L) {
                bool inside = false;
                for (auto &rg : v.regions) if (t.ptr >= rg.base && t.ptr + tb <= rg.base + rg.bytes) inside = true;
                if (!inside) { fail("rank " + std::to_string(r) + ": tile " + tn(t.m, t.n) + " [" + std::to_string(tb) + " bytes] is not inside the rank's storage (" + std::to_string(v.capacity) + " local tiles)"); break; }
                ps.push_back({t.ptr, &t});
            }
            if (!err.empty()) break;
            std::sort(ps.begin(), ps.end());
            for (size_t k = 1; k < ps.size(); k++)
                if (ps[k - 1].first + tb > ps[k].first) {
                    fail("rank " + std::to_string(r) + ": tiles " + tn(ps[k - 1].second->m, ps[k - 1].second->n) + " and " + tn(ps[k].second->m, ps[k].second->n) + " overlap in memory");
                    break;
                }
        }
    }
    st->nowners = (int)owners.size();
    st->multi_owner = owners.size() >= 2;
    for (auto &v : V) v.destroy();
    return err;
}

static bool nontrivial(const Case &c, const Stats &s) {
    if (!(c.P >= 2 && c.Q >= 2 && s.multi_owner)) return false;
    if (c.type == T_BC || c.type == T_KVIEW)
        return (c.kp > 1 || c.kq > 1 || c.ip > 0 || c.jq > 0) && (c.i % c.mb != 0 || c.j % c.nb != 0);
    if (c.type == T_TAB) return (c.i % c.mb != 0 || c.j % c.nb != 0);
    if (c.type == T_VEC) return c.i > 0 && s.ntiles > c.P;
    return s.ntiles > c.P * c.Q;      // sym / band: offsets unsupported; more tiles than ranks
}

// model of the k-cyclic view permutation (two_dim_rectangle_cyclic.h documents it by example)
static unsigned kview_f(unsigned m, unsigned p, unsigned ps, unsigned mt) { do { m = m - m % (p * ps) + (m % ps) * p + (m / ps) % p; } while (m >= mt); return m; }
// true when twoDBC_data_of's "myrank == desc->rank_of(...)" assertion (evaluated through the view, i.e. permuting twice) is false for some tile
static bool kview_assert_hits(const Case &c) {
    if (c.type != T_KVIEW) return false;
    const int gi = c.i / c.mb, gj = c.j / c.nb;
    const int mt = (c.i + c.m - 1) / c.mb - gi + 1, nt = (c.j + c.n - 1) / c.nb - gj + 1;
    auto rk = [&](unsigned x, unsigned y) { return (((int)x + gi) % c.P + c.ip) % c.P * c.Q + (((int)y + gj) % c.Q + c.jq) % c.Q; };
    for (int m = 0; m < mt; m++) for (int n = 0; n < nt; n++) {
        unsigned sm = kview_f((unsigned)m, (unsigned)c.P, (unsigned)c.kp, (unsigned)mt), sn = kview_f((unsigned)n, (unsigned)c.Q, (unsigned)c.kq, (unsigned)nt);
        unsigned ssm = kview_f(sm, (unsigned)c.P, (unsigned)c.kp, (unsigned)mt), ssn = kview_f(sn, (unsigned)c.Q, (unsigned)c.kq, (unsigned)nt);
        if (rk(ssm, ssn) != rk(sm, sn)) return true;
    }
    return false;
}

static char *curmap = nullptr;     // $VF_OUT.cur: the case being executed (for crashes / assertion aborts), no syscall per case
enum { CURSZ = 8192 };
static bool one(const Case &c, std::string *e) {
    if (!in_domain(c)) { vf::label("outside_domain_skipped"); return true; }
    if (skip_vec_rowcol && c.type == T_VEC && c.uplo != 2 && c.P * c.Q > 1) { vf::label("excluded_by_flag:vector_rowcol"); return true; }
    if (skip_vec_diag && c.type == T_VEC && c.uplo == 2 && c.P % c.Q != 0) { vf::label("excluded_by_flag:vector_diag_grid"); return true; }
    if (skip_vec_offset && c.type == T_VEC && c.i >= c.mb && c.P * c.Q > 1) { vf::label("excluded_by_flag:vector_offset_assert"); return true; }
    if (skip_kview_assert && kview_assert_hits(c)) { vf::label("excluded_by_flag:kview_owner_assert"); return true; }
    std::string rp = c.repr();
    if (curmap) { size_t l = std::min<size_t>(rp.size(), CURSZ - 1); memcpy(curmap, rp.data(), l); curmap[l] = 0; }
    Stats st;
    *e = run_case(c, &st);
    vf::note_case(rp, nontrivial(c, st));
    std::string tl = std::string("type_") + type_name[c.type];
    if (c.type == T_BC) tl += c.lapack ? "_lapack" : ((c.kp > 1 || c.kq > 1) ? "_kcyclic" : "_k1");
    if (c.type == T_SYM || c.type == T_SYMBAND) tl += c.uplo ? "_upper" : "_lower";
    if (c.type == T_VEC) tl += c.uplo == 0 ? "_row" : c.uplo == 1 ? "_col" : "_diag";
    if (c.type == T_TAB) tl += c.tabmode ? "_random_table" : "_given_table";
    vf::label(tl);
    vf::label("ranks_" + std::string(c.P * c.Q == 1 ? "1" : c.P * c.Q <= 4 ? "2-4" : c.P * c.Q <= 8 ? "5-8" : "9-16"));
    if (c.ip || c.jq) vf::label("grid_offset");
    if (c.i % c.mb || c.j % c.nb) vf::label("unaligned_submatrix");
    if (st.nowners >= 2) vf::label("multi_owner");
    if (!e->empty()) { *e = rp.substr(0, rp.find(" tabmode")) + ": " + *e; vf::record_failure(rp, *e); return false; }
    return true;
}

// ---------------------------------------------------------------- generators
template <typename T> static T R(T lo, T hi) { return *rc::gen::resize(100, rc::gen::inRange<T>(lo, hi + 1)); }   // inclusive

static Case gen_case() {
    Case c;
    static const int weights[] = {T_BC, T_BC, T_BC, T_BC, T_KVIEW, T_KVIEW, T_SYM, T_SYM, T_BAND, T_SYMBAND, T_TAB, T_VEC, T_VEC};
    c.type = weights[R<int>(0, (int)(sizeof weights / sizeof weights[0]) - 1)];
    c.elt = R<int>(0, 2);
    if (R<int>(0, 9) < 6) { c.P = R<int>(1, 4); c.Q = R<int>(1, 4); }
    else { c.P = R<int>(1, 16); c.Q = R<int>(1, 16 / c.P); if (R<int>(0, 1)) std::swap(c.P, c.Q); }
    c.mb = R<int>(1, 5); c.nb = R<int>(1, 5);
    c.lm = R<int>(1, 24); c.ln = R<int>(1, 24);
    const int nodes = c.P * c.Q;
    auto sub = [&](int l, int b, int *off, int *len) {
        int k = R<int>(0, 3);
        if (k == 0) { *off = 0; *len = l; }
        else if (k == 1) { *off = (R<int>(0, l - 1) / b) * b; *len = R<int>(1, l - *off); }
        else { *off = R<int>(0, l - 1); *len = R<int>(1, l - *off); }
    };
    switch (c.type) {
    case T_BC: case T_KVIEW:
        sub(c.lm, c.mb, &c.i, &c.m); sub(c.ln, c.nb, &c.j, &c.n);
        c.kp = R<int>(1, 3); c.kq = R<int>(1, 3);
        if (R<int>(0, 2) == 0) { c.kp = c.kq = 1; }
        if (R<int>(0, 1)) { c.ip = R<int>(0, c.P - 1); c.jq = R<int>(0, c.Q - 1); }
        if (c.type == T_BC && R<int>(0, 5) == 0) c.lapack = 1;
        break;
    case T_SYM:
        c.nb = c.mb; c.ln = c.lm; c.uplo = R<int>(0, 1);
        c.i = c.j = 0; c.m = c.n = (R<int>(0, 1) ? c.lm : R<int>(1, c.lm));
        break;
    case T_BAND: case T_SYMBAND: {
        c.nb = c.mb; c.ln = c.lm; c.uplo = R<int>(0, 1);
        c.i = c.j = 0; c.m = c.n = c.lm;
        c.bs = R<int>(1, 4);
        std::vector<int> divs; for (int d = 1; d <= nodes; d++) if (nodes % d == 0) divs.push_back(d);
        c.bP = divs[(size_t)R<int>(0, (int)divs.size() - 1)];
        c.kp = R<int>(1, 2); c.kq = R<int>(1, 2); c.bkp = R<int>(1, 2); c.bkq = R<int>(1, 2);
        break;
    }
    case T_TAB: {
        sub(c.lm, c.mb, &c.i, &c.m); sub(c.ln, c.nb, &c.j, &c.n);
        c.tabmode = R<int>(0, 3) == 0 ? 1 : 0;
        c.tabseed = (unsigned)R<int>(0, 1 << 20);
        int lmt = (c.lm + c.mb - 1) / c.mb, lnt = (c.ln + c.nb - 1) / c.nb;
        const int nbvp = std::max(1, parsec_vpmap_get_nb_vp());
        if (c.tabmode == 0) for (int k = 0; k < lmt * lnt; k++) { c.tab.push_back(R<int>(0, nodes - 1)); c.tabvp.push_back(R<int>(0, nbvp - 1)); }
        break;
    }
    case T_VEC:
        c.uplo = R<int>(0, 2); c.nb = 1; c.ln = 1; c.j = 0; c.n = 1;
        c.lm = R<int>(1, 60);
        sub(c.lm, c.mb, &c.i, &c.m);
        break;
    }
    return c;
}

// exhaustive boxes: mb,nb in 1..2, matrix <= L x L, grids <= 2x3, k <= 2, all grid offsets, all submatrices
static bool exhaustive(int type, int L, int part, int nparts, uint64_t *count) {
    long idx = 0; std::string e;
    auto visit = [&](Case &c) -> bool { if ((idx++ % nparts) != part) return true; (*count)++; return one(c, &e); };
    Case c; c.type = type; c.elt = 1;
    if (type == T_BC || type == T_KVIEW) {
        for (c.mb = 1; c.mb <= 2; c.mb++) for (c.nb = 1; c.nb <= 2; c.nb++) for (c.P = 1; c.P <= 2; c.P++) for (c.Q = 1; c.Q <= 3; c.Q++)
        for (c.kp = 1; c.kp <= 2; c.kp++) for (c.kq = 1; c.kq <= 2; c.kq++) for (c.ip = 0; c.ip < c.P; c.ip++) for (c.jq = 0; c.jq < c.Q; c.jq++)
        for (c.lapack = 0; c.lapack <= (type == T_BC ? 1 : 0); c.lapack++)
        for (c.lm = 1; c.lm <= L; c.lm++) for (c.ln = 1; c.ln <= L; c.ln++)
        for (c.i = 0; c.i < c.lm; c.i++) for (c.m = 1; c.m <= c.lm - c.i; c.m++) for (c.j = 0; c.j < c.ln; c.j++) for (c.n = 1; c.n <= c.ln - c.j; c.n++)
            if (!visit(c)) return false;
    } else if (type == T_SYM) {
        for (c.mb = 1; c.mb <= 3; c.mb++) for (c.P = 1; c.P <= 4; c.P++) for (c.Q = 1; c.Q <= 4; c.Q++) for (c.uplo = 0; c.uplo <= 1; c.uplo++)
        for (c.lm = 1; c.lm <= 3 * L; c.lm++) for (c.m = 1; c.m <= c.lm; c.m++) {
            c.nb = c.mb; c.ln = c.lm; c.n = c.m; c.i = c.j = 0;
            if (!visit(c)) return false;
        }
    } else if (type == T_VEC) {
        for (c.mb = 1; c.mb <= 2; c.mb++) for (c.P = 1; c.P <= 4; c.P++) for (c.Q = 1; c.Q <= 4; c.Q++) for (c.uplo = 0; c.uplo <= 2; c.uplo++)
        for (c.lm = 1; c.lm <= 6 * L; c.lm++) for (c.i = 0; c.i < c.lm; c.i += (c.lm > 12 ? 3 : 1)) for (c.m = 1; c.m <= c.lm - c.i; c.m += (c.lm > 12 ? 5 : 1)) {
            c.nb = 1; c.ln = 1; c.j = 0; c.n = 1;
            if (!visit(c)) return false;
        }
    }
    return true;
}

int main(int argc, char **argv) {
    std::string mode = argc > 1 ? argv[1] : "rc";
    skip_vec_rowcol = vf::envl("C20_SKIP_VECTOR_ROWCOL", 0) != 0;
    skip_kcyclic_dkey = vf::envl("C20_SKIP_KCYCLIC_DATAKEY", 0) != 0;
    skip_kview_assert = vf::envl("C20_SKIP_KVIEW_ASSERT", 0) != 0;
    skip_vec_offset = vf::envl("C20_SKIP_VECTOR_OFFSET_ASSERT", 0) != 0;
    skip_vec_diag = vf::envl("C20_SKIP_VECTOR_DIAG_GRID", 0) != 0;
    int prov;
    MPI_Init_thread(&argc, &argv, MPI_THREAD_SERIALIZED, &prov);
    // PaRSEC is initialised (the collections use the device count and the VP map), never started
    const char *vpm = getenv("C20_VPMAP");
    std::vector<char *> pa;
    if (vpm && *vpm) { pa.push_back((char *)"--mca"); pa.push_back((char *)"runtime_vpmap"); pa.push_back((char *)vpm); }
    pa.push_back(nullptr);
    int pac = (int)pa.size() - 1; char **pav = pa.data();
    parsec_context_t *ctx = parsec_init((int)vf::envl("C20_CORES", 2), &pac, &pav);
    if (!ctx) { fprintf(stderr, "parsec_init failed\n"); return 2; }
    vf::R().extra["nb_vp"] = std::to_string(parsec_vpmap_get_nb_vp());
    if (vf::outpath()) {
        int fd = open((std::string(vf::outpath()) + ".cur").c_str(), O_RDWR | O_CREAT | O_TRUNC, 0644);
        if (fd >= 0 && ftruncate(fd, CURSZ) == 0) { void *mp = mmap(NULL, CURSZ, PROT_READ | PROT_WRITE, MAP_SHARED, fd, 0); if (mp != MAP_FAILED) curmap = (char *)mp; }
        if (fd >= 0) close(fd);
    }
    int ret = 0;
    if (mode == "replay") {
        Case c; Stats st;
        if (!parse_case(vf::slurp(argv[2]), &c) || !in_domain(c)) { printf("REPLAY-BADFILE\n"); ret = 2; }
        else { std::string e = run_case(c, &st); if (e.empty()) printf("REPLAY-PASS\n"); else { printf("REPLAY-FAIL %s\n", e.c_str()); ret = 1; } }
    } else if (mode == "exh") {
        int type = atoi(argv[2]), L = atoi(argv[3]), part = atoi(argv[4]), nparts = atoi(argv[5]);
        uint64_t cnt = 0;
        bool ok = exhaustive(type, L, part, nparts, &cnt);
        vf::R().extra["exhaustive_cases"] = std::to_string(cnt);
        vf::dump();
        ret = ok ? 0 : 1;
    } else {
        bool ok = rc::check("distribution is consistent across all rank views", []() {
            Case c = gen_case();
            std::string e;
            if (!one(c, &e)) RC_FAIL(e);
        });
        vf::dump();
        ret = ok ? 0 : 1;
    }
    if (curmap && (ret == 0 || ret == 1)) unlink((std::string(vf::outpath()) + ".cur").c_str());
    fflush(stdout);
    parsec_fini(&ctx);
    MPI_Finalize();
    return ret;
}
