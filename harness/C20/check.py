"""C20 -- data distributions: rapidcheck over distribution parameters + exhaustive small boxes; every rank's view built in one process."""
import os
import subprocess

from vf import core

PROP = "C20"
TREE = "san"
RULE = ("case = parameters of one distribution (2D block-cyclic tile/LAPACK storage with k-cyclicity and grid offsets, its k-cyclic "
        "view, symmetric lower/upper, band, symmetric band, tabular with a generated or library-random table, vector row/col/diag): "
        "tile sizes 1..5, matrix 1..24 (vector 1..60), submatrix offsets/sizes, grids with P*Q <= 16; the descriptor is built for "
        "every rank and all tiles of the submatrix are queried; non-trivial = P,Q >= 2 with >= 2 owners and (bc/kview: k-cyclicity "
        "> 1 or grid offset > 0, and an unaligned submatrix offset; tabular: unaligned offset; vector: offset > 0 and more tiles "
        "than P; symmetric/band: more tiles than ranks); distinct = distinct parameter sets")

# defect classes excluded from generation by construction (see corpus/C20/regress); each is replayed and reported
# the k-cyclic data key and the vector offset assertion were repaired in /repo (C20-F1, C20-F2): no longer excluded
KNOWN_SKIPS = {"C20_SKIP_VECTOR_ROWCOL": "1", "C20_SKIP_KVIEW_ASSERT": "1", "C20_SKIP_VECTOR_DIAG_GRID": "1"}


def _build():
    return core.build_harness("C20/dist", ["harness/C20/dist.cc"], tree=TREE, rapidcheck=True, plain_c_sources=["harness/C20/shim.c"])


# VP maps: nb_vp > 1 needs several sockets; a synthetic hwloc topology provides them (threads are never bound: bind_threads=0)
VPCFG = [
    {},
    {"HWLOC_SYNTHETIC": "pack:2 core:2 pu:1", "C20_VPMAP": "hwloc", "C20_CORES": "4"},
    {"HWLOC_SYNTHETIC": "pack:4 core:1 pu:1", "C20_VPMAP": "hwloc", "C20_CORES": "4"},
    {"HWLOC_SYNTHETIC": "pack:6 core:1 pu:1", "C20_VPMAP": "hwloc", "C20_CORES": "6"},
]


def _env(extra=None):
    e = {k: os.environ[k] for k in os.environ if k.startswith("C20_SKIP_")}
    for k, v in KNOWN_SKIPS.items():
        e.setdefault(k, v)
    if extra:
        e.update(extra)
    return e


def _collect(res, wr):
    for f in wr.failures:
        res.violations.append(core.Violation(f["msg"], replay_text=f["replay_text"]))
    for c in wr.crashes:
        if c["rc"] == "timeout":
            res.inconclusive = "worker timeout (%s)" % c["tag"]
            continue
        cur = c["log"].replace(".log", ".json") + ".cur"
        case = open(cur).read().split("\0")[0] if os.path.exists(cur) else ""
        tail = c["log_tail"]
        key = [l for l in tail.splitlines() if "Assertion" in l or "ERROR: AddressSanitizer" in l or "runtime error" in l]
        res.violations.append(core.Violation("process died (rc=%s) on case %s: %s" % (c["rc"], case.strip()[:300], (key[0] if key else tail[-600:])[:500]),
                                             replay_text=(case or "# crash without case\n") + "# " + "\n# ".join(tail[-1200:].splitlines()) + "\n"))


def run(tier, seed, res):
    b = _build()
    quick = tier == "quick"
    res.rule = RULE
    res.assumptions = ["storage is allocated by the caller with the size the collection registers with devices (llm*lln elements for "
                       "block-cyclic, nb_local_tiles*bsiz for symmetric, nb_local_tiles*mb for vectors); tabular tiles by the library",
                       "symmetric and band collections: square matrix, square tiles, used from (0,0) over the whole matrix (asserts in the accessors); "
                       "band sub-collections built as tests/collections/two_dim_band does",
                       "0 <= ip < P, 0 <= jq < Q, kp,kq >= 1, submatrix inside the matrix",
                       "nb_vp > 1 is obtained from a synthetic hwloc topology (HWLOC_SYNTHETIC) with runtime_vpmap=hwloc"]
    L = 3 if quick else 6
    jobs = []
    # few processes: start-up (MPI_Init + parsec_init under ASan) costs ~3 CPU-seconds each
    for t, name, n in ((0, "bc", 4 if quick else 24), (1, "kview", 2 if quick else 12), (2, "sym", 1 if quick else 2), (6, "vector", 1 if quick else 2)):
        for i in range(n):
            jobs.append(dict(cmd=[b, "exh", str(t), str(L), str(i), str(n)], env=_env(VPCFG[(i + t) % 3]), tag="exh_" + name, timeout=900 if quick else 6000))
    wr = core.run_workers(PROP, jobs)
    res.absorb(wr, "exhaustive")
    res.coverage["exhaustive"] = not (wr.failures or wr.crashes)
    res.coverage["exhaustive_subspace"] = ("block-cyclic (tile and LAPACK storage) and k-cyclic view: mb,nb in 1..2, matrix <= %dx%d, every submatrix, grids "
                                           "<= 2x3, kp,kq in 1..2, every grid offset; symmetric: mb 1..3, N <= %d, grids <= 4x4; vector: mb 1..2, "
                                           "length <= %d (offsets strided above 12), grids <= 4x4" % (L, L, 3 * L, 6 * L))
    _collect(res, wr)
    nw = 8 if quick else 16
    per = 500 if quick else 25000
    jobs = [dict(cmd=[b, "rc"], env=_env(dict(VPCFG[i % 4], RC_PARAMS="seed=%d max_success=%d max_size=100" % (seed * 131 + i, per))),
                 tag="rc", timeout=900 if quick else 6000) for i in range(nw)]
    wr = core.run_workers(PROP, jobs)
    res.absorb(wr, "rc")
    _collect(res, wr)
    res.coverage["excluded_defect_classes"] = sorted(k for k, v in _env().items() if v == "1")
    if os.environ.get("C20_NO_REGRESS", "") != "1":      # mutation runs set it: only new violations count there
        _regress(res)


def _regress(res):
    """Known defect classes: replay the minimal reproducers; still failing => reported as violations."""
    import glob
    for f in sorted(glob.glob(os.path.join(core.VERIF, "corpus", PROP, "regress", "*.txt"))):
        ok, msg = replay(f)
        res.coverage.setdefault("regress_replays", {})[os.path.basename(f)] = "pass" if ok else "fail"
        if not ok:
            kf = [k for k in core.known_for(PROP) if os.path.basename(k.get("replay", "")) == os.path.basename(f)]
            if kf:
                res.known.append("%s: %s" % (kf[0]["id"], kf[0]["what"][:300]))
            else:
                res.violations.append(core.Violation("regression replay %s: %s" % (os.path.basename(f), msg.strip()[-400:]), replay_path=f))


def replay(path):
    b = _build()
    env = dict(os.environ)
    env.update(core.MPI_ENV)
    env.update(core.SAN_RUN_ENV)
    txt = open(path).read()
    for l in txt.splitlines():         # "# env KEY=VALUE" lines select the VP map configuration of the run that found the case
        if l.startswith("# env "):
            k, _, v = l[6:].partition("=")
            env[k.strip()] = v.strip()
    try:
        p = subprocess.run([b, "replay", path], env=env, stdout=subprocess.PIPE, stderr=subprocess.STDOUT, text=True, errors="replace", timeout=300)
    except subprocess.TimeoutExpired:
        return False, "timeout"
    out = p.stdout
    if p.returncode == 0 and "REPLAY-PASS" in out:
        return True, out[-300:]
    key = [l for l in out.splitlines() if "REPLAY-FAIL" in l or "Assertion" in l or "ERROR: AddressSanitizer" in l or "runtime error" in l]
    return False, (key[0] if key else out[-1500:])
