/* C20: accessors for internal structures that are C-only (flexible array member in parsec_data_t). */
#include "parsec/parsec_config.h"
#include "parsec/runtime.h"
#include "parsec/data_internal.h"

unsigned long long c20_data_key(parsec_data_t *d) { return (unsigned long long)d->key; }
void *c20_data_ptr(parsec_data_t *d) { return d->device_copies[0] ? d->device_copies[0]->device_private : NULL; }
void *c20_data_dc(parsec_data_t *d) { return (void *)d->dc; }
unsigned long long c20_data_span(parsec_data_t *d) { return (unsigned long long)d->span; }
