"""C03 -- DTD results equal sequential execution in insertion order (engine E6: script interpreter + Hypothesis)."""
import glob
import os
from concurrent.futures import ThreadPoolExecutor

from vf import core

import dtdgen as g

PROP = "C03"
WHICH = {"values", "flush"}
RULE = ("case = one DTD insertion script (1..60 tasks over 1..8 int tiles, each task 1..6 tracked parameters with INPUT/OUTPUT/"
        "INOUT, priorities, retrying bodies, per-tile flush / flush_all / taskpool_wait / context epochs, up to 3 taskpools, "
        "tasks inserting sub-scripts (depth <= 2), window x threshold, AFFINITY placement on 1..4 ranks) run by dtd_driver under "
        "a generated scheduler x thread count; oracle = every task's observed input values, its execution rank and the owner's "
        "tile contents after each flush+wait equal the sequential reference interpreter (insertion order), every task ran "
        "exactly once; non-trivial = the script has a RAW, a WAR and a WAW pair on one tile each AND (explicit window < #tasks or "
        "ranks > 1 or a task-inserting task); distinct = distinct script texts (sha1). The 'same tile in two parameters' clause is "
        "excluded by construction (known finding, VF_DTD_MULTIUSE=1 re-enables it)")
FLOOR_QUICK = 300


def nontrivial(s, f):
    return f["raw"] and f["war"] and f["waw"] and ((0 < s["window"] < f["ntasks"]) or s["ranks"] > 1 or f["inserters"] > 0)


def _build():
    return g.build_driver()


def plan(tier, seed, profile, n_single, per_batch, n_multi, per_mbatch, ranks=(2, 3), tmax_multi=4):
    """-> (batches [(cfg, [scripts])], stats)"""
    stats = {}
    batches = []
    if n_single:
        single = g.generate(g.scripts(profile, stats=stats), n_single, seed)
        nb = (n_single + per_batch - 1) // per_batch
        cfgs = g.generate(g.proc_cfgs(ranks=1, tmin=1, tmax=16), nb, seed * 131 + 7)
        if not g.SCHED_ALL:
            stats["excluded_schedulers"] = ",".join(g.LIVELOCK_SCHEDS)
        for i in range(nb):
            batches.append((dict(cfgs[i % len(cfgs)], tq=5 if tier == "quick" else 20), single[i::nb]))
    if n_multi:
        if not g.RANKS3:
            stats["excluded_ranks_ge_3"] = n_multi
            ranks = (2, 2)
        multi = g.generate(g.scripts(profile, ranks=ranks, stats=stats), n_multi, seed * 131 + 11)
        byr = {}
        for s in multi:
            byr.setdefault(s["ranks"], []).append(s)
        k = 0
        for r in sorted(byr):
            lst = byr[r]
            nb = (len(lst) + per_mbatch - 1) // per_mbatch
            cfgs = g.generate(g.proc_cfgs(ranks=r, tmin=1, tmax=tmax_multi), nb, seed * 131 + 13 + r)
            for i in range(nb):
                batches.append((dict(cfgs[i % len(cfgs)], tq=5 if tier == "quick" else 20), lst[i::nb]))
                k += 1
    return batches, stats


def execute(prop, drv, batches, which, res, nontriv, max_parallel=None):
    """Run the batches in parallel, confirm failures alone, fill res.  Returns list of Outcomes."""
    rd = core.run_dir(prop)
    labels = res.coverage.setdefault("labels", {})

    def lab(k, n=1):
        labels[k] = labels.get(k, 0) + n

    def one(ib):
        i, (cfg, ss) = ib
        return g.run_batch(drv, cfg, ss, os.path.join(rd, "b%03d" % i), "b", which)
    # weight-aware parallelism: PaRSEC workers spin, so keep the number of busy threads near the core count
    batches = sorted(batches, key=lambda b: -b[0]["threads"] * b[0]["ranks"])
    par = max_parallel or max(2, min(8, core.NCPU // 2))
    import time as _t
    _t0 = _t.time()
    with ThreadPoolExecutor(max_workers=par) as ex:
        results = list(ex.map(one, enumerate(batches)))
    core.log("%s: %d batches (%d scripts) in %.0fs" % (prop, len(batches), sum(len(b[1]) for b in batches), _t.time() - _t0))
    hashes = getattr(res, "_e6_hashes", set())
    res._e6_hashes = hashes
    allouts = []
    ncase = 0
    for (cfg, ss), outs in zip(batches, results):
        for o in outs:
            allouts.append(o)
            f = g.features(o.s)
            o.feat = f
            ncase += 1
            lab("sched:" + cfg["sched"])
            lab("threads:%s" % ("1" if cfg["threads"] == 1 else "2-3" if cfg["threads"] < 4 else "4-7" if cfg["threads"] < 8 else "8-16"))
            lab("ranks:%d" % cfg["ranks"])
            lab("status:" + o.status)
            if o.s["window"] > 0:
                lab("explicit_window")
            if 0 < o.s["window"] < f["ntasks"]:
                lab("window_lt_tasks")
            if f["inserters"]:
                lab("has_task_inserting_task")
            if f["pools"] > 1:
                lab("several_taskpools")
            if f["epochs"] > 1:
                lab("several_context_epochs")
            if f["waits"] > 1:
                lab("several_taskpool_waits")
            if f["raw"] and f["war"] and f["waw"]:
                lab("raw+war+waw")
            if o.facts.get("overlap"):
                lab("readers_overlapped_in_time")
            if o.facts.get("remote_marks"):
                lab("flushed_tile_last_written_remotely")
            if o.status == "ok" and nontriv(o.s, f, o):
                hashes.add(g.fingerprint(o.s))
            if len(res.samples) < 6 and o.status == "ok" and f["ntasks"] >= 4 and f["ntasks"] <= 12:
                res.samples.append(g.file_text(o.cfg, [o.s]))
    res.evaluations += ncase
    res.distinct_nontrivial = len(hashes)
    # failures: re-run alone in fresh processes
    bad = [o for o in allouts if o.status in ("violation", "crash", "hang")]
    seen = 0
    for o in bad:
        if seen >= 6:
            break
        seen += 1
        isv, msg, text = g.confirm(drv, o, os.path.join(rd, "confirm%d" % seen), "c", which)
        if isv and o.status == "hang" and o.cfg.get("ranks", 1) > 1 and any(k.get("id") == "C03-K6" for k in core.known_for("C03")):
            # known finding C03-K6 (listed in known_findings.json): on two ranks a DTD task that needs a remote version may never
            # be released.  The generator avoids the one pattern whose cause was isolated (pure INPUT on a rank that does not hold
            # the newest version); other scripts still hit the same missing remote release occasionally (timing dependent).  A
            # multi-rank hang is therefore reported as that finding; wrong values, crashes and single-rank hangs stay violations.
            path = core.save_replay(prop, text)
            res.known.append("C03-K6: two-rank script hangs with remote dependencies never released (%s): %s" % (os.path.relpath(path, core.VERIF), msg[:160]))
            lab("multi_rank_hang_reported_as_known_C03-K6")
        elif isv:
            res.violations.append(core.Violation(msg, replay_text=text))
        else:
            lab("unconfirmed_" + o.status)
    if bad:
        core.log("%s: %d failing case(s) re-run alone in %.0fs" % (prop, seen, _t.time() - _t0))
    inc = [o for o in allouts if o.status == "inconclusive"]
    if inc:
        lab("inconclusive_cases", len(inc))
        res.coverage["inconclusive_examples"] = ["%s threads=%d ranks=%d: %s" % (o.cfg["sched"], o.cfg["threads"], o.cfg["ranks"], o.msgs[0][:200])
                                                 for o in inc[:4] if o.msgs]
    keep = os.environ.get("VF_E6_KEEP")
    if keep:
        os.makedirs(keep, exist_ok=True)
        for n, o in enumerate(o for o in allouts if o.status != "ok"):
            with open(os.path.join(keep, "%s_%s_%03d.txt" % (prop, o.status, n)), "w") as f:
                f.write(g.file_text(o.cfg, [o.s], "; ".join(o.msgs)[:400]))
    return allouts


def regress(prop, res, which):
    """Dedicated replays of the excluded known findings: reported as KNOWN-FINDING lines, never as violations."""
    import time as _t
    _t0 = _t.time()
    st = {}
    files = sorted(glob.glob(os.path.join(core.VERIF, "corpus", prop, "regress", "*.txt")))
    with ThreadPoolExecutor(max_workers=4) as ex:
        outs = list(ex.map(lambda p: g.replay_file(p, which, tries=1), files))
    for p, (ok, msg) in zip(files, outs):
        st[os.path.basename(p)] = "passes now" if ok else "still fails"
        if not ok:
            first = msg.splitlines()[0] if msg else ""
            res.known.append("%s still reproduces (excluded from generation): %s" % (os.path.basename(p), first[:160]))
    res.coverage["regress"] = st
    core.log("%s: %d regress replays in %.0fs" % (prop, len(st), _t.time() - _t0))


def run(tier, seed, res):
    drv = _build()
    quick = tier == "quick"
    res.rule = RULE
    res.assumptions = [
        "tiles are not used between parsec_dtd_data_flush and the next wait of that taskpool; tile handles are re-acquired after it",
        "tiles touched by a task-inserting task's sub-script are not used by the main thread until the next taskpool_wait (DTD thread-safety contract)",
        "one taskpool at a time owns a tile until it flushed it; flush_all only when no other taskpool holds tiles",
        "every task on > 1 rank carries exactly one AFFINITY (tile flag or PARSEC_VALUE rank); task-inserting tasks only on 1 rank",
        "excluded by construction, each with a replay under corpus/C03/regress and an env switch: repeated tile in one task "
        "(VF_DTD_MULTIUSE), freed-reader address reuse pattern (VF_DTD_ABA), explicit window with task-inserting tasks (VF_DTD_SUBWINDOW)",
        "W,R,W on one tile in one task is documented unsupported and never generated",
    ]
    if quick:
        batches, stats = plan(tier, seed, "c03", 480, 20, 30, 5)
    else:
        batches, stats = plan(tier, seed, "c03", 20000, 50, 1500, 10, ranks=(2, 4))
    execute(PROP, drv, batches, WHICH, res, lambda s, f, o: nontrivial(s, f))
    res.coverage.update({"generator_" + k: v for k, v in stats.items()})
    regress(PROP, res, WHICH)
    if quick and res.distinct_nontrivial < FLOOR_QUICK and not res.violations:
        res.inconclusive = "only %d non-trivial scripts completed (floor %d)" % (res.distinct_nontrivial, FLOOR_QUICK)


def replay(path):
    return g.replay_file(path, WHICH, tries=3)
