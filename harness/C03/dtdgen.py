"""Engine E6 (Python side): DTD insertion-script generator (Hypothesis), text format, sequential reference
interpreter, batch runner for dtd_driver, log parser and the oracles shared by C03 / C04 / C17.

A *script* is a dict:
  ranks, ntiles, window, threshold, init[ntiles], items[...], subs{idx: [task...]}
  item = ("P",pool) | ("T",task) | ("F",pool,tile) | ("A",pool) | ("W",pool) | ("X",pool) | ("C",) | ("D",rank,usec)
  task = dict(tid,pool,prio,spin,again,affkind,affarg,sub,flows=[(tile,mode,aff)])   mode 1=R 2=W 3=RW
A *process config* is dict(ranks, threads, sched, tq).
"""
import hashlib
import os
import re
import subprocess
import time

from hypothesis import HealthCheck, Phase, given, seed as hseed, settings, strategies as st

from vf import core

SCHEDS = ["lfq", "ltq", "lhq", "ll", "llp", "gd", "ap", "ip", "pbq", "rnd", "spq"]
M32 = 0xFFFFFFFF
# known finding (see corpus/C03/regress/multiuse_*.txt): a task naming the same tile in two parameters aborts on a
# reader-count underflow / gets a NULL pointer.  Excluded by construction unless VF_DTD_MULTIUSE=1.
MULTIUSE = os.environ.get("VF_DTD_MULTIUSE", "0") == "1"
# known finding (corpus/C03/regress/aba_reader_reuse.txt): stale tile->last_user pointer to a freed reader task compared
# with the address of a new task of the same class.  Excluded by construction unless VF_DTD_ABA=1.
ABA_OK = os.environ.get("VF_DTD_ABA", "0") == "1"
SUBWINDOW_OK = os.environ.get("VF_DTD_SUBWINDOW", "0") == "1"
# known finding (corpus/C03/regress/sched_again_livelock.txt): a DTD writer that follows readers is scheduled together with
# them and busy-retries (data_lookup -> PARSEC_HOOK_RETURN_AGAIN -> reschedule with demoted priority); schedulers that hand
# the demoted / just re-pushed task out first (ip, llp, ll; flaky hang also seen with ap) re-select it forever and the readers never run.
# Excluded unless VF_DTD_SCHED_ALL=1.
SCHED_ALL = os.environ.get("VF_DTD_SCHED_ALL", "0") == "1"
LIVELOCK_SCHEDS = ("ip", "llp", "ll", "ap")
# known finding (corpus/C03/regress/three_ranks_hang.txt): on >= 3 ranks plain insertion scripts hang (flaky).  Unless
# VF_DTD_RANKS3=1 the multi-rank scripts use 2 ranks.
RANKS3 = os.environ.get("VF_DTD_RANKS3", "0") == "1"
REMOTE_READ_OK = os.environ.get("VF_DTD_REMOTE_READ", "0") == "1"


# ----------------------------------------------------------------------------------------------- reference

def H(tid, flow, reads):
    h = (0x9e3779b9 ^ ((tid * 0x85ebca6b) & M32) ^ ((flow * 0xc2b2ae35) & M32)) & M32
    for r in reads:
        h = ((h ^ r) * 0x01000193) & M32
        h ^= h >> 15
    h = (h * 0x2c1b3c6d) & M32
    h ^= h >> 12
    return h


def task_rank(t, P):
    if P == 1:
        return 0
    if t["affkind"] == 2:
        return t["affarg"] % P
    for (k, m, a) in t["flows"]:
        if a:
            return k % P
    return -1


def all_tasks(s):
    """Tasks in sequential (insertion) order: a task's sub-script follows it immediately."""
    out = []

    def rec(t):
        out.append(t)
        if t["sub"] >= 0:
            for u in s["subs"][t["sub"]]:
                rec(u)
    for it in s["items"]:
        if it[0] == "T":
            rec(it[1])
    return out


def reference(s):
    """Sequential execution in insertion order.  Returns dict with
       reads{tid: [..]}, rank{tid}, marks{(item_index, tile): value}, final[tile],
       order[tile] = [(tid, writes?)...] in insertion order, lastw_rank at each mark."""
    P = s["ranks"]
    val = list(s["init"])
    reads, rank, marks, order = {}, {}, {}, {k: [] for k in range(s["ntiles"])}
    live, pending = set(), {}
    lastw = {}          # tile -> rank of last writer since the tile was last flushed (None: untouched)
    remote_marks = 0

    def tiles_of(t, acc):
        for (k, m, a) in t["flows"]:
            acc.add(k)
        if t["sub"] >= 0:
            for u in s["subs"][t["sub"]]:
                tiles_of(u, acc)

    def run(t):
        r = [val[k] for (k, m, a) in t["flows"] if m & 1]
        reads[t["tid"]] = r
        rank[t["tid"]] = task_rank(t, P)
        seen = {}
        for f, (k, m, a) in enumerate(t["flows"]):
            seen[k] = seen.get(k, 0) | m
        for k, m in seen.items():
            order[k].append((t["tid"], bool(m & 2)))
        for f, (k, m, a) in enumerate(t["flows"]):
            if m & 2:
                val[k] = H(t["tid"], f, r)
                lastw[k] = rank[t["tid"]]
        if t["sub"] >= 0:
            for u in s["subs"][t["sub"]]:
                run(u)

    def mark(i, pool):
        nonlocal remote_marks
        for k in sorted(pending):
            if pool is None or pending[k] == pool:
                marks[(i, k)] = val[k]
                if lastw.get(k) is not None and lastw[k] != k % P:
                    remote_marks += 1
                lastw[k] = None
        for k in [k for k in pending if pool is None or pending[k] == pool]:
            del pending[k]

    for i, it in enumerate(s["items"]):
        op = it[0]
        if op == "T":
            acc = set()
            tiles_of(it[1], acc)
            live |= acc
            run(it[1])
        elif op == "F":
            if it[2] in live:
                live.discard(it[2])
                pending[it[2]] = it[1]
        elif op == "A":
            for k in list(live):
                pending[k] = it[1]
            live.clear()
        elif op == "W":
            mark(i, it[1])
        elif op == "C":
            mark(i, None)
    mark(len(s["items"]), None)
    return dict(reads=reads, rank=rank, marks=marks, final=val, order=order, remote_marks=remote_marks)


def features(s):
    """Static facts used by the non-triviality rules and labels."""
    tasks = all_tasks(s)
    raw = war = waw = multi = False
    readers_between = 0
    lastmode = {}
    seenw, seenr = set(), set()
    run_r = {}
    for t in tasks:
        per = {}
        for (k, m, a) in t["flows"]:
            per.setdefault(k, []).append(m)
        for k, ms in per.items():
            if len(ms) > 1:
                multi = True
            m = 0
            for x in ms:
                m |= x
            if m & 1 and k in seenw:
                raw = True
            if m & 2 and k in seenr:
                war = True
            if m & 2 and k in seenw:
                waw = True
            if m & 2:
                if k in seenw and run_r.get(k, 0) >= 2:
                    readers_between += 1
                run_r[k] = 0
            else:
                run_r[k] = run_r.get(k, 0) + 1
            if m & 1:
                seenr.add(k)
            if m & 2:
                seenw.add(k)
    return dict(ntasks=len(tasks), raw=raw, war=war, waw=waw, multi=multi, rbw=readers_between,
                inserters=sum(1 for t in tasks if t["sub"] >= 0),
                pools=sum(1 for it in s["items"] if it[0] == "P"),
                epochs=1 + sum(1 for it in s["items"] if it[0] == "C"),
                waits=sum(1 for it in s["items"] if it[0] == "W"))


# ----------------------------------------------------------------------------------------------- text

def task_line(t):
    w = ["T", t["tid"], t["pool"], t["prio"], t["spin"], t["again"], t["affkind"], t["affarg"], t["sub"], len(t["flows"])]
    for (k, m, a) in t["flows"]:
        w += [k, m, a]
    return " ".join(str(x) for x in w)


def script_text(s, sid=0):
    L = ["S %d %d %d %d %d" % (sid, s["ntiles"], s["window"], s["threshold"], s["ranks"])]
    for k, v in enumerate(s["init"]):
        L.append("I %d %d" % (k, v))
    for idx in sorted(s["subs"]):
        L.append("B %d %d" % (idx, len(s["subs"][idx])))
        for t in s["subs"][idx]:
            L.append(task_line(t))
    for it in s["items"]:
        if it[0] == "T":
            L.append(task_line(it[1]))
        else:
            L.append(" ".join(str(x) for x in it))
    L.append("Z")
    return "\n".join(L) + "\n"


def file_text(cfg, scripts, note=""):
    head = "#cfg ranks=%d threads=%d sched=%s tq=%d\n" % (cfg["ranks"], cfg["threads"], cfg["sched"], cfg.get("tq", 5))
    if note:
        head += "".join("# %s\n" % l for l in note.splitlines())
    return head + "".join(script_text(s, i) for i, s in enumerate(scripts))


def parse_file(text):
    cfg = dict(ranks=1, threads=2, sched="lfq", tq=5)
    m = re.search(r"^#cfg (.*)$", text, re.M)
    if m:
        for kv in m.group(1).split():
            k, v = kv.split("=")
            cfg[k] = v if k == "sched" else int(v)
    toks = []
    for line in text.splitlines():
        line = line.split("#")[0]
        toks += line.split()
    pos = 0
    scripts = []

    def nxt():
        nonlocal pos
        pos += 1
        return toks[pos - 1]

    def ptask():
        tid, pool, prio, spin, again, affkind, affarg, sub, nf = [int(nxt()) for _ in range(9)]
        flows = [(int(nxt()), int(nxt()), int(nxt())) for _ in range(nf)]
        return dict(tid=tid, pool=pool, prio=prio, spin=spin, again=again, affkind=affkind, affarg=affarg, sub=sub, flows=flows)

    while pos < len(toks):
        assert nxt() == "S"
        sid, ntiles, window, threshold, flags = [int(nxt()) for _ in range(5)]
        s = dict(ranks=cfg["ranks"], ntiles=ntiles, window=window, threshold=threshold, init=[0] * ntiles, items=[], subs={})
        while True:
            op = nxt()
            if op == "Z":
                break
            if op == "I":
                k = int(nxt())
                s["init"][k] = int(nxt())
            elif op == "B":
                idx, n = int(nxt()), int(nxt())
                s["subs"][idx] = []
                for _ in range(n):
                    assert nxt() == "T"
                    s["subs"][idx].append(ptask())
            elif op == "T":
                s["items"].append(("T", ptask()))
            elif op in "PAWX":
                s["items"].append((op, int(nxt())))
            elif op in "FD":
                s["items"].append((op, int(nxt()), int(nxt())))
            elif op == "C":
                s["items"].append(("C",))
            else:
                raise ValueError("bad op " + op)
        scripts.append(s)
    return cfg, scripts


# ----------------------------------------------------------------------------------------------- generator

PROFILES = {
    # p_read: probability that a flow is INPUT; remaining mass split OUTPUT / INOUT
    "c03": dict(max_tasks=60, max_tiles=8, p_read=0.34, spin_max=60, p_spin=0.3, p_sub=0.03, p_pool=0.03, p_epoch=0.02,
                p_flush=0.05, p_wait=0.04, p_again=0.08, p_delay=0.0),
    "c04": dict(max_tasks=50, max_tiles=3, p_read=0.78, spin_max=30000, p_spin=0.95, p_sub=0.01, p_pool=0.01, p_epoch=0.01,
                p_flush=0.01, p_wait=0.02, p_again=0.05, p_delay=0.0),
    "c17": dict(max_tasks=24, max_tiles=6, p_read=0.3, spin_max=40, p_spin=0.2, p_sub=0.0, p_pool=0.03, p_epoch=0.03,
                p_flush=0.12, p_wait=0.05, p_again=0.05, p_delay=0.08),
}


@st.composite
def scripts(draw, profile="c03", ranks=None, stats=None):
    pf = PROFILES[profile]

    # Hypothesis hands out a random.Random seeded from its own (seeded) choice sequence: st.randoms(use_true_random=True).
    # All choices below come from it; this keeps generation ~30x cheaper than one Hypothesis draw per choice
    # (shrinking is not used: failing scripts are minimised by dtdmin.py with re-execution).
    rnd = draw(st.randoms(use_true_random=True))

    def I(a, b):
        return rnd.randint(a, b) if b > a else a

    def chance(p):
        return I(0, 999) < int(p * 1000)

    P = ranks if ranks is not None else 1
    if isinstance(P, (tuple, list)):
        P = I(P[0], P[1])
    ntiles = I(1, pf["max_tiles"])
    window = [0, 1, 2, 4, 8][I(0, 4)]
    threshold = [-1, 0, 1, 2][I(0, 3)]
    if window > 0 and threshold >= window:
        threshold = window - 1
    budget = I(1, pf["max_tasks"])
    maxpools = I(1, 3)
    s = dict(ranks=P, ntiles=ntiles, window=window, threshold=threshold,
             init=[I(0, M32) for _ in range(ntiles)], items=[], subs={})
    tid = [0]
    state = ["free"] * ntiles          # "free" | ("held", p) | ("pending", p)
    locked = [None] * ntiles           # pool whose running inserter tasks may still insert on the tile
    pools = {}                         # pool -> "live"
    nextpool = [0]
    inserters_in_segment = {}
    excluded_multi = [0]
    excluded_aba = [0]
    excluded_rr = [0]
    lastw_rank = [k % P for k in range(ntiles)]   # rank holding the newest version of each tile (owner initially / after a flush)
    lastuser = [None] * ntiles         # (class, flow index, read-only?) of the last task inserted on the tile

    def avail(p):
        return [k for k in range(ntiles) if locked[k] is None and (state[k] == "free" or state[k] == ("held", p))]

    def gen_flows(tiles, multi_ok=True):
        nf = min(I(1, 6), 6)
        flows = []
        for _ in range(nf):
            k = tiles[I(0, len(tiles) - 1)]
            r = I(0, 999)
            pr = int(pf["p_read"] * 1000)
            m = 1 if r < pr else (2 if (r < pr + (1000 - pr) // 2 and not pf.get("no_output")) else 3)
            flows.append([k, m, 0])
        # same tile in several parameters: keep only the supported multiplicities R..R, R..R W, W R
        want_multi = chance(0.25)
        per = {}
        out = []
        for fl in flows:
            k, m, _ = fl
            ms = per.setdefault(k, [])
            if ms:
                if not want_multi or not multi_ok or not MULTIUSE:
                    if want_multi and not MULTIUSE:
                        excluded_multi[0] += 1
                    continue                                   # drop the repeated parameter
                pat = [("R" if x == 1 else "W") for x in ms] + ["R" if m == 1 else "W"]
                ok = pat in (["R", "R"], ["R", "W"], ["W", "R"], ["R", "R", "W"], ["R", "R", "R"], ["W", "W"])
                if not ok:
                    excluded_multi[0] += 1                     # W,R,W and longer mixes: documented unsupported
                    continue
            ms.append(m)
            out.append(fl)
        return out

    def aba_hazard(cls, fl):
        """Known finding (corpus/C03/regress/aba_reader_reuse.txt): a completed read-only task R stays named in
        tile->last_user after its memory went back to the task-class mempool; a new task T of the same class that
        gets R's address and uses the tile at a later flow index than R did is mistaken for 'the same task using
        the tile twice' and releases a reader count it never took.  Returns the index of a hazardous flow."""
        for j, (k, m, a) in enumerate(fl):
            lu = lastuser[k]
            if lu is not None and lu[2] and lu[0] == cls and lu[1] < j and fl[lu[1]][0] != k:
                return j
        return None

    def gen_task(p, tiles, depth, own_tiles=None):
        t = dict(tid=tid[0], pool=p, prio=I(-3, 12) if chance(0.5) else 0,
                 spin=I(0, pf["spin_max"]) if chance(pf["p_spin"]) else 0,
                 again=I(1, 2) if chance(pf["p_again"]) else 0, affkind=0, affarg=0, sub=-1, flows=None)
        tid[0] += 1
        if P > 1:
            t["affkind"] = 1 if chance(0.6) else 2
            if t["affkind"] == 2:
                t["affarg"] = I(0, P - 1)
        else:
            r = I(0, 9)
            t["affkind"] = 1 if r == 0 else (2 if r == 1 else 0)
        fl = gen_flows(own_tiles if own_tiles is not None else tiles)
        if not ABA_OK:
            while True:
                j = aba_hazard((t["affkind"] == 2, len(fl)), fl)
                if j is None:
                    break
                del fl[j]
                excluded_aba[0] += 1
        if t["affkind"] == 1:
            fl[I(0, len(fl) - 1)][2] = 1
        if P > 1:
            rk = t["affarg"] if t["affkind"] == 2 else [k for (k, m, a) in fl if a][0] % P
            if not REMOTE_READ_OK:
                # known finding (corpus/C03/regress/two_ranks_remote_reader_hang.txt): a pure INPUT access on a rank other
                # than the one holding the newest version may never be served; such a parameter becomes INOUT (the data
                # still travels, only the read-only sharing across ranks is lost)
                for x in fl:
                    if x[1] == 1 and lastw_rank[x[0]] != rk:
                        x[1] = 3
                        excluded_rr[0] += 1
            for x in fl:
                if x[1] & 2:
                    lastw_rank[x[0]] = rk
        t["flows"] = [tuple(x) for x in fl]
        per = {}
        for f, (k, m, a) in enumerate(t["flows"]):
            per[k] = (f, per.get(k, (0, 0))[1] | m)
        for k, (f, m) in per.items():
            lastuser[k] = ((t["affkind"] == 2, len(fl)), f, m == 1)
        return t

    def gen_sub(p, tiles, depth, room):
        """sub-script over `tiles` (list); returns (idx, ntasks)"""
        idx = len(s["subs"])
        s["subs"][idx] = []                                   # reserve the index before nesting
        n = I(1, max(1, min(6, room)))
        cur = list(tiles)
        made = 0
        body = []
        for _ in range(n):
            if not cur:
                break
            u = gen_task(p, cur, depth)
            made += 1
            if depth < 2 and len(cur) >= 1 and room - made >= 1 and chance(0.25):
                sub_tiles = [k for k in cur if chance(0.6)] or [cur[0]]
                j, m2 = gen_sub(p, sub_tiles, depth + 1, room - made)
                u["sub"] = j
                made += m2
                cur = [k for k in cur if k not in sub_tiles]  # the parent no longer touches what the child inserts on
            body.append(u)
        s["subs"][idx] = body
        return idx, made

    def new_pool():
        p = nextpool[0]
        nextpool[0] += 1
        pools[p] = "live"
        inserters_in_segment[p] = 0
        s["items"].append(("P", p))
        return p

    def do_wait(p):
        if P > 1:
            # distributed: a remote last writer keeps a runtime action on the taskpool until the tile is flushed, so a
            # wait only terminates after every tile the pool still holds was flushed (documented: flush before waiting)
            flush_held(p, nowait=True)
        s["items"].append(("W", p))
        for k in range(ntiles):
            if state[k] == ("pending", p):
                state[k] = "free"
                lastw_rank[k] = k % P
                lastuser[k] = None
            if locked[k] == p:
                locked[k] = None
        inserters_in_segment[p] = 0

    def flush_held(p, nowait=False):
        held = [k for k in range(ntiles) if state[k] == ("held", p)]
        if not held:
            return
        if not nowait and any(locked[k] == p for k in range(ntiles)):
            do_wait(p)
        others = [k for k in range(ntiles) if isinstance(state[k], tuple) and state[k][0] == "held" and state[k][1] != p]
        if not others and chance(0.6):
            s["items"].append(("A", p))
        else:
            for k in held:
                s["items"].append(("F", p, k))
        for k in held:
            state[k] = ("pending", p)

    def close_pool(p):
        flush_held(p)
        do_wait(p)
        s["items"].append(("X", p))
        del pools[p]

    maxins = [0]
    while budget > 0 and len(s["items"]) < 400:
        if not pools or (len(pools) < maxpools and nextpool[0] < 4 and chance(pf["p_pool"])):
            new_pool()
            continue
        lp = sorted(pools)
        p = lp[I(0, len(lp) - 1)]
        r = I(0, 999)
        c = 0

        def pick(prob):
            nonlocal c
            c += int(prob * 1000)
            return r < c
        if pick(pf["p_wait"]):
            do_wait(p)
        elif pick(pf["p_flush"]):
            held = [k for k in range(ntiles) if state[k] == ("held", p) and locked[k] is None]
            if held and chance(0.7):
                k = held[I(0, len(held) - 1)]
                s["items"].append(("F", p, k))
                state[k] = ("pending", p)
            else:
                flush_held(p)
            if chance(0.5):
                do_wait(p)
        elif pick(pf["p_epoch"]):
            for q in sorted(pools):
                flush_held(q)
            s["items"].append(("C",))
            for k in range(ntiles):
                state[k] = "free"
                locked[k] = None
                lastw_rank[k] = k % P
                lastuser[k] = None
            for q in pools:
                inserters_in_segment[q] = 0
        elif pick(pf["p_pool"]) and len(pools) > 1:
            close_pool(p)
        elif pick(pf["p_delay"]) and P > 1:
            s["items"].append(("D", I(0, P - 1), I(0, 30000)))
        else:
            tiles = avail(p)
            if not tiles:
                do_wait(p)                                    # frees this pool's pending tiles and locks
                if not avail(p):
                    q = [q for q in sorted(pools) if q != p]
                    if q:
                        close_pool(q[0])
                continue
            if P == 1 and budget >= 2 and chance(pf["p_sub"]):
                sub_tiles = [k for k in tiles if chance(0.5)] or [tiles[0]]
                t = gen_task(p, tiles, 0)
                j, made = gen_sub(p, sub_tiles, 1, budget - 1)
                t["sub"] = j
                budget -= made
                for k in sub_tiles:
                    locked[k] = p
                    state[k] = ("held", p)
                inserters_in_segment[p] += sum(1 for u in all_sub(s, t) if u["sub"] >= 0) + 1
                maxins[0] = max(maxins[0], inserters_in_segment[p])
            else:
                t = gen_task(p, tiles, 0)
            for (k, m, a) in t["flows"]:
                state[k] = ("held", p)
            s["items"].append(("T", t))
            budget -= 1
    for p in sorted(pools):
        close_pool(p)
    # known finding (corpus/C03/regress/inserter_window_deadlock.txt): the insertion window also throttles insertions made
    # from inside a task body; the blocked inserter waits for nb_tasks <= threshold while its own successors (and it
    # itself) are counted, so it never returns.  Scripts with inserter tasks keep the default window unless
    # VF_DTD_SUBWINDOW=1 (then at least the inserters themselves fit under the threshold).
    if maxins[0] > 0 and s["window"] > 0:
        if not SUBWINDOW_OK:
            s["window"], s["threshold"] = 0, -1
            if stats is not None:
                stats["excluded_window_with_inserters"] = stats.get("excluded_window_with_inserters", 0) + 1
        elif 0 <= s["threshold"] < maxins[0] + 1:
            s["threshold"] = maxins[0] + 1
            if s["threshold"] >= s["window"]:
                s["window"], s["threshold"] = 0, -1
    if stats is not None and excluded_multi[0]:
        stats["excluded_multiuse_params"] = stats.get("excluded_multiuse_params", 0) + excluded_multi[0]
    if stats is not None and excluded_rr[0]:
        stats["excluded_remote_pure_reads"] = stats.get("excluded_remote_pure_reads", 0) + excluded_rr[0]
    if stats is not None and excluded_aba[0]:
        stats["excluded_aba_params"] = stats.get("excluded_aba_params", 0) + excluded_aba[0]
    return s


def all_sub(s, t):
    out = []
    if t["sub"] >= 0:
        for u in s["subs"][t["sub"]]:
            out.append(u)
            out += all_sub(s, u)
    return out


@st.composite
def proc_cfgs(draw, ranks=1, tmin=1, tmax=16, scheds=None):
    sc = scheds or (SCHEDS if SCHED_ALL else [x for x in SCHEDS if x not in LIVELOCK_SCHEDS])
    return dict(ranks=ranks, threads=draw(st.integers(tmin, tmax)), sched=sc[draw(st.integers(0, len(sc) - 1))])


def generate(strategy, n, seed_):
    """n examples of `strategy`, deterministically from seed_ (Hypothesis is the only source of randomness)."""
    out = []

    @hseed(seed_)
    @settings(database=None, deadline=None, max_examples=n, derandomize=False, report_multiple_bugs=False,
              phases=[Phase.generate], suppress_health_check=list(HealthCheck))
    @given(strategy)
    def collect(x):
        out.append(x)
    collect()
    return out


# ----------------------------------------------------------------------------------------------- running

def build_driver():
    return core.build_harness("C03/dtd_driver", ["harness/C03/dtd_driver.c"], tree="hooks", lang="c")


def parse_logs(prefix, P):
    """-> (per_sid: {sid: {"done": set(ranks), "T": {tid: [rec...]}, "M": {(item,tile): val}, "E": {tile: val},
                          "N": [tid], "H": [(rank, item, in_body, missing[])], "running": set(ranks)}}, quit_ranks)"""
    per, quit_ranks = {}, set()
    for r in range(P):
        path = "%s.r%d.log" % (prefix, r)
        if not os.path.exists(path):
            continue
        cur = None
        for line in open(path):
            w = line.split()
            if not w:
                continue
            if w[0] == "R":
                cur = per.setdefault(int(w[1]), dict(done=set(), T={}, M={}, E={}, N=[], H=[], running=set()))
                cur["running"].add(r)
            elif w[0] == "Q":
                quit_ranks.add(r)
            elif cur is None:
                continue
            elif w[0] == "T":
                rec = dict(count=int(w[2]), rank=int(w[3]), seq_in=int(w[4]), seq_out=int(w[5]), viol=int(w[6]),
                           overlap=int(w[7]), reads=[int(x) for x in w[9:9 + int(w[8])]])
                cur["T"].setdefault(int(w[1]), []).append(rec)
            elif w[0] == "M":
                cur["M"][(int(w[1]), int(w[2]))] = int(w[3])
            elif w[0] == "E":
                cur["E"][int(w[1])] = int(w[2])
            elif w[0] == "N":
                cur["N"].append(int(w[1]))
            elif w[0] == "H":
                cur["H"].append((r, int(w[2]), int(w[3]), [int(x) for x in w[5:]]))
            elif w[0] == "Z":
                cur["done"].add(r)
    return per, quit_ranks


def run_file(driver, cfg, scripts, workdir, tag, tq=None, timeout=None):
    """Run `scripts` as one batch in one (mpiexec) process group.  Returns dict(rc, logs, quit, stderr_tail, wall)."""
    os.makedirs(workdir, exist_ok=True)
    path = os.path.join(workdir, tag + ".txt")
    prefix = os.path.join(workdir, tag)
    P = cfg["ranks"]
    for r in range(P):
        try:
            os.unlink("%s.r%d.log" % (prefix, r))
        except OSError:
            pass
    with open(path, "w") as f:
        f.write(file_text(cfg, scripts))
    tqv = tq if tq is not None else cfg.get("tq", 5)
    cmd = [driver, path, prefix, str(cfg["threads"]), str(tqv)]
    if P > 1:
        cmd = ["mpiexec", "--oversubscribe", "-n", str(P)] + cmd
    env = dict(os.environ)
    env.update(core.MPI_ENV)
    env["PARSEC_MCA_mca_sched"] = cfg["sched"]
    t0 = time.time()
    to = timeout or (60 + 8 * tqv + 2 * len(scripts))
    errp = prefix + ".err"
    with open(errp, "w") as ef:
        try:
            p = subprocess.run(cmd, env=env, stdout=ef, stderr=subprocess.STDOUT, timeout=to, cwd=workdir)
            rc = p.returncode
        except subprocess.TimeoutExpired:
            rc = "timeout"
    tail = ""
    try:
        txt = open(errp, errors="replace").read()
        keep = [l for l in txt.splitlines() if not re.match(r"^\[[^\]]*\] (\[ ?\d+\]|\*\*\*)", l)]
        tail = "\n".join(keep)[-1500:]
    except OSError:
        pass
    logs, quit_ranks = parse_logs(prefix, P)
    return dict(rc=rc, logs=logs, quit=quit_ranks, stderr_tail=tail, wall=time.time() - t0, path=path)


def judge(s, log, which):
    """Apply the oracles `which` (subset of {"values","exclusion","flush"}) to a completed script.
       Returns (violations: [str], facts: dict)."""
    ref = reference(s)
    P = s["ranks"]
    v = []
    facts = dict(overlap=0, again_seen=0)
    tasks = all_tasks(s)
    recs = {}
    for t in tasks:
        tid = t["tid"]
        rr = log["T"].get(tid, [])
        n = sum(r["count"] for r in rr)
        if n != 1 or len(rr) != 1:
            if "values" in which or "exclusion" in which:
                v.append("task %d executed %d time(s) on ranks %s although every wait returned (expected exactly once on rank %d)"
                         % (tid, n, [r["rank"] for r in rr], ref["rank"][tid]))
            continue
        r = rr[0]
        recs[tid] = r
        if r["overlap"]:
            facts["overlap"] += 1
        if "values" in which:
            if r["viol"] & 384:
                v.append("task %d: NULL data pointer for a parameter on a repeated tile (viol=%d)" % (tid, r["viol"]))
            if P > 1 and ref["rank"][tid] >= 0 and r["rank"] != ref["rank"][tid]:
                v.append("task %d ran on rank %d, affinity says rank %d" % (tid, r["rank"], ref["rank"][tid]))
            if r["reads"] != ref["reads"][tid]:
                v.append("task %d (flows %s) observed inputs %s, sequential execution in insertion order gives %s"
                         % (tid, t["flows"], r["reads"], ref["reads"][tid]))
        if "exclusion" in which and (r["viol"] & 127):
            names = {1: "writer entered while another writer of the tile was running", 2: "writer entered while a reader of the tile was running",
                     4: "reader entered while a writer of the tile was running", 8: "second writer appeared during a writer's body",
                     16: "reader appeared during a writer's body", 32: "writer appeared during a reader's body",
                     64: "input value changed while the reader was running"}
            v.append("task %d (flows %s): %s" % (tid, t["flows"], "; ".join(n for b, n in names.items() if r["viol"] & b)))
    if "exclusion" in which and P == 1:
        # stamps: a writer starts after every earlier access of the tile finished; a reader after every earlier writer
        for k, acc in ref["order"].items():
            lastw_out, max_out = None, None
            for (tid, w) in acc:
                r = recs.get(tid)
                if r is None:
                    continue
                if w:
                    if max_out is not None and r["seq_in"] < max_out[0]:
                        v.append("tile %d: writer task %d started (stamp %d) before earlier access task %d finished (stamp %d)"
                                 % (k, tid, r["seq_in"], max_out[1], max_out[0]))
                else:
                    if lastw_out is not None and r["seq_in"] < lastw_out[0]:
                        v.append("tile %d: reader task %d started (stamp %d) before earlier writer task %d finished (stamp %d)"
                                 % (k, tid, r["seq_in"], lastw_out[1], lastw_out[0]))
                if max_out is None or r["seq_out"] > max_out[0]:
                    max_out = (r["seq_out"], tid)
                if w:
                    lastw_out = (r["seq_out"], tid)
    if "values" in which or "flush" in which:
        for (i, k), val in sorted(ref["marks"].items()):
            got = log["M"].get((i, k))
            if got is None:
                v.append("harness: no owner record for tile %d at item %d" % (k, i))
            elif got != val:
                v.append("tile %d on its owner (rank %d) after flush + wait (item %d) holds %d, last writer in insertion order wrote %d"
                         % (k, k % P, i, got, val))
        for k in range(s["ntiles"]):
            got = log["E"].get(k)
            if got is None:
                v.append("harness: no final record for tile %d" % k)
            elif got != ref["final"][k]:
                v.append("tile %d on its owner (rank %d) finally holds %d, sequential reference %d" % (k, k % P, got, ref["final"][k]))
    facts["remote_marks"] = ref["remote_marks"]
    return v, facts


class Outcome:
    def __init__(self, s, cfg):
        self.s, self.cfg = s, cfg
        self.status = None      # "ok" | "violation" | "crash" | "hang" | "inconclusive"
        self.msgs = []
        self.facts = {}
        self.replay_scripts = None   # list of scripts forming the replay file (default: [s])


def run_batch(driver, cfg, scripts, workdir, tag, which, tq=None):
    """Run a batch; scripts after a crashing / hanging one are re-run in follow-up processes.
       Returns [Outcome] in the order of `scripts`."""
    outs = [Outcome(s, cfg) for s in scripts]
    todo = list(range(len(scripts)))
    rnd = 0
    while todo:
        res = run_file(driver, cfg, [scripts[i] for i in todo], workdir, "%s_%d" % (tag, rnd), tq=tq)
        rnd += 1
        P = cfg["ranks"]
        nxt = []
        culprit = None
        for j, i in enumerate(todo):
            log = res["logs"].get(j)
            o = outs[i]
            if log is not None and len(log["done"]) == P:
                vs, facts = judge(scripts[i], log, which)
                o.facts = facts
                o.status = "violation" if vs else "ok"
                o.msgs = vs
                if vs:
                    o.prefix = [scripts[k] for k in todo[:j + 1]]
            elif culprit is None and (log is not None or res["rc"] != 0):
                culprit = j
                o.facts = {}
                if res["rc"] == "timeout":
                    o.status = "inconclusive"
                    o.msgs = ["wall-clock timeout of the batch process while this script was running"]
                elif log is not None and log["H"] and any(h[3] for h in log["H"]):
                    o.status = "hang"
                    o.msgs = ["quiescent for tq seconds with expected task executions missing: " +
                              "; ".join("rank %d at item %d: tasks %s never ran" % (h[0], h[1], h[3]) for h in log["H"] if h[3])]
                elif log is not None and log["H"]:
                    o.status = "inconclusive"
                    o.msgs = ["no progress although every expected task ran (rank %d, item %d)" % (log["H"][0][0], log["H"][0][1])]
                else:
                    o.status = "crash"
                    o.msgs = ["process died (rc=%s) while running this script: %s" % (res["rc"], res["stderr_tail"][-700:])]
                o.prefix = [scripts[k] for k in todo[:j + 1]]
            else:
                nxt.append(i)
        if culprit is None and nxt:
            # nothing identified although scripts are missing (e.g. startup failure): do not loop forever
            for i in nxt:
                outs[i].status = "inconclusive"
                outs[i].msgs = ["batch process ended (rc=%s) before reaching this script: %s" % (res["rc"], res["stderr_tail"][-300:])]
            nxt = []
        todo = nxt
    return outs


def confirm(driver, o, workdir, tag, which, tries=3):
    """Re-run a failing script alone in fresh processes.  Returns (is_violation, message, replay_text)."""
    s, cfg = o.s, dict(o.cfg)
    cfg.setdefault("tq", 5)
    fails = 0
    msgs = []
    tq = cfg["tq"]
    ran = 0
    for n in range(tries):
        if o.status == "hang":
            tq = cfg["tq"] * (2 ** n)
        one = run_batch(driver, cfg, [s], workdir, "%s_c%d" % (tag, n), which, tq=tq)[0]
        ran += 1
        if one.status in ("violation", "crash", "hang"):
            fails += 1
            msgs.append("%s: %s" % (one.status, "; ".join(one.msgs)[:500]))
            if o.status != "hang":
                break                      # reproduced alone: that is all the replay has to show
        else:
            if one.status == "inconclusive":
                msgs.append("inconclusive: " + "; ".join(one.msgs)[:200])
            if o.status == "hang":
                break                      # a hang counts only if every solitary replay hangs too (DESIGN 4.1)
    tries = ran if o.status != "hang" else tries
    note = "found as: %s: %s\nalone: failed %d of %d fresh runs" % (o.status, " | ".join(o.msgs)[:600], fails, tries)
    if o.status == "hang":
        ok = fails == tries        # DESIGN 4.1: a hang counts only if every replay is quiescent-incomplete
        if not ok:
            return False, "hang not confirmed (%d of %d replays)" % (fails, tries), None
        return True, "%s [confirmed in %d/%d solitary replays with tq doubled each time]" % (o.msgs[0], fails, tries), file_text(cfg, [s], note)
    if fails:
        return True, "%s [reproduced alone in %d of %d fresh processes: %s]" % ("; ".join(o.msgs)[:500], fails, tries, msgs[0][:300]), file_text(cfg, [s], note)
    # value / crash failure seen inside a batch but not alone: the batch prefix is the replay (same context, many epochs)
    pre = getattr(o, "prefix", None)
    if pre and len(pre) > 1:
        again = run_batch(driver, cfg, pre, workdir, tag + "_pre", which)
        if again[-1].status in ("violation", "crash", "hang"):
            return True, "%s [only inside its batch: reproduced with the %d preceding scripts of the same process]" % (
                "; ".join(o.msgs)[:500], len(pre) - 1), file_text(cfg, pre, note)
    if o.status == "violation":
        # the oracle is sound: a wrong value observed once is a violation even if timing hides it later
        return True, "%s [seen once; 0 of %d solitary replays failed]" % ("; ".join(o.msgs)[:500], tries), file_text(cfg, pre or [s], note)
    return False, "crash not reproduced", None


def replay_file(path, which, tries=3):
    driver = build_driver()
    cfg, scripts_ = parse_file(open(path).read())
    wd = os.path.join(core.run_dir("E6replay"), hashlib.sha1(path.encode()).hexdigest()[:8])
    bad = []
    for n in range(tries):
        outs = run_batch(driver, cfg, scripts_, wd, "rp%d" % n, which, tq=cfg.get("tq", 5))
        for i, o in enumerate(outs):
            if o.status in ("violation", "crash", "hang"):
                bad.append("run %d script %d: %s: %s" % (n, i, o.status, "; ".join(o.msgs)[:600]))
    return (not bad), ("\n".join(bad[:4]) if bad else "all %d runs passed" % tries)


def fingerprint(s):
    return hashlib.sha1(script_text(s).encode()).hexdigest()
