"""Validity checker for E6 scripts (the generator's preconditions, re-stated independently) and a greedy
delta-debugging minimiser for failing scripts.

  python3-vt harness/C03/dtdmin.py <replay.txt> <out.txt> [runs-per-candidate] [match-substring]
"""
import copy
import os
import sys

sys.path.insert(0, os.path.join(os.path.dirname(os.path.abspath(__file__)), "..", "..", "lib", "py"))
sys.path.insert(0, os.path.dirname(os.path.abspath(__file__)))
import dtdgen as g  # noqa: E402


def valid(s, multiuse=None):
    """None if the script respects every documented precondition, else a reason string."""
    multiuse = g.MULTIUSE if multiuse is None else multiuse
    P, n = s["ranks"], s["ntiles"]
    state = ["free"] * n
    locked = [None] * n
    pools = {}            # p -> "clean" (just waited / new) | "dirty"
    seen_tids = set()
    ins_seg = {}
    maxins = 0

    def check_task(t, allowed, depth):
        if t["tid"] in seen_tids:
            return "duplicate tid"
        seen_tids.add(t["tid"])
        if not (1 <= len(t["flows"]) <= 6):
            return "nflows"
        per = {}
        naff = 0
        for (k, m, a) in t["flows"]:
            if not (0 <= k < n) or m not in (1, 2, 3):
                return "bad flow"
            if allowed is not None and k not in allowed:
                return "task %d touches tile %d outside its allowed set" % (t["tid"], k)
            per.setdefault(k, []).append("R" if m == 1 else "W")
            naff += a
        for k, pat in per.items():
            if len(pat) > 1:
                if not multiuse:
                    return "repeated tile (excluded known finding)"
                if pat not in (["R", "R"], ["R", "W"], ["W", "R"], ["R", "R", "W"], ["R", "R", "R"], ["W", "W"]):
                    return "unsupported multiplicity"
        if P > 1:
            if t["sub"] >= 0:
                return "inserter task on several ranks"
            if t["affkind"] == 1 and naff != 1:
                return "affinity flags"
            if t["affkind"] not in (1, 2):
                return "no affinity on several ranks"
        if t["affkind"] != 1 and naff:
            return "aff flag without affkind 1"
        if t["affkind"] == 1 and naff != 1:
            return "affkind 1 needs exactly one flagged flow"
        if t["sub"] >= 0:
            if depth >= 3:
                return "nesting"
            if t["sub"] not in s["subs"]:
                return "missing sub"
            cur = None
            banned = set()
            for u in s["subs"][t["sub"]]:
                for (k, m, a) in u["flows"]:
                    if k in banned:
                        return "sub task %d touches a tile its sibling's sub-script inserts on" % u["tid"]
                r = check_task(u, allowed, depth + 1)
                if r:
                    return r
                if u["sub"] >= 0:
                    banned |= sub_tiles(s, u)
        return None

    for it in s["items"]:
        op = it[0]
        if op == "P":
            if it[1] in pools or not (0 <= it[1] < 4):
                return "pool reuse"
            pools[it[1]] = "clean"
            ins_seg[it[1]] = 0
            continue
        if op == "C":
            if any(isinstance(x, tuple) and x[0] == "held" for x in state):
                return "context_wait with unflushed tiles"
            if any(l is not None for l in locked):
                return "context_wait with running inserters not waited (flush would race)"
            state = ["free"] * n
            for p in pools:
                pools[p] = "clean"
                ins_seg[p] = 0
            continue
        if op == "D":
            continue
        p = it[1] if op != "T" else it[1]["pool"]
        if p not in pools:
            return "pool %s not live" % p
        if op == "T":
            t = it[1]
            mine = set(k for (k, m, a) in t["flows"])
            st_ = sub_tiles(s, t)
            for k in mine | st_:
                if not (0 <= k < n):
                    return "tile range"
                if locked[k] is not None:
                    return "task %d uses tile %d while an inserter task may still insert on it" % (t["tid"], k)
                if not (state[k] == "free" or state[k] == ("held", p)):
                    return "task %d uses tile %d in state %s" % (t["tid"], k, state[k])
            r = check_task(t, None, 0)
            if r:
                return r
            for k in mine | st_:
                state[k] = ("held", p)
            for k in st_:
                locked[k] = p
            if t["sub"] >= 0:
                ins_seg[p] += 1 + sum(1 for u in g.all_sub(s, t) if u["sub"] >= 0)
                maxins = max(maxins, ins_seg[p])
            pools[p] = "dirty"
        elif op == "F":
            k = it[2]
            if locked[k] is not None:
                return "flush of a tile an inserter may still use"
            if state[k] == ("held", p):
                state[k] = ("pending", p)
            elif state[k] != "free":
                return "flush of tile %d in state %s by pool %d" % (k, state[k], p)
            pools[p] = "dirty"
        elif op == "A":
            for k in range(n):
                if locked[k] is not None:
                    return "flush_all with running inserters"
                if isinstance(state[k], tuple) and state[k][0] == "held":
                    if state[k][1] != p:
                        return "flush_all while another pool holds tile %d" % k
                    state[k] = ("pending", p)
            pools[p] = "dirty"
        elif op == "W":
            if P > 1 and any(state[k] == ("held", p) for k in range(n)):
                return "taskpool_wait on several ranks with unflushed tiles"
            for k in range(n):
                if state[k] == ("pending", p):
                    state[k] = "free"
                if locked[k] == p:
                    locked[k] = None
            pools[p] = "clean"
            ins_seg[p] = 0
        elif op == "X":
            if pools[p] != "clean":
                return "free of pool %d not directly after a wait" % p
            if any(isinstance(x, tuple) and x[1] == p for x in state):
                return "free of pool %d with unflushed tiles" % p
            del pools[p]
        else:
            return "op"
    if pools:
        return "pool not freed"
    if maxins and s["window"] > 0 and not g.SUBWINDOW_OK:
        return "explicit window with inserter tasks (excluded known finding)"
    if maxins and s["window"] > 0 and 0 <= s["threshold"] < maxins + 1:
        return "threshold too small for blocked inserter tasks"
    if s["window"] > 0 and s["threshold"] >= s["window"]:
        return "threshold >= window"
    return None


def sub_tiles(s, t):
    acc = set()
    for u in g.all_sub(s, t):
        for (k, m, a) in u["flows"]:
            acc.add(k)
    return acc


# ----------------------------------------------------------------------------------------------- minimiser

def candidates(s):
    """Yield smaller variants of s (most aggressive first)."""
    n = len(s["items"])
    # drop chunks of items
    size = n // 2
    while size >= 1:
        for i in range(0, n, size):
            c = copy.deepcopy(s)
            del c["items"][i:i + size]
            yield c
        size //= 2
    for i, it in enumerate(s["items"]):
        if it[0] != "T":
            continue
        t = it[1]
        if t["sub"] >= 0:
            c = copy.deepcopy(s)
            c["items"][i][1]["sub"] = -1
            yield c
        for f in range(len(t["flows"])):
            if len(t["flows"]) > 1:
                c = copy.deepcopy(s)
                fl = list(c["items"][i][1]["flows"])
                del fl[f]
                c["items"][i][1]["flows"] = fl
                if c["items"][i][1]["affkind"] == 1 and not any(a for (_, _, a) in fl):
                    fl[0] = (fl[0][0], fl[0][1], 1)
                yield c
        for key, zero in (("spin", 0), ("again", 0), ("prio", 0)):
            if t[key] != zero:
                c = copy.deepcopy(s)
                c["items"][i][1][key] = zero
                yield c
    for idx in list(s["subs"]):
        body = s["subs"][idx]
        for j in range(len(body)):
            c = copy.deepcopy(s)
            del c["subs"][idx][j]
            yield c
            u = body[j]
            if u["sub"] >= 0:
                c = copy.deepcopy(s)
                c["subs"][idx][j]["sub"] = -1
                yield c
            for f in range(len(u["flows"])):
                if len(u["flows"]) > 1:
                    c = copy.deepcopy(s)
                    fl = list(c["subs"][idx][j]["flows"])
                    del fl[f]
                    c["subs"][idx][j]["flows"] = fl
                    yield c
            for key in ("spin", "again", "prio"):
                if u[key]:
                    c = copy.deepcopy(s)
                    c["subs"][idx][j][key] = 0
                    yield c
    if s["window"] != 0 or s["threshold"] != -1:
        c = copy.deepcopy(s)
        c["window"], c["threshold"] = 0, -1
        yield c
    if s["ntiles"] > 1:
        used = set()
        for t in g.all_tasks(s):
            for (k, m, a) in t["flows"]:
                used.add(k)
        if s["ranks"] == 1 and (max(used) if used else 0) < s["ntiles"] - 1:
            c = copy.deepcopy(s)
            c["ntiles"] = (max(used) if used else 0) + 1
            c["init"] = c["init"][:c["ntiles"]]
            yield c


def gc_subs(s):
    """drop unreferenced sub-scripts (keeps indices)"""
    ref = set()
    for t in g.all_tasks(s):
        if t["sub"] >= 0:
            ref.add(t["sub"])
    for idx in list(s["subs"]):
        if idx not in ref:
            del s["subs"][idx]
    return s


def minimise(cfg, s, fails, log=print):
    assert fails(cfg, s), "the script does not fail"
    changed = True
    while changed:
        changed = False
        for c in candidates(s):
            gc_subs(c)
            if valid(c) is not None:
                continue
            if fails(cfg, c):
                s = c
                changed = True
                log("  -> %d items, %d tasks" % (len(s["items"]), len(g.all_tasks(s))))
                break
    for th in (1, 2):
        if cfg["threads"] > th:
            c2 = dict(cfg, threads=th)
            if fails(c2, s):
                cfg = c2
                break
    return cfg, s


def main():
    path, out = sys.argv[1], sys.argv[2]
    runs = int(sys.argv[3]) if len(sys.argv) > 3 else 2
    match = sys.argv[4] if len(sys.argv) > 4 else None
    cfg, ss = g.parse_file(open(path).read())
    assert len(ss) == 1, "minimiser handles single-script files"
    drv = g.build_driver()
    wd = "/tmp/hE6-min-%d" % os.getpid()
    which = {"values", "exclusion", "flush"}

    def fails(cfg_, s_):
        for _ in range(runs):
            o = g.run_batch(drv, cfg_, [s_], wd, "m", which, tq=int(os.environ.get("VF_MIN_TQ", "3")))[0]
            if o.status in ("violation", "crash", "hang") and (match is None or match in " ".join(o.msgs)):
                return True
        return False
    r = valid(ss[0])
    if r:
        print("input script is not valid: " + r)
    cfg, s = minimise(cfg, ss[0], fails)
    open(out, "w").write(g.file_text(cfg, [s], "minimised from %s" % os.path.basename(path)))
    print(open(out).read())
    import shutil
    shutil.rmtree(wd, ignore_errors=True)


if __name__ == "__main__":
    main()
