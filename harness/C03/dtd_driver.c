/* dtd_driver -- engine E6: interpreter of generated DTD insertion scripts (whole-runtime runs).
 *
 *   dtd_driver <scripts.txt> <out-prefix> <threads> <tq_seconds>
 *
 * Runs every script of the file in turn inside ONE parsec context (new taskpools / data collection per
 * script), SPMD on all ranks.  Writes <out-prefix>.r<rank>.log with, per script, the values each locally
 * executed task observed, execution stamps, the per-tile occupancy anomalies seen by the bodies (C04) and
 * the owner's tile contents after each flush+wait (C03/C17).  The oracle lives in Python (dtdgen.py).
 *
 * Script text (all integers):
 *   S sid ntiles window threshold flags      start of script (window/threshold <= 0: keep default)
 *   I tile value                             initial content of a tile (set by its owner)
 *   B sub n                                  the next n 'T' lines define sub-script `sub` (inserted by a task body)
 *   T tid pool prio spin again affkind affarg sub nflows {tile mode aff}*nflows
 *        mode 1=INPUT 2=OUTPUT 3=INOUT; affkind 0 none, 1 AFFINITY flag on the flow(s) with aff=1,
 *        2 = extra PARSEC_VALUE|PARSEC_AFFINITY parameter holding rank affarg; sub = -1 or sub-script id
 *   P pool        new DTD taskpool + parsec_context_add_taskpool
 *   F pool tile   parsec_dtd_data_flush          A pool   parsec_dtd_data_flush_all
 *   W pool        parsec_taskpool_wait           X pool   parsec_taskpool_free
 *   C             parsec_context_wait + parsec_context_start (new epoch)
 *   D rank usec   rank `rank` sleeps usec before the next item
 *   Z             end of script (driver does context_wait)
 *
 * Exit status: 0 all scripts ran to completion; 3 watchdog: quiescent with expected task executions missing
 * (line 'H' in the log names them); 4 watchdog: no progress although nothing is missing (inconclusive);
 * anything else: crash.
 */
#include "parsec/runtime.h"
#include "parsec/data_dist/matrix/two_dim_rectangle_cyclic.h"
#include "parsec/interfaces/dtd/insert_function.h"
#include "parsec/utils/debug.h"
#include <mpi.h>
#include <pthread.h>
#include <stdint.h>
#include <stdio.h>
#include <stdlib.h>
#include <string.h>
#include <unistd.h>

#define MAXF 6
#define MAXT 8
#define MAXPOOL 4

struct script_s;
typedef struct task_s {
    int tid, pool, prio, spin, again, affkind, affarg, sub, nflows;
    int tile[MAXF], mode[MAXF], aff[MAXF];
    struct script_s *script;
    /* run time */
    int count, again_left, inserted, local, exec_rank, nreads, viol, overlap;
    uint32_t reads[MAXF];
    long seq_in, seq_out;
} task_t;

typedef struct { char op; int a, b; } item_t;
typedef struct { int n; int *tids; } sub_t;

typedef struct script_s {
    int sid, ntiles, window, threshold, flags;
    uint32_t init[MAXT];
    int nitems, ntasks, nsubs;
    item_t *items;
    task_t *tasks;
    sub_t *subs;
    parsec_dtd_tile_t *th[MAXT];
    int pending[MAXT];            /* pool that flushed the tile and has not waited yet, or -1 */
    parsec_taskpool_t *pools[MAXPOOL];
    int readers[MAXT], writers[MAXT];
    parsec_data_collection_t *dc;
} script_t;

static int g_rank, g_world, g_tq = 5, TILE_FULL;
static parsec_context_t *g_ctx;
static FILE *g_log;
static long g_seq, g_progress;
static int g_in_body, g_cur_item = -1;
static script_t *volatile g_cur;

static uint32_t H(uint32_t tid, uint32_t flow, const uint32_t *r, int n)
{
    uint32_t h = 0x9e3779b9u ^ (tid * 0x85ebca6bu) ^ (flow * 0xc2b2ae35u);
    for (int i = 0; i < n; i++) {
        h = (h ^ r[i]) * 0x01000193u;
        h ^= h >> 15;
    }
    h *= 0x2c1b3c6du;
    h ^= h >> 12;
    return h;
}

static int task_rank(const task_t *t)
{
    if (g_world == 1) return 0;
    if (t->affkind == 2) return ((t->affarg % g_world) + g_world) % g_world;
    for (int f = 0; f < t->nflows; f++)
        if (t->aff[f]) return t->tile[f] % g_world;
    return -1;
}

static int body_plain(parsec_execution_stream_t *es, parsec_task_t *this_task);
static int body_rank(parsec_execution_stream_t *es, parsec_task_t *this_task);

static void acquire_tiles(script_t *S, const task_t *t)
{
    for (int f = 0; f < t->nflows; f++) {
        int k = t->tile[f];
        if (NULL == S->th[k])
            S->th[k] = PARSEC_DTD_TILE_OF_KEY(S->dc, S->dc->data_key(S->dc, k, 0));
    }
    if (t->sub >= 0)
        for (int i = 0; i < S->subs[t->sub].n; i++)
            acquire_tiles(S, &S->tasks[S->subs[t->sub].tids[i]]);
}

static void insert_one(parsec_taskpool_t *tp, script_t *S, task_t *t)
{
    int fl[MAXF];
    parsec_dtd_tile_t *tl[MAXF];
    for (int f = 0; f < t->nflows; f++) {
        fl[f] = (t->mode[f] == 1 ? PARSEC_INPUT : t->mode[f] == 2 ? PARSEC_OUTPUT : PARSEC_INOUT) | TILE_FULL
                | ((t->affkind == 1 && t->aff[f]) ? PARSEC_AFFINITY : 0);
        tl[f] = S->th[t->tile[f]];
    }
    int rk = task_rank(t);
    t->local = (rk == g_rank);
    __atomic_store_n(&t->inserted, 1, __ATOMIC_SEQ_CST);
    __atomic_fetch_add(&g_progress, 1, __ATOMIC_SEQ_CST);
#define TR(i) PASSED_BY_REF, tl[i], fl[i]
#define HEAD0 tp, body_plain, t->prio, PARSEC_DEV_CPU, "G", (int)sizeof(task_t *), &t, PARSEC_VALUE
#define HEAD1 tp, body_rank, t->prio, PARSEC_DEV_CPU, "GR", (int)sizeof(task_t *), &t, PARSEC_VALUE, \
              (int)sizeof(int), &rk, PARSEC_VALUE | PARSEC_AFFINITY
#define END PARSEC_DTD_ARG_END
    if (t->affkind != 2) {
        switch (t->nflows) {
        case 1: parsec_dtd_insert_task(HEAD0, TR(0), END); break;
        case 2: parsec_dtd_insert_task(HEAD0, TR(0), TR(1), END); break;
        case 3: parsec_dtd_insert_task(HEAD0, TR(0), TR(1), TR(2), END); break;
        case 4: parsec_dtd_insert_task(HEAD0, TR(0), TR(1), TR(2), TR(3), END); break;
        case 5: parsec_dtd_insert_task(HEAD0, TR(0), TR(1), TR(2), TR(3), TR(4), END); break;
        default: parsec_dtd_insert_task(HEAD0, TR(0), TR(1), TR(2), TR(3), TR(4), TR(5), END); break;
        }
    } else {
        switch (t->nflows) {
        case 1: parsec_dtd_insert_task(HEAD1, TR(0), END); break;
        case 2: parsec_dtd_insert_task(HEAD1, TR(0), TR(1), END); break;
        case 3: parsec_dtd_insert_task(HEAD1, TR(0), TR(1), TR(2), END); break;
        case 4: parsec_dtd_insert_task(HEAD1, TR(0), TR(1), TR(2), TR(3), END); break;
        case 5: parsec_dtd_insert_task(HEAD1, TR(0), TR(1), TR(2), TR(3), TR(4), END); break;
        default: parsec_dtd_insert_task(HEAD1, TR(0), TR(1), TR(2), TR(3), TR(4), TR(5), END); break;
        }
    }
}

static int body_common(parsec_task_t *this_task, task_t *t, int **p)
{
    script_t *S = t->script;
    if (t->again_left > 0) {              /* body kind "retry": no side effect before the last attempt */
        t->again_left--;
        return PARSEC_HOOK_RETURN_AGAIN;
    }
    __atomic_fetch_add(&g_in_body, 1, __ATOMIC_SEQ_CST);
    int c = __atomic_fetch_add(&t->count, 1, __ATOMIC_SEQ_CST);
    if (c > 0) {                          /* executed twice: reported from the count; keep the first record */
        __atomic_fetch_add(&g_in_body, -1, __ATOMIC_SEQ_CST);
        return PARSEC_HOOK_RETURN_DONE;
    }
    t->exec_rank = g_rank;
    t->seq_in = __atomic_fetch_add(&g_seq, 1, __ATOMIC_SEQ_CST);
    /* distinct tiles of this task and whether the task writes them */
    int nk = 0, kt[MAXF], kw[MAXF];
    for (int f = 0; f < t->nflows; f++) {
        int j;
        for (j = 0; j < nk && kt[j] != t->tile[f]; j++) ;
        if (j == nk) { kt[nk] = t->tile[f]; kw[nk] = 0; nk++; }
        if (t->mode[f] & 2) kw[j] = 1;
    }
    int viol = 0, overlap = 0;
    /* a repeated tile may come with a NULL pointer on its later parameters (data_in not forwarded before the
     * body runs): fall back to the pointer of another parameter on the same tile and report it (bit 128) */
    for (int f = 0; f < t->nflows; f++)
        if (NULL == p[f]) {
            for (int g = 0; g < t->nflows; g++)
                if (g != f && t->tile[g] == t->tile[f] && NULL != p[g]) { p[f] = p[g]; break; }
            viol |= (NULL == p[f]) ? 256 : 128;
        }
    if (viol & 256) {                     /* no usable pointer at all: cannot run the body */
        t->viol = viol;
        t->seq_out = __atomic_fetch_add(&g_seq, 1, __ATOMIC_SEQ_CST);
        __atomic_fetch_add(&g_progress, 1, __ATOMIC_SEQ_CST);
        __atomic_fetch_add(&g_in_body, -1, __ATOMIC_SEQ_CST);
        return PARSEC_HOOK_RETURN_DONE;
    }
    for (int j = 0; j < nk; j++) {
        if (kw[j]) {
            int pw = __atomic_fetch_add(&S->writers[kt[j]], 1, __ATOMIC_SEQ_CST);
            int pr = __atomic_load_n(&S->readers[kt[j]], __ATOMIC_SEQ_CST);
            if (pw) viol |= 1;            /* writer entered while another writer is inside */
            if (pr) viol |= 2;            /* writer entered while a reader is inside */
        } else {
            int pr = __atomic_fetch_add(&S->readers[kt[j]], 1, __ATOMIC_SEQ_CST);
            int pw = __atomic_load_n(&S->writers[kt[j]], __ATOMIC_SEQ_CST);
            if (pr >= 1) overlap = 1;
            if (pw) viol |= 4;            /* reader entered while a writer is inside */
        }
    }
    t->nreads = 0;
    for (int f = 0; f < t->nflows; f++)
        if (t->mode[f] & 1) t->reads[t->nreads++] = *(volatile uint32_t *)p[f];
    for (int i = 0; i < t->spin; i++) {
        for (int j = 0; j < nk; j++) {
            int r = __atomic_load_n(&S->readers[kt[j]], __ATOMIC_SEQ_CST);
            int w = __atomic_load_n(&S->writers[kt[j]], __ATOMIC_SEQ_CST);
            if (kw[j]) {
                if (w != 1) viol |= 8;    /* second writer appeared during a writer's body */
                if (r != 0) viol |= 16;   /* reader appeared during a writer's body */
            } else {
                if (w != 0) viol |= 32;   /* writer appeared during a reader's body */
                if (r >= 2) overlap = 1;
            }
        }
    }
    for (int f = 0, n = 0; f < t->nflows; f++)
        if (t->mode[f] & 1)
            if (*(volatile uint32_t *)p[f] != t->reads[n++]) viol |= 64;   /* input changed under the reader */
    for (int f = 0; f < t->nflows; f++)
        if (t->mode[f] & 2) *(volatile uint32_t *)p[f] = H((uint32_t)t->tid, (uint32_t)f, t->reads, t->nreads);
    if (t->sub >= 0) {
        sub_t *sb = &S->subs[t->sub];
        for (int i = 0; i < sb->n; i++)
            insert_one(this_task->taskpool, S, &S->tasks[sb->tids[i]]);
    }
    for (int j = 0; j < nk; j++) {
        if (kw[j]) __atomic_fetch_add(&S->writers[kt[j]], -1, __ATOMIC_SEQ_CST);
        else __atomic_fetch_add(&S->readers[kt[j]], -1, __ATOMIC_SEQ_CST);
    }
    t->viol = viol;
    t->overlap = overlap;
    t->seq_out = __atomic_fetch_add(&g_seq, 1, __ATOMIC_SEQ_CST);
    __atomic_fetch_add(&g_progress, 1, __ATOMIC_SEQ_CST);
    __atomic_fetch_add(&g_in_body, -1, __ATOMIC_SEQ_CST);
    return PARSEC_HOOK_RETURN_DONE;
}

static int body_plain(parsec_execution_stream_t *es, parsec_task_t *this_task)
{
    task_t *t = NULL;
    int *p[MAXF] = {0};
    (void)es;
    parsec_dtd_unpack_args(this_task, &t, &p[0], &p[1], &p[2], &p[3], &p[4], &p[5]);
    return body_common(this_task, t, p);
}

static int body_rank(parsec_execution_stream_t *es, parsec_task_t *this_task)
{
    task_t *t = NULL;
    int rk, *p[MAXF] = {0};
    (void)es;
    parsec_dtd_unpack_args(this_task, &t, &rk, &p[0], &p[1], &p[2], &p[3], &p[4], &p[5]);
    return body_common(this_task, t, p);
}

/* ------------------------------------------------------------------ data collection */

static parsec_data_collection_t *make_dc(int nt)
{
    parsec_matrix_block_cyclic_t *m = (parsec_matrix_block_cyclic_t *)malloc(sizeof(parsec_matrix_block_cyclic_t));
    parsec_matrix_block_cyclic_init(m, PARSEC_MATRIX_INTEGER, PARSEC_MATRIX_TILE, g_rank, 1, 1, nt, 1, 0, 0, nt, 1,
                                    g_world, 1, 1, 1, 0, 0);
    m->mat = parsec_data_allocate((size_t)m->super.nb_local_tiles * (size_t)m->super.bsiz *
                                  (size_t)parsec_datadist_getsizeoftype(m->super.mtype));
    parsec_data_collection_set_key((parsec_data_collection_t *)m, "A");
    return (parsec_data_collection_t *)m;
}

static void free_dc(parsec_data_collection_t *dc)
{
    parsec_matrix_block_cyclic_t *m = (parsec_matrix_block_cyclic_t *)dc;
    if (NULL != m->mat) parsec_data_free(m->mat);
    parsec_tiled_matrix_destroy((parsec_tiled_matrix_t *)dc);
    free(dc);
}

static uint32_t *tile_ptr(parsec_data_collection_t *dc, int k)
{
    parsec_data_t *d = dc->data_of_key(dc, dc->data_key(dc, k, 0));
    parsec_data_copy_t *c = parsec_data_get_copy(d, 0);
    return (uint32_t *)parsec_data_copy_get_ptr(c);
}

/* ------------------------------------------------------------------ parsing */

static char *g_txt;
static size_t g_pos, g_len;

static int next_tok(char *buf, int n)
{
    while (g_pos < g_len && (g_txt[g_pos] == ' ' || g_txt[g_pos] == '\n' || g_txt[g_pos] == '\t' || g_txt[g_pos] == '\r')) g_pos++;
    if (g_pos < g_len && g_txt[g_pos] == '#') {
        while (g_pos < g_len && g_txt[g_pos] != '\n') g_pos++;
        return next_tok(buf, n);
    }
    if (g_pos >= g_len) return 0;
    int i = 0;
    while (g_pos < g_len && !(g_txt[g_pos] == ' ' || g_txt[g_pos] == '\n' || g_txt[g_pos] == '\t' || g_txt[g_pos] == '\r')) {
        if (i < n - 1) buf[i++] = g_txt[g_pos];
        g_pos++;
    }
    buf[i] = 0;
    return 1;
}

static long next_int(void)
{
    char b[64];
    if (!next_tok(b, sizeof b)) { fprintf(stderr, "dtd_driver: truncated script\n"); exit(2); }
    return strtol(b, NULL, 10);
}

static int parse_task(script_t *S, int cap)
{
    int tid = (int)next_int();
    if (tid < 0 || tid >= cap) { fprintf(stderr, "dtd_driver: bad tid %d\n", tid); exit(2); }
    task_t *t = &S->tasks[tid];
    memset(t, 0, sizeof *t);
    t->tid = tid; t->script = S;
    t->pool = (int)next_int(); t->prio = (int)next_int(); t->spin = (int)next_int(); t->again = (int)next_int();
    t->affkind = (int)next_int(); t->affarg = (int)next_int(); t->sub = (int)next_int(); t->nflows = (int)next_int();
    if (t->nflows < 1 || t->nflows > MAXF) { fprintf(stderr, "dtd_driver: bad nflows\n"); exit(2); }
    for (int f = 0; f < t->nflows; f++) {
        t->tile[f] = (int)next_int(); t->mode[f] = (int)next_int(); t->aff[f] = (int)next_int();
        if (t->tile[f] < 0 || t->tile[f] >= S->ntiles || t->mode[f] < 1 || t->mode[f] > 3) { fprintf(stderr, "dtd_driver: bad flow\n"); exit(2); }
    }
    t->again_left = t->again;
    if (tid + 1 > S->ntasks) S->ntasks = tid + 1;
    return tid;
}

/* parse one script starting after the 'S' token; returns NULL at end of file */
static script_t *parse_script(void)
{
    char b[64];
    if (!next_tok(b, sizeof b)) return NULL;
    if (b[0] != 'S') { fprintf(stderr, "dtd_driver: expected S, got %s\n", b); exit(2); }
    script_t *S = (script_t *)calloc(1, sizeof *S);
    S->sid = (int)next_int(); S->ntiles = (int)next_int(); S->window = (int)next_int();
    S->threshold = (int)next_int(); S->flags = (int)next_int();
    if (S->ntiles < 1 || S->ntiles > MAXT) { fprintf(stderr, "dtd_driver: bad ntiles\n"); exit(2); }
    int cap = 4096;
    S->items = (item_t *)calloc(cap, sizeof(item_t));
    S->tasks = (task_t *)calloc(cap, sizeof(task_t));
    S->subs = (sub_t *)calloc(256, sizeof(sub_t));
    for (;;) {
        if (!next_tok(b, sizeof b)) { fprintf(stderr, "dtd_driver: missing Z\n"); exit(2); }
        char op = b[0];
        if (op == 'Z') break;
        if (S->nitems >= cap - 1) { fprintf(stderr, "dtd_driver: script too long\n"); exit(2); }
        if (op == 'I') { int k = (int)next_int(); S->init[k % MAXT] = (uint32_t)next_int(); continue; }
        if (op == 'B') {
            int s = (int)next_int(), n = (int)next_int();
            if (s < 0 || s >= 256) { fprintf(stderr, "dtd_driver: bad sub\n"); exit(2); }
            S->subs[s].n = n; S->subs[s].tids = (int *)calloc(n > 0 ? n : 1, sizeof(int));
            if (s + 1 > S->nsubs) S->nsubs = s + 1;
            for (int i = 0; i < n; i++) {
                next_tok(b, sizeof b);          /* the 'T' */
                S->subs[s].tids[i] = parse_task(S, cap);
            }
            continue;
        }
        item_t *it = &S->items[S->nitems++];
        it->op = op;
        switch (op) {
        case 'T': it->a = parse_task(S, cap); break;
        case 'P': case 'A': case 'W': case 'X': it->a = (int)next_int(); break;
        case 'F': case 'D': it->a = (int)next_int(); it->b = (int)next_int(); break;
        case 'C': break;
        default: fprintf(stderr, "dtd_driver: unknown op %s\n", b); exit(2);
        }
    }
    return S;
}

/* ------------------------------------------------------------------ watchdog */

static void *watchdog(void *arg)
{
    long last = -1;
    int still = 0;                        /* in 100 ms units */
    (void)arg;
    for (;;) {
        usleep(100000);
        script_t *S = g_cur;
        long p = __atomic_load_n(&g_progress, __ATOMIC_SEQ_CST);
        if (NULL == S || p != last) { last = p; still = 0; continue; }
        still++;
        if (still < g_tq * 10) continue;
        int missing = 0;
        for (int i = 0; i < S->ntasks; i++)
            if (S->tasks[i].nflows && __atomic_load_n(&S->tasks[i].inserted, __ATOMIC_SEQ_CST) && S->tasks[i].local &&
                0 == __atomic_load_n(&S->tasks[i].count, __ATOMIC_SEQ_CST)) missing++;
        if (missing == 0 && still < g_tq * 40) continue;
        fprintf(g_log, "H %d %d %d %d", S->sid, g_cur_item, __atomic_load_n(&g_in_body, __ATOMIC_SEQ_CST), missing);
        for (int i = 0; i < S->ntasks; i++)
            if (S->tasks[i].nflows && S->tasks[i].inserted && S->tasks[i].local && 0 == S->tasks[i].count) fprintf(g_log, " %d", i);
        fprintf(g_log, "\n");
        fflush(g_log);
        fprintf(stderr, "dtd_driver[%d]: watchdog: script %d item %d: no progress for %d s, %d expected task execution(s) missing\n",
                g_rank, S->sid, g_cur_item, still / 10, missing);
        _exit(missing ? 3 : 4);
    }
    return NULL;
}

/* ------------------------------------------------------------------ running */

static void log_pending(script_t *S, int pool)
{
    for (int k = 0; k < S->ntiles; k++)
        if (S->pending[k] >= 0 && (pool < 0 || S->pending[k] == pool)) {
            if (k % g_world == g_rank) fprintf(g_log, "M %d %d %u\n", g_cur_item, k, *tile_ptr(S->dc, k));
            S->pending[k] = -1;
        }
}

static void run_script(script_t *S)
{
    int rc;
    fprintf(g_log, "R %d\n", S->sid);
    fflush(g_log);
    if (S->window > 0) parsec_dtd_window_size = S->window;
    else parsec_dtd_window_size = 8000;
    if (S->threshold >= 0) parsec_dtd_threshold_size = S->threshold;
    else parsec_dtd_threshold_size = 4000;
    S->dc = make_dc(S->ntiles);
    parsec_dtd_data_collection_init(S->dc);
    for (int k = 0; k < S->ntiles; k++) {
        S->pending[k] = -1;
        if (k % g_world == g_rank) *tile_ptr(S->dc, k) = S->init[k];
    }
    g_cur_item = -1;
    g_cur = S;
    rc = parsec_context_start(g_ctx);
    (void)rc;
    for (int i = 0; i < S->nitems; i++) {
        item_t *it = &S->items[i];
        g_cur_item = i;
        __atomic_fetch_add(&g_progress, 1, __ATOMIC_SEQ_CST);
        switch (it->op) {
        case 'P':
            S->pools[it->a] = parsec_dtd_taskpool_new();
            rc = parsec_context_add_taskpool(g_ctx, S->pools[it->a]);
            PARSEC_CHECK_ERROR(rc, "parsec_context_add_taskpool");
            break;
        case 'T': {
            task_t *t = &S->tasks[it->a];
            acquire_tiles(S, t);
            insert_one(S->pools[t->pool], S, t);
            break;
        }
        case 'F':
            if (NULL != S->th[it->b]) {
                parsec_dtd_data_flush(S->pools[it->a], S->th[it->b]);
                S->th[it->b] = NULL;
                S->pending[it->b] = it->a;
            }
            break;
        case 'A':
            parsec_dtd_data_flush_all(S->pools[it->a], S->dc);
            for (int k = 0; k < S->ntiles; k++)
                if (NULL != S->th[k]) { S->th[k] = NULL; S->pending[k] = it->a; }
            break;
        case 'W':
            rc = parsec_taskpool_wait(S->pools[it->a]);
            PARSEC_CHECK_ERROR(rc, "parsec_taskpool_wait");
            log_pending(S, it->a);
            break;
        case 'X':
            parsec_taskpool_free(S->pools[it->a]);
            S->pools[it->a] = NULL;
            break;
        case 'C':
            rc = parsec_context_wait(g_ctx);
            PARSEC_CHECK_ERROR(rc, "parsec_context_wait");
            log_pending(S, -1);
            rc = parsec_context_start(g_ctx);
            break;
        case 'D':
            if (it->a == g_rank) usleep(it->b);
            break;
        }
    }
    g_cur_item = S->nitems;
    rc = parsec_context_wait(g_ctx);
    PARSEC_CHECK_ERROR(rc, "parsec_context_wait");
    log_pending(S, -1);
    g_cur = NULL;
    for (int i = 0; i < S->ntasks; i++) {
        task_t *t = &S->tasks[i];
        if (0 == t->nflows) continue;
        if (t->count > 0) {
            fprintf(g_log, "T %d %d %d %ld %ld %d %d %d", t->tid, t->count, t->exec_rank, t->seq_in, t->seq_out, t->viol, t->overlap, t->nreads);
            for (int j = 0; j < t->nreads; j++) fprintf(g_log, " %u", t->reads[j]);
            fprintf(g_log, "\n");
        } else if (t->inserted && t->local) {
            fprintf(g_log, "N %d\n", t->tid);        /* inserted here, expected here, never executed although every wait returned */
        }
    }
    for (int k = 0; k < S->ntiles; k++)
        if (k % g_world == g_rank) fprintf(g_log, "E %d %u\n", k, *tile_ptr(S->dc, k));
    /* scripts of one batch are separated by a barrier on several ranks (DTD_DRIVER_NOBARRIER=1 removes it): taskpool
     * termination is local, without it a fast rank tears its collection down while slower ranks still run the script */
    if (g_world > 1 && NULL == getenv("DTD_DRIVER_NOBARRIER")) MPI_Barrier(MPI_COMM_WORLD);
    parsec_dtd_data_collection_fini(S->dc);
    free_dc(S->dc);
    fprintf(g_log, "Z %d\n", S->sid);
    fflush(g_log);
}

int main(int argc, char **argv)
{
    int provided;
    MPI_Init_thread(&argc, &argv, MPI_THREAD_SERIALIZED, &provided);
    MPI_Comm_size(MPI_COMM_WORLD, &g_world);
    MPI_Comm_rank(MPI_COMM_WORLD, &g_rank);
    if (argc < 5) { fprintf(stderr, "usage: dtd_driver scripts out-prefix threads tq\n"); return 2; }
    FILE *f = fopen(argv[1], "r");
    if (!f) { perror(argv[1]); return 2; }
    fseek(f, 0, SEEK_END); g_len = (size_t)ftell(f); fseek(f, 0, SEEK_SET);
    g_txt = (char *)malloc(g_len + 1);
    if (fread(g_txt, 1, g_len, f) != g_len) { perror("read"); return 2; }
    fclose(f);
    char path[4096];
    snprintf(path, sizeof path, "%s.r%d.log", argv[2], g_rank);
    g_log = fopen(path, "w");
    if (!g_log) { perror(path); return 2; }
    int threads = atoi(argv[3]);
    g_tq = atoi(argv[4]);
    if (g_tq < 1) g_tq = 1;
    int pargc = 1;
    char *pargv_s[2] = { argv[0], NULL };
    char **pargv = pargv_s;
    g_ctx = parsec_init(threads, &pargc, &pargv);
    if (NULL == g_ctx) { fprintf(stderr, "parsec_init failed\n"); return 2; }
    parsec_arena_datatype_t *adt = parsec_matrix_adt_new_rect(parsec_datatype_int32_t, 1, 1, 1);
    parsec_dtd_attach_arena_datatype(g_ctx, adt, &TILE_FULL);
    pthread_t wd;
    pthread_create(&wd, NULL, watchdog, NULL);
    script_t *S;
    while (NULL != (S = parse_script())) {
        run_script(S);
        for (int i = 0; i < S->nsubs; i++) free(S->subs[i].tids);
        free(S->subs); free(S->items); free(S->tasks); free(S);
    }
    parsec_dtd_free_arena_datatype(g_ctx, TILE_FULL);
    fprintf(g_log, "Q\n");
    fclose(g_log);
    parsec_fini(&g_ctx);
    MPI_Finalize();
    return 0;
}
