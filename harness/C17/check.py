"""C17 -- DTD data flush returns the last written value to the owner (engine E6 on several ranks, shared with harness/C03)."""
import importlib.util
import os
import sys

from vf import core

sys.path.insert(0, os.path.join(core.VERIF, "harness", "C03"))
import dtdgen as g  # noqa: E402

_spec = importlib.util.spec_from_file_location("check_C03_shared", os.path.join(core.VERIF, "harness", "C03", "check.py"))
c03 = importlib.util.module_from_spec(_spec)
_spec.loader.exec_module(c03)

PROP = "C17"
WHICH = {"flush"}
RULE = ("case = one DTD insertion script (1..24 tasks over 1..6 tiles, block-cyclic owners, random AFFINITY so that writers are "
        "often not the owner, per-rank delays, per-tile flush of a generated subset or flush_all followed by taskpool_wait / "
        "context_wait, tiles re-used after the wait) run SPMD by mpiexec on 2 ranks (3..4 with VF_DTD_RANKS3=1) x 1..4 threads; "
        "oracle = at every wait following a flush the OWNER's copy of each flushed tile (data_of_key) equals the value written by "
        "the last writing task in insertion order (sequential reference); unflushed tiles are not looked at; non-trivial = some "
        "flushed tile's last writer ran on a rank that does not own it; distinct = distinct script texts")
FLOOR_QUICK = 15


def _build():
    return g.build_driver()


def run(tier, seed, res):
    drv = _build()
    quick = tier == "quick"
    res.rule = RULE
    res.assumptions = ["same script preconditions and exclusions as C03 (see evidence/C03.json assumptions)",
                       "on several ranks every wait is preceded by the flush of every tile the taskpool holds (documented: flush before waiting)"]
    batches, stats = c03.plan(tier, seed, "c17", 0, 1, 120 if quick else 2000, 5 if quick else 10, ranks=(2, 4))
    c03.execute(PROP, drv, batches, WHICH, res, lambda s, f, o: s["ranks"] >= 2 and o.facts.get("remote_marks", 0) > 0, max_parallel=4)
    res.coverage.update({"generator_" + k: v for k, v in stats.items()})
    c03.regress(PROP, res, WHICH)
    if quick and res.distinct_nontrivial < FLOOR_QUICK and not res.violations:
        res.inconclusive = "only %d non-trivial scripts (floor %d)" % (res.distinct_nontrivial, FLOOR_QUICK)


def replay(path):
    return g.replay_file(path, WHICH, tries=3)
