"""C41 -- info registries: model-based sequences (rapidcheck) + schedule-owned concurrent histories (dsched) + stress."""
import glob
import os
import subprocess

from vf import core

PROP = "C41"
RULE = ("sequential case = up to 40 generated operations (register fresh/duplicate name with/without constructor and destructor, "
        "unregister live/unknown id, lookup, attach/detach one of up to 3 object arrays, set, get, test_and_set with matching or "
        "non-matching old value) executed against a map model, every slot of every array and every lookup compared after each "
        "operation; concurrent case = (1..3 worker programs of set/get/test_and_set on existing ids, a registrar program registering "
        "new infos and touching them so arrays grow under the rwlock, schedule bytes) run under dsched, oracle = per-slot Wing&Gong "
        "linearizability (register with CAS and constructor) + constructed values installed or destroyed once; non-trivial "
        "(sequential) = an id was reused after unregister and both a matching and a non-matching test_and_set ran (with the resize "
        "avoidance off: an array grew after a value was stored in its last slot); non-trivial (concurrent) = an array grew while "
        "another thread was inside an operation, or two threads test_and_set the same slot within 3 steps; distinct = distinct case texts")
AVOID = {}     # both info.c defects (C41-F1, C41-F2) are repaired in /repo: nothing is excluded any more (set C41_AVOID_*=1 by hand to restore)


def _build():
    return core.build_harness("C41/info", ["harness/C41/info.cc"], tree="san", rapidcheck=True,
                              plain_c_sources=["harness/C41/shim.c"])


def _env(extra=None):
    e = {}
    for k, v in AVOID.items():
        e[k] = os.environ.get(k, v)
    if extra:
        e.update(extra)
    return e


def collect(res, wr):
    for f in wr.failures:
        res.violations.append(core.Violation(f["msg"], replay_text=f["replay_text"]))
    for c in wr.crashes:
        res.violations.append(core.Violation("harness process died (rc=%s): %s" % (c["rc"], c["log_tail"][-1200:]),
                                             replay_text="# crash of %s\n%s" % (" ".join(c["cmd"]), c["log_tail"][-1500:])))


def run(tier, seed, res):
    b = _build()
    quick = tier == "quick"
    res.rule = RULE
    res.assumptions = ["set/get/test_and_set only on ids of live infos (header remark: the object belongs to the class that registered the info)",
                       "a user unregistering an info without destructor clears its slots first (the library does not)",
                       "the two info.c defects found by this check are repaired in /repo (known_findings.json C41-F1/F2): nothing is excluded, "
                       "their minimal replays under corpus/C41/regress are regression cases",
                       "concurrent part: sequential consistency at atomic-operation granularity under dsched"]
    n = 16
    per = 2000 if quick else 250000
    jobs = [dict(cmd=[b, "rc"], env=_env({"RC_PARAMS": "seed=%d max_success=%d max_size=100" % (seed * 131 + i, per)}), tag="rc") for i in range(n)]
    wr = core.run_workers(PROP, jobs)
    res.absorb(wr, "seq")
    collect(res, wr)
    per = 1000 if quick else 130000
    jobs = [dict(cmd=[b, "rcc"], env=_env({"RC_PARAMS": "seed=%d max_success=%d max_size=100" % (seed * 137 + i, per)}), tag="rcc") for i in range(n)]
    wr = core.run_workers(PROP, jobs)
    res.absorb(wr, "con")
    collect(res, wr)
    iters = 40000 if quick else 4000000
    jobs = [dict(cmd=[b, "stress", str(t), str(iters), str(seed * 17 + t)], env=_env(), tag="stress") for t in (2, 4, 8)]
    wr = core.run_workers(PROP, jobs, max_parallel=1)
    res.absorb(wr, "stress")
    collect(res, wr)
    # regression corpus: minimal replays of defects found earlier (they fail until the defect is fixed)
    if os.environ.get("C41_SKIP_REGRESS", "") == "1":      # sensitivity runs: the known defects must not mask the mutant
        return
    for f in sorted(glob.glob(os.path.join(core.VERIF, "corpus", PROP, "regress", "*.txt"))):
        ok, msg = replay(f)
        res.coverage.setdefault("regress_replays", {})[os.path.basename(f)] = "pass" if ok else "fail"
        if not ok:
            res.violations.append(core.Violation("regression replay %s fails: %s" % (os.path.basename(f), msg.strip()[-600:]), replay_path=f))


def replay(path):
    b = _build()
    env = dict(os.environ)
    env.update(core.SAN_RUN_ENV)
    env.pop("C41_AVOID_RESIZE_BUG", None)
    env.pop("C41_AVOID_DUPID_BUG", None)
    p = subprocess.run([b, "replay", path], env=env, stdout=subprocess.PIPE, stderr=subprocess.STDOUT, text=True)
    return p.returncode == 0 and "REPLAY-PASS" in p.stdout, p.stdout[-2000:]
