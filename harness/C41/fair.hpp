// ByteChooser with a starvation-free tail.
// dsched::ByteChooser answers 0 once its bytes are used up; for a thread that cannot continue (spin point) this is the
// runnable thread with the lowest id, so two low-id threads that spin on a lock held by a higher-id thread can hand the
// baton to each other forever (a false "step bound exceeded").  This chooser keeps the current thread while it can run and
// otherwise picks by a deterministic LCG seeded from the bytes: every runnable thread is picked with probability >= 1/n.
#pragma once
#include "dsched.hpp"
namespace hx {
struct FairByteChooser : dsched::Chooser {
    const uint8_t *b; size_t n, pos = 0; int sparse; uint64_t lcg;
    FairByteChooser(const uint8_t *bytes, size_t len, int sparse_ = 0) : b(bytes), n(len), sparse(sparse_) {
        lcg = 0x9e3779b97f4a7c15ULL; for (size_t i = 0; i < len; i++) lcg = (lcg ^ bytes[i]) * 1099511628211ULL;
    }
    int choose(int k, bool cur, int, volatile void *) override {
        if (pos >= n) {
            if (cur) return 0;
            lcg = lcg * 6364136223846793005ULL + 1442695040888963407ULL;
            return (int)((lcg >> 33) % (uint64_t)k);
        }
        uint8_t v = b[pos++];
        if (sparse < 0) return v < k ? v : 0;
        if (!cur) return v % k;
        if (sparse == 0) return v % k;
        if (v < sparse) return 0;
        return 1 + (v - sparse) % (k - 1);
    }
};
}
