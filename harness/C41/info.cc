// C41 -- Info registries return what was set.
//
// Sequential part (mode rc): a generated operation sequence on one parsec_info_t and up to 3 object arrays
// (attached at different times, so they grow later) is executed against a map model
// (live names -> ids, (array, id) -> value); after every operation every slot is compared with the model.
// Concurrent part (mode rcc): worker threads set / get / test_and_set existing ids while a registrar thread
// registers new infos and touches them (array growth under the rwlock), under the schedule-owning scheduler;
// oracle = per-slot Wing&Gong linearizability against a register-with-CAS (+ constructor) model.
// Stress part (mode stress): free running threads, test_and_set counter conservation under growth.
//
// Known defects of the pristine tree are excluded from *generation* behind env switches (the default of check.py):
//   C41_AVOID_RESIZE_BUG=1  no growth of an array with known_infos > 0 whose last slot holds a value; slots that
//                           appear by such a growth are "undefined" until first set (result of that set unchecked)
//   C41_AVOID_DUPID_BUG=1   no register() of a fresh name while the registry's internal list is out of order
//                           (the harness mirrors the list order; a register() that would return a live id is skipped)
#include <algorithm>
#include <atomic>
#include <thread>
#include "vf.hpp"
#include "dsched.hpp"
#include "linearize.hpp"
#include "fair.hpp"
#include <rapidcheck.h>

extern "C" {
typedef int parsec_info_id_t;
struct parsec_info_s; struct parsec_info_object_array_s;
typedef struct parsec_info_s parsec_info_t; typedef struct parsec_info_object_array_s parsec_info_object_array_t;
typedef void (*parsec_info_destructor_t)(void *elt, void *cb_data);
typedef void *(*parsec_info_constructor_t)(void *obj, void *cb_data);
parsec_info_id_t parsec_info_register(parsec_info_t *, const char *, parsec_info_destructor_t, void *, parsec_info_constructor_t, void *, void *);
parsec_info_id_t parsec_info_unregister(parsec_info_t *, parsec_info_id_t, void **);
parsec_info_id_t parsec_info_lookup(parsec_info_t *, const char *, void **);
void *parsec_info_set(parsec_info_object_array_t *, parsec_info_id_t, void *);
void *parsec_info_test_and_set(parsec_info_object_array_t *, parsec_info_id_t, void *, void *);
void *parsec_info_get(parsec_info_object_array_t *, parsec_info_id_t);
parsec_info_t *shim_info_new(void); void shim_info_free(parsec_info_t *);
parsec_info_object_array_t *shim_oa_new(parsec_info_t *, void *); void shim_oa_free(parsec_info_object_array_t *);
int shim_oa_known(parsec_info_object_array_t *); void *shim_oa_peek(parsec_info_object_array_t *, int);
int shim_info_max_id(parsec_info_t *);
}

static bool g_avoid_resize = false, g_avoid_dupid = false;

// tagged values: every byte non-zero, never dereferenced
static void *val(long k) { uint64_t b = 1 + (uint64_t)(((k % 255) + 255) % 255); return (void *)(b * 0x0101010101010101ULL); }
static std::string pv(void *p) { char b[32]; snprintf(b, sizeof b, "%#llx", (unsigned long long)(uintptr_t)p); return b; }

// ---- constructor / destructor callbacks (record what the library does with them)
struct CbData { int flavor; int serial; };                       // cons_data / des_data of one registration
struct CtorCall { void *obj; void *data; void *ret; int thread; };
struct DtorCall { void *elt; void *data; int thread; };
static std::vector<CtorCall> g_ctor; static std::vector<DtorCall> g_dtor;
static std::atomic<long> g_ctor_counter{0};
static bool g_record = true;
static void *h_ctor(void *obj, void *data) {
    CbData *d = (CbData *)data;
    long k = g_ctor_counter.fetch_add(1);
    void *r = d->flavor == 2 ? nullptr : (void *)(0x4000000000000000ULL | ((uint64_t)(k + 1) << 20) | 0x11111);
    if (g_record) g_ctor.push_back({obj, data, r, dsched::self()});
    return r;
}
static void h_dtor(void *elt, void *data) { if (g_record) g_dtor.push_back({elt, data, dsched::self()}); }

static const char *NAMES[] = {"alpha", "beta", "gamma", "delta", "epsilon", "zeta", "eta", "theta"};
enum { NNAMES = 6 };

// =====================================================================================  sequential part
enum { O_REG = 0, O_UNREG, O_LOOKUP, O_ATTACH, O_SET, O_GET, O_TAS, O_DETACH, O_NKINDS };
struct Op { int k, a, b, c, d; };
struct SeqCase {
    std::vector<Op> ops;
    std::string repr() const {
        std::ostringstream o; o << "C41-seq\n";
        for (auto &x : ops) o << "op " << x.k << " " << x.a << " " << x.b << " " << x.c << " " << x.d << "\n";
        return o.str();
    }
    static SeqCase parse(const std::string &s) {
        SeqCase c; std::istringstream in(s); std::string line;
        while (std::getline(in, line)) { Op o; if (sscanf(line.c_str(), "op %d %d %d %d %d", &o.k, &o.a, &o.b, &o.c, &o.d) == 5) c.ops.push_back(o); }
        return c;
    }
};

struct InfoM { std::string name; int ctor; bool dtor; CbData *cd; void *cb; };
struct Slot { void *v = nullptr; bool undef = false; };
struct ArrM { parsec_info_object_array_t *oa = nullptr; void *cons_obj = nullptr; int known = 0; std::vector<Slot> slots; bool attached = false; };

struct SeqInfo { bool grew = false, grew_after_last_slot = false, hole_reuse = false, ctor_used = false, tas_fail = false, tas_ok = false; int excluded_resize = 0, excluded_dupid = 0, coerced_undef = 0; int executed = 0; };

struct SeqRun {
    parsec_info_t *nfo;
    std::map<int, InfoM> live;            // id -> info
    std::vector<int> order;               // mirror of the registry's internal list order (ids), used by the dup-id avoidance only
    std::vector<ArrM> arr;
    std::vector<CbData *> cds;
    int serial = 0;
    std::string err;
    SeqInfo si;
    SeqRun() { nfo = shim_info_new(); g_ctor.clear(); g_dtor.clear(); }
    ~SeqRun() {
        if (!err.empty()) return;   // after a failure the registry may be inconsistent (its own destructor asserts): leak it
        g_record = false;
        for (auto &a : arr) if (a.attached) shim_oa_free(a.oa);
        shim_info_free(nfo);
        for (auto c : cds) delete c;
        g_record = true;
    }
    bool fail(const std::string &m) { if (err.empty()) err = m; return false; }
    int max_id() const { return live.empty() ? -1 : live.rbegin()->first; }
    int smallest_free() const { int i = 0; while (live.count(i)) i++; return i; }
    std::vector<int> live_ids() const { std::vector<int> v; for (auto &kv : live) v.push_back(kv.first); return v; }
    int find_name(const std::string &n) const { for (auto &kv : live) if (kv.second.name == n) return kv.first; return -1; }
    // what the registry's list walk will compute (mirror of the implementation; avoidance switch only)
    int predicted_ret() const { int r = 0; for (int id : order) { if (id == r) r++; else break; } return r; }
    void mirror_insert(int id) {
        int r = 0; size_t pos = order.size();
        for (size_t i = 0; i < order.size(); i++) { if (order[i] == r) r++; else { pos = i + 1; break; } }
        order.insert(order.begin() + (long)std::min(pos, order.size()), id);
    }

    // An access to slot id of array a makes the array grow when id >= known_infos (a.known mirrors the real value, the new
    // size is read back after the call).  Returns false when the access must be excluded (avoidance of the resize defect).
    int grow_from = -1;
    bool model_access(ArrM &a, int id) {
        grow_from = -1;
        if (id < a.known) return true;
        if (a.known > 0) {
            Slot &last = a.slots[a.known - 1];
            if (g_avoid_resize) { if (last.v != nullptr && !last.undef) { si.excluded_resize++; return false; } }
            else if (last.v != nullptr) si.grew_after_last_slot = true;
        }
        grow_from = a.known; si.grew = true;
        return true;
    }
    void sync(ArrM &a) {
        int rk = shim_oa_known(a.oa);
        if (rk > a.known) {
            a.slots.resize(rk);
            if (g_avoid_resize && grow_from > 0) for (int i = grow_from; i < rk; i++) a.slots[i].undef = true;
            a.known = rk;
        }
        grow_from = -1;
    }

    bool check_all(const ArrM *skip_a = nullptr, int skip_id = -1) {
        for (size_t ai = 0; ai < arr.size(); ai++) {
            ArrM &a = arr[ai]; if (!a.attached) continue;
            if (skip_a == &a && skip_id >= 0) {   // called right after an access: all *other* slots first
                for (int i = 0; i < a.known && i < shim_oa_known(a.oa); i++) {
                    if (i == skip_id || a.slots[i].undef) continue;
                    void *r = shim_oa_peek(a.oa, i);
                    if (r != a.slots[i].v) return fail("slot (array " + std::to_string(ai) + ", id " + std::to_string(i) + ") changed to " + pv(r) + " during an access to id " + std::to_string(skip_id) + " of the same array; the last value stored there is " + pv(a.slots[i].v));
                }
                continue;
            }
            for (int i = 0; i < a.known && i < shim_oa_known(a.oa); i++) {
                if (a.slots[i].undef) continue;
                void *r = shim_oa_peek(a.oa, i);
                if (r != a.slots[i].v) return fail("slot (array " + std::to_string(ai) + ", id " + std::to_string(i) + ") holds " + pv(r) + " but the last value stored there is " + pv(a.slots[i].v));
            }
        }
        for (auto &kv : live) {
            void *cb = (void *)0x1; int id = parsec_info_lookup(nfo, kv.second.name.c_str(), &cb);
            if (id != kv.first) return fail("lookup(" + kv.second.name + ") = " + std::to_string(id) + ", registered as " + std::to_string(kv.first));
            if (cb != kv.second.cb) return fail("lookup(" + kv.second.name + ") returns a wrong cb_data");
        }
        return true;
    }

    // a user that unregisters an info first defines / clears what the library will not clear itself
    void prepare_unreg(int id) {
        InfoM &m = live[id];
        for (auto &a : arr) {
            if (!a.attached || id >= a.known) continue;
            Slot &s = a.slots[id];
            if (s.undef || (!m.dtor && s.v != nullptr)) { parsec_info_set(a.oa, id, nullptr); if (s.undef) si.coerced_undef++; s.undef = false; s.v = nullptr; }
        }
    }

    bool apply(const Op &o) {
        size_t c0 = g_ctor.size(), d0 = g_dtor.size();
        auto ids = live_ids();
        int na = 0; for (auto &a : arr) if (a.attached) na++;
        auto pick_arr = [&](int x) -> ArrM * { if (!na) return nullptr; int k = x % na; for (auto &a : arr) if (a.attached && k-- == 0) return &a; return nullptr; };
        switch (o.k) {
        case O_REG: {
            std::string name = NAMES[o.a % NNAMES];
            int ctor = o.b % 3; bool dtor = (o.b / 3) % 2;
            int have = find_name(name);
            if (have < 0 && g_avoid_dupid && live.count(predicted_ret())) { si.excluded_dupid++; return true; }
            CbData *cd = new CbData{ctor, serial++}; cds.push_back(cd);
            void *cb = val(50 + cd->serial);
            int id = parsec_info_register(nfo, name.c_str(), dtor ? h_dtor : nullptr, cd, ctor ? h_ctor : nullptr, cd, cb);
            if (have >= 0) { if (id != -1) return fail("register of the live name " + name + " returned " + std::to_string(id) + " instead of UNDEFINED"); break; }
            if (id < 0) return fail("register of the fresh name " + name + " failed (" + std::to_string(id) + ")");
            if (live.count(id)) return fail("register(" + name + ") returned id " + std::to_string(id) + " which is the id of the live info " + live[id].name);
            int want = smallest_free();
            if (id != want) return fail("register(" + name + ") returned id " + std::to_string(id) + ", the smallest free id is " + std::to_string(want));
            if (id < max_id()) si.hole_reuse = true;
            mirror_insert(id);
            live[id] = InfoM{name, ctor, dtor, cd, cb};
            break;
        }
        case O_UNREG: {
            int id; bool is_live;
            if (ids.empty() || o.c % 8 == 0) { id = o.a % 7; is_live = live.count(id) != 0; } else { id = ids[o.a % ids.size()]; is_live = true; }
            if (!is_live) {
                if (parsec_info_unregister(nfo, id, nullptr) != -1) return fail("unregister of the unknown id " + std::to_string(id) + " did not return UNDEFINED");
                break;
            }
            prepare_unreg(id);
            InfoM m = live[id];
            std::vector<void *> want;
            if (m.dtor) for (auto &a : arr) if (a.attached && id < a.known && a.slots[id].v) { want.push_back(a.slots[id].v); a.slots[id].v = nullptr; }
            void *cb = nullptr; size_t d1 = g_dtor.size();
            int r = parsec_info_unregister(nfo, id, &cb);
            if (r != id) return fail("unregister(" + std::to_string(id) + ") returned " + std::to_string(r));
            if (cb != m.cb) return fail("unregister returns a wrong cb_data");
            std::vector<void *> got; for (size_t i = d1; i < g_dtor.size(); i++) { if (g_dtor[i].data != m.cd) return fail("destructor called with another info's des_data"); got.push_back(g_dtor[i].elt); }
            std::sort(want.begin(), want.end()); std::sort(got.begin(), got.end());
            if (want != got) return fail("unregister(" + std::to_string(id) + "): destructor ran on " + std::to_string(got.size()) + " values, " + std::to_string(want.size()) + " values were stored for this info");
            live.erase(id); order.erase(std::find(order.begin(), order.end(), id));
            d0 = g_dtor.size();
            break;
        }
        case O_LOOKUP: {
            std::string name = NAMES[o.a % NNAMES]; int have = find_name(name);
            int id = parsec_info_lookup(nfo, name.c_str(), nullptr);
            if (id != have) return fail("lookup(" + name + ") = " + std::to_string(id) + ", expected " + std::to_string(have));
            break;
        }
        case O_ATTACH: {
            if (na >= 3) return true;
            ArrM a; a.cons_obj = val(200 + (long)arr.size()); a.oa = shim_oa_new(nfo, a.cons_obj); a.attached = true;
            a.known = shim_oa_known(a.oa); a.slots.resize(a.known);
            arr.push_back(a);
            break;
        }
        case O_DETACH: {
            ArrM *a = pick_arr(o.a); if (!a) return true;
            shim_oa_free(a->oa); a->attached = false; a->oa = nullptr;
            break;
        }
        case O_SET: case O_GET: case O_TAS: {
            ArrM *a = pick_arr(o.a); if (!a || ids.empty()) return true;
            int id = ids[o.b % ids.size()];
            if (!model_access(*a, id)) return true;
            bool exists = id < a->known;
            bool was_undef = exists ? a->slots[id].undef : (g_avoid_resize && grow_from > 0);
            void *was_v = exists ? a->slots[id].v : nullptr;
            int kind = o.k;
            if (was_undef && kind != O_SET) { kind = O_SET; si.coerced_undef++; }
            void *nv = (o.c % 5 == 0) ? nullptr : val(o.c);
            if (kind == O_SET) {
                void *r = parsec_info_set(a->oa, id, nv);
                sync(*a); if (id >= a->known) return fail("array did not grow to hold id " + std::to_string(id)); Slot &s = a->slots[id];
                if (!check_all(a, id)) return false;
                if (!was_undef && r != was_v) return fail("set(array, " + std::to_string(id) + ") returned the old value " + pv(r) + ", the value stored was " + pv(was_v));
                s.v = nv; s.undef = false;
            } else if (kind == O_GET) {
                void *r = parsec_info_get(a->oa, id);
                sync(*a); if (id >= a->known) return fail("array did not grow to hold id " + std::to_string(id)); Slot &s = a->slots[id];
                if (!check_all(a, id)) return false;
                InfoM &m = live[id];
                if (s.v != nullptr || m.ctor == 0) {
                    if (r != s.v) return fail("get(array, " + std::to_string(id) + ") = " + pv(r) + ", last value set is " + pv(s.v));
                    if (g_ctor.size() != c0) return fail("get constructed a value although " + std::string(s.v ? "the slot holds one" : "no constructor is registered"));
                } else {
                    if (g_ctor.size() != c0 + 1) return fail("get on an empty slot of an info with constructor called the constructor " + std::to_string(g_ctor.size() - c0) + " times");
                    CtorCall &cc = g_ctor[c0];
                    if (cc.obj != a->cons_obj || cc.data != m.cd) return fail("constructor called with wrong (obj, cons_data)");
                    if (r != cc.ret) return fail("get returned " + pv(r) + " instead of the constructed value " + pv(cc.ret));
                    s.v = cc.ret; si.ctor_used = true;
                }
                c0 = g_ctor.size();
            } else {
                void *old = (o.d % 3 == 0) ? val(o.d + 7) : was_v;
                void *r = parsec_info_test_and_set(a->oa, id, nv, old);
                sync(*a); if (id >= a->known) return fail("array did not grow to hold id " + std::to_string(id)); Slot &s = a->slots[id];
                if (!check_all(a, id)) return false;
                if (old == s.v) { if (r != nv) return fail("test_and_set with matching old value returned " + pv(r) + " instead of the new value " + pv(nv)); s.v = nv; si.tas_ok = true; }
                else { if (r != s.v) return fail("test_and_set with non-matching old value returned " + pv(r) + ", the current value is " + pv(s.v)); si.tas_fail = true; }
            }
            break;
        }
        default: return true;
        }
        si.executed++;
        if (g_ctor.size() != c0) return fail("constructor called by an operation that must not construct");
        if (g_dtor.size() != d0) return fail("destructor called by an operation that must not destroy");
        return check_all();
    }
};

static std::string run_seq(const SeqCase &c, SeqInfo *si) {
    SeqRun r;
    for (size_t i = 0; i < c.ops.size(); i++) {
        if (!r.apply(c.ops[i])) { *si = r.si; return "after op #" + std::to_string(i) + " (kind " + std::to_string(c.ops[i].k) + "): " + r.err; }
    }
    *si = r.si;
    return "";
}

// =====================================================================================  concurrent part
enum { W_SET = 0, W_GET, W_TAS, W_NK };
enum { R_REG = 0, R_TOUCH, R_LOOKUP, R_NK };
struct WOp { int k, a, id, v, old; };     // worker op: array, info id (< m0), value index (0 = NULL), old value index or -1 = "what I saw last"
struct ROp { int k, a, j, v; };           // registrar op
struct ConCase {
    int m0 = 2, narr = 1, ctor = 0, dtor = 0, sparse = 0;
    std::vector<int> early, touch;        // per array: attached before the infos exist; slots initialised in setup
    std::vector<std::vector<WOp>> prog;
    std::vector<ROp> reg;
    std::vector<uint8_t> sched;
    std::string repr() const {
        std::ostringstream o; o << "C41-con m0 " << m0 << " narr " << narr << " ctor " << ctor << " dtor " << dtor << " sparse " << sparse << "\n";
        o << "early"; for (int x : early) o << " " << x; o << "\ntouch"; for (int x : touch) o << " " << x; o << "\n";
        for (auto &p : prog) { o << "worker"; for (auto &w : p) o << " " << w.k << " " << w.a << " " << w.id << " " << w.v << " " << w.old; o << "\n"; }
        o << "registrar"; for (auto &r : reg) o << " " << r.k << " " << r.a << " " << r.j << " " << r.v; o << "\n";
        o << "sched"; for (uint8_t b : sched) o << " " << (int)b; o << "\n";
        return o.str();
    }
    static ConCase parse(const std::string &s) {
        ConCase c; std::istringstream in(s); std::string line;
        while (std::getline(in, line)) {
            std::istringstream ls(line); std::string w; ls >> w;
            if (w == "C41-con") { std::string k; int v; while (ls >> k >> v) { if (k == "m0") c.m0 = v; else if (k == "narr") c.narr = v; else if (k == "ctor") c.ctor = v; else if (k == "dtor") c.dtor = v; else if (k == "sparse") c.sparse = v; } }
            else if (w == "early") { int x; while (ls >> x) c.early.push_back(x); }
            else if (w == "touch") { int x; while (ls >> x) c.touch.push_back(x); }
            else if (w == "worker") { std::vector<WOp> p; WOp o; while (ls >> o.k >> o.a >> o.id >> o.v >> o.old) p.push_back(o); c.prog.push_back(p); }
            else if (w == "registrar") { ROp o; while (ls >> o.k >> o.a >> o.j >> o.v) c.reg.push_back(o); }
            else if (w == "sched") { int x; while (ls >> x) c.sched.push_back((uint8_t)x); }
        }
        return c;
    }
};

struct HOp { int type; void *nv = nullptr, *old = nullptr, *res = nullptr; std::vector<void *> constructed; bool has_ctor = false; int thread = -1; uint64_t inv = 0, resp = 0; };
struct RegModel {
    void *v = nullptr;
    bool apply(const HOp &o) {
        switch (o.type) {
        case W_SET: if (o.res != v) return false; v = o.nv; return true;
        case W_GET:
            if (v != nullptr) return o.res == v;
            if (!o.has_ctor) return o.res == nullptr;
            if (o.constructed.empty() || o.res != o.constructed.back()) return false;
            v = o.res; return true;
        case W_TAS: if (v == o.old) { if (o.res != o.nv) return false; v = o.nv; return true; } return o.res == v;
        }
        return false;
    }
    std::string key() const { return std::string((const char *)&v, sizeof v); }
};

struct ConInfo { bool nontrivial = false, grew_concurrently = false, tas_close = false, ctor_race = false; int excluded = 0; uint64_t steps = 0; };

static std::string run_con(const ConCase &c, dsched::Chooser &ch, ConInfo *ci) {
    g_ctor.clear(); g_dtor.clear();
    parsec_info_t *nfo = shim_info_new();
    int A = c.narr, m0 = c.m0;
    std::vector<parsec_info_object_array_t *> oa(A, nullptr);
    std::vector<void *> cobj(A);
    CbData cd{c.ctor ? 1 : 0, 0};
    for (int a = 0; a < A; a++) { cobj[a] = val(200 + a); if (c.early[a]) oa[a] = shim_oa_new(nfo, cobj[a]); }
    for (int i = 0; i < m0; i++) {
        int id = parsec_info_register(nfo, NAMES[i], c.dtor ? h_dtor : nullptr, &cd, c.ctor ? h_ctor : nullptr, &cd, nullptr);
        if (id != i) { shim_info_free(nfo); return "setup: register #" + std::to_string(i) + " returned " + std::to_string(id); }
    }
    for (int a = 0; a < A; a++) if (!c.early[a]) oa[a] = shim_oa_new(nfo, cobj[a]);
    // every array can grow from a non-empty state once the registrar touches a new id (an array that is still empty first
    // grows to >= m0 slots): with the avoidance switch slot m0-1, the possible last slot at that moment, stays empty and
    // is not used by the workers; the registrar stores only NULL in the slots of its new ids
    std::vector<int> ktype(A, g_avoid_resize ? 1 : 0);
    std::vector<std::vector<void *>> init(A, std::vector<void *>(m0, nullptr));
    for (int a = 0; a < A; a++) {
        if (!c.early[a]) ktype[a] = 1;
        if (c.touch[a]) {
            for (int i = 0; i < m0; i++) {
                bool last = i == m0 - 1;
                void *v = (g_avoid_resize && last) ? nullptr : val(10 + a * 8 + i);
                parsec_info_set(oa[a], i, v); init[a][i] = v;
            }
            ktype[a] = 1;
        }
    }
    int T = (int)c.prog.size();
    std::vector<std::vector<HOp>> hist((size_t)A * m0);
    std::vector<uint64_t> grow_steps;
    std::vector<int> my_ids;                 // registrar's new ids
    std::string err;
    int next_name = m0;
    int excluded = 0;
    std::vector<std::function<void()>> bodies;
    for (int t = 0; t < T; t++) bodies.push_back([&, t]() {
        void *seen = nullptr;
        for (const WOp &w : c.prog[t]) {
            int a = w.a % A, id = w.id % m0;
            if (g_avoid_resize && ktype[a] && id == m0 - 1) { if (m0 == 1) { excluded++; continue; } id = (id + m0 - 1) % (m0 - 1); excluded++; }
            HOp h; h.type = w.k; h.thread = t; h.has_ctor = c.ctor != 0;
            h.nv = w.v % 6 == 0 ? nullptr : val(100 + t * 16 + w.v);
            size_t c0 = g_ctor.size();
            h.inv = dsched::now();
            if (w.k == W_SET) h.res = parsec_info_set(oa[a], id, h.nv);
            else if (w.k == W_GET) h.res = parsec_info_get(oa[a], id);
            else { int ov = w.old % 12; h.old = w.old < 0 ? seen : (ov % 6 == 0 ? nullptr : val(100 + (w.old / 12 % T) * 16 + ov)); h.res = parsec_info_test_and_set(oa[a], id, h.nv, h.old); }
            h.resp = dsched::now() + 1;
            for (size_t i = c0; i < g_ctor.size(); i++) if (g_ctor[i].thread == dsched::self()) h.constructed.push_back(g_ctor[i].ret);
            seen = h.res;
            hist[(size_t)a * m0 + id].push_back(h);
        }
    });
    bool with_reg = !c.reg.empty();
    std::vector<std::pair<int, void *>> reg_model;   // registrar-private slots: (array*1000+id) -> value, sequential semantics
    if (with_reg) bodies.push_back([&]() {
        for (const ROp &r : c.reg) {
            if (r.k == R_REG) {
                if (next_name >= 8) continue;
                int id = parsec_info_register(nfo, NAMES[next_name], c.dtor ? h_dtor : nullptr, &cd, nullptr, &cd, nullptr);
                int want = m0 + (int)my_ids.size();
                if (id != want && err.empty()) err = "registrar: register(" + std::string(NAMES[next_name]) + ") returned " + std::to_string(id) + ", expected " + std::to_string(want);
                next_name++; if (id >= 0) my_ids.push_back(id);
            } else if (r.k == R_TOUCH) {
                if (my_ids.empty()) continue;
                int a = r.a % A, id = my_ids[r.j % my_ids.size()];
                void *nv = (r.v % 4 == 0 || g_avoid_resize) ? nullptr : val(60 + r.v);
                int before = shim_oa_known(oa[a]);
                uint64_t s0 = dsched::now();
                void *old = parsec_info_set(oa[a], id, nv);
                if (shim_oa_known(oa[a]) != before) { grow_steps.push_back(s0); grow_steps.push_back(dsched::now()); }
                // first touch of a slot: defined (NULL) unless the avoidance switch declares grown slots undefined
                auto it = std::find_if(reg_model.begin(), reg_model.end(), [&](auto &p) { return p.first == a * 1000 + id; });
                if (it == reg_model.end()) {
                    if (!g_avoid_resize && old != nullptr && err.empty()) err = "registrar: first set on the fresh slot (array " + std::to_string(a) + ", id " + std::to_string(id) + ") returned the old value " + pv(old) + " instead of NULL";
                    reg_model.push_back({a * 1000 + id, nv});
                } else {
                    if (old != it->second && err.empty()) err = "registrar: set on its private slot returned " + pv(old) + ", it had stored " + pv(it->second);
                    it->second = nv;
                }
            } else if (r.k == R_LOOKUP) {
                int n = r.j % next_name; int id = parsec_info_lookup(nfo, NAMES[n], nullptr);
                if (id != n && err.empty()) err = "registrar: lookup(" + std::string(NAMES[n]) + ") = " + std::to_string(id) + ", registered as " + std::to_string(n);
            }
        }
    });
    dsched::Outcome out = dsched::run(bodies, ch, 200000);
    ci->steps = out.steps; ci->excluded = excluded;
    // final sequential reads close every slot history
    uint64_t stamp = out.steps + 10;
    for (int a = 0; a < A && err.empty(); a++) for (int id = 0; id < m0; id++) {
        auto &h = hist[(size_t)a * m0 + id];
        if (g_avoid_resize && ktype[a] && id == m0 - 1) continue;
        HOp f; f.type = W_GET; f.thread = -1; f.has_ctor = false; f.inv = stamp++;
        f.res = (id < shim_oa_known(oa[a])) ? shim_oa_peek(oa[a], id) : nullptr; f.resp = stamp++;
        h.push_back(f);
        RegModel init_m; init_m.v = init[a][id];
        if (h.size() <= 40 && !lin::linearizable<HOp, RegModel>(h, init_m)) {
            std::ostringstream o; o << "history of slot (array " << a << ", id " << id << ") is not linearizable from " << pv(init_m.v) << ":";
            for (auto &x : h) o << " [t" << x.thread << " " << (x.type == W_SET ? "set" : x.type == W_GET ? "get" : "tas") << "(" << pv(x.nv) << "," << pv(x.old) << ")->" << pv(x.res) << " @" << x.inv << "-" << x.resp << "]";
            err = o.str(); break;
        }
        // non-triviality observations
        for (size_t i = 0; i < h.size(); i++) for (size_t j = i + 1; j < h.size(); j++)
            if (h[i].type == W_TAS && h[j].type == W_TAS && h[i].thread != h[j].thread) {
                uint64_t d = h[i].inv > h[j].inv ? h[i].inv - h[j].inv : h[j].inv - h[i].inv; if (d <= 3) ci->tas_close = true;
            }
    }
    // every constructed value is either installed (returned by its get) or destroyed once when a destructor exists
    if (err.empty() && c.ctor) {
        for (auto &cc : g_ctor) {
            bool installed = false; for (auto &hs : hist) for (auto &h : hs) if (h.type == W_GET && !h.constructed.empty() && h.res == cc.ret && h.constructed.back() == cc.ret) installed = true;
            int destroyed = 0; for (auto &d : g_dtor) if (d.elt == cc.ret) destroyed++;
            if (!installed) ci->ctor_race = true;
            if (installed && destroyed) { err = "a constructed value was installed and also destroyed"; break; }
            if (!installed && c.dtor && destroyed != 1) { err = "a constructed value that lost the race was destroyed " + std::to_string(destroyed) + " times"; break; }
        }
    }
    for (size_t g = 0; g + 1 < grow_steps.size(); g += 2) for (auto &hs : hist) for (auto &h : hs) if (h.thread >= 0 && h.inv < grow_steps[g + 1] && grow_steps[g] < h.resp) ci->grew_concurrently = true;
    ci->nontrivial = ci->grew_concurrently || ci->tas_close;
    g_record = false;
    for (int a = 0; a < A; a++) shim_oa_free(oa[a]);
    shim_info_free(nfo);
    g_record = true;
    return err;
}

// =====================================================================================  stress
static int do_stress(int T, long iters, unsigned seed) {
    parsec_info_t *nfo = shim_info_new();
    CbData cd{0, 0};
    int m0 = 3;
    for (int i = 0; i < m0; i++) parsec_info_register(nfo, NAMES[i], nullptr, &cd, nullptr, &cd, nullptr);
    parsec_info_object_array_t *oa = shim_oa_new(nfo, nullptr), *ob = shim_oa_new(nfo, nullptr);
    std::atomic<long> succ{0}; std::atomic<int> bad{0}; std::atomic<int> done{0};
    g_record = false;
    std::vector<std::thread> th;
    for (int t = 0; t < T; t++) th.emplace_back([&, t]() {
        for (long i = 0; i < iters; i++) {
            parsec_info_object_array_t *o = (i & 1) ? oa : ob;
            void *cur = parsec_info_get(o, 0);
            uint64_t k = (uint64_t)(uintptr_t)cur >> 12;
            void *nv = (void *)(uintptr_t)(((k + 1) << 12) | ((uint64_t)(t + 1) << 4));
            void *r = parsec_info_test_and_set(o, 0, nv, cur);
            if (r == nv) succ++;
            else if (((uint64_t)(uintptr_t)r >> 12) < k) bad++;      // the counter never goes backwards
        }
        done++;
    });
    // registrar: registers / unregisters further infos; touches them unless the resize defect is being avoided
    std::thread regt([&]() {
        uint64_t x = seed * 2654435761u + 1; int round = 0;
        while (done.load() < T) {
            x = x * 6364136223846793005ULL + 1442695040888963407ULL;
            int id = parsec_info_register(nfo, NAMES[3 + round % 4], nullptr, &cd, nullptr, &cd, nullptr);
            if (id >= 0 && !g_avoid_resize) { parsec_info_set((x >> 40 & 1) ? oa : ob, id, nullptr); }
            if (id >= 0 && (x >> 33) % 3 == 0) parsec_info_unregister(nfo, id, nullptr);
            round++;
            if (round > 4) { for (int i = 3; i < 8; i++) parsec_info_unregister(nfo, i, nullptr); round = 0; }
        }
    });
    for (auto &t : th) t.join();
    regt.join();
    uint64_t fa = (uint64_t)(uintptr_t)shim_oa_peek(oa, 0) >> 12, fb = (uint64_t)(uintptr_t)shim_oa_peek(ob, 0) >> 12;
    std::string e;
    if (bad) e = "a slot value went backwards " + std::to_string(bad.load()) + " times";
    else if ((long)(fa + fb) != succ.load()) e = "test_and_set successes (" + std::to_string(succ.load()) + ") differ from the counter values reached (" + std::to_string(fa + fb) + ")";
    std::string repr = "C41-stress threads " + std::to_string(T) + " iters " + std::to_string(iters) + " seed " + std::to_string(seed) + "\n";
    vf::note_case(repr, T >= 2);
    vf::label("stress_ops", (uint64_t)iters * T);
    shim_oa_free(oa); shim_oa_free(ob); shim_info_free(nfo);
    if (!e.empty()) { vf::record_failure(repr, e); vf::dump(); return 1; }
    vf::dump();
    return 0;
}

// =====================================================================================  drivers
static std::string g_current;
static void fatal_hook(const char *what) { vf::record_failure(g_current, what); vf::dump(); }

static std::string strip_comments(const std::string &s) { std::istringstream in(s); std::string l, o; while (std::getline(in, l)) if (l.empty() || l[0] != '#') o += l + "\n"; return o; }
static int do_replay(const char *path) {
    std::string txt = strip_comments(vf::slurp(path)), e;
    if (txt.rfind("C41-con", 0) == 0) {
        ConCase c = ConCase::parse(txt); g_current = c.repr();
        hx::FairByteChooser ch(c.sched.data(), c.sched.size(), c.sparse); ConInfo ci; e = run_con(c, ch, &ci);
    } else if (txt.rfind("C41-stress", 0) == 0) {
        int T; long it; unsigned sd; sscanf(txt.c_str(), "C41-stress threads %d iters %ld seed %u", &T, &it, &sd);
        int r = 0; for (int k = 0; k < 3 && !r; k++) r = do_stress(T, it, sd);
        printf(r ? "REPLAY-FAIL stress\n" : "REPLAY-PASS\n"); return r;
    } else { SeqCase c = SeqCase::parse(txt); SeqInfo si; e = run_seq(c, &si); }
    if (e.empty()) { printf("REPLAY-PASS\n"); return 0; }
    printf("REPLAY-FAIL %s\n", e.c_str()); return 1;
}

int main(int argc, char **argv) {
    std::string mode = argc > 1 ? argv[1] : "rc";
    g_avoid_resize = vf::envl("C41_AVOID_RESIZE_BUG", 0) != 0;
    g_avoid_dupid = vf::envl("C41_AVOID_DUPID_BUG", 0) != 0;
    dsched::on_fatal() = fatal_hook;
    if (mode == "replay") return do_replay(argv[2]);
    if (mode == "stress") return do_stress(atoi(argv[2]), atol(argv[3]), (unsigned)atoi(argv[4]));
    bool ok;
    if (mode == "rc") {
        ok = rc::check("info registry and object arrays agree with the map model after every operation", []() {
            SeqCase c;
            int n = *rc::gen::inRange(4, 60);
            auto opg = rc::gen::resize(100, rc::gen::apply([](int k, int a, int b, int cc, int d) {
                static const int kinds[] = {O_REG, O_REG, O_REG, O_UNREG, O_UNREG, O_LOOKUP, O_ATTACH, O_ATTACH, O_SET, O_SET, O_SET, O_SET, O_GET, O_GET, O_GET, O_TAS, O_TAS, O_TAS, O_DETACH, O_SET};
                return Op{kinds[k], a, b, cc, d}; }, rc::gen::inRange(0, 20), rc::gen::inRange(0, 24), rc::gen::inRange(0, 24), rc::gen::inRange(0, 40), rc::gen::inRange(0, 9)));
            c.ops = *rc::gen::container<std::vector<Op>>((size_t)n, opg);
            std::string r = c.repr();
            SeqInfo si; std::string e = run_seq(c, &si);
            bool nt = g_avoid_resize ? (si.hole_reuse && si.grew && (si.tas_fail || si.tas_ok)) : si.grew_after_last_slot;
            vf::note_case(r, nt);
            if (si.hole_reuse) vf::label("id_reused_after_unregister");
            if (si.grew_after_last_slot) vf::label("grew_after_value_in_last_slot");
            if (si.grew) vf::label("array_grew");
            if (si.ctor_used) vf::label("constructed_default");
            if (si.tas_fail) vf::label("tas_mismatch");
            if (si.excluded_resize) vf::label("excluded_resize_defect_ops", si.excluded_resize);
            if (si.excluded_dupid) vf::label("excluded_dupid_defect_ops", si.excluded_dupid);
            if (si.coerced_undef) vf::label("coerced_ops_on_undefined_slots", si.coerced_undef);
            vf::label("ops_executed", si.executed);
            if (!e.empty()) { vf::record_failure(r, e); RC_FAIL(e); }
        });
    } else {
        ok = rc::check("concurrent set/get/test_and_set histories are linearizable per slot while the registry grows", []() {
            ConCase c;
            c.m0 = g_avoid_resize ? *rc::gen::inRange(2, 5) : *rc::gen::inRange(1, 4); c.narr = *rc::gen::inRange(1, 3);
            c.ctor = *rc::gen::element(0, 0, 1); c.dtor = *rc::gen::inRange(0, 2);
            c.sparse = *rc::gen::element(0, 0, 128, 200, 240);
            for (int a = 0; a < c.narr; a++) { c.early.push_back(*rc::gen::inRange(0, 2)); c.touch.push_back(*rc::gen::element(1, 1, 0)); }
            int T = *rc::gen::inRange(1, 4);
            for (int t = 0; t < T; t++) {
                int n = *rc::gen::inRange(1, 6);
                c.prog.push_back(*rc::gen::container<std::vector<WOp>>((size_t)n, rc::gen::resize(100, rc::gen::apply([](int k, int a, int id, int v, int o) { return WOp{k, a, id, v, o % 3 == 0 ? o : -1}; },
                    rc::gen::element(W_SET, W_GET, W_GET, W_TAS, W_TAS), rc::gen::inRange(0, 2), rc::gen::inRange(0, 3), rc::gen::inRange(0, 12), rc::gen::inRange(0, 48)))));
            }
            int nr = *rc::gen::element(0, 2, 3, 4, 6);
            c.reg = *rc::gen::container<std::vector<ROp>>((size_t)nr, rc::gen::resize(100, rc::gen::apply([](int k, int a, int j, int v) { return ROp{k, a, j, v}; },
                    rc::gen::element(R_REG, R_REG, R_TOUCH, R_TOUCH, R_LOOKUP), rc::gen::inRange(0, 2), rc::gen::inRange(0, 4), rc::gen::inRange(0, 12))));
            int sl = *rc::gen::inRange(0, 160);
            c.sched = *rc::gen::container<std::vector<uint8_t>>((size_t)sl, rc::gen::resize(100, rc::gen::arbitrary<uint8_t>()));
            g_current = c.repr();
            hx::FairByteChooser ch(c.sched.data(), c.sched.size(), c.sparse);
            ConInfo ci; std::string e = run_con(c, ch, &ci);
            vf::note_case(g_current, ci.nontrivial);
            vf::label("threads_" + std::to_string(T + (c.reg.empty() ? 0 : 1)));
            if (ci.grew_concurrently) vf::label("array_grew_during_an_operation");
            if (ci.tas_close) vf::label("two_tas_within_3_steps");
            if (ci.ctor_race) vf::label("constructed_value_lost_race");
            if (ci.excluded) vf::label("excluded_resize_defect_ops", ci.excluded);
            if (!e.empty()) { vf::record_failure(g_current, e); RC_FAIL(e); }
        });
    }
    vf::dump();
    return ok ? 0 : 1;
}
