/* C shim for C41: object construction / destruction of the info classes (PARSEC_OBJ_* macros and
 * list.h inlines are C) and side-effect-free peeks into an object array. */
#include "parsec/parsec_config.h"
#include "parsec/class/info.h"
#include <stdlib.h>

parsec_info_t *shim_info_new(void) {
    parsec_info_t *n = (parsec_info_t *)calloc(1, sizeof(parsec_info_t));
    PARSEC_OBJ_CONSTRUCT(n, parsec_info_t);
    return n;
}
void shim_info_free(parsec_info_t *n) { PARSEC_OBJ_DESTRUCT(n); free(n); }
parsec_info_object_array_t *shim_oa_new(parsec_info_t *n, void *cons_obj) {
    parsec_info_object_array_t *oa = (parsec_info_object_array_t *)calloc(1, sizeof(parsec_info_object_array_t));
    PARSEC_OBJ_CONSTRUCT(oa, parsec_info_object_array_t);
    parsec_info_object_array_init(oa, n, cons_obj);
    return oa;
}
void shim_oa_free(parsec_info_object_array_t *oa) { PARSEC_OBJ_DESTRUCT(oa); free(oa); }
int shim_oa_known(parsec_info_object_array_t *oa) { return oa->known_infos; }
void *shim_oa_peek(parsec_info_object_array_t *oa, int i) { return oa->info_objects[i]; }
int shim_info_max_id(parsec_info_t *n) { return n->max_id; }
