"""C29 -- futures (base, countable, datacopy): complete once, deliver one value (dsched + exhaustive tiny spaces + stress)."""
import glob
import os
import subprocess

from vf import core

PROP = "C29"
RULE = ("case = (future kind; base: callback mode, 1..4 thread programs of 1..3 ops from SET(distinct value)/GET/POLL/WAITGET; countable: "
        "count 1..6, count-2..count+2 sets dealt to 1..4 threads with polls/gets interleaved; datacopy: root shape, pre-fulfilled or not, "
        "fulfilment inside cb_fulfill (with 0..2 yields) or deferred to a later set by whichever thread finds it pending, 1..4 threads "
        "x 1..3 requests for one of 1..4 shapes or no shape, each followed by the release of the requester's reference; schedule bytes); one "
        "runnable thread at a time, switches at every atomic operation / hooked spin; oracle: see futures.cc header; non-trivial = two "
        "sets (base; countable: the count-th set and its neighbour) from different threads, or two requests for the same shape from "
        "different threads, overlap in time or return within 3 steps; distinct = distinct (kind, parameters, programs, schedule) values")


def _build():
    return core.build_harness("C29/futures", ["harness/C29/futures.cc"], tree="san", rapidcheck=True,
                              plain_c_sources=["harness/C29/shim.c"])


def collect(res, wr):
    for f in wr.failures:
        res.violations.append(core.Violation(f["msg"], replay_text=f["replay_text"]))
    for c in wr.crashes:
        if c["rc"] == "timeout":
            res.inconclusive = "a %s worker did not finish within its time limit (not a verdict)" % c["tag"]
            continue
        res.violations.append(core.Violation("harness process died (rc=%s): %s" % (c["rc"], c["log_tail"][-1200:]),
                                             replay_text="# crash of %s\n%s" % (" ".join(c["cmd"]), c["log_tail"][-1500:])))


def run(tier, seed, res):
    b = _build()
    quick = tier == "quick"
    res.rule = RULE
    res.assumptions = ["values given to a base future are non-NULL (NULL is the 'empty' marker of the implementation)",
                       "a blocking get is only generated when enough sets exist that are not themselves behind a blocking get",
                       "datacopy: parsec_future_set is called once per future, by cb_fulfill or later by the thread that took the deferred work (documented contract); every requester holds its own reference until it obtained the copy",
                       "sequential consistency at atomic-operation granularity under dsched; real parallelism only in the stress part (x86)",
                       "warnings about setting an already ready future are allowed behaviour and silenced (output stream 0 verbosity -1)"]
    n = 16
    pbd = 3 if quick else 5
    jobs = [dict(cmd=[b, "exh", "0", "99", str(i), "6"], tag="exh_base") for i in range(6)]
    jobs += [dict(cmd=[b, "exh", "1", "99", str(i), "4"], tag="exh_countable") for i in range(4)]
    jobs += [dict(cmd=[b, "exh", "2", str(pbd), str(i), "8"], tag="exh_datacopy") for i in range(8)]
    wr = core.run_workers(PROP, jobs)
    res.absorb(wr, "exhaustive")
    res.coverage["exhaustive"] = not (wr.failures or wr.crashes)
    res.coverage["exhaustive_subspace"] = ("base future with callback: all 81 programs of 2 threads x 2 ops from {SET, POLL, WAITGET} and all 27 of 3 threads x 1 op, all "
                                           "schedules; countable with callback: count 1..3, all 16 programs of 2 threads x 2 ops from {SET, POLL}, and count 2 with 3 "
                                           "threads x 1 op from {SET, POLL, GET}, all schedules; datacopy: 2 threads x 1 request from {none, 0, 1, 2} x {sync, deferred} x "
                                           "{unfulfilled, pre-fulfilled root}, all schedules with at most %d preemptions" % pbd)
    collect(res, wr)
    per = 1200 if quick else 50000
    jobs = [dict(cmd=[b, "rc"], env={"RC_PARAMS": "seed=%d max_success=%d max_size=100" % (seed * 131 + i, per)}, tag="rc") for i in range(n)]
    wr = core.run_workers(PROP, jobs)
    res.absorb(wr, "rc")
    collect(res, wr)
    rounds = 60 if quick else 4000
    jobs = [dict(cmd=[b, "stress", str(t), str(rounds), str(seed * 17 + t)], tag="stress", timeout=150 if quick else 1800) for t in (2, 4, 16)]
    wr = core.run_workers(PROP, jobs, max_parallel=1)
    res.absorb(wr, "stress")
    collect(res, wr)
    _regress(b, res)


def _replay_bin(b, path):
    env = dict(os.environ)
    env.update(core.SAN_RUN_ENV)
    p = subprocess.run([b, "replay", path], env=env, stdout=subprocess.PIPE, stderr=subprocess.STDOUT, text=True)
    return p.returncode == 0 and "REPLAY-PASS" in p.stdout, p.stdout[-2000:]


def _regress(b, res):
    """every saved case under corpus/<PROP>/regress must still hold"""
    n = 0
    for f in sorted(glob.glob(os.path.join(core.VERIF, "corpus", PROP, "regress", "*.txt"))):
        ok, msg = _replay_bin(b, f)
        n += 1
        if not ok:
            res.violations.append(core.Violation("saved case %s fails: %s" % (os.path.basename(f), msg[-600:]), replay_path=f))
    res.coverage["regress_cases_replayed"] = n


def replay(path):
    return _replay_bin(_build(), path)
