/* C shim for C29: out-of-line access to the future API (function tables behind macros) and the callbacks of the
 * data-copy (reshape) futures, written in the style of tests/class/future_datacopy.c.  Every callback reports to the
 * harness through shim_c29_event(future, event, shape).  The "shape" of a datacopy future is the int its cb_match_data_in
 * points to; cb_match compares two such ints. */
#include "parsec/parsec_config.h"
#include "parsec/class/parsec_future.h"
#include "parsec/utils/output.h"
#include <stdarg.h>
#include <stdlib.h>

enum { EV_BASE_CB = 1, EV_FULFILL = 2, EV_CLEANUP = 3, EV_NESTED_CREATED = 4 };
typedef void (*c29_event_fn)(void *future, int event, int shape);
c29_event_fn shim_c29_event = NULL;

void shim_c29_quiet(void) {
    /* "Trying to set a ... future that is already in a ready state" is allowed behaviour reported through parsec_warning
     * (stream 0, level 0): keep it off the log, and keep the output subsystem's own lock out of the schedules */
    parsec_output_init();
    parsec_output_set_verbosity(0, -1);
}

/* ---- base and countable futures */
static void base_cb(parsec_base_future_t *f, ...) { if (shim_c29_event) shim_c29_event(f, EV_BASE_CB, -1); }

/* init: 0 = never initialised (as in tests/class/future.c), 1 = init without callback, 2 = init with callback */
void *shim_base_new(int init) {
    parsec_base_future_t *f = PARSEC_OBJ_NEW(parsec_base_future_t);
    if (init == 1) parsec_future_init(f, NULL);
    if (init == 2) parsec_future_init(f, base_cb);
    return f;
}
void *shim_countable_new(int count, int with_cb) {
    parsec_countable_future_t *f = PARSEC_OBJ_NEW(parsec_countable_future_t);
    parsec_future_init(f, with_cb ? base_cb : NULL, count);
    return f;
}
void shim_future_set(void *f, void *data) { parsec_future_set(f, data); }
int shim_future_is_ready(void *f) { return parsec_future_is_ready(f) ? 1 : 0; }
void *shim_future_get(void *f) { return parsec_future_get(f); }
void shim_future_release(void *f) { parsec_object_t *o = (parsec_object_t *)f; PARSEC_OBJ_RELEASE(o); }
void shim_future_retain(void *f) { PARSEC_OBJ_RETAIN(f); }

/* ---- datacopy futures */
static void dc_fulfill(parsec_base_future_t *future, ...) {
    parsec_datacopy_future_t *d = (parsec_datacopy_future_t *)future;
    if (shim_c29_event) shim_c29_event(future, EV_FULFILL, *(int *)d->cb_match_data_in);
}
static int dc_match(parsec_base_future_t *future, ...) {
    va_list ap; va_start(ap, future);
    void *t1 = va_arg(ap, void *); void *t2 = va_arg(ap, void *);
    va_end(ap);
    return *(int *)t1 == *(int *)t2;
}
static void dc_cleanup(parsec_base_future_t *future, ...) {
    parsec_datacopy_future_t *d = (parsec_datacopy_future_t *)future;
    int shape = *(int *)d->cb_match_data_in;
    if (shim_c29_event) shim_c29_event(future, EV_CLEANUP, shape);
    free(d->cb_match_data_in);
    d->cb_match_data_in = NULL;
}
static void *dc_make(int shape) {
    parsec_datacopy_future_t *f = PARSEC_OBJ_NEW(parsec_datacopy_future_t);
    int *specs = (int *)malloc(sizeof(int));
    *specs = shape;
    parsec_future_init(f, dc_fulfill, specs, dc_match, specs, dc_cleanup);
    return f;
}
static void dc_nested(parsec_base_future_t **future, ...) {
    va_list ap; va_start(ap, future);
    parsec_datacopy_future_t *root = va_arg(ap, parsec_datacopy_future_t *);
    int *request = va_arg(ap, int *);
    va_end(ap);
    (void)root;
    *future = (parsec_base_future_t *)dc_make(*request);
    if (shim_c29_event) shim_c29_event(*future, EV_NESTED_CREATED, *request);
}
void *shim_dc_new(int shape) { return dc_make(shape); }
/* want < 0: no requested specification (plain get_or_trigger of the root) */
void *shim_dc_get_or_trigger(void *f, int want) {
    if (want < 0) return parsec_future_get_or_trigger(f, NULL, NULL, NULL, NULL);
    int spec = want;
    return parsec_future_get_or_trigger(f, dc_nested, &spec, NULL, NULL);
}
