// C29 -- Futures complete once and deliver one value.
//
// case.kind 0 = base future, 1 = countable future, 2 = datacopy (reshape) future; per-thread programs + schedule bytes.
//  base:      SET(distinct non-NULL value) / GET (blocking) / POLL (is_ready, then get if ready) / WAITGET (poll until ready, get)
//             oracle: every reader and the completion callback see the same value W, W is one of the set values and not the value
//             of a set that was invoked after another set had returned; callback exactly once (inside the winning set) iff a
//             set happened; ready after any set returned; a later set never changes the value.
//  countable: count 1..6, SETs (possibly fewer or more than count), POLL / GET.  Under dsched a countable set has a single hook
//             (its atomic decrement) so the model is exact: is_ready == (committed sets >= count) at every poll; callback exactly
//             once, inside the count-th set.
//  datacopy:  root future of shape s0 (unfulfilled or pre-fulfilled; fulfilment synchronous inside cb_fulfill or deferred to a
//             later parsec_future_set by whichever thread finds work pending), REQ(shape | none) = get_or_trigger until non-NULL
//             then release of the requester's reference.  oracle: cb_fulfill at most once per future and per shape (exactly
//             once if the shape was obtained, except a pre-fulfilled root), at most one nested future per shape and none for the
//             root's shape, every requester of a shape gets the same pointer and it has that shape, cb_cleanup exactly once per
//             created future and only once no reference is held.
// modes: rc | exh <kind> <pb> <part> <nparts> | stress <T> <rounds> <seed> | replay <file>
#include <algorithm>
#include <atomic>
#include <deque>
#include <map>
#include <mutex>
#include <thread>
#include "hcommon.hpp"
#include <rapidcheck.h>

extern "C" {
typedef void (*c29_event_fn)(void *future, int event, int shape);
extern c29_event_fn shim_c29_event;
void shim_c29_quiet(void);
void *shim_base_new(int init); void *shim_countable_new(int count, int with_cb);
void shim_future_set(void *f, void *data); int shim_future_is_ready(void *f); void *shim_future_get(void *f);
void shim_future_release(void *f); void shim_future_retain(void *f);
void *shim_dc_new(int shape); void *shim_dc_get_or_trigger(void *f, int want);
}
enum { EV_BASE_CB = 1, EV_FULFILL = 2, EV_CLEANUP = 3, EV_NESTED_CREATED = 4 };
enum { OP_SET = 0, OP_GET = 1, OP_POLL = 2, OP_WAITGET = 3, OP_REQ = 4 };
enum { BASE = 0, COUNTABLE = 1, DATACOPY = 2 };
static const int NSHAPES = 4;

struct Op { int op, arg; };
struct Case {
    int kind = BASE, sparse = 0;
    int init = 2;                                   // base: 0 never initialised / 1 init without callback / 2 with callback; countable: 0/1 callback
    int count = 1;                                  // countable
    int root_shape = 0, root_pre = 0, async = 0, fyield = 0;   // datacopy
    std::vector<std::vector<Op>> prog;
    std::vector<uint8_t> sched;
    std::string repr() const {
        std::ostringstream o;
        o << "C29 kind " << kind << " sparse " << sparse << " init " << init << " count " << count << " rootshape " << root_shape << " rootpre " << root_pre
          << " async " << async << " fyield " << fyield << " threads " << prog.size() << "\n";
        for (auto &p : prog) { o << "prog"; for (auto &c : p) o << " " << c.op << " " << c.arg; o << "\n"; }
        o << "sched" << hc::bytes(sched) << "\n";
        return o.str();
    }
    static Case parse(const std::string &s) {
        Case c; std::istringstream in(s); std::string line;
        while (std::getline(in, line)) {
            std::istringstream ls(line); std::string w; ls >> w;
            if (w == "C29") hc::header_kv(ls, [&](const std::string &k, int v) {
                if (k == "kind") c.kind = v; else if (k == "sparse") c.sparse = v; else if (k == "init") c.init = v; else if (k == "count") c.count = v;
                else if (k == "rootshape") c.root_shape = v; else if (k == "rootpre") c.root_pre = v; else if (k == "async") c.async = v; else if (k == "fyield") c.fyield = v; });
            else if (w == "prog") { auto v = hc::rest_ints(ls); std::vector<Op> p; for (size_t i = 0; i + 2 <= v.size(); i += 2) p.push_back({v[i], v[i + 1]}); c.prog.push_back(p); }
            else if (w == "sched") { for (int x : hc::rest_ints(ls)) c.sched.push_back((uint8_t)x); }
        }
        return c;
    }
    // Programs are normalised so that they cannot block by their own construction: a blocking read (GET / WAITGET) stays only if
    // enough SETs exist that are not themselves behind a blocking read (1 for a base future, `count` for a countable one).
    // Ops that do not belong to the kind are dropped.
    std::vector<std::vector<Op>> effective() const {
        std::vector<std::vector<Op>> e;
        int free_sets = 0;
        for (auto &p : prog) { std::vector<Op> q; bool blocked = false;
            for (auto &o : p) {
                if (kind == DATACOPY) { if (o.op == OP_REQ) q.push_back({OP_REQ, o.arg < 0 ? -1 : o.arg % NSHAPES}); continue; }
                if (o.op == OP_REQ) continue;
                q.push_back(o);
                if (o.op == OP_SET && !blocked) free_sets++;
                if (o.op == OP_GET || o.op == OP_WAITGET) blocked = true;
            }
            e.push_back(q); }
        int need = kind == BASE ? 1 : std::max(1, count);
        if (kind != DATACOPY && free_sets < need) for (auto &p : e) for (auto &o : p) if (o.op == OP_GET || o.op == OP_WAITGET) o.op = OP_POLL;
        return e;
    }
};

struct RunInfo { bool nontrivial = false, racing_sets = false, reader_raced = false, same_shape_race = false, nested = false, extra_sets = false, fewer_sets = false, deferred_by_other = false; uint64_t steps = 0; int nshapes = 0; };

struct Call { int thread, op, arg; uint64_t inv, resp; void *res; };

// ------------------------------------------------------------------------------------------------ world shared with callbacks
struct World {
    const Case *c = nullptr; std::string err; void *fut = nullptr;
    void fail(const std::string &m) { if (err.empty()) err = m; }
    // base / countable
    std::vector<int *> vals; void *W = nullptr; int cb_count = 0, cb_thread = -2; uint64_t cb_step = 0; int committed_sets = 0; int cb_by[8] = {0, 0, 0, 0, 0, 0, 0, 0};
    // datacopy
    struct Fut { void *f; int shape; int fulfilled = 0, cleaned = 0; bool root = false; };
    std::vector<Fut> futs; std::deque<std::pair<void *, int>> pending; std::vector<int *> datas; int held = 0; int fulfiller_thread[NSHAPES]; uint64_t epoch = 0;   // epoch: bumped whenever a future gets its data
    Fut *find(void *f) { for (auto &x : futs) if (x.f == f) return &x; return nullptr; }
    int *mkdata(int shape) { int *d = new int[2]{shape, (int)datas.size()}; datas.push_back(d); return d; }
    int *known_data(void *p) { for (int *d : datas) if (d == p) return d; return nullptr; }
};
static World *g_w = nullptr;
static bool g_trace = false;   // C29_TRACE=1: one line per harness-level event on stderr (diagnosis of replays)
#define TRACE(...) do { if (g_trace) { fprintf(stderr, "[t%d @%lu] ", dsched::self(), (unsigned long)dsched::now()); fprintf(stderr, __VA_ARGS__); fprintf(stderr, "\n"); } } while (0)

static void on_event(void *f, int ev, int shape) {
    World &w = *g_w;
    if (ev == EV_BASE_CB) {
        w.cb_count++; w.cb_thread = dsched::self(); w.cb_step = dsched::now(); if (dsched::self() >= 0 && dsched::self() < 8) w.cb_by[dsched::self()]++;
        if (w.cb_count > 1) w.fail("the completion callback ran " + std::to_string(w.cb_count) + " times");
        if (!shim_future_is_ready(f)) w.fail("the completion callback runs on a future that is not ready");
        if (w.c->kind == BASE) {
            void *p = shim_future_get(f);            // as tests/class/future.c does inside its callback
            if (!p) w.fail("the completion callback reads a NULL value");
            if (w.W && p != w.W) w.fail("the completion callback saw a different value than a reader");
            if (!w.W) w.W = p;
        } else if (w.committed_sets != w.c->count - 1) {
            w.fail("the countable future's callback ran during set #" + std::to_string(w.committed_sets + 1) + ", expected during set #" + std::to_string(w.c->count));
        }
        return;
    }
    World::Fut *x = w.find(f);
    TRACE("event %d future %p shape %d", ev, f, shape);
    if (ev == EV_NESTED_CREATED) {
        if (shape == w.c->root_shape) w.fail("a nested future was created for the shape the root future already tracks");
        for (auto &y : w.futs) if (!y.root && y.shape == shape) w.fail("a second nested future was created for shape " + std::to_string(shape));
        World::Fut n; n.f = f; n.shape = shape; w.futs.push_back(n);
        return;
    }
    if (!x) { w.fail("callback on an unknown future"); return; }
    if (x->shape != shape) w.fail("callback reports shape " + std::to_string(shape) + " for a future created for shape " + std::to_string(x->shape));
    if (ev == EV_FULFILL) {
        x->fulfilled++;
        if (x->fulfilled > 1) w.fail("cb_fulfill ran " + std::to_string(x->fulfilled) + " times for shape " + std::to_string(shape));
        if (x->root && w.c->root_pre) w.fail("cb_fulfill ran on a future that was already fulfilled");
        if (shape >= 0 && shape < NSHAPES) w.fulfiller_thread[shape] = dsched::self();
        if (w.c->async) { w.pending.push_back({f, shape}); return; }
        for (int i = 0; i < w.c->fyield && dsched::self() >= 0; i++) dsched::yield_point();
        shim_future_set(f, w.mkdata(shape)); w.epoch++;
    } else if (ev == EV_CLEANUP) {
        x->cleaned++;
        if (x->cleaned > 1) w.fail("cb_cleanup ran " + std::to_string(x->cleaned) + " times for the future of shape " + std::to_string(shape));
        if (w.held != 0) w.fail("cb_cleanup runs while " + std::to_string(w.held) + " reference(s) to the root future are still held");
    }
}

static bool overlap_or_close(const Call &a, const Call &b) {
    if (a.inv < b.resp && b.inv < a.resp) return true;
    uint64_t d = a.resp > b.resp ? a.resp - b.resp : b.resp - a.resp;
    return d <= 3;
}

// ------------------------------------------------------------------------------------------------ base + countable
static std::string run_simple(const Case &c, dsched::Chooser &ch, RunInfo *ri) {
    auto prog = c.effective(); int T = (int)prog.size();
    World w; g_w = &w; shim_c29_event = on_event;
    bool base = c.kind == BASE; int count = std::max(1, c.count);
    Case cc = c; cc.count = count; w.c = &cc;
    w.fut = base ? shim_base_new(c.init) : shim_countable_new(count, c.init != 0);
    bool with_cb = base ? c.init == 2 : c.init != 0;
    int total_sets = 0; for (auto &p : prog) for (auto &o : p) total_sets += o.op == OP_SET;
    for (int i = 0; i < total_sets; i++) w.vals.push_back(new int(i));
    std::vector<Call> calls; int next_val = 0, inflight_sets = 0; bool ready_seen = false;
    auto ready_now = [&]() { int r = shim_future_is_ready(w.fut); if (r) ready_seen = true; else if (ready_seen) w.fail("a ready future became not ready again"); return r; };
    auto saw = [&](void *p, const char *who) {
        if (!base) return;                                     // a countable future tracks no data
        if (!p) { w.fail(std::string(who) + " returned NULL from a ready future"); return; }
        bool known = false; for (int *v : w.vals) known |= (v == p);
        if (!known) w.fail(std::string(who) + " returned a pointer that was never set");
        if (!w.W) w.W = p; else if (w.W != p) w.fail(std::string(who) + " returned a different value than an earlier reader: the future delivered two values");
    };
    std::vector<std::function<void()>> bodies;
    for (int t = 0; t < T; t++) bodies.push_back([&, t]() {
        for (const Op &o : prog[t]) {
            Call k; k.thread = t; k.op = o.op; k.arg = 0; k.res = nullptr; k.inv = dsched::now();
            if (o.op == OP_SET) {
                int vid = next_val++; k.arg = vid;
                w.cb_by[t] = 0;
                inflight_sets++;
                shim_future_set(w.fut, w.vals[vid]);
                inflight_sets--;
                w.committed_sets++;
                if (!base) {
                    bool fired = w.cb_by[t] != 0;
                    if (with_cb && (w.committed_sets == count) != fired) w.fail(fired ? "the callback fired on set #" + std::to_string(w.committed_sets) + " of a countable future of count " + std::to_string(count)
                                                                                    : "set #" + std::to_string(count) + " of " + std::to_string(count) + " did not fire the callback");
                    if (shim_future_is_ready(w.fut) != (w.committed_sets >= count)) w.fail("after set #" + std::to_string(w.committed_sets) + " the countable future of count " + std::to_string(count) + (w.committed_sets >= count ? " is not ready" : " is ready"));
                } else if (!ready_now() && inflight_sets == 0) w.fail("a base future is not ready although a set returned and no other set is in progress");
            } else if (o.op == OP_GET) {
                k.res = shim_future_get(w.fut); saw(k.res, "get");
                if (!base && w.committed_sets < count) w.fail("get returned from a countable future after only " + std::to_string(w.committed_sets) + " of " + std::to_string(count) + " sets");
            } else if (o.op == OP_POLL) {
                int before = w.committed_sets;
                int r = base ? ready_now() : shim_future_is_ready(w.fut);
                if (base) { if (!r && before >= 1 && inflight_sets == 0) w.fail("is_ready is false although a set has returned and no other set is in progress"); }
                else if (r != (before >= count)) w.fail(std::string("is_ready is ") + (r ? "true" : "false") + " after " + std::to_string(before) + " sets on a countable future of count " + std::to_string(count));
                if (r) { k.res = shim_future_get(w.fut); saw(k.res, "get after is_ready"); k.arg = 1; }
            } else if (o.op == OP_WAITGET) {
                while (!shim_future_is_ready(w.fut)) dsched::spin_point();
                k.res = shim_future_get(w.fut); saw(k.res, "get after polling");
            }
            k.resp = dsched::now() + 1;
            calls.push_back(k);
        }
    });
    dsched::Outcome out = dsched::run(bodies, ch, 50000);
    ri->steps = out.steps;
    int nsets = w.committed_sets;
    if (base) {
        if (nsets >= 1) {
            if (!shim_future_is_ready(w.fut)) w.fail("the future is not ready after " + std::to_string(nsets) + " sets");
            else saw(shim_future_get(w.fut), "final get");
            // the winning set must not have been invoked after another set had already returned
            const Call *win = nullptr; for (auto &k : calls) if (k.op == OP_SET && w.vals[k.arg] == w.W) win = &k;
            if (win) for (auto &k : calls) if (k.op == OP_SET && &k != win && k.resp <= win->inv) w.fail("the future holds the value of a set that was invoked after another set had returned (a later set replaced the value)");
            if (with_cb && win && w.cb_count == 1 && (w.cb_thread != win->thread || w.cb_step < win->inv || w.cb_step > win->resp)) w.fail("the callback did not run inside the winning set");
        } else if (shim_future_is_ready(w.fut)) w.fail("the future is ready although nothing was set");
        if (with_cb && w.cb_count != (nsets >= 1 ? 1 : 0)) w.fail("the completion callback ran " + std::to_string(w.cb_count) + " times after " + std::to_string(nsets) + " sets");
    } else {
        if (shim_future_is_ready(w.fut) != (nsets >= count)) w.fail("countable future of count " + std::to_string(count) + " after " + std::to_string(nsets) + " sets: ready flag is wrong");
        if (with_cb && w.cb_count != (nsets >= count ? 1 : 0)) w.fail("the countable future's callback ran " + std::to_string(w.cb_count) + " times after " + std::to_string(nsets) + " of " + std::to_string(count) + " sets");
        ri->extra_sets = nsets > count; ri->fewer_sets = nsets < count;
    }
    // non-triviality
    std::vector<const Call *> sets; for (auto &k : calls) if (k.op == OP_SET) sets.push_back(&k);
    if (base) {
        for (size_t i = 0; i < sets.size(); i++) for (size_t j = i + 1; j < sets.size(); j++) if (sets[i]->thread != sets[j]->thread && overlap_or_close(*sets[i], *sets[j])) ri->racing_sets = true;
    } else if ((int)sets.size() >= count && count >= 2) {
        const Call *last = sets[count - 1], *prev = sets[count - 2];
        if (last->thread != prev->thread && overlap_or_close(*last, *prev)) ri->racing_sets = true;
        if ((int)sets.size() > count && sets[count]->thread != last->thread && overlap_or_close(*sets[count], *last)) ri->racing_sets = true;
    }
    for (auto &k : calls) if (k.op != OP_SET) for (auto s : sets) if (s->thread != k.thread && k.inv < s->resp && s->inv < k.resp) ri->reader_raced = true;
    ri->nontrivial = ri->racing_sets;
    shim_future_release(w.fut);
    for (int *v : w.vals) delete v;
    shim_c29_event = nullptr; g_w = nullptr;
    return w.err;
}

// ------------------------------------------------------------------------------------------------ datacopy
static std::string run_datacopy(const Case &c, dsched::Chooser &ch, RunInfo *ri) {
    auto prog = c.effective(); int T = (int)prog.size();
    int nreq = 0; for (auto &p : prog) nreq += (int)p.size();
    if (nreq == 0) return "";
    World w; w.c = &c; g_w = &w; shim_c29_event = on_event;
    for (int s = 0; s < NSHAPES; s++) w.fulfiller_thread[s] = -2;
    int s0 = ((c.root_shape % NSHAPES) + NSHAPES) % NSHAPES;
    Case cc = c; cc.root_shape = s0; w.c = &cc;
    void *root = shim_dc_new(s0); w.fut = root;
    { World::Fut r; r.f = root; r.shape = s0; r.root = true; w.futs.push_back(r); }
    if (c.root_pre) shim_future_set(root, w.mkdata(s0));         // a "fulfilled promise": set by its creator right after init
    for (int i = 1; i < nreq; i++) shim_future_retain(root);      // one reference per requester, as the runtime does
    w.held = nreq;
    std::vector<Call> calls; void *got[NSHAPES] = {nullptr, nullptr, nullptr, nullptr};
    std::vector<std::function<void()>> bodies;
    for (int t = 0; t < T; t++) bodies.push_back([&, t]() {
        for (const Op &o : prog[t]) {
            if (!w.err.empty()) return;
            int want = o.arg, eff = want < 0 ? s0 : want;
            Call k; k.thread = t; k.op = OP_REQ; k.arg = eff; k.inv = dsched::now();
            void *p = nullptr;
            for (;;) {
                uint64_t epoch0 = w.epoch;
                p = shim_dc_get_or_trigger(root, want);
                TRACE("get_or_trigger(want %d) -> %p, %zu pending", want, p, w.pending.size());
                if (p || !w.err.empty()) break;
                if (!w.pending.empty()) {                        // deferred fulfilment: whoever finds it pending completes it later
                    auto pf = w.pending.front(); w.pending.pop_front();
                    if (w.fulfiller_thread[pf.second] != t) ri->deferred_by_other = true;
                    dsched::yield_point();
                    TRACE("deferred set of future %p shape %d", pf.first, pf.second);
                    shim_future_set(pf.first, w.mkdata(pf.second)); w.epoch++;
                } else if (w.epoch != epoch0) dsched::yield_point();   // something completed while this call was under way: the NULL is stale, ask again
                else dsched::spin_point();                               // wait until another thread has done something
            }
            k.resp = dsched::now() + 1; k.res = p;
            if (p) {
                int *d = w.known_data(p);
                if (!d) w.fail("get_or_trigger returned a pointer that no fulfilment produced");
                else if (d[0] != eff) w.fail("a request for shape " + std::to_string(eff) + " obtained data of shape " + std::to_string(d[0]));
                if (got[eff] && got[eff] != p) w.fail("two requests for shape " + std::to_string(eff) + " obtained different copies");
                got[eff] = p;
            }
            calls.push_back(k);
            w.held--;
            shim_future_release(root);
        }
    });
    dsched::Outcome out = dsched::run(bodies, ch, 100000);
    ri->steps = out.steps;
    if (w.err.empty()) {
        if (w.held != 0) w.fail("internal: reference bookkeeping");
        for (auto &x : w.futs) {
            if (x.cleaned != 1) w.fail("cb_cleanup ran " + std::to_string(x.cleaned) + " times for the " + (x.root ? "root" : "nested") + " future of shape " + std::to_string(x.shape) + " after the last reference was released");
            bool wanted = got[x.shape] != nullptr;
            int expf = (x.root && c.root_pre) ? 0 : (wanted ? 1 : x.fulfilled);
            if (x.fulfilled != expf) w.fail("cb_fulfill ran " + std::to_string(x.fulfilled) + " times for shape " + std::to_string(x.shape) + " (expected " + std::to_string(expf) + ")");
        }
        if (!w.pending.empty()) w.fail("a deferred fulfilment was still pending when every requester had been served");
    }
    for (size_t i = 0; i < calls.size(); i++) for (size_t j = i + 1; j < calls.size(); j++)
        if (calls[i].thread != calls[j].thread && calls[i].arg == calls[j].arg && calls[i].inv < calls[j].resp && calls[j].inv < calls[i].resp) ri->same_shape_race = true;
    ri->nested = w.futs.size() > 1; ri->nshapes = 0; for (int s = 0; s < NSHAPES; s++) ri->nshapes += got[s] != nullptr;
    ri->nontrivial = ri->same_shape_race;
    for (int *d : w.datas) delete[] d;
    shim_c29_event = nullptr; g_w = nullptr;
    return w.err;
}

static std::string run_case(const Case &c, dsched::Chooser &ch, RunInfo *ri) { return c.kind == DATACOPY ? run_datacopy(c, ch, ri) : run_simple(c, ch, ri); }

static std::function<std::string()> g_current;
static void fatal_hook(const char *what) { vf::record_failure(g_current ? g_current() : std::string("?"), what); vf::dump(); }

static int do_replay(const char *path) {
    Case c = Case::parse(vf::slurp(path));
    g_current = [&]() { return c.repr(); };
    hc::FairByteChooser ch(c.sched.data(), c.sched.size(), c.sparse);
    RunInfo ri; std::string e = run_case(c, ch, &ri);
    if (e.empty()) { printf("REPLAY-PASS\n"); return 0; }
    printf("REPLAY-FAIL %s\n", e.c_str()); return 1;
}

// exhaustive sub-spaces (all schedules with <= pb preemptions)
//  kind 0: base future with callback, 2 threads x 2 ops from {SET, POLL, WAITGET} (81 programs) + 3 threads x 1 op (27 programs)
//  kind 1: countable future with callback, count in {1,2,3}, 2 threads x 2 ops from {SET, POLL} (16 programs each) + count 2, 3 threads x 1 op from {SET, POLL, GET}
//  kind 2: datacopy root of shape 0, 2 threads x 1 request from {none, 0, 1, 2} (16 programs) x {sync with 1 yield, deferred} x {unfulfilled, pre-fulfilled}
static int do_exh(int kind, int pb, int part, int nparts) {
    std::vector<Case> cases;
    if (kind == BASE) {
        int ops[3] = {OP_SET, OP_POLL, OP_WAITGET};
        for (int code = 0; code < 81; code++) { Case c; c.kind = BASE; c.init = 2; c.prog.resize(2); int x = code; for (int t = 0; t < 2; t++) for (int i = 0; i < 2; i++) { c.prog[t].push_back({ops[x % 3], 0}); x /= 3; } cases.push_back(c); }
        for (int code = 0; code < 27; code++) { Case c; c.kind = BASE; c.init = 2; c.prog.resize(3); int x = code; for (int t = 0; t < 3; t++) { c.prog[t].push_back({ops[x % 3], 0}); x /= 3; } cases.push_back(c); }
    } else if (kind == COUNTABLE) {
        for (int cnt = 1; cnt <= 3; cnt++) for (int code = 0; code < 16; code++) { Case c; c.kind = COUNTABLE; c.init = 1; c.count = cnt; c.prog.resize(2); int x = code; for (int t = 0; t < 2; t++) for (int i = 0; i < 2; i++) { c.prog[t].push_back({(x & 1) ? OP_POLL : OP_SET, 0}); x >>= 1; } cases.push_back(c); }
        int ops[3] = {OP_SET, OP_POLL, OP_GET};
        for (int code = 0; code < 27; code++) { Case c; c.kind = COUNTABLE; c.init = 1; c.count = 2; c.prog.resize(3); int x = code; for (int t = 0; t < 3; t++) { c.prog[t].push_back({ops[x % 3], 0}); x /= 3; } cases.push_back(c); }
    } else {
        for (int v = 0; v < 4; v++) for (int code = 0; code < 16; code++) {
            Case c; c.kind = DATACOPY; c.root_shape = 0; c.async = v & 1; c.root_pre = v >> 1; c.fyield = 1; c.prog.resize(2);
            c.prog[0].push_back({OP_REQ, (code & 3) - 1}); c.prog[1].push_back({OP_REQ, (code >> 2) - 1});
            cases.push_back(c);
        }
    }
    bool truncated = false;
    for (size_t i = 0; i < cases.size(); i++) {
        if ((int)(i % nparts) != part) continue;
        Case c = cases[i];
        hc::DfsStats st;
        dsched::DfsChooser *cur = nullptr;
        auto with_sched = [&](const std::vector<uint8_t> &s) { Case f = c; f.sparse = -1; f.sched = s; return f.repr(); };
        g_current = [&]() { return with_sched(cur ? hc::dfs_prefix(*cur) : std::vector<uint8_t>()); };
        bool ok = hc::dfs_all(pb, 2000000, [&](dsched::Chooser &d, bool *nt) {
            cur = (dsched::DfsChooser *)&d;
            RunInfo ri; std::string e = run_case(c, d, &ri); *nt = ri.nontrivial; return e; }, with_sched, st);
        vf::R().evaluations += st.execs;
        if (!ok) { vf::dump(); return 1; }
        truncated = truncated || st.truncated || st.capped;
        vf::note_case(c.repr() + "#schedules " + std::to_string(st.execs) + "\n", st.any_nontrivial);
        vf::R().evaluations -= 1;
        vf::label(std::string("schedules_enumerated_kind_") + std::to_string(kind), st.execs);
    }
    vf::R().extra[std::string("exh_truncated_kind_") + std::to_string(kind)] = truncated ? "true" : "false";
    vf::dump();
    return 0;
}

// ------------------------------------------------------------------------------------------------ free-running stress
namespace st {
static const int B = 8;
struct Round {
    void *base[B]; int *vals[B][16]; std::atomic<void *> seen[B]; std::atomic<int> base_cb[B];
    void *cnt[B]; std::atomic<int> cnt_cb[B], cnt_sets[B], cnt_early[B];
    void *root[B]; std::atomic<void *> dcgot[B][NSHAPES]; std::atomic<int> dcf[B][NSHAPES], dccreated[B], dcclean[B], dcheld[B]; int async[B];
};
static Round *R; static std::atomic<long> bad{0}; static int T;
static std::mutex mu; static std::vector<std::pair<void *, int>> pending; static std::vector<int *> datas;
static int which(void *f, void **arr) { for (int b = 0; b < B; b++) if (arr[b] == f) return b; return -1; }
static thread_local int cur_b = -1;
static void ev(void *f, int e, int shape) {
    if (e == EV_BASE_CB) {
        int b = which(f, R->base);
        if (b >= 0) { R->base_cb[b]++; if (!shim_future_is_ready(f) || !shim_future_get(f)) bad++; return; }
        b = which(f, R->cnt);
        if (b >= 0) { R->cnt_cb[b]++; if (R->cnt_sets[b].load() != T) R->cnt_early[b]++; }
        return;
    }
    int b = cur_b; if (b < 0) { bad++; return; }
    if (e == EV_NESTED_CREATED) { R->dccreated[b]++; return; }
    if (e == EV_FULFILL) {
        if (++R->dcf[b][shape] != 1) bad++;
        int *d = new int[2]{shape, b};
        { std::lock_guard<std::mutex> g(mu); datas.push_back(d); if (R->async[b]) { pending.push_back({f, shape}); return; } }
        shim_future_set(f, d);
        return;
    }
    if (e == EV_CLEANUP) { R->dcclean[b]++; if (R->dcheld[b].load() != 0) bad++; }
}
}
static int do_stress(int T, long rounds, unsigned seed) {
    using namespace st;
    st::T = T; R = new Round(); shim_c29_event = ev;
    std::atomic<long> phase{0}; std::atomic<int> arrived{0};
    std::vector<std::thread> th;
    for (int t = 0; t < T; t++) th.emplace_back([&, t]() {
        for (long r = 0; r < rounds; r++) {
            arrived++; { long spins = 0; while (phase.load() < 2 * r + 1) if (++spins > 20000) std::this_thread::yield(); }
            for (int b = 0; b < B; b++) {
                // base: even threads set distinct values, odd threads read (blocking get); with one thread: set then get
                if (t % 2 == 0) shim_future_set(R->base[b], R->vals[b][t]);
                if (t % 2 == 1 || T == 1) { void *p = shim_future_get(R->base[b]); void *exp = nullptr; if (!p) bad++; else if (!R->seen[b].compare_exchange_strong(exp, p) && exp != p) bad++; }
                // countable of count T: everybody sets once
                R->cnt_sets[b]++; shim_future_set(R->cnt[b], nullptr);
                // datacopy: two requests per thread
                cur_b = b;
                for (int q = 0; q < 2; q++) {
                    int want = q == 0 ? (int)((t + r + b) % NSHAPES) : -1, eff = want < 0 ? 0 : want; void *p;
                    while (!(p = shim_dc_get_or_trigger(R->root[b], want))) {
                        std::pair<void *, int> pf{nullptr, 0};
                        { std::lock_guard<std::mutex> g(mu); if (!pending.empty()) { pf = pending.back(); pending.pop_back(); } }
                        if (pf.first) { int *d = new int[2]{pf.second, b}; { std::lock_guard<std::mutex> g(mu); datas.push_back(d); } shim_future_set(pf.first, d); }
                        else std::this_thread::yield();
                    }
                    if (((int *)p)[0] != eff) bad++;
                    void *exp = nullptr; if (!R->dcgot[b][eff].compare_exchange_strong(exp, p) && exp != p) bad++;
                    R->dcheld[b]--; shim_future_release(R->root[b]);
                }
                cur_b = -1;
            }
            arrived++; while (phase.load() < 2 * r + 2) std::this_thread::yield();
        }
    });
    std::string e; uint64_t nfut = 0;
    for (long r = 0; r < rounds && e.empty(); r++) {
        for (int b = 0; b < B; b++) {
            R->base[b] = shim_base_new(2); R->seen[b] = nullptr; R->base_cb[b] = 0;
            for (int t = 0; t < T && t < 16; t++) R->vals[b][t] = new int(t);
            R->cnt[b] = shim_countable_new(T, 1); R->cnt_cb[b] = 0; R->cnt_sets[b] = 0; R->cnt_early[b] = 0;
            R->root[b] = shim_dc_new(0); R->async[b] = (int)((r + b + seed) & 1);
            for (int i = 1; i < 2 * T; i++) shim_future_retain(R->root[b]);
            R->dcheld[b] = 2 * T; R->dccreated[b] = 1; R->dcclean[b] = 0;
            for (int s = 0; s < NSHAPES; s++) { R->dcgot[b][s] = nullptr; R->dcf[b][s] = 0; }
        }
        while (arrived.load() < T) std::this_thread::yield();
        arrived = 0; phase = 2 * r + 1;
        while (arrived.load() < T) std::this_thread::yield();
        for (int b = 0; b < B && e.empty(); b++) {
            std::string at = "round " + std::to_string(r) + " future " + std::to_string(b) + ": ";
            if (R->base_cb[b].load() != 1) e = at + "base future callback ran " + std::to_string(R->base_cb[b].load()) + " times";
            else if (!shim_future_is_ready(R->base[b]) || (R->seen[b].load() && shim_future_get(R->base[b]) != R->seen[b].load())) e = at + "base future value changed after readers saw it";
            else if (R->cnt_cb[b].load() != 1 || R->cnt_early[b].load() || !shim_future_is_ready(R->cnt[b])) e = at + "countable future of count " + std::to_string(T) + ": callback ran " + std::to_string(R->cnt_cb[b].load()) + " times" + (R->cnt_early[b].load() ? " (before all sets were invoked)" : "");
            else if (R->dcclean[b].load() != R->dccreated[b].load()) e = at + "datacopy: " + std::to_string(R->dccreated[b].load()) + " futures created but cb_cleanup ran " + std::to_string(R->dcclean[b].load()) + " times";
            for (int s = 0; s < NSHAPES && e.empty(); s++) if (R->dcf[b][s].load() != (R->dcgot[b][s].load() ? 1 : 0)) e = at + "datacopy: cb_fulfill ran " + std::to_string(R->dcf[b][s].load()) + " times for shape " + std::to_string(s);
            shim_future_release(R->base[b]); shim_future_release(R->cnt[b]);
            for (int t = 0; t < T && t < 16; t++) delete R->vals[b][t];
            nfut += 3;
        }
        if (bad.load() && e.empty()) e = "round " + std::to_string(r) + ": " + std::to_string(bad.load()) + " inconsistent observations (two values, NULL value, wrong shape, second fulfilment or early cleanup)";
        { std::lock_guard<std::mutex> g(mu); if (!pending.empty() && e.empty()) e = "deferred fulfilment left pending"; for (int *d : datas) delete[] d; datas.clear(); pending.clear(); }
        arrived = 0; phase = 2 * r + 2;
    }
    std::string repr = "C29-stress threads " + std::to_string(T) + " rounds " + std::to_string(rounds) + " seed " + std::to_string(seed) + "\n";
    if (!e.empty()) { vf::record_failure(repr, e); vf::dump(); fflush(nullptr); _exit(1); }
    for (auto &t : th) t.join();
    vf::note_case(repr, T >= 2);
    vf::label("stress_futures", nfut);
    shim_c29_event = nullptr;
    vf::dump();
    return 0;
}

int main(int argc, char **argv) {
    std::string mode = argc > 1 ? argv[1] : "rc";
    dsched::on_fatal() = fatal_hook;
    shim_c29_quiet();
    {   // warm-up outside dsched: every lazily initialised class descriptor (futures, nested list) is built now, so that an
        // execution is a pure function of (case, schedule) and not of what the process ran before (replay determinism)
        void *b = shim_base_new(1); shim_future_set(b, (void *)&mode); shim_future_release(b);
        void *k = shim_countable_new(1, 0); shim_future_set(k, nullptr); shim_future_release(k);
        Case wc; wc.kind = DATACOPY; wc.root_shape = 0; wc.prog = {{{OP_REQ, -1}, {OP_REQ, 1}}};
        hc::FairByteChooser ch(nullptr, 0, 0); RunInfo ri; std::string e = run_case(wc, ch, &ri);
        if (!e.empty()) { vf::record_failure(wc.repr(), "(sequential warm-up case) " + e); vf::dump(); return 1; }
    }
    g_trace = getenv("C29_TRACE") != nullptr;
    if (mode == "replay") {
        std::string txt = vf::slurp(argv[2]);
        if (txt.rfind("C29-stress", 0) == 0) {
            int T; long it; unsigned sd; sscanf(txt.c_str(), "C29-stress threads %d rounds %ld seed %u", &T, &it, &sd);
            int r = 0; for (int k = 0; k < 3 && !r; k++) r = do_stress(T, it, sd);
            printf(r ? "REPLAY-FAIL stress\n" : "REPLAY-PASS\n"); return r;
        }
        return do_replay(argv[2]);
    }
    if (mode == "exh") return do_exh(atoi(argv[2]), atoi(argv[3]), atoi(argv[4]), atoi(argv[5]));
    if (mode == "stress") return do_stress(atoi(argv[2]), atol(argv[3]), (unsigned)atoi(argv[4]));
    bool ok = rc::check("futures complete once and deliver one value", []() {
        Case c;
        c.kind = *rc::gen::resize(100, rc::gen::element(0, 0, 1, 1, 2, 2, 2));
        int T = *rc::gen::resize(100, rc::gen::element(1, 2, 2, 3, 3, 4, 4));
        c.sparse = *rc::gen::element(0, 0, 0, 128, 200);
        c.prog.resize(T);
        if (c.kind == BASE) {
            c.init = *rc::gen::resize(100, rc::gen::element(0, 1, 2, 2, 2));
            for (int t = 0; t < T; t++) { int n = *rc::gen::resize(100, rc::gen::inRange(1, 4)); for (int i = 0; i < n; i++) c.prog[t].push_back({*rc::gen::resize(100, rc::gen::element(0, 0, 0, 1, 2, 3)), 0}); }
        } else if (c.kind == COUNTABLE) {
            c.init = *rc::gen::resize(100, rc::gen::element(0, 1, 1, 1));
            c.count = *rc::gen::resize(100, rc::gen::inRange(1, 7));
            // around `count` sets in total, dealt to the threads with polls / gets in between
            int total = std::max(0, c.count + *rc::gen::resize(100, rc::gen::element(-2, -1, 0, 0, 0, 0, 1, 2)));
            for (int i = 0; i < total; i++) c.prog[*rc::gen::resize(100, rc::gen::inRange(0, T))].push_back({OP_SET, 0});
            int nread = *rc::gen::resize(100, rc::gen::inRange(0, 5));
            for (int i = 0; i < nread; i++) { auto &p = c.prog[*rc::gen::resize(100, rc::gen::inRange(0, T))]; int pos = *rc::gen::resize(100, rc::gen::inRange(0, (int)p.size() + 1)); p.insert(p.begin() + pos, Op{*rc::gen::resize(100, rc::gen::element(1, 2, 2, 3)), 0}); }
        } else {
            c.root_shape = *rc::gen::resize(100, rc::gen::inRange(0, NSHAPES));
            c.root_pre = *rc::gen::resize(100, rc::gen::element(0, 0, 1));
            c.async = *rc::gen::resize(100, rc::gen::inRange(0, 2));
            c.fyield = *rc::gen::resize(100, rc::gen::inRange(0, 3));
            int nshapes = *rc::gen::resize(100, rc::gen::inRange(1, NSHAPES + 1));
            for (int t = 0; t < T; t++) { int n = *rc::gen::resize(100, rc::gen::inRange(1, 4)); for (int i = 0; i < n; i++) c.prog[t].push_back({OP_REQ, *rc::gen::resize(100, rc::gen::inRange(-1, nshapes))}); }
        }
        int sl = *rc::gen::inRange(0, 120);
        c.sched = *rc::gen::container<std::vector<uint8_t>>((size_t)sl, rc::gen::resize(100, rc::gen::arbitrary<uint8_t>()));
        g_current = [&]() { return c.repr(); };
        hc::FairByteChooser ch(c.sched.data(), c.sched.size(), c.sparse);
        RunInfo ri; std::string e = run_case(c, ch, &ri);
        std::string r = c.repr();
        vf::note_case(r, ri.nontrivial);
        const char *kn[3] = {"base", "countable", "datacopy"};
        vf::label(std::string("kind_") + kn[c.kind]);
        vf::label(std::string("threads_") + std::to_string(T));
        if (ri.racing_sets) vf::label(std::string(kn[c.kind]) + "_racing_sets");
        if (ri.reader_raced) vf::label(std::string(kn[c.kind]) + "_reader_overlaps_set");
        if (ri.extra_sets) vf::label("countable_more_sets_than_count");
        if (ri.fewer_sets) vf::label("countable_fewer_sets_than_count");
        if (ri.same_shape_race) vf::label("datacopy_same_shape_requests_overlap");
        if (ri.nested) vf::label("datacopy_nested_future_created");
        if (ri.deferred_by_other) vf::label("datacopy_deferred_fulfilment_completed_by_another_thread");
        if (c.kind == DATACOPY) vf::label(std::string("datacopy_shapes_obtained_") + std::to_string(ri.nshapes));
        if (!e.empty()) { vf::record_failure(r, e); RC_FAIL(e); }
    });
    vf::dump();
    return ok ? 0 : 1;
}
