/* C shim: the rwlock type is a volatile C struct and its header pulls the inline atomics; keep that in a C TU.
 * The lock functions themselves are out of line in libparsec.so (instrumented with hooks H1 + H2). */
#include "parsec/parsec_config.h"
#include "parsec/class/parsec_rwlock.h"
#include <stdlib.h>

#if PARSEC_RWLOCK_IMPL != PARSEC_RWLOCK_IMPL_TICKET
#error "C33 was written against the configured ticket implementation"
#endif

void *shim_rw_new(void) {
    parsec_atomic_rwlock_t *l = (parsec_atomic_rwlock_t *)malloc(sizeof(parsec_atomic_rwlock_t));
    parsec_atomic_rwlock_init(l);
    return (void *)l;
}
void shim_rw_free(void *l) { free(l); }
void shim_rdlock(void *l) { parsec_atomic_rwlock_rdlock((parsec_atomic_rwlock_t *)l); }
void shim_rdunlock(void *l) { parsec_atomic_rwlock_rdunlock((parsec_atomic_rwlock_t *)l); }
void shim_wrlock(void *l) { parsec_atomic_rwlock_wrlock((parsec_atomic_rwlock_t *)l); }
void shim_wrunlock(void *l) { parsec_atomic_rwlock_wrunlock((parsec_atomic_rwlock_t *)l); }
