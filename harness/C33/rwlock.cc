// C33 -- The runtime read-write lock (ticket implementation) excludes correctly and makes progress.
//
// case = (per-thread programs of lock cycles (R|W, work yields inside, gap yields after), schedule bytes)
// run under dsched; oracle = harness occupancy counters (plain ints: only one thread runs at a time):
//   a writer inside excludes every other writer and every reader, at entry and at every yield inside the
//   critical section; progress = no dsched deadlock / step bound under the fair tail, and afterwards a probe
//   thread can still take the lock in both modes.  Two readers inside at once is *allowed* and counted.
// modes: rc | exh <shape> <pb> <part> <nparts> | stress <T> <iters> <seed> | replay <file>
#include <atomic>
#include <thread>
#include "hcommon.hpp"
#include <rapidcheck.h>

extern "C" {
void *shim_rw_new(void); void shim_rw_free(void *);
void shim_rdlock(void *); void shim_rdunlock(void *); void shim_wrlock(void *); void shim_wrunlock(void *);
}

struct Cyc { int kind, work, gap; };   // kind 0 = read cycle, 1 = write cycle

struct Case {
    int sparse = 0;
    std::vector<std::vector<Cyc>> prog;
    std::vector<uint8_t> sched;
    std::string repr() const {
        std::ostringstream o;
        o << "C33 sparse " << sparse << " threads " << prog.size() << "\n";
        for (auto &p : prog) { o << "prog"; for (auto &c : p) o << " " << c.kind << " " << c.work << " " << c.gap; o << "\n"; }
        o << "sched" << hc::bytes(sched) << "\n";
        return o.str();
    }
    static Case parse(const std::string &s) {
        Case c; std::istringstream in(s); std::string line;
        while (std::getline(in, line)) {
            std::istringstream ls(line); std::string w; ls >> w;
            if (w == "C33") hc::header_kv(ls, [&](const std::string &k, int v) { if (k == "sparse") c.sparse = v; });
            else if (w == "prog") { auto v = hc::rest_ints(ls); std::vector<Cyc> p; for (size_t i = 0; i + 3 <= v.size(); i += 3) p.push_back({v[i], v[i + 1], v[i + 2]}); c.prog.push_back(p); }
            else if (w == "sched") { for (int x : hc::rest_ints(ls)) c.sched.push_back((uint8_t)x); }
        }
        return c;
    }
};

struct RunInfo { bool nontrivial = false, shared = false, r_waited_w = false, w_waited_r = false, w_waited_w = false; uint64_t steps = 0; };

static std::string run_case(const Case &c, dsched::Chooser &ch, RunInfo *ri) {
    int T = (int)c.prog.size();
    void *l = shim_rw_new();
    int readers = 0, writers = 0;          // occupancy, touched only by the single running thread
    std::string err;
    auto fail = [&](const std::string &m) { if (err.empty()) err = m; };
    std::vector<std::function<void()>> bodies;
    for (int t = 0; t < T; t++) bodies.push_back([&, t]() {
        int n = 0;
        for (const Cyc &cy : c.prog[t]) {
            std::string at = " (thread " + std::to_string(t) + " cycle " + std::to_string(n++) + ")";
            if (cy.kind == 0) {
                if (writers > 0) ri->r_waited_w = true;
                shim_rdlock(l);
                if (writers != 0) fail("a reader entered while a writer is inside" + at);
                readers++;
                if (readers >= 2) ri->shared = true;
                for (int w = 0; w < cy.work; w++) { dsched::yield_point(); if (writers != 0) fail("a writer entered while a reader is inside" + at); }
                readers--;
                shim_rdunlock(l);
            } else {
                if (readers > 0) ri->w_waited_r = true;
                if (writers > 0) ri->w_waited_w = true;
                shim_wrlock(l);
                if (writers != 0) fail("a writer entered while another writer is inside" + at);
                if (readers != 0) fail("a writer entered while " + std::to_string(readers) + " reader(s) are inside" + at);
                writers++;
                for (int w = 0; w < cy.work; w++) {
                    dsched::yield_point();
                    if (writers != 1) fail("a second writer entered during a write section" + at);
                    if (readers != 0) fail("a reader entered during a write section" + at);
                }
                writers--;
                shim_wrunlock(l);
            }
            for (int g = 0; g < cy.gap; g++) dsched::yield_point();
        }
    });
    dsched::Outcome out = dsched::run(bodies, ch, 50000);
    ri->steps = out.steps;
    if (readers != 0 || writers != 0) fail("occupancy counters not back to zero");
    // the lock must still be usable in both modes by a newcomer (a hang here is a dsched deadlock => fatal hook)
    std::vector<std::function<void()>> probe;
    probe.push_back([&]() { shim_wrlock(l); shim_wrunlock(l); shim_rdlock(l); shim_rdunlock(l); shim_wrlock(l); shim_wrunlock(l); });
    dsched::run(probe, ch, 1000);
    int nr = 0, nw = 0, rthreads = 0;
    for (auto &p : c.prog) { bool r = false; for (auto &cy : p) { if (cy.kind) nw++; else { nr++; r = true; } } rthreads += r; }
    ri->nontrivial = nw >= 1 && nr >= 2 && rthreads >= 2 && (ri->r_waited_w || ri->w_waited_r || ri->w_waited_w);
    shim_rw_free(l);
    return err;
}

static std::function<std::string()> g_current;   // text of the case being executed (with the schedule followed so far)
static void fatal_hook(const char *what) { vf::record_failure(g_current ? g_current() : std::string("?"), what); vf::dump(); }

static int do_replay(const char *path) {
    Case c = Case::parse(vf::slurp(path));
    g_current = [&]() { return c.repr(); };
    hc::FairByteChooser ch(c.sched.data(), c.sched.size(), c.sparse);
    RunInfo ri; std::string e = run_case(c, ch, &ri);
    if (e.empty()) { printf("REPLAY-PASS\n"); return 0; }
    printf("REPLAY-FAIL %s\n", e.c_str()); return 1;
}

// exhaustive sub-spaces.  shape 21: 2 threads x 1 cycle, kinds {R,W}^2, work {0,1,2}^2;  shape 22: 2 threads x 2 cycles,
// kinds {R,W}^4, work 1;  shape 31: 3 threads x 1 cycle, kinds {R,W}^3, work {0,1}^3.  All schedules with <= pb preemptions.
static int do_exh(int shape, int pb, int part, int nparts) {
    std::vector<Case> cases;
    if (shape == 21) {
        for (int k = 0; k < 4; k++) for (int w = 0; w < 9; w++) { Case c; c.prog = {{{k & 1, w % 3, 0}}, {{k >> 1, w / 3, 0}}}; cases.push_back(c); }
    } else if (shape == 22) {
        for (int k = 0; k < 16; k++) { Case c; c.prog = {{{k & 1, 1, 0}, {(k >> 1) & 1, 1, 0}}, {{(k >> 2) & 1, 1, 0}, {(k >> 3) & 1, 1, 0}}}; cases.push_back(c); }
    } else {
        for (int k = 0; k < 8; k++) for (int w = 0; w < 8; w++) { Case c; c.prog = {{{k & 1, w & 1, 0}}, {{(k >> 1) & 1, (w >> 1) & 1, 0}}, {{(k >> 2) & 1, (w >> 2) & 1, 0}}}; cases.push_back(c); }
    }
    bool truncated = false;
    for (size_t i = 0; i < cases.size(); i++) {
        if ((int)(i % nparts) != part) continue;
        Case c = cases[i];
        hc::DfsStats st; RunInfo agg;
        dsched::DfsChooser *cur = nullptr;
        auto with_sched = [&](const std::vector<uint8_t> &s) { Case f = c; f.sparse = -1; f.sched = s; return f.repr(); };
        g_current = [&]() { return with_sched(cur ? hc::dfs_prefix(*cur) : std::vector<uint8_t>()); };
        bool ok = hc::dfs_all(pb, 5000000, [&](dsched::Chooser &d, bool *nt) {
            cur = (dsched::DfsChooser *)&d;
            RunInfo ri; std::string e = run_case(c, d, &ri);
            *nt = ri.nontrivial; agg.shared |= ri.shared; agg.r_waited_w |= ri.r_waited_w; agg.w_waited_r |= ri.w_waited_r; agg.w_waited_w |= ri.w_waited_w;
            return e; }, with_sched, st);
        vf::R().evaluations += st.execs;
        if (!ok) { vf::dump(); return 1; }
        truncated = truncated || st.truncated || st.capped;
        vf::note_case(c.repr() + "#schedules " + std::to_string(st.execs) + "\n", st.any_nontrivial);
        vf::R().evaluations -= 1;
        vf::label("schedules_enumerated", st.execs);
        if (agg.shared) vf::label("programs_with_shared_readers_in_some_schedule");
        if (agg.r_waited_w) vf::label("programs_reader_waited_for_writer");
        if (agg.w_waited_r) vf::label("programs_writer_waited_for_reader");
        if (agg.w_waited_w) vf::label("programs_writer_waited_for_writer");
    }
    vf::R().extra["exh_truncated"] = truncated ? "true" : "false";
    vf::dump();
    return 0;
}

// free-running stress (real parallelism): exclusion by atomic occupancy counters + a pair of plain variables that only
// writers change (a == b must hold for every reader and writer); progress = all threads complete their cycles.
static int do_stress(int T, long iters, unsigned seed) {
    void *l = shim_rw_new();
    std::atomic<int> readers{0}, writers{0}, bad{0}; std::atomic<long> sharedr{0};
    volatile long a = 0, b = 0; long wtotal = 0;
    std::vector<long> wcount(T, 0);
    std::vector<std::thread> th;
    for (int t = 0; t < T; t++) th.emplace_back([&, t]() {
        uint64_t x = seed * 7919u + t * 104729u + 1;
        for (long i = 0; i < iters; i++) {
            x = x * 6364136223846793005ULL + 1442695040888963407ULL;
            bool wr = ((x >> 33) % 8) == 0; int work = (x >> 40) % 4;
            if (!wr) {
                shim_rdlock(l);
                int r = ++readers; if (writers.load() != 0) bad++;
                if (r >= 2) sharedr++;
                for (int k = 0; k <= work; k++) { if (a != b) bad++; }
                --readers;
                shim_rdunlock(l);
            } else {
                shim_wrlock(l);
                if (++writers != 1) bad++;
                if (readers.load() != 0) bad++;
                if (a != b) bad++;
                a = a + 1; for (int k = 0; k < work; k++) { if (readers.load() != 0) bad++; } b = b + 1;
                wcount[t]++;
                --writers;
                shim_wrunlock(l);
            }
        }
    });
    for (auto &t : th) t.join();
    for (long w : wcount) wtotal += w;
    std::string e;
    if (bad) e = "mutual exclusion broken under real parallelism (" + std::to_string(bad.load()) + " observations)";
    else if (a != wtotal || b != wtotal) e = "a write section was lost: " + std::to_string(wtotal) + " write sections but counters are " + std::to_string((long)a) + "/" + std::to_string((long)b);
    std::string repr = "C33-stress threads " + std::to_string(T) + " iters " + std::to_string(iters) + " seed " + std::to_string(seed) + "\n";
    vf::note_case(repr, T >= 3 && wtotal > 0);
    vf::label("stress_cycles", (uint64_t)iters * T);
    vf::label("stress_write_sections", (uint64_t)wtotal);
    vf::label("stress_entries_with_shared_readers", (uint64_t)sharedr.load());
    shim_rw_free(l);
    if (!e.empty()) { vf::record_failure(repr, e); vf::dump(); return 1; }
    vf::dump();
    return 0;
}

int main(int argc, char **argv) {
    std::string mode = argc > 1 ? argv[1] : "rc";
    dsched::on_fatal() = fatal_hook;
    if (mode == "replay") {
        std::string txt = vf::slurp(argv[2]);
        if (txt.rfind("C33-stress", 0) == 0) {
            int T; long it; unsigned sd; sscanf(txt.c_str(), "C33-stress threads %d iters %ld seed %u", &T, &it, &sd);
            int r = 0; for (int k = 0; k < 3 && !r; k++) r = do_stress(T, it, sd);
            printf(r ? "REPLAY-FAIL stress\n" : "REPLAY-PASS\n"); return r;
        }
        return do_replay(argv[2]);
    }
    if (mode == "exh") return do_exh(atoi(argv[2]), atoi(argv[3]), atoi(argv[4]), atoi(argv[5]));
    if (mode == "stress") return do_stress(atoi(argv[2]), atol(argv[3]), (unsigned)atoi(argv[4]));
    bool ok = rc::check("rwlock: writers exclude everybody, every thread gets through", []() {
        Case c;
        int T = *rc::gen::inRange(2, 5);
        c.sparse = *rc::gen::element(0, 0, 128, 200, 240);
        c.prog.resize(T);
        int wpct = *rc::gen::resize(100, rc::gen::element(15, 30, 50, 70));
        for (int t = 0; t < T; t++) {
            int n = *rc::gen::inRange(1, 5);
            for (int i = 0; i < n; i++) {
                int k = *rc::gen::resize(100, rc::gen::inRange(0, 100)) < wpct ? 1 : 0;
                int w = *rc::gen::resize(100, rc::gen::inRange(0, 4));
                int g = *rc::gen::resize(100, rc::gen::inRange(0, 3));
                c.prog[t].push_back({k, w, g});
            }
        }
        int sl = *rc::gen::inRange(0, 160);
        c.sched = *rc::gen::container<std::vector<uint8_t>>((size_t)sl, rc::gen::resize(100, rc::gen::arbitrary<uint8_t>()));
        g_current = [&]() { return c.repr(); };
        hc::FairByteChooser ch(c.sched.data(), c.sched.size(), c.sparse);
        RunInfo ri; std::string e = run_case(c, ch, &ri);
        std::string r = c.repr();
        vf::note_case(r, ri.nontrivial);
        vf::label(std::string("threads_") + std::to_string(T));
        if (ri.shared) vf::label("shared_readers_observed");
        if (ri.r_waited_w) vf::label("reader_arrived_while_writer_inside");
        if (ri.w_waited_r) vf::label("writer_arrived_while_reader_inside");
        if (ri.w_waited_w) vf::label("writer_arrived_while_writer_inside");
        if (!e.empty()) { vf::record_failure(r, e); RC_FAIL(e); }
    });
    vf::dump();
    return ok ? 0 : 1;
}
