"""C33 -- ticket read-write lock: schedule-owned exclusion/progress testing (dsched) + exhaustive tiny spaces + stress."""
import glob
import os
import subprocess

from vf import core

PROP = "C33"
RULE = ("case = (2..4 thread programs of 1..4 lock cycles, each read or write with 0..3 yield points of work inside the critical "
        "section and 0..2 after it, schedule bytes); executed with one runnable thread at a time, context switches at every atomic "
        "operation, every hooked spin loop of the lock and every work yield; oracle = harness occupancy counters (writer inside "
        "=> nobody else inside, checked at entry and at every yield inside), progress = no dsched deadlock / step bound under the "
        "fair tail + a probe thread can lock in both modes afterwards; non-trivial = program has >= 1 write cycle and >= 2 read "
        "cycles on >= 2 threads AND some acquire was invoked while the lock was held in a conflicting mode; distinct = distinct "
        "(programs, schedule) values; exhaustive parts: see coverage.exhaustive_subspace")


def _build():
    return core.build_harness("C33/rwlock", ["harness/C33/rwlock.cc"], tree="san", rapidcheck=True,
                              plain_c_sources=["harness/C33/shim.c"])


def collect(res, wr):
    for f in wr.failures:
        res.violations.append(core.Violation(f["msg"], replay_text=f["replay_text"]))
    for c in wr.crashes:
        if c["rc"] == "timeout":
            res.inconclusive = "a %s worker did not finish within its time limit (not a verdict)" % c["tag"]
            continue
        res.violations.append(core.Violation("harness process died (rc=%s): %s" % (c["rc"], c["log_tail"][-1200:]),
                                             replay_text="# crash of %s\n%s" % (" ".join(c["cmd"]), c["log_tail"][-1500:])))


def run(tier, seed, res):
    b = _build()
    quick = tier == "quick"
    res.rule = RULE
    res.assumptions = ["the configured implementation is PARSEC_RWLOCK_IMPL_TICKET (compile-time checked in the shim)",
                       "sequential consistency at atomic-operation / spin-iteration granularity under dsched; weak-memory effects only via the stress part on x86",
                       "lock/unlock are correctly paired by every thread (caller precondition)"]
    n = 16
    pb22, pb31 = (3, 2) if quick else (4, 3)
    jobs = [dict(cmd=[b, "exh", "21", "99", str(i), "4"], tag="exh21") for i in range(4)]
    jobs += [dict(cmd=[b, "exh", "22", str(pb22), str(i), "4"], tag="exh22") for i in range(4)]
    jobs += [dict(cmd=[b, "exh", "31", str(pb31), str(i), "8"], tag="exh31") for i in range(8)]
    wr = core.run_workers(PROP, jobs)
    res.absorb(wr, "exhaustive")
    res.coverage["exhaustive"] = not (wr.failures or wr.crashes)
    res.coverage["exhaustive_subspace"] = ("2 threads x 1 cycle, kinds {R,W}^2, work {0,1,2}^2: all schedules (unbounded preemptions); "
                                           "2 threads x 2 cycles (16 kind vectors, work 1) and 3 threads x 1 cycle (8 kind vectors, work {0,1}^3): "
                                           "all schedules with at most %d resp. %d preemptions" % (pb22, pb31))
    collect(res, wr)
    per = 1500 if quick else 60000
    jobs = [dict(cmd=[b, "rc"], env={"RC_PARAMS": "seed=%d max_success=%d max_size=100" % (seed * 131 + i, per)}, tag="rc") for i in range(n)]
    wr = core.run_workers(PROP, jobs)
    res.absorb(wr, "rc")
    collect(res, wr)
    iters = 10000 if quick else 500000
    jobs = [dict(cmd=[b, "stress", str(t), str(iters), str(seed * 17 + t)], tag="stress", timeout=120 if quick else 1500) for t in (2, 3, 8, 16)]
    wr = core.run_workers(PROP, jobs, max_parallel=1)
    res.absorb(wr, "stress")
    collect(res, wr)
    _regress(b, res)


def _replay_bin(b, path):
    env = dict(os.environ)
    env.update(core.SAN_RUN_ENV)
    p = subprocess.run([b, "replay", path], env=env, stdout=subprocess.PIPE, stderr=subprocess.STDOUT, text=True)
    return p.returncode == 0 and "REPLAY-PASS" in p.stdout, p.stdout[-2000:]


def _regress(b, res):
    """every saved case under corpus/<PROP>/regress must still hold"""
    n = 0
    for f in sorted(glob.glob(os.path.join(core.VERIF, "corpus", PROP, "regress", "*.txt"))):
        ok, msg = _replay_bin(b, f)
        n += 1
        if not ok:
            res.violations.append(core.Violation("saved case %s fails: %s" % (os.path.basename(f), msg[-600:]), replay_path=f))
    res.coverage["regress_cases_replayed"] = n


def replay(path):
    return _replay_bin(_build(), path)
